// Package xrh builds the real Crossplane XR / claim reconcilers, wired as in
// production, over a simkube store, plus the fixtures the checks share.
package xrh

import (
	admv1 "k8s.io/api/admissionregistration/v1"
	"context"
	"fmt"
	"sort"
	"strings"

	"google.golang.org/protobuf/types/known/structpb"
	appsv1 "k8s.io/api/apps/v1"
	corev1 "k8s.io/api/core/v1"
	rbacv1 "k8s.io/api/rbac/v1"
	extv1 "k8s.io/apiextensions-apiserver/pkg/apis/apiextensions/v1"
	kerrors "k8s.io/apimachinery/pkg/api/errors"
	metav1 "k8s.io/apimachinery/pkg/apis/meta/v1"
	"k8s.io/apimachinery/pkg/apis/meta/v1/unstructured"
	"k8s.io/apimachinery/pkg/runtime"
	"k8s.io/apimachinery/pkg/runtime/schema"
	"k8s.io/apimachinery/pkg/types"
	utilrand "k8s.io/apimachinery/pkg/util/rand"
	"sigs.k8s.io/controller-runtime/pkg/client"
	"sigs.k8s.io/controller-runtime/pkg/reconcile"

	"github.com/crossplane/crossplane-runtime/pkg/controller"
	"github.com/crossplane/crossplane-runtime/pkg/event"
	"github.com/crossplane/crossplane-runtime/pkg/feature"
	"github.com/crossplane/crossplane-runtime/pkg/logging"
	"github.com/crossplane/crossplane-runtime/pkg/resource"
	"github.com/crossplane/crossplane-runtime/pkg/resource/unstructured/composite"

	"github.com/crossplane/crossplane/apis"
	fnv1 "github.com/crossplane/crossplane/apis/apiextensions/fn/proto/v1"
	v1 "github.com/crossplane/crossplane/apis/apiextensions/v1"
	xcomposite "github.com/crossplane/crossplane/internal/controller/apiextensions/composite"
	"github.com/crossplane/crossplane/internal/controller/apiextensions/composition"
	apiextensionscontroller "github.com/crossplane/crossplane/internal/controller/apiextensions/controller"
	"github.com/crossplane/crossplane/internal/controller/apiextensions/definition"
	"github.com/crossplane/crossplane/internal/engine"
	"github.com/crossplane/crossplane/internal/verifshim/vmap"
	"github.com/crossplane/crossplane/verif/explore"
	"github.com/crossplane/crossplane/verif/simkube"
)

// Scheme has every API the reconcilers use.
var Scheme = func() *runtime.Scheme {
	s := runtime.NewScheme()
	must(corev1.AddToScheme(s))
	must(appsv1.AddToScheme(s))
	must(rbacv1.AddToScheme(s))
	must(extv1.AddToScheme(s))
	must(admv1.AddToScheme(s))
	must(apis.AddToScheme(s))
	return s
}()

func must(err error) {
	if err != nil {
		panic(err)
	}
}

// Kinds used by the fixtures.
var (
	Group    = "example.org"
	XRGVK    = schema.GroupVersionKind{Group: Group, Version: "v1", Kind: "XThing"}
	ClaimGVK = schema.GroupVersionKind{Group: Group, Version: "v1", Kind: "Thing"}
	ResA     = schema.GroupVersionKind{Group: "res.example.org", Version: "v1", Kind: "ResA"}
	ResB     = schema.GroupVersionKind{Group: "res.example.org", Version: "v1", Kind: "ResB"}
)

// NewStore returns an empty store with the shared scheme and a fixed clock
// unless running in a synctest bubble (where time is virtual anyway).
func NewStore() *simkube.Store {
	s := simkube.New(Scheme)
	s.NamespacedKinds[ClaimGVK.GroupKind()] = true
	s.NamespacedKinds[schema.GroupKind{Kind: "Secret"}] = true
	return s
}

// XRD returns the fixture XRD (with claim names).
func XRD() *v1.CompositeResourceDefinition {
	return &v1.CompositeResourceDefinition{
		TypeMeta:   metav1.TypeMeta{APIVersion: v1.SchemeGroupVersion.String(), Kind: v1.CompositeResourceDefinitionKind},
		ObjectMeta: metav1.ObjectMeta{Name: "xthings." + Group, UID: "xrd-uid"},
		Spec: v1.CompositeResourceDefinitionSpec{
			Group:      Group,
			Names:      extv1.CustomResourceDefinitionNames{Kind: "XThing", Plural: "xthings", Singular: "xthing", ListKind: "XThingList"},
			ClaimNames: &extv1.CustomResourceDefinitionNames{Kind: "Thing", Plural: "things", Singular: "thing", ListKind: "ThingList"},
			Versions: []v1.CompositeResourceDefinitionVersion{{
				Name: "v1", Served: true, Referenceable: true,
				Schema: &v1.CompositeResourceValidation{OpenAPIV3Schema: runtime.RawExtension{Raw: []byte(`{"type":"object","properties":{"spec":{"type":"object","properties":{"param":{"type":"string"},"count":{"type":"integer"}}},"status":{"type":"object","properties":{"out":{"type":"string"}}}}}`)}},
			}},
		},
	}
}

// PipelineComposition returns a pipeline-mode Composition with the named
// steps (function name = step name).
func PipelineComposition(name string, steps ...string) *v1.Composition {
	mode := v1.CompositionModePipeline
	c := &v1.Composition{
		TypeMeta:   metav1.TypeMeta{APIVersion: v1.SchemeGroupVersion.String(), Kind: v1.CompositionKind},
		ObjectMeta: metav1.ObjectMeta{Name: name},
		Spec: v1.CompositionSpec{
			CompositeTypeRef: v1.TypeReference{APIVersion: XRGVK.GroupVersion().String(), Kind: XRGVK.Kind},
			Mode:             &mode,
		},
	}
	for _, s := range steps {
		c.Spec.Pipeline = append(c.Spec.Pipeline, v1.PipelineStep{Step: s, FunctionRef: v1.FunctionReference{Name: s}})
	}
	return c
}

// Template is a named P&T template.
type Template struct {
	Name    string
	GVK     schema.GroupVersionKind
	Patches []v1.Patch
	Extra   func(t *v1.ComposedTemplate)
}

// ResourcesComposition returns a resources-mode (P&T) Composition.
func ResourcesComposition(name string, ts ...Template) *v1.Composition {
	mode := v1.CompositionModeResources
	c := &v1.Composition{
		TypeMeta:   metav1.TypeMeta{APIVersion: v1.SchemeGroupVersion.String(), Kind: v1.CompositionKind},
		ObjectMeta: metav1.ObjectMeta{Name: name},
		Spec: v1.CompositionSpec{
			CompositeTypeRef: v1.TypeReference{APIVersion: XRGVK.GroupVersion().String(), Kind: XRGVK.Kind},
			Mode:             &mode,
		},
	}
	for _, t := range ts {
		n := t.Name
		base := fmt.Sprintf(`{"apiVersion":%q,"kind":%q,"spec":{"fixed":"v"}}`, t.GVK.GroupVersion().String(), t.GVK.Kind)
		ct := v1.ComposedTemplate{Name: &n, Base: runtime.RawExtension{Raw: []byte(base)}, Patches: t.Patches}
		if t.Extra != nil {
			t.Extra(&ct)
		}
		c.Spec.Resources = append(c.Spec.Resources, ct)
	}
	return c
}

// Revision returns revision n of a composition, as the composition
// controller would create it.
func Revision(c *v1.Composition, n int64) *v1.CompositionRevision {
	r := composition.NewCompositionRevision(c, n)
	r.TypeMeta = metav1.TypeMeta{APIVersion: v1.SchemeGroupVersion.String(), Kind: v1.CompositionRevisionKind}
	return r
}

// SeedComposition stores a composition and its first revision.
func SeedComposition(s *simkube.Store, c *v1.Composition) *v1.CompositionRevision {
	s.Seed(c)
	r := Revision(c, 1)
	s.Seed(r)
	return r
}

// XR returns a fresh XR that references the composition by name.
func XR(name, comp string) *composite.Unstructured {
	xr := composite.New(composite.WithGroupVersionKind(XRGVK))
	xr.SetName(name)
	xr.SetCompositionReference(&corev1.ObjectReference{Name: comp})
	_ = unstructured.SetNestedField(xr.Object, "p1", "spec", "param")
	return xr
}

// XRKey is the store key of an XR.
func XRKey(name string) simkube.ObjKey {
	return simkube.ObjKey{Group: XRGVK.Group, Kind: XRGVK.Kind, Name: name}
}

// FunctionRunner is a scripted composite.FunctionRunner.
type FunctionRunner func(ctx context.Context, name string, req *fnv1.RunFunctionRequest) (*fnv1.RunFunctionResponse, error)

// RunFunction implements composite.FunctionRunner.
func (f FunctionRunner) RunFunction(ctx context.Context, name string, req *fnv1.RunFunctionRequest) (*fnv1.RunFunctionResponse, error) {
	return f(ctx, name, req)
}

// fakeEngine is the ControllerEngine handed to the definition reconciler to
// obtain production reconciler options.
type fakeEngine struct {
	definition.NopEngine
	c, uc client.Client
	fi    client.FieldIndexer
}

func (e *fakeEngine) GetCached() client.Client             { return e.c }
func (e *fakeEngine) GetUncached() client.Client           { return e.uc }
func (e *fakeEngine) GetFieldIndexer() client.FieldIndexer { return e.fi }

// XROptions configures NewXRReconciler.
type XROptions struct {
	Cached, Uncached client.Client
	Runner           xcomposite.FunctionRunner
	Recorder         event.Recorder
	Extra            []xcomposite.ReconcilerOption
	WatchStarter     xcomposite.WatchStarter
	// Features are the feature flags the XRD reconciler derives the XR
	// reconciler's options from (nil: none enabled).
	Features *feature.Flags
}

// NewXRReconciler builds the composite reconciler exactly as the definition
// (XRD) reconciler does in production — same option list, selector chain,
// publishers and both composers — except that the function composer runs a
// scripted FunctionRunner instead of the gRPC one.
func NewXRReconciler(xrd *v1.CompositeResourceDefinition, o XROptions) *xcomposite.Reconciler {
	if o.Uncached == nil {
		o.Uncached = o.Cached
	}
	rec := o.Recorder
	if rec == nil {
		rec = event.NewNopRecorder()
	}
	flags := o.Features
	if flags == nil {
		flags = &feature.Flags{}
	}
	eng := &fakeEngine{c: o.Cached, uc: o.Uncached}
	dr := definition.NewReconciler(resource.ClientApplicator{Client: o.Cached, Applicator: resource.NewAPIPatchingApplicator(o.Cached)},
		definition.WithControllerEngine(eng),
		definition.WithRecorder(rec),
		definition.WithLogger(logging.NewNopLogger()),
		definition.WithOptions(apiextensionscontroller.Options{Options: controller.Options{Logger: logging.NewNopLogger(), Features: flags, ESSOptions: &controller.ESSOptions{}}}),
	)
	opts := dr.CompositeReconcilerOptions(context.Background(), xrd)

	fetcher := xcomposite.NewSecretConnectionDetailsFetcher(o.Cached)
	ptc := xcomposite.NewPTComposer(o.Cached, o.Uncached, xcomposite.WithComposedConnectionDetailsFetcher(fetcher))
	runner := xcomposite.NewFetchingFunctionRunner(o.Runner, xcomposite.NewExistingExtraResourcesFetcher(o.Cached))
	fc := xcomposite.NewFunctionComposer(o.Cached, o.Uncached, runner,
		xcomposite.WithComposedResourceObserver(xcomposite.NewExistingComposedResourceObserver(o.Cached, o.Uncached, fetcher)),
		xcomposite.WithCompositeConnectionDetailsFetcher(fetcher),
	)
	opts = append(opts, xcomposite.WithComposer(xcomposite.ComposerSelectorFn(func(cm *v1.CompositionMode) xcomposite.Composer {
		m := v1.CompositionModeResources
		if cm != nil {
			m = *cm
		}
		if m == v1.CompositionModePipeline {
			return fc
		}
		return ptc
	})))
	if o.WatchStarter != nil {
		opts = append(opts, xcomposite.WithWatchStarter("composite/"+xrd.GetName(), nil, o.WatchStarter))
	}
	opts = append(opts, o.Extra...)
	return xcomposite.NewReconciler(o.Cached, o.Uncached, resourceCompositeKind(xrd), opts...)
}

var _ = engine.WatchTypeComposedResource

func resourceCompositeKind(xrd *v1.CompositeResourceDefinition) resource.CompositeKind {
	return resource.CompositeKind(xrd.GetCompositeGroupVersionKind())
}

// Outcome of one driver step.
type Outcome struct {
	Result  reconcile.Result
	Err     error
	Crashed *simkube.Crash
}

// Reconcile runs one reconcile of r for the cluster-scoped object name,
// converting the crash sentinel into an outcome.
func Reconcile(r reconcile.Reconciler, nn types.NamespacedName) (out Outcome) {
	defer func() {
		if p := recover(); p != nil {
			if c, ok := p.(simkube.Crash); ok {
				out.Crashed = &c
				return
			}
			panic(p)
		}
	}()
	out.Result, out.Err = r.Reconcile(context.Background(), reconcile.Request{NamespacedName: nn})
	return out
}

// BeginExecution resets process-global nondeterminism for one execution.
func BeginExecution(seed int64) {
	utilrand.Seed(seed)
	vmap.Order = nil
}

// MapOrder installs a map iteration order mode: 0 sorted, 1 reversed,
// 2.. rotations.
func MapOrder(mode int) {
	if mode == 0 {
		vmap.Order = nil
		return
	}
	vmap.Order = func(_ string, n int) []int {
		p := make([]int, n)
		for i := range p {
			switch mode {
			case 1:
				p[i] = n - 1 - i
			default:
				p[i] = (i + mode - 1) % n
			}
		}
		return p
	}
}

// FaultInjector asks the explorer for the outcome of each call while armed.
type FaultInjector struct {
	Run   *explore.Run
	Armed bool
	// Reads controls whether read calls are fault points too.
	Reads bool
	// Filter limits fault points (nil = all).
	Filter func(c simkube.Call) bool
	// Calls counts calls seen while armed.
	Calls int
	// Taken lists the deviations taken (for evidence).
	Taken []string
	// NoCrash restricts outcomes to errors (for code that issues API calls
	// from worker goroutines, where a crash cannot be unwound).
	NoCrash bool
	// NotFoundReads adds, for Get calls (with Reads), the outcome "404 although
	// the object exists": a cache that has not seen the object yet.
	NotFoundReads bool
	// NotFoundFilter, if set, limits NotFoundReads to the calls it accepts.
	NotFoundFilter func(c simkube.Call) bool
	// ErrClasses, if set, makes the kind of error an error-before outcome
	// answers with a further (free) choice among the named classes (see
	// ErrClassNames); the store must be given ErrBeforeFn = (*FaultInjector).ErrBefore.
	// Code that treats one class of API error differently from the others
	// (retries it, takes it for "absent") is only exercised that way.
	ErrClasses []string
	nextErr    error
}

// ErrClassNames are the classes of API error an injected error-before may
// answer with: the API server's usual ways to fail a request that has had no
// effect.
var ErrClassNames = []string{"internal-error", "server-timeout", "timeout", "too-many-requests", "service-unavailable"}

// WithErrClasses makes every error-before outcome of f on store s answer with
// a class of API error chosen by the explorer.
func (f *FaultInjector) WithErrClasses(s *simkube.Store) *FaultInjector {
	f.ErrClasses = ErrClassNames
	s.ErrBeforeFn = f.ErrBefore
	return f
}

// ErrBefore is a simkube.Store.ErrBeforeFn.
func (f *FaultInjector) ErrBefore(c simkube.Call) error {
	e := f.nextErr
	f.nextErr = nil
	return e
}

func errOfClass(class string, c simkube.Call) error {
	gr := schema.GroupResource{Group: c.Key.Group, Resource: strings.ToLower(c.Key.Kind) + "s"}
	switch class {
	case "server-timeout":
		return kerrors.NewServerTimeout(gr, c.Verb, 1)
	case "timeout":
		return kerrors.NewTimeoutError("injected gateway timeout at "+c.String(), 1)
	case "too-many-requests":
		return kerrors.NewTooManyRequests("injected 429 at "+c.String(), 1)
	case "service-unavailable":
		return kerrors.NewServiceUnavailable("injected 503 at " + c.String())
	}
	return nil // the store's default: 500 InternalError
}

var writeOutcomes = []simkube.Outcome{simkube.OK, simkube.ErrBefore, simkube.Conflict, simkube.ErrAfter, simkube.CrashBefore, simkube.CrashAfter}
var readOutcomes = []simkube.Outcome{simkube.OK, simkube.ErrBefore, simkube.CrashBefore}

// Decide implements simkube.Injector.
func (f *FaultInjector) Decide(c simkube.Call) simkube.Outcome {
	if !f.Armed || c.DryRun && false {
		return simkube.OK
	}
	if f.Filter != nil && !f.Filter(c) {
		return simkube.OK
	}
	f.Calls++
	outs := writeOutcomes
	if f.NoCrash {
		outs = writeOutcomes[:4]
	}
	if !c.Write {
		if !f.Reads {
			return simkube.OK
		}
		outs = readOutcomes
		if f.NoCrash {
			outs = readOutcomes[:2]
		}
		if f.NotFoundReads && c.Verb == "get" && (f.NotFoundFilter == nil || f.NotFoundFilter(c)) {
			outs = append(append([]simkube.Outcome{}, outs...), simkube.NotFound)
		}
	}
	i := f.Run.Choose(len(outs), "api:"+c.String())
	if i != 0 {
		what := fmt.Sprint(outs[i])
		if outs[i] == simkube.ErrBefore && len(f.ErrClasses) > 1 {
			k := f.Run.Free(len(f.ErrClasses), "error-class")
			f.nextErr = errOfClass(f.ErrClasses[k], c)
			what += "(" + f.ErrClasses[k] + ")"
		}
		f.Taken = append(f.Taken, fmt.Sprintf("%s -> %s", c, what))
		f.Run.Logf("FAULT %s -> %s", c, what)
	}
	return outs[i]
}

// ComposedOf lists live objects of the given kinds whose controller
// reference names uid.
func ComposedOf(s *simkube.Store, uid types.UID, kinds ...schema.GroupVersionKind) []*unstructured.Unstructured {
	var out []*unstructured.Unstructured
	for _, gvk := range kinds {
		for _, o := range s.All(gvk.GroupKind()) {
			if c := metav1.GetControllerOf(o); c != nil && c.UID == uid {
				out = append(out, o)
			}
		}
	}
	return out
}

// Refs returns "Kind/name" for every spec.resourceRefs entry of the stored XR.
func Refs(xr *unstructured.Unstructured) []string {
	if xr == nil {
		return nil
	}
	refs, _, _ := unstructured.NestedSlice(xr.Object, "spec", "resourceRefs")
	var out []string
	for _, r := range refs {
		m, _ := r.(map[string]any)
		out = append(out, fmt.Sprintf("%v/%v", m["kind"], m["name"]))
	}
	sort.Strings(out)
	return out
}

// Describe the write log since index from, one line per effective write.
func DescribeWrites(s *simkube.Store, from int) string {
	var b strings.Builder
	for _, w := range s.Log[from:] {
		if w.Effective {
			fmt.Fprintf(&b, "%s; ", w.Call)
		}
	}
	return b.String()
}

// ResX is a third composed kind.
var ResX = schema.GroupVersionKind{Group: "res.example.org", Version: "v1", Kind: "ResX"}

// ComposedKinds lists the composed kinds used by fixtures.
var ComposedKinds = []schema.GroupVersionKind{ResA, ResB, ResX}

// KindFor maps a desired resource name to its (fixed) kind: a->ResA, b->ResB,
// everything else ResX.
func KindFor(name string) schema.GroupVersionKind {
	switch name {
	case "a":
		return ResA
	case "b":
		return ResB
	}
	return ResX
}

// DesiredResource builds a desired composed resource for a function response.
func DesiredResource(name, param string, ready bool) *fnv1.Resource {
	gvk := KindFor(name)
	s, err := structpb.NewStruct(map[string]any{
		"apiVersion": gvk.GroupVersion().String(),
		"kind":       gvk.Kind,
		"spec":       map[string]any{"param": param, "for": name},
	})
	if err != nil {
		panic(err)
	}
	r := &fnv1.Resource{Resource: s}
	if ready {
		r.Ready = fnv1.Ready_READY_TRUE
	}
	return r
}

// ResourceNameOf returns the composition resource name annotation.
func ResourceNameOf(o metav1.Object) string {
	return o.GetAnnotations()["crossplane.io/composition-resource-name"]
}

// ToQuiescence reconciles fault-free until a reconcile changes no object
// (the reconcilers are stateless, so one write-free reconcile is a fixpoint).
// It returns false if the horizon is reached first.
func ToQuiescence(s *simkube.Store, r reconcile.Reconciler, nn types.NamespacedName, horizon int, log func(i int, out Outcome)) bool {
	for i := 0; i < horizon; i++ {
		before := s.Versions()
		out := Reconcile(r, nn)
		if out.Crashed != nil {
			panic(explore.HarnessError{Msg: "crash in fault-free reconcile"})
		}
		if log != nil {
			log(i, out)
		}
		if SameVersions(before, s.Versions()) {
			return true
		}
	}
	return false
}

// SameVersions compares two Versions() snapshots.
func SameVersions(a, b map[simkube.ObjKey]string) bool {
	if len(a) != len(b) {
		return false
	}
	for k, v := range a {
		if b[k] != v {
			return false
		}
	}
	return true
}

// MissingCache wraps a client so that Gets of the listed kinds answer
// NotFound, as an informer cache that has not yet seen a just-created object
// does. Everything else passes through.
type MissingCache struct {
	client.Client
	Kinds map[string]bool
	// Misses counts the simulated cache misses.
	Misses int
}

// Get implements client.Reader.
func (m *MissingCache) Get(ctx context.Context, key client.ObjectKey, obj client.Object, opts ...client.GetOption) error {
	gvk := obj.GetObjectKind().GroupVersionKind()
	if m.Kinds[gvk.Kind] {
		m.Misses++
		return kerrors.NewNotFound(schema.GroupResource{Group: gvk.Group, Resource: strings.ToLower(gvk.Kind) + "s"}, key.Name)
	}
	return m.Client.Get(ctx, key, obj, opts...)
}
