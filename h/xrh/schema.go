package xrh

import (
	"k8s.io/apiextensions-apiserver/pkg/apis/apiextensions"
	extv1 "k8s.io/apiextensions-apiserver/pkg/apis/apiextensions/v1"
	structuralschema "k8s.io/apiextensions-apiserver/pkg/apiserver/schema"
	"k8s.io/apimachinery/pkg/runtime/schema"

	v1 "github.com/crossplane/crossplane/apis/apiextensions/v1"
	"github.com/crossplane/crossplane/internal/xcrd"
	"github.com/crossplane/crossplane/verif/simkube"
)

// CRDs derives the composite (and claim, if offered) CRDs of an XRD with the
// real xcrd code.
func CRDs(xrd *v1.CompositeResourceDefinition) (xr, claim *extv1.CustomResourceDefinition) {
	xr, err := xcrd.ForCompositeResource(xrd)
	must(err)
	if xrd.Spec.ClaimNames != nil {
		claim, err = xcrd.ForCompositeResourceClaim(xrd)
		must(err)
	}
	return xr, claim
}

// UseCRDSchema registers the spec and status OpenAPI schemas of a CRD's
// storage version with simkube, so that server-side apply of that kind uses
// the list types (map / set / atomic) the real CRD declares.
func UseCRDSchema(crd *extv1.CustomResourceDefinition) {
	if crd == nil {
		return
	}
	for _, v := range crd.Spec.Versions {
		if !v.Storage || v.Schema == nil || v.Schema.OpenAPIV3Schema == nil {
			continue
		}
		in := &apiextensions.JSONSchemaProps{}
		must(extv1.Convert_v1_JSONSchemaProps_To_apiextensions_JSONSchemaProps(v.Schema.OpenAPIV3Schema, in, nil))
		ss, err := structuralschema.NewStructural(in)
		must(err)
		ko := ss.ToKubeOpenAPI()
		ks := simkube.KindSchema{}
		if p, ok := ko.Properties["spec"]; ok {
			ks.Spec = &p
		}
		if p, ok := ko.Properties["status"]; ok {
			ks.Status = &p
		}
		simkube.SetKindSchema(schema.GroupKind{Group: crd.Spec.Group, Kind: crd.Spec.Names.Kind}, ks)
	}
}

// UseXRDSchemas registers the schemas of the XR and claim kinds of an XRD.
func UseXRDSchemas(xrd *v1.CompositeResourceDefinition) {
	x, c := CRDs(xrd)
	UseCRDSchema(x)
	UseCRDSchema(c)
}

func init() { UseXRDSchemas(XRD()) }
