package xrh

import (
	"sigs.k8s.io/controller-runtime/pkg/client"

	"github.com/crossplane/crossplane-runtime/pkg/resource"
	ucclaim "github.com/crossplane/crossplane-runtime/pkg/resource/unstructured/claim"

	v1 "github.com/crossplane/crossplane/apis/apiextensions/v1"
	"github.com/crossplane/crossplane/internal/controller/apiextensions/claim"
	"github.com/crossplane/crossplane/internal/names"
	"github.com/crossplane/crossplane/verif/simkube"
)

// NewClaimReconciler builds the claim reconciler as the offered (XRD)
// reconciler does: the client-side syncer by default, the server-side-apply
// syncer plus managed-fields upgrader when ssa is set (EnableBetaClaimSSA).
func NewClaimReconciler(xrd *v1.CompositeResourceDefinition, c client.Client, ssa bool, extra ...claim.ReconcilerOption) *claim.Reconciler {
	var o []claim.ReconcilerOption
	if ssa {
		o = append(o,
			claim.WithCompositeSyncer(claim.NewServerSideCompositeSyncer(c, names.NewNameGenerator(c))),
			claim.WithManagedFieldsUpgrader(claim.NewPatchingManagedFieldsUpgrader(c)),
		)
	}
	o = append(o, extra...)
	return claim.NewReconciler(c,
		resource.CompositeClaimKind(xrd.GetClaimGroupVersionKind()),
		resource.CompositeKind(xrd.GetCompositeGroupVersionKind()), o...)
}

// Claim returns a fresh claim in namespace ns.
func Claim(ns, name string) *ucclaim.Unstructured {
	cm := ucclaim.New(ucclaim.WithGroupVersionKind(ClaimGVK))
	cm.SetNamespace(ns)
	cm.SetName(name)
	cm.Object["spec"] = map[string]any{"param": "p1"}
	return cm
}

// ClaimKey is the store key of a claim.
func ClaimKey(ns, name string) simkube.ObjKey {
	return simkube.ObjKey{Group: ClaimGVK.Group, Kind: ClaimGVK.Kind, Namespace: ns, Name: name}
}
