package c15

import (
	"fmt"
	"os"
	"path/filepath"
	"sort"
	"strings"

	"github.com/alecthomas/kong"
	"github.com/google/go-containerregistry/pkg/v1/tarball"
	"github.com/spf13/afero"

	"github.com/crossplane/crossplane-runtime/pkg/logging"

	crankxpkg "github.com/crossplane/crossplane/cmd/crank/xpkg"
	"github.com/crossplane/crossplane/verif/explore"
	"github.com/crossplane/crossplane/verif/pkgh"
	"github.com/crossplane/crossplane/verif/report"
)

// ---- (c') `crossplane xpkg build` as the user runs it ----------------------------
//
// The build command itself (flag parsing, path resolution and filter wiring of
// cmd/crank/xpkg, real files on disk) is run on package directories whose
// file names are taken from an alphabet chosen to look like what the command
// excludes: names that contain the name of the examples directory, of an
// ignored file, dotted and nested directories. The package it writes is
// loaded, reconciled by the real revision controller, and the objects that
// reach the establisher must be exactly the objects of the package files that
// are neither under the examples root nor ignored.

type cliRoot struct {
	Xpkg crankxpkg.Cmd `cmd:""`
}

// Where the package files live, relative to the package root.
var buildPaths = []string{
	"crds/a.yaml",
	"crds/acme.example.org_examples.yaml",
	"apis/examples.acme.example.org/definition.yaml",
	"my-examples/extra.yaml",
	"deep/er/dir.d/b.yml",
	"ignored-not.yaml",
}

func buildCLIBody(r *explore.Run, rep *report.R, sc string) {
	// Which of the files exist (at least one), where the examples are, what
	// is ignored.
	mask := 1 + r.Free(1<<len(buildPaths)-1, "files")
	exWhere := []string{"default-below-root", "elsewhere", "absent"}[r.Free(3, "examples-root")]
	ignore := []string{"", "ignored.yaml", "crds/ign*.yaml"}[r.Free(3, "ignore")]

	dir, err := os.MkdirTemp("", "c15-build-")
	if err != nil {
		panic(explore.HarnessError{Msg: err.Error()})
	}
	defer os.RemoveAll(dir)
	root := filepath.Join(dir, "pkg")
	write := func(rel, content string) {
		p := filepath.Join(root, rel)
		if err := os.MkdirAll(filepath.Dir(p), 0o755); err != nil {
			panic(explore.HarnessError{Msg: err.Error()})
		}
		if err := os.WriteFile(p, []byte(content), 0o644); err != nil {
			panic(explore.HarnessError{Msg: err.Error()})
		}
	}
	write("crossplane.yaml", pkgh.MetaYAML("Provider", "pkg", ""))
	var want []string
	for i, p := range buildPaths {
		if mask&(1<<i) == 0 {
			continue
		}
		kind := fmt.Sprintf("K%c", 'A'+i)
		write(p, pkgh.CRDYAML("ex.org", kind, "x"))
		want = append(want, "CustomResourceDefinition/"+strings.ToLower(kind)+"s.ex.org")
	}
	// Files the build must leave out.
	write("ignored.yaml", pkgh.CRDYAML("ex.org", "KIgnored", "x"))
	write("crds/ignored-too.yaml", pkgh.CRDYAML("ex.org", "KIgnoredToo", "x"))
	switch ignore {
	case "":
		want = append(want, "CustomResourceDefinition/kignoreds.ex.org", "CustomResourceDefinition/kignoredtoos.ex.org")
	case "ignored.yaml":
		want = append(want, "CustomResourceDefinition/kignoredtoos.ex.org")
	case "crds/ign*.yaml":
		want = append(want, "CustomResourceDefinition/kignoreds.ex.org")
	}
	sort.Strings(want)
	exRoot := filepath.Join(root, "examples")
	switch exWhere {
	case "elsewhere":
		exRoot = filepath.Join(dir, "docs", "examples")
	}
	if exWhere != "absent" {
		if err := os.MkdirAll(exRoot, 0o755); err != nil {
			panic(explore.HarnessError{Msg: err.Error()})
		}
		_ = os.WriteFile(filepath.Join(exRoot, "example.yaml"), []byte("apiVersion: ex.org/v1\nkind: KA\nmetadata:\n  name: example\n"), 0o644)
	}
	out := filepath.Join(dir, "out.xpkg")
	args := []string{"xpkg", "build", "--package-root", root, "--package-file", out}
	if exWhere != "default-below-root" {
		args = append(args, "--examples-root", exRoot)
	}
	if ignore != "" {
		args = append(args, "--ignore", ignore)
	}
	// The default examples root is relative to the working directory, as for
	// a user who runs the command in the package directory.
	cwd, _ := os.Getwd()
	if err := os.Chdir(root); err != nil {
		panic(explore.HarnessError{Msg: err.Error()})
	}
	defer func() { _ = os.Chdir(cwd) }()
	k, err := kong.New(&cliRoot{}, kong.BindTo(logging.NewNopLogger(), (*logging.Logger)(nil)), kong.Exit(func(int) {}))
	if err != nil {
		panic(explore.HarnessError{Msg: "kong: " + err.Error()})
	}
	kctx, err := k.Parse(args)
	if err != nil {
		panic(explore.HarnessError{Msg: "kong parse: " + err.Error()})
	}
	berr := kctx.Run()
	r.Logf("xpkg build files=%06b examples=%s ignore=%q: err=%v", mask, exWhere, ignore, berr)
	if berr != nil {
		r.Failf("build/failed", "`crossplane xpkg build` fails for a valid provider package (files mask %06b, examples %s, ignore %q): %v", mask, exWhere, ignore, berr)
	}
	img, err := tarball.ImageFromPath(out, nil)
	if err != nil {
		r.Failf("build/unreadable", "the package file written by xpkg build cannot be loaded: %v", err)
	}
	st := newSetup("Provider", pkgh.AsPulled(img), false, 0, afero.NewMemMapFs())
	o := st.reconcile()
	if len(st.rec.calls) != 1 {
		r.Failf("build/not-installed", "the package built by `crossplane xpkg build` (files mask %06b, examples %s, ignore %q) was not installed: err=%v", mask, exWhere, ignore, o.Err)
	}
	got := append([]string{}, st.rec.calls[0]...)
	sort.Strings(got)
	if strings.Join(got, ",") != strings.Join(want, ",") {
		r.Failf("build/objects-differ", "`crossplane xpkg build` (examples %s, ignore %q): the package directory holds %v, the built package parses back to %v", exWhere, ignore, want, got)
	}
	rep.Eval(sc, report.Hash(len(got), exWhere, ignore), report.Hash(sc, mask, exWhere, ignore))
}
