package c15

// The signature gate end to end: the real signature-verification reconciler
// (real ImageConfigStore over the API-server model, scripted validator in
// place of cosign) decides the Verified condition the real revision reconciler
// waits for. A package whose image an ImageConfig puts under verification is
// installed only if the validator accepted it - also when one API read of the
// verification reconcile fails, with a server error or with a 404 (the
// ImageConfig CRD being replaced), before fault-free retries.

import (
	"context"
	"fmt"
	"strings"

	"github.com/google/go-containerregistry/pkg/name"
	"github.com/spf13/afero"
	kerrors "k8s.io/apimachinery/pkg/api/errors"
	metav1 "k8s.io/apimachinery/pkg/apis/meta/v1"
	"k8s.io/apimachinery/pkg/runtime/schema"
	"k8s.io/apimachinery/pkg/types"

	v1 "github.com/crossplane/crossplane/apis/pkg/v1"
	"github.com/crossplane/crossplane/apis/pkg/v1beta1"
	"github.com/crossplane/crossplane/internal/controller/pkg/signature"
	"github.com/crossplane/crossplane/internal/xpkg"
	"github.com/crossplane/crossplane/verif/explore"
	"github.com/crossplane/crossplane/verif/pkgh"
	"github.com/crossplane/crossplane/verif/report"
	"github.com/crossplane/crossplane/verif/simkube"
	"github.com/crossplane/crossplane/verif/xrh"
)

type scriptedValidator struct {
	accept bool
	asked  int
}

func (v *scriptedValidator) Validate(context.Context, name.Reference, *v1beta1.ImageVerification, ...string) error {
	v.asked++
	if v.accept {
		return nil
	}
	return fmt.Errorf("no matching signatures")
}

func imageConfig(n, prefix string, verify, cosign bool) *v1beta1.ImageConfig {
	ic := &v1beta1.ImageConfig{TypeMeta: metav1.TypeMeta{APIVersion: v1beta1.SchemeGroupVersion.String(), Kind: "ImageConfig"}, ObjectMeta: metav1.ObjectMeta{Name: n}}
	ic.Spec.MatchImages = []v1beta1.ImageMatch{{Type: "Prefix", Prefix: prefix}}
	if verify {
		ic.Spec.Verification = &v1beta1.ImageVerification{Provider: "Cosign"}
		if cosign {
			ic.Spec.Verification.Cosign = &v1beta1.CosignVerificationConfig{Authorities: []v1beta1.CosignAuthority{{Name: "a", Key: &v1beta1.KeyRef{}}}}
		}
	}
	return ic
}

// imageConfigSets: which ImageConfigs exist. "requires" is the reference
// reading of the API: verification applies iff some ImageConfig whose prefix
// matches the image carries a cosign verification (among those the longest
// prefix wins - they all demand verification, so the verdict is the same).
var imageConfigSets = []struct {
	name     string
	objs     func() []*v1beta1.ImageConfig
	requires bool
}{
	{"none", func() []*v1beta1.ImageConfig { return nil }, false},
	{"verify-matching", func() []*v1beta1.ImageConfig { return []*v1beta1.ImageConfig{imageConfig("v", "acme/", true, true)} }, true},
	{"verify-other-registry", func() []*v1beta1.ImageConfig {
		return []*v1beta1.ImageConfig{imageConfig("v", "other.example.org/", true, true)}
	}, false},
	{"pull-secret-only-matching", func() []*v1beta1.ImageConfig { return []*v1beta1.ImageConfig{imageConfig("p", "acme/", false, false)} }, false},
	{"verify-matching+longer-pull-secret-only", func() []*v1beta1.ImageConfig {
		return []*v1beta1.ImageConfig{imageConfig("v", "acme/", true, true), imageConfig("p", "acme/pkg", false, false)}
	}, true},
	{"two-verify-matching", func() []*v1beta1.ImageConfig {
		return []*v1beta1.ImageConfig{imageConfig("v1", "acme", true, true), imageConfig("v2", "acme/pkg:", true, true)}
	}, true},
}

func signatureBody(r *explore.Run, rep *report.R, sc string) {
	kind := []string{"Configuration", "Provider", "Function"}[r.Free(3, "type")]
	set := imageConfigSets[r.Free(len(imageConfigSets), "image-configs")]
	accept := r.Bool("validator-accepts")
	errKind := r.Free(2, "read-error-kind") // what an injected read error looks like: 0 server error, 1 not found
	stream, want := validStream(kind)
	img := pkgh.BuildImage(stream, pkgh.AnnotatedBase, nil)
	st := newSetup(kind, img, false, 1, afero.NewMemMapFs()) // gate on, Verified unset
	for _, ic := range set.objs() {
		st.s.Seed(ic)
	}
	val := &scriptedValidator{accept: accept}
	c := st.s.Client("signature")
	var nr func() v1.PackageRevision
	switch kind {
	case "Provider":
		nr = func() v1.PackageRevision { return &v1.ProviderRevision{} }
	case "Function":
		nr = func() v1.PackageRevision { return &v1.FunctionRevision{} }
	default:
		nr = func() v1.PackageRevision { return &v1.ConfigurationRevision{} }
	}
	sig := signature.NewReconciler(c,
		signature.WithNewPackageRevisionFn(nr),
		signature.WithNamespace("crossplane-system"),
		signature.WithDefaultRegistry("xpkg.upbound.io"),
		signature.WithConfigStore(xpkg.NewImageConfigStore(c, "crossplane-system")),
		signature.WithValidator(val))
	inj := &xrh.FaultInjector{Run: r, Reads: true, NoCrash: true, Filter: func(cl simkube.Call) bool { return cl.Client == "signature" && !cl.Write }}
	st.s.Inj = inj
	st.s.ErrBeforeFn = func(cl simkube.Call) error {
		if errKind == 1 {
			return kerrors.NewNotFound(schema.GroupResource{Group: cl.Key.Group, Resource: strings.ToLower(cl.Key.Kind) + "s"}, cl.Key.Name)
		}
		return nil
	}
	nn := types.NamespacedName{Name: st.name}
	var trail []string
	for round := 0; round < 3; round++ {
		inj.Armed = round == 0
		out := xrh.Reconcile(sig, nn)
		inj.Armed = false
		rout := st.reconcile()
		trail = append(trail, fmt.Sprintf("verify err=%v / revision err=%v", out.Err != nil, rout.Err != nil))
		r.Logf("round %d: signature reconcile err=%v (faults %v, validator asked %d); revision reconcile err=%v established=%v", round, out.Err, inj.Taken, val.asked, rout.Err, st.rec.calls)
	}
	mustNot := set.requires && !accept
	if mustNot && len(st.rec.calls) > 0 {
		r.Failf("gate/unverified/signature-controller", "image configs %q put the package under signature verification and the validator rejects it (asked %d times; injected %v), yet the revision was established: %v", set.name, val.asked, inj.Taken, st.rec.calls)
	}
	if set.requires && val.asked == 0 && len(st.rec.calls) > 0 {
		r.Failf("gate/verification-never-ran", "image configs %q put the package under signature verification; the validator was never asked (injected %v), yet the revision was established", set.name, inj.Taken)
	}
	checkCalls(r, st.rec.calls, want, "signature")
	if !mustNot && len(st.rec.calls) == 0 {
		r.Failf("gate/verified-never-installed", "image configs %q, validator accepts=%v: after three rounds (one read fault at most: %v) the package is not installed", set.name, accept, inj.Taken)
	}
	nt := ""
	if set.requires {
		nt = report.Hash(sc, kind, set.name, accept, errKind, inj.Taken)
	}
	rep.Eval(sc, report.Hash(len(st.rec.calls) > 0, val.asked > 0, trail), nt)
	if rep.WantSample() && set.requires && len(inj.Taken) > 0 {
		rep.Sample(map[string]any{"scenario": sc, "type": kind, "image_configs": set.name, "validator_accepts": accept, "read_error": []string{"server error", "not found"}[errKind], "faults": inj.Taken, "rounds": trail, "established": len(st.rec.calls)})
	}
	_ = explore.HarnessError{}
}
