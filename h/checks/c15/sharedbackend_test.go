package c15

import (
	"context"
	"fmt"
	"io"
	"strings"

	"github.com/google/go-containerregistry/pkg/name"
	regv1 "github.com/google/go-containerregistry/pkg/v1"
	"github.com/spf13/afero"

	"github.com/crossplane/crossplane-runtime/pkg/parser"

	pkgv1 "github.com/crossplane/crossplane/apis/pkg/v1"
	"github.com/crossplane/crossplane/internal/xpkg"
	pkgrev "github.com/crossplane/crossplane/internal/controller/pkg/revision"
	"github.com/crossplane/crossplane/verif/explore"
	"github.com/crossplane/crossplane/verif/pkgh"
	"github.com/crossplane/crossplane/verif/report"
	"github.com/crossplane/crossplane/verif/sched"
)

// ---- (e) one image backend, several revisions at once ----------------------------
//
// All revisions of a kind are reconciled through one ImageBackend, and
// controller-runtime reconciles different revisions concurrently. Two (three)
// threads call the real ImageBackend.Init for different revisions; the
// backend options a reconcile passes are applied one after the other, and
// every option boundary is a scheduling point (the harness appends one no-op
// option per thread, which yields), as is every registry call. For every
// interleaving, the stream each Init returns must be the stream of the image
// its own revision's source names.

type yieldingRegistry struct {
	*pkgh.Registry
	s *sched.S
}

func (y yieldingRegistry) Fetch(ctx context.Context, ref name.Reference, secrets ...string) (regv1.Image, error) {
	y.s.Point("registry-fetch " + ref.String())
	return y.Registry.Fetch(ctx, ref, secrets...)
}

func sharedBackendBody(r *explore.Run, rep *report.R, sc string, nThreads int) {
	labels := []string{"A", "B", "C"}[:nThreads]
	reg := &pkgh.Registry{Table: map[string]string{}, Images: map[string]regv1.Image{}}
	want := map[string]string{}
	for _, l := range labels {
		kindName := "K" + l
		stream := pkgh.Stream(pkgh.MetaYAML("Provider", "pkg-"+strings.ToLower(l), ""), pkgh.CRDYAML("ex.org", kindName, "x"))
		reg.Table["acme/pkg-"+strings.ToLower(l)+":v1"] = l
		reg.Images[l] = pkgh.AsPulled(pkgh.BuildImage(stream, pkgh.AnnotatedBase, nil))
		want[l] = strings.ToLower(kindName) + "s.ex.org"
	}
	s := sched.New(r)
	defer s.Close()
	be := pkgrev.NewImageBackend(yieldingRegistry{reg, s}, pkgrev.WithDefaultRegistry("xpkg.example.org"))
	got := map[string]string{}
	errs := map[string]error{}
	for _, l := range labels {
		l := l
		pr := &pkgv1.ProviderRevision{}
		pr.SetName("pkg-" + strings.ToLower(l) + "-rev1")
		pr.Spec.Package = "acme/pkg-" + strings.ToLower(l) + ":v1"
		s.Spawn("T"+l, func() {
			yield := parser.BackendOption(func(parser.Backend) { s.Point("backend-option") })
			rc, err := be.Init(context.Background(), pkgrev.PackageRevision(pr), yield)
			if err != nil {
				errs[l] = err
				return
			}
			b, _ := io.ReadAll(rc)
			_ = rc.Close()
			got[l] = string(b)
		})
	}
	s.Run()
	if len(s.Panics) > 0 {
		r.Failf("panic/shared-backend", "thread panicked: %v", s.Panics)
	}
	var summary []string
	for _, l := range labels {
		if errs[l] != nil {
			r.Failf("exact/shared-backend/init-fails", "Init for revision %s fails when run beside others: %v", l, errs[l])
		}
		for _, o := range labels {
			if o != l && strings.Contains(got[l], want[o]) {
				r.Failf("exact/shared-backend/stream-of-another-revision", "the image backend is shared by all revisions of a kind; Init for the revision of package %s, interleaved with Init for %s, returned the package stream of %s (it holds CRD %s)", strings.ToLower(l), strings.ToLower(o), strings.ToLower(o), want[o])
			}
		}
		if !strings.Contains(got[l], want[l]) {
			r.Failf("exact/shared-backend/stream-differs", "Init for the revision of package %s returned a stream without its CRD %s", strings.ToLower(l), want[l])
		}
		summary = append(summary, fmt.Sprint(len(got[l])))
	}
	rep.Eval(sc, report.Hash(summary), report.Hash(sc, append([]int{}, r.Choices...)))
}

// sharedCacheBody: the package cache, too, is one object for all revisions
// of a kind, and what Get returns is read after Get has returned. Two (three)
// threads Get different entries of a warm cache and read them; between a
// thread's Get and its reads the others may run. Each thread must read the
// content stored under its own id.
func sharedCacheBody(r *explore.Run, rep *report.R, sc string, nThreads int) {
	labels := []string{"A", "B", "C"}[:nThreads]
	fs := afero.NewMemMapFs()
	c := xpkg.NewFsPackageCache("/cache", fs)
	content := map[string]string{}
	for _, l := range labels {
		content[l] = "package-stream-of-" + l + strings.Repeat("/"+l, 40)
		if err := c.Store("pkg-"+strings.ToLower(l)+"-rev1", io.NopCloser(strings.NewReader(content[l]))); err != nil {
			panic(explore.HarnessError{Msg: "warming the cache: " + err.Error()})
		}
	}
	s := sched.New(r)
	defer s.Close()
	got := map[string]string{}
	errs := map[string]error{}
	for _, l := range labels {
		l := l
		s.Spawn("T"+l, func() {
			rc, err := c.Get("pkg-" + strings.ToLower(l) + "-rev1")
			if err != nil {
				errs[l] = err
				return
			}
			s.Point("between-get-and-read")
			b, err := io.ReadAll(rc)
			if err != nil {
				errs[l] = err
			}
			s.Point("between-read-and-close")
			_ = rc.Close()
			got[l] = string(b)
		})
	}
	s.Run()
	if len(s.Panics) > 0 {
		r.Failf("panic/shared-cache", "thread panicked: %v", s.Panics)
	}
	for _, l := range labels {
		if errs[l] != nil {
			r.Failf("exact/shared-cache/read-fails", "reading cache entry %s beside other readers fails: %v", l, errs[l])
		}
		if got[l] != content[l] {
			r.Failf("exact/shared-cache/content-of-another-entry", "the package cache is shared by all revisions of a kind; the reader Get returned for entry %s, read while other entries were being fetched, delivered %q... instead of the content stored for %s", l, got[l][:min(24, len(got[l]))], l)
		}
	}
	rep.Eval(sc, report.Hash(len(labels)), report.Hash(sc, append([]int{}, r.Choices...)))
}
