// C15: a revision installs exactly what its image declares, and only
// permitted kinds. The real revision reconciler (real image backend, parser,
// per-type linters, version gate, signature gate, filesystem package cache)
// is run with a recording establisher over (a) the full product of package
// contents x layouts x gates, twice (registry path then cache path), (b) every
// registry read fault position and every cache filesystem fault, each followed
// by fault-free reconciles, and (c) the xpkg builder round trip.
package c15

import (
	"context"
	"fmt"
	"os"
	"sort"
	"strings"
	"testing"

	regv1 "github.com/google/go-containerregistry/pkg/v1"
	"github.com/spf13/afero"
	metav1 "k8s.io/apimachinery/pkg/apis/meta/v1"
	"k8s.io/apimachinery/pkg/apis/meta/v1/unstructured"
	"k8s.io/apimachinery/pkg/runtime"
	"k8s.io/apimachinery/pkg/types"
	"sigs.k8s.io/controller-runtime/pkg/client"

	xpv1 "github.com/crossplane/crossplane-runtime/apis/common/v1"
	"github.com/crossplane/crossplane-runtime/pkg/feature"
	"github.com/crossplane/crossplane-runtime/pkg/parser"

	v1 "github.com/crossplane/crossplane/apis/pkg/v1"
	"github.com/crossplane/crossplane/internal/features"
	"github.com/crossplane/crossplane/internal/xpkg"
	"github.com/crossplane/crossplane/internal/xpkg/parser/examples"
	pyaml "github.com/crossplane/crossplane/internal/xpkg/parser/yaml"
	"github.com/crossplane/crossplane/verif/explore"
	"github.com/crossplane/crossplane/verif/pkgh"
	"github.com/crossplane/crossplane/verif/report"
	"github.com/crossplane/crossplane/verif/simkube"
	"github.com/crossplane/crossplane/verif/xrh"
)

// recorder is the Establisher: it records what the reconciler asks to be
// established.
type recorder struct {
	calls [][]string
}

func ident(o runtime.Object) string {
	m, ok := o.(metav1.Object)
	n := ""
	if ok {
		n = m.GetName()
	}
	return o.GetObjectKind().GroupVersionKind().Kind + "/" + n
}

func (r *recorder) Establish(_ context.Context, objs []runtime.Object, _ v1.PackageRevision, _ bool) ([]xpv1.TypedReference, error) {
	var ids []string
	var refs []xpv1.TypedReference
	for _, o := range objs {
		ids = append(ids, ident(o))
		gvk := o.GetObjectKind().GroupVersionKind()
		refs = append(refs, xpv1.TypedReference{APIVersion: gvk.GroupVersion().String(), Kind: gvk.Kind, Name: o.(metav1.Object).GetName()})
	}
	sort.Strings(ids)
	r.calls = append(r.calls, ids)
	return refs, nil
}

func (r *recorder) ReleaseObjects(context.Context, v1.PackageRevision) error { return nil }

// object alphabet
type objSpec struct{ kind, yaml, id string }

var objects = []objSpec{
	{"CRD", pkgh.CRDYAML("ex.org", "KA", "a"), "CustomResourceDefinition/kas.ex.org"},
	{"CRD2", pkgh.CRDYAML("ex.org", "KB", "a"), "CustomResourceDefinition/kbs.ex.org"},
	{"XRD", pkgh.XRDYAML("ex.org", "XA"), "CompositeResourceDefinition/xas.ex.org"},
	{"Composition", pkgh.CompositionYAML("comp-a", "ex.org", "XA"), "Composition/comp-a"},
	{"ValidatingWebhook", pkgh.WebhookYAML("ValidatingWebhookConfiguration", "vwh"), "ValidatingWebhookConfiguration/vwh"},
	{"MutatingWebhook", pkgh.WebhookYAML("MutatingWebhookConfiguration", "mwh"), "MutatingWebhookConfiguration/mwh"},
}

// allowed kinds per package type, from contributing/specifications/xpkg.md.
var allowedKinds = map[string]map[string]bool{
	"Provider":      {"CRD": true, "CRD2": true, "ValidatingWebhook": true, "MutatingWebhook": true},
	"Configuration": {"XRD": true, "Composition": true},
	"Function":      {"CRD": true, "CRD2": true},
}

var revKinds = map[string]string{"Provider": "ProviderRevision", "Configuration": "ConfigurationRevision", "Function": "FunctionRevision"}

func revision(kind, name, source string, ignore bool, verified int) client.Object {
	var r v1.PackageRevision
	switch kind {
	case "Provider":
		r = &v1.ProviderRevision{TypeMeta: metav1.TypeMeta{APIVersion: v1.SchemeGroupVersion.String(), Kind: v1.ProviderRevisionKind}}
	case "Function":
		r = &v1.FunctionRevision{TypeMeta: metav1.TypeMeta{APIVersion: v1.SchemeGroupVersion.String(), Kind: v1.FunctionRevisionKind}}
	default:
		r = &v1.ConfigurationRevision{TypeMeta: metav1.TypeMeta{APIVersion: v1.SchemeGroupVersion.String(), Kind: v1.ConfigurationRevisionKind}}
	}
	r.SetName(name)
	r.SetLabels(map[string]string{v1.LabelParentPackage: "pkg"})
	r.SetSource(source)
	r.SetDesiredState(v1.PackageRevisionActive)
	r.SetRevision(1)
	if ignore {
		t := true
		r.SetIgnoreCrossplaneConstraints(&t)
	}
	switch verified {
	case 2:
		r.SetConditions(v1.VerificationFailed("cfg", fmt.Errorf("bad signature")))
	case 3:
		r.SetConditions(v1.VerificationSucceeded("cfg"))
	}
	return r
}

const source = "acme/pkg:v1"

type setup struct {
	s    *simkube.Store
	rec  *recorder
	reg  *pkgh.Registry
	fs   afero.Fs
	kind string
	name string
	opts pkgh.RevisionOptions
}

func newSetup(kind string, img regv1.Image, ignore bool, gate int, fs afero.Fs) *setup {
	xrh.BeginExecution(1)
	st := &setup{s: xrh.NewStore(), rec: &recorder{}, kind: kind, name: "pkg-rev1", fs: fs}
	st.reg = &pkgh.Registry{Table: map[string]string{"acme/pkg:v1": "A"}, Images: map[string]regv1.Image{"A": img}}
	st.s.Seed(revision(kind, st.name, source, ignore, gate))
	flags := &feature.Flags{}
	if gate != 0 {
		flags.Enable(features.EnableAlphaSignatureVerification)
	}
	st.opts = pkgh.RevisionOptions{Kind: kind, Client: st.s.Client("rev"), Registry: st.reg, Fs: fs, Establish: st.rec, Features: flags}
	return st
}

func (st *setup) reconcile() xrh.Outcome {
	return xrh.Reconcile(pkgh.NewRevisionReconciler(st.opts), types.NamespacedName{Name: st.name})
}

// ---- (a) contents x layouts x gates ------------------------------------------

func contentsBody(r *explore.Run, rep *report.R, sc string, maxObjs int) {
	metas := []string{"Provider", "Configuration", "Function", "none", "two"}
	kind := []string{"Provider", "Configuration", "Function"}[r.Free(3, "type")]
	meta := metas[r.Free(len(metas), "meta")]
	var objs []objSpec
	n := r.Free(maxObjs+1, "nobjs")
	for i := 0; i < n; i++ {
		objs = append(objs, objects[r.Free(len(objects), fmt.Sprintf("obj%d", i))])
	}
	layout := pkgh.Layout(r.Free(4, "layout"))
	constraint := []string{"", ">=v1.0.0", ">=v2.0.0", "not a constraint"}[r.Free(4, "constraint")]
	ignore := r.Bool("ignore")
	gate := r.Free(4, "gate") // 0 off, 1 on+unset, 2 on+false, 3 on+true
	decoys := r.Bool("decoys") // other files called package.yaml in sub-directories of the layer

	var docs []string
	switch meta {
	case "none":
	case "two":
		docs = append(docs, pkgh.MetaYAML(kind, "pkg", constraint), pkgh.MetaYAML(kind, "pkg2", constraint))
	default:
		docs = append(docs, pkgh.MetaYAML(meta, "pkg", constraint))
	}
	want := []string{}
	seen := map[string]bool{}
	kindsOK := true
	for _, o := range objs {
		docs = append(docs, o.yaml)
		if !seen[o.id] {
			want = append(want, o.id)
		}
		seen[o.id] = true
		if !allowedKinds[kind][o.kind] {
			kindsOK = false
		}
	}
	// Duplicated objects in a stream are passed twice; compare as multisets.
	want = nil
	for _, o := range objs {
		want = append(want, o.id)
	}
	sort.Strings(want)
	var decoy []byte
	if decoys {
		// A well-formed package of the same type with a different object.
		d := pkgh.CRDYAML("decoy.org", "KD", "a")
		if kind == "Configuration" {
			d = pkgh.XRDYAML("decoy.org", "XD")
		}
		decoy = pkgh.Stream(pkgh.MetaYAML(kind, "decoy", ""), d)
	}
	img := pkgh.BuildImageDecoy(pkgh.Stream(docs...), decoy, layout, nil)
	st := newSetup(kind, img, ignore, gate, afero.NewMemMapFs())

	allowed := meta == kind && kindsOK && layout != pkgh.TwoAnnotated &&
		(constraint == "" || constraint == ">=v1.0.0" || (constraint == ">=v2.0.0" && ignore)) &&
		(gate == 0 || gate == 3)
	dontCare := constraint == "not a constraint" // a malformed constraint is not one "the running version does not meet"; rejecting it is fine, so is nothing else
	desc := fmt.Sprintf("type=%s meta=%s objs=%v layout=%d constraint=%q ignore=%v gate=%d decoys=%v", kind, meta, want, layout, constraint, ignore, gate, decoys)
	var outs []string
	for pass := 0; pass < 2; pass++ {
		out := st.reconcile()
		path := "registry"
		if pass == 1 {
			path = "cache-or-registry"
		}
		outs = append(outs, fmt.Sprintf("%v", out.Err != nil))
		r.Logf("pass %d (%s): err=%v established=%v", pass, path, out.Err, st.rec.calls)
	}
	for i, c := range st.rec.calls {
		if dontCare {
			continue
		}
		if !allowed {
			sig := "gate/"
			switch {
			case meta != kind:
				sig += "meta-" + meta + "-in-" + kind
			case !kindsOK:
				sig += "kind-not-allowed-in-" + kind
			case layout == pkgh.TwoAnnotated:
				sig += "two-annotated-layers"
			case gate == 1 || gate == 2:
				sig += "unverified"
			default:
				sig += "constraints-unmet"
			}
			r.Failf(sig, "a package that must not be installed reached the establisher (call %d: %v): %s", i, c, desc)
		}
		if strings.Join(c, ",") != strings.Join(want, ",") {
			r.Failf("exact/objects-differ", "establisher call %d got %v, the image declares %v: %s", i, c, want, desc)
		}
	}
	if allowed && !dontCare {
		if len(st.rec.calls) != 2 {
			r.Failf("exact/not-installed", "a valid package was established %d times in 2 reconciles (want 2: registry then cache): %s", len(st.rec.calls), desc)
		}
	}
	nt := ""
	if allowed || len(objs) > 0 {
		nt = report.Hash(desc)
	}
	rep.Eval(sc, report.Hash(allowed, len(st.rec.calls), outs), nt)
	if rep.WantSample() && allowed && len(objs) > 1 {
		rep.Sample(map[string]any{"scenario": sc, "case": desc, "establisher_calls": st.rec.calls})
	}
}

// ---- (b) faults -------------------------------------------------------------------

// faultFs injects one failure into the n-th filesystem operation.
type faultFs struct {
	afero.Fs
	r     *explore.Run
	armed *bool
	taken *[]string
}

func (f *faultFs) decide(op string) bool {
	if !*f.armed {
		return false
	}
	if f.r.Choose(2, "fs:"+op) == 1 {
		*f.taken = append(*f.taken, op)
		f.r.Logf("FS FAULT at %s", op)
		return true
	}
	return false
}

var errFs = fmt.Errorf("injected filesystem error")

func (f *faultFs) Create(name string) (afero.File, error) {
	if f.decide("create") {
		return nil, errFs
	}
	file, err := f.Fs.Create(name)
	if err != nil {
		return nil, err
	}
	return &faultFile{File: file, fs: f}, nil
}

func (f *faultFs) Open(name string) (afero.File, error) {
	if f.decide("open") {
		return nil, errFs
	}
	file, err := f.Fs.Open(name)
	if err != nil {
		return nil, err
	}
	return &faultFile{File: file, fs: f}, nil
}

func (f *faultFs) Remove(name string) error {
	if f.decide("remove") {
		return errFs
	}
	return f.Fs.Remove(name)
}

func (f *faultFs) Stat(name string) (os.FileInfo, error) {
	if f.decide("stat") {
		return nil, errFs
	}
	return f.Fs.Stat(name)
}

type faultFile struct {
	afero.File
	fs     *faultFs
	writes int
}

func (f *faultFile) Write(p []byte) (int, error) {
	f.writes++
	if f.fs.decide(fmt.Sprintf("write#%d", f.writes)) {
		// A short write: half of the bytes reach the file.
		n, _ := f.File.Write(p[:len(p)/2])
		return n, errFs
	}
	return f.File.Write(p)
}

func (f *faultFile) Close() error {
	if f.fs.decide("close") {
		_ = f.File.Close()
		return errFs
	}
	return f.File.Close()
}

func (f *faultFile) Read(p []byte) (int, error) {
	if f.fs.decide("read") {
		return 0, errFs
	}
	return f.File.Read(p)
}

func validStream(kind string) ([]byte, []string) {
	switch kind {
	case "Provider":
		return pkgh.Stream(pkgh.MetaYAML("Provider", "pkg", ""), objects[0].yaml, objects[1].yaml, objects[4].yaml), []string{objects[0].id, objects[1].id, objects[4].id}
	case "Function":
		return pkgh.Stream(pkgh.MetaYAML("Function", "pkg", ""), objects[0].yaml, objects[1].yaml), []string{objects[0].id, objects[1].id}
	}
	return pkgh.Stream(pkgh.MetaYAML("Configuration", "pkg", ""), objects[2].yaml, objects[3].yaml), []string{objects[2].id, objects[3].id}
}

func checkCalls(r *explore.Run, calls [][]string, want []string, ctx string) {
	sort.Strings(want)
	for i, c := range calls {
		if strings.Join(c, ",") == strings.Join(want, ",") {
			continue
		}
		sub := len(c) < len(want)
		sig := "exact/objects-differ/" + ctx
		if sub {
			sig = "exact/strict-subset-installed/" + ctx
		}
		r.Failf(sig, "establisher call %d got %v but the image declares %v", i, c, want)
	}
}

// registryFaultBody: the registry read of the package layer fails after b
// bytes (second Uncompressed call: the first is the backend's validation
// pass), then the registry is healthy again.
func registryFaultBody(r *explore.Run, rep *report.R, sc string) {
	kind := []string{"Configuration", "Provider", "Function"}[r.Free(3, "type")]
	stream, want := validStream(kind)
	tarLen := len(stream) + 1024
	// Positions: every 64 bytes plus each document boundary +-1 (offset by
	// the 512-byte tar header).
	pos := []int{}
	for b := 0; b < tarLen; b += 64 {
		pos = append(pos, b)
	}
	off := 0
	for _, d := range strings.SplitAfter(string(stream), "---\n") {
		off += len(d)
		for _, delta := range []int{-1, 0, 1} {
			pos = append(pos, 512+off+delta)
		}
	}
	sort.Ints(pos)
	b := pos[r.Free(len(pos), "fail-at-byte")]
	call := 1 + r.Free(2, "on-uncompressed-call")
	layout := pkgh.Layout(r.Free(2, "layout")) // annotated or plain
	style := r.Free(4, "fault-style")        // error / error with the last bytes / early EOF / early EOF with the last bytes
	var fl *pkgh.FaultyLayer
	img := pkgh.BuildImage(stream, layout, func(l regv1.Layer) regv1.Layer {
		fl = &pkgh.FaultyLayer{Layer: l, FailOnCall: call, FailAt: b, Style: style}
		return fl
	})
	st := newSetup(kind, img, false, 0, afero.NewMemMapFs())
	var errs []string
	for i := 0; i < 3; i++ {
		out := st.reconcile()
		errs = append(errs, fmt.Sprint(out.Err != nil))
		r.Logf("reconcile %d: err=%v established=%v", i, out.Err, st.rec.calls)
	}
	checkCalls(r, st.rec.calls, want, "registry-read-fault")
	// Not part of the property (which constrains what is installed, not
	// whether): count histories after which the package never installs.
	stuck := len(st.rec.calls) == 0
	rep.Eval(sc, report.Hash(errs, len(st.rec.calls), stuck), report.Hash(kind, b, call, layout, style))
	if rep.WantSample() && errs[0] == "true" {
		rep.Sample(map[string]any{"scenario": sc, "type": kind, "fail_at_byte": b, "on_call": call, "fault_style": style, "reconcile_errors": errs, "establisher_calls": st.rec.calls})
	}
}

// cacheFaultBody: one filesystem operation of the package cache fails during
// one of the first two reconciles; later reconciles are fault free.
func cacheFaultBody(r *explore.Run, rep *report.R, sc string) {
	kind := []string{"Configuration", "Provider", "Function"}[r.Free(3, "type")]
	pre := []string{"cold", "truncated", "garbage", "empty"}[r.Free(4, "cache-state")]
	stream, want := validStream(kind)
	img := pkgh.BuildImage(stream, pkgh.AnnotatedBase, nil)
	mem := afero.NewMemMapFs()
	armed := false
	var taken []string
	ffs := &faultFs{Fs: mem, r: r, armed: &armed, taken: &taken}
	st := newSetup(kind, img, false, 0, ffs)
	path := "/cache/" + st.name + ".gz"
	if pre != "cold" {
		// Build a correct entry with the real cache, then damage it.
		c := xpkg.NewFsPackageCache("/cache", mem)
		_ = c.Store(st.name, readCloser(stream))
		good, _ := afero.ReadFile(mem, path)
		switch pre {
		case "truncated":
			_ = afero.WriteFile(mem, path, good[:len(good)/2], 0o644)
		case "garbage":
			_ = afero.WriteFile(mem, path, []byte("this is not gzip"), 0o644)
		case "empty":
			_ = afero.WriteFile(mem, path, nil, 0o644)
		}
	}
	var errs []string
	for i := 0; i < 4; i++ {
		armed = i < 2
		out := st.reconcile()
		armed = false
		errs = append(errs, fmt.Sprint(out.Err != nil))
		r.Logf("reconcile %d: err=%v established=%v faults=%v", i, out.Err, st.rec.calls, taken)
	}
	checkCalls(r, st.rec.calls, want, "cache-"+pre)
	stuck := len(st.rec.calls) == 0
	if stuck {
		r.Logf("note: never installed (cache state %s, faults %v)", pre, taken)
		stuckCount++
	}
	rep.Eval(sc, report.Hash(errs, len(st.rec.calls), stuck), report.Hash(kind, pre, taken))
	if rep.WantSample() && len(taken) > 0 {
		rep.Sample(map[string]any{"scenario": sc, "type": kind, "cache_state": pre, "fs_fault": taken, "reconcile_errors": errs, "establisher_calls": st.rec.calls})
	}
}

var stuckCount int

type rc struct{ *strings.Reader }

func (rc) Close() error { return nil }

func readCloser(b []byte) rc { return rc{strings.NewReader(string(b))} }

// ---- (d) signature gate end to end: the real signature-verification reconciler (real ImageConfigStore, scripted validator) and the real revision reconciler, 6 ImageConfig sets x validator verdict x one failing read (server error or 404) of the verification reconcile, three rounds: a package under verification that the validator rejects is never established. (c) xpkg build round trip ------------------------------------------------

func buildBody(r *explore.Run, rep *report.R, sc string) {
	kind := []string{"Provider", "Configuration", "Function"}[r.Free(3, "type")]
	var chosen []objSpec
	for _, o := range objects {
		if allowedKinds[kind][o.kind] && r.Bool("with-"+o.kind) {
			chosen = append(chosen, o)
		}
	}
	annotate := r.Bool("annotate-layers")
	fs := afero.NewMemMapFs()
	_ = afero.WriteFile(fs, "/pkg/crossplane.yaml", []byte(pkgh.MetaYAML(kind, "pkg", "")), 0o644)
	var want []string
	for i, o := range chosen {
		_ = afero.WriteFile(fs, fmt.Sprintf("/pkg/objs/o%d.yaml", i), []byte(o.yaml), 0o644)
		want = append(want, o.id)
	}
	sort.Strings(want)
	pp, err := pyaml.New()
	if err != nil {
		panic(err)
	}
	b := xpkg.New(
		parser.NewFsBackend(fs, parser.FsDir("/pkg"), parser.FsFilters(parser.SkipDirs(), parser.SkipNotYAML(), parser.SkipEmpty())),
		parser.NewFsBackend(fs, parser.FsDir("/pkg/examples"), parser.FsFilters(parser.SkipDirs(), parser.SkipNotYAML(), parser.SkipEmpty())),
		pp, examples.New())
	img, _, err := b.Build(context.Background())
	if err != nil {
		r.Failf("build/failed", "xpkg build failed for a valid %s package with %v: %v", kind, want, err)
	}
	if annotate {
		img, err = xpkg.AnnotateLayers(img)
		if err != nil {
			r.Failf("build/annotate-failed", "AnnotateLayers: %v", err)
		}
	}
	st := newSetup(kind, pkgh.AsPulled(img), false, 0, afero.NewMemMapFs())
	out := st.reconcile()
	r.Logf("build round trip %s %v annotate=%v: err=%v established=%v", kind, want, annotate, out.Err, st.rec.calls)
	if len(st.rec.calls) != 1 {
		r.Failf("build/not-installed", "the image built by xpkg build from a valid %s package (%v) was not installed: err=%v", kind, want, out.Err)
	}
	if strings.Join(st.rec.calls[0], ",") != strings.Join(want, ",") {
		r.Failf("build/objects-differ", "xpkg build of %v parsed back to %v", want, st.rec.calls[0])
	}
	rep.Eval(sc, report.Hash(want), report.Hash(kind, want, annotate))
}

var _ = unstructured.Unstructured{}

func TestCheck(t *testing.T) {
	rep := report.New("C15", "fault_enumeration")
	rep.Meta(
		"(a) full product revision type x meta {Provider, Configuration, Function, none, two} x up to N objects over {CRD, CRD2, XRD, Composition, Validating/MutatingWebhookConfiguration} x image layout {annotated base, plain filesystem, two annotated layers, annotated + extra layer} x {no other files, well-formed decoy packages at examples/package.yaml (stored before), package.yaml.orig and zz/package.yaml (stored after) in the package layer} x crossplane constraint {none, met, unmet, malformed} x ignoreCrossplaneConstraints x signature gate {off, on+unset, on+False, on+True}; each case reconciled twice (registry path, then cache path) with a recording establisher; oracle: the table of contributing/specifications/xpkg.md and the gates of the statement. (b) every registry read-fault position (each 64 bytes and each YAML document boundary +-1, on the validation or the parse read; delivered as (0, err), as (n>0, err) with the last bytes, as an early clean EOF, or as (n>0, EOF)) and every single filesystem fault (create/open/stat/remove/write#k/read/close) of the package cache from 4 initial cache states, each followed by fault-free reconciles: no establisher call ever receives a set different from the image's. (d) signature gate end to end: the real signature-verification reconciler (real ImageConfigStore, scripted validator) and the real revision reconciler, 6 ImageConfig sets x validator verdict x one failing read (server error or 404) of the verification reconcile, three rounds: a package under verification that the validator rejects is never established. (c) xpkg build round trip for every allowed object subset. Non-trivial: packages with objects, faulted runs.",
		[]string{"simkube models the API server", "the establisher is a recorder (what reaches it is what would be installed); C16 covers the real establisher", "running Crossplane version is v1.20.0 (linked into the real version.Versioner)", "two reconciles of the same revision never run concurrently (controller-runtime work queue), so concurrent cache writers of one entry are not explored"},
		[]string{"simkube", "go-containerregistry (images, layers, validate)", "afero memory filesystem"},
	)
	maxObjs := 1
	if report.Thorough() {
		maxObjs = 2
	}
	rep.Bound("max_objects_per_package", maxObjs)
	rep.Bound("fs_faults_per_history", 1)
	scs := []report.Scenario{
		{Name: "contents", Bound: 0, Wrap: report.Bubble(t), Body: func(r *explore.Run) { contentsBody(r, rep, "contents", maxObjs) }},
		{Name: "signature-controller", Bound: 1, Wrap: report.Bubble(t), Body: func(r *explore.Run) { signatureBody(r, rep, "signature-controller") }},
		{Name: "registry-read-fault", Bound: 0, Wrap: report.Bubble(t), Body: func(r *explore.Run) { registryFaultBody(r, rep, "registry-read-fault") }},
		{Name: "cache-fs-fault", Bound: 1, Wrap: report.Bubble(t), Body: func(r *explore.Run) { cacheFaultBody(r, rep, "cache-fs-fault") }},
		{Name: "build-roundtrip", Bound: 0, Wrap: report.Bubble(t), Body: func(r *explore.Run) { buildBody(r, rep, "build-roundtrip") }},
		{Name: "shared-backend/2", Bound: 3, Wrap: report.Bubble(t), Body: func(r *explore.Run) { sharedBackendBody(r, rep, "shared-backend/2", 2) }},
		{Name: "shared-cache/2", Bound: 3, Wrap: report.Bubble(t), Body: func(r *explore.Run) { sharedCacheBody(r, rep, "shared-cache/2", 2) }},
		{Name: "shared-cache/3", Bound: 2, Wrap: report.Bubble(t), Body: func(r *explore.Run) { sharedCacheBody(r, rep, "shared-cache/3", 3) }},
		{Name: "shared-backend/3", Bound: 2, Wrap: report.Bubble(t), Body: func(r *explore.Run) { sharedBackendBody(r, rep, "shared-backend/3", 3) }},
		// (Real files and a changed working directory: not in a bubble.)
		{Name: "build-cli-roundtrip", Bound: 0, Body: func(r *explore.Run) { buildCLIBody(r, rep, "build-cli-roundtrip") }},
	}
	rep.SelfCheck(t, scs[0], nil)
	rep.RunScenarios(t, scs)
	rep.Extra("histories_after_which_the_package_never_installs", stuckCount)
	rep.Write(t)
}
