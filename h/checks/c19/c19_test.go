// C19: an in-use resource cannot be deleted; protection ends exactly when use
// ends. Depth-bounded exhaustive search over creations / deletions of two
// Usages, the used and the using resource, DELETE requests with every
// propagation policy through both API versions, garbage collector steps and
// clock advances, with the real usage.Reconciler (an API fault at any call)
// and the real admission webhook handler + index function, dispatched
// according to the repository's webhook configuration.
package c19

import (
	"github.com/crossplane/crossplane-runtime/pkg/resource"
	"github.com/crossplane/crossplane-runtime/pkg/resource/unstructured/composed"
	"context"
	"encoding/json"
	"fmt"
	"net/http"
	"os"
	"path/filepath"
	"strings"
	"testing"
	"time"

	admissionv1 "k8s.io/api/admission/v1"
	admregv1 "k8s.io/api/admissionregistration/v1"
	kerrors "k8s.io/apimachinery/pkg/api/errors"
	corev1 "k8s.io/api/core/v1"
	metav1 "k8s.io/apimachinery/pkg/apis/meta/v1"
	"k8s.io/apimachinery/pkg/apis/meta/v1/unstructured"
	"k8s.io/apimachinery/pkg/labels"
	"k8s.io/apimachinery/pkg/runtime"
	"k8s.io/apimachinery/pkg/runtime/schema"
	"k8s.io/apimachinery/pkg/types"
	"sigs.k8s.io/controller-runtime/pkg/client"
	"sigs.k8s.io/controller-runtime/pkg/manager"
	"sigs.k8s.io/controller-runtime/pkg/webhook"
	"sigs.k8s.io/controller-runtime/pkg/webhook/admission"
	"sigs.k8s.io/yaml"

	"github.com/crossplane/crossplane-runtime/pkg/controller"
	"github.com/crossplane/crossplane-runtime/pkg/logging"

	"github.com/crossplane/crossplane/apis/apiextensions/v1beta1"
	usagectrl "github.com/crossplane/crossplane/internal/controller/apiextensions/usage"
	"github.com/crossplane/crossplane/internal/usage"
	"github.com/crossplane/crossplane/verif/explore"
	"github.com/crossplane/crossplane/verif/report"
	"github.com/crossplane/crossplane/verif/simkube"
	"github.com/crossplane/crossplane/verif/xrh"
)

const inUseLabel = "crossplane.io/in-use"

var (
	usedGK  = schema.GroupKind{Group: "res.example.org", Kind: "Used"}
	usingGK = schema.GroupKind{Group: "res.example.org", Kind: "User"}
	usageGK = schema.GroupKind{Group: "apiextensions.crossplane.io", Kind: "Usage"}
	usedKey = simkube.ObjKey{Group: usedGK.Group, Kind: usedGK.Kind, Name: "r"}
	userKey = simkube.ObjKey{Group: usingGK.Group, Kind: usingGK.Kind, Name: "app"}
)

func usageKey(n string) simkube.ObjKey {
	return simkube.ObjKey{Group: usageGK.Group, Kind: usageGK.Kind, Name: n}
}

// fake manager capturing the webhook registration.
type fakeServer struct {
	webhook.Server
	hooks map[string]http.Handler
}

func (f *fakeServer) Register(path string, h http.Handler) { f.hooks[path] = h }

type fakeMgr struct {
	manager.Manager
	c   *simkube.Client
	srv *fakeServer
}

func (m *fakeMgr) GetClient() client.Client             { return m.c }
func (m *fakeMgr) GetFieldIndexer() client.FieldIndexer { return m.c }
func (m *fakeMgr) GetWebhookServer() webhook.Server     { return m.srv }
func (m *fakeMgr) GetScheme() *runtime.Scheme           { return xrh.Scheme }

// webhookConfig is the repository's ValidatingWebhookConfiguration for usages.
func webhookConfig() *admregv1.ValidatingWebhookConfiguration {
	root := os.Getenv("VERIF_REPO")
	if root == "" {
		root = "/repo"
	}
	b, err := os.ReadFile(filepath.Join(root, "cluster", "webhookconfigurations", "usage.yaml"))
	if err != nil {
		panic(err)
	}
	c := &admregv1.ValidatingWebhookConfiguration{}
	if err := yaml.Unmarshal(b, c); err != nil {
		panic(err)
	}
	return c
}

var whConfig = webhookConfig()

type world struct {
	s       *simkube.Store
	r       *explore.Run
	handler admission.Handler
	// monitors
	attempts int
	// reconciling is the Usage whose reconcile is running ("" outside one).
	reconciling string
	// interleaved: reconciles of different Usages run concurrently (see
	// interleave_test.go); M4 then only counts Usages that are Ready, because
	// a Usage created after the finalizing reconcile listed the Usages is
	// inevitably missed - it re-adds the marker before it reports ready.
	interleaved bool
}

// admit dispatches DELETE admission as the API server would for the
// configured webhook: operation, resource rules and objectSelector.
func (w *world) admit(op *simkube.AdmissionOp) error {
	if op.Verb != "DELETE" || op.DryRun && false {
		return nil
	}
	for _, wh := range whConfig.Webhooks {
		matches := false
		for _, rule := range wh.Rules {
			for _, o := range rule.Operations {
				if o == admregv1.Delete || o == admregv1.OperationAll {
					matches = true
				}
			}
		}
		if !matches {
			continue
		}
		if wh.ObjectSelector != nil {
			sel, err := metav1.LabelSelectorAsSelector(wh.ObjectSelector)
			if err != nil {
				panic(err)
			}
			if !sel.Matches(labels.Set(op.Old.GetLabels())) {
				continue
			}
		}
		raw, _ := json.Marshal(op.Old.Object)
		do := metav1.DeleteOptions{}
		if p, ok := op.Options["propagationPolicy"]; ok {
			pp := metav1.DeletionPropagation(fmt.Sprint(p))
			do.PropagationPolicy = &pp
		}
		var dry *bool
		if op.DryRun {
			// The API server calls a webhook for a dry-run request only if
			// the webhook declares it has no side effects on dry runs.
			if wh.SideEffects == nil || (*wh.SideEffects != admregv1.SideEffectClassNone && *wh.SideEffects != admregv1.SideEffectClassNoneOnDryRun) {
				return kerrors.NewBadRequest(fmt.Sprintf("admission webhook %q does not support dry run", wh.Name))
			}
			do.DryRun = []string{metav1.DryRunAll}
			t := true
			dry = &t
		}
		doRaw, _ := json.Marshal(do)
		req := admission.Request{AdmissionRequest: admissionv1.AdmissionRequest{
			Operation: admissionv1.Delete,
			Name:      op.Key.Name,
			OldObject: runtime.RawExtension{Raw: raw},
			Options:   runtime.RawExtension{Raw: doRaw},
			DryRun:    dry,
		}}
		rsp := w.handler.Handle(context.Background(), req)
		if !rsp.Allowed {
			msg := "denied"
			if rsp.Result != nil {
				msg = string(rsp.Result.Reason) + rsp.Result.Message
			}
			return kerrors.NewForbidden(schema.GroupResource{Group: op.Key.Group, Resource: "useds"}, op.Key.Name, fmt.Errorf("admission webhook %q denied the request: %s", wh.Name, msg))
		}
	}
	return nil
}

func res(gk schema.GroupKind, version, name string) *unstructured.Unstructured {
	u := &unstructured.Unstructured{}
	u.SetGroupVersionKind(gk.WithVersion(version))
	u.SetName(name)
	return u
}

// ownerRef is a controller reference to one of the two owner objects the
// world holds (they exist, so the garbage collector leaves their dependents).
func ownerRef(name string) metav1.OwnerReference {
	t := true
	return metav1.OwnerReference{APIVersion: "v1", Kind: "ConfigMap", Name: name, UID: types.UID(name + "-uid"), Controller: &t}
}

// seedOwners adds the owner objects and, for selectors that demand the same
// controller, gives the used resource r that controller and adds a decoy: a
// resource with the same labels that sorts before r and belongs to another
// controller. Only r may be selected.
func seedOwners(s *simkube.Store, used *unstructured.Unstructured, f usageForm) {
	for _, n := range []string{"owner-1", "owner-2"} {
		s.Seed(&corev1.ConfigMap{TypeMeta: metav1.TypeMeta{APIVersion: "v1", Kind: "ConfigMap"}, ObjectMeta: metav1.ObjectMeta{Namespace: "default", Name: n, UID: types.UID(n + "-uid")}})
	}
	if !f.matchCtrl {
		return
	}
	used.SetOwnerReferences([]metav1.OwnerReference{ownerRef("owner-1")})
	decoy := res(usedGK, "v1", "a-decoy")
	decoy.SetLabels(map[string]string{"role": "db"})
	decoy.SetOwnerReferences([]metav1.OwnerReference{ownerRef("owner-2")})
	s.Seed(decoy)
}

type usageForm struct {
	selector   bool
	matchCtrl  bool
	by         bool
	bySelector bool
	ofVersion  string
	replay     bool
	// composed: the Usage carries the crossplane.io/composite label, so its
	// deletion waits for the using resource to be gone.
	composed bool
}

func mkUsage(name string, f usageForm) *v1beta1.Usage {
	u := &v1beta1.Usage{TypeMeta: metav1.TypeMeta{APIVersion: v1beta1.SchemeGroupVersion.String(), Kind: v1beta1.UsageKind}, ObjectMeta: metav1.ObjectMeta{Name: name}}
	u.Spec.Of = v1beta1.Resource{APIVersion: usedGK.Group + "/" + f.ofVersion, Kind: usedGK.Kind}
	if f.selector {
		u.Spec.Of.ResourceSelector = &v1beta1.ResourceSelector{MatchLabels: map[string]string{"role": "db"}}
		if f.matchCtrl {
			t := true
			u.Spec.Of.ResourceSelector.MatchControllerRef = &t
		}
	} else {
		u.Spec.Of.ResourceRef = &v1beta1.ResourceRef{Name: "r"}
	}
	if f.by {
		u.Spec.By = &v1beta1.Resource{APIVersion: usingGK.Group + "/v1", Kind: usingGK.Kind}
		if f.bySelector {
			u.Spec.By.ResourceSelector = &v1beta1.ResourceSelector{MatchLabels: map[string]string{"role": "app"}}
		} else {
			u.Spec.By.ResourceRef = &v1beta1.ResourceRef{Name: "app"}
		}
	} else {
		reason := "important"
		u.Spec.Reason = &reason
	}
	if f.replay {
		t := true
		u.Spec.ReplayDeletion = &t
	}
	if f.composed {
		u.SetLabels(map[string]string{"crossplane.io/composite": "some-xr"})
	}
	if f.matchCtrl {
		// The Usage and the resource it selects are composed by the same XR.
		u.SetOwnerReferences([]metav1.OwnerReference{ownerRef("owner-1")})
	}
	return u
}

// usagesNaming returns stored Usages whose (resolved) reference names R.
func (w *world) usagesNaming() (all, ready []string) {
	for _, u := range w.s.All(usageGK) {
		n, _, _ := unstructured.NestedString(u.Object, "spec", "of", "resourceRef", "name")
		k, _, _ := unstructured.NestedString(u.Object, "spec", "of", "kind")
		av, _, _ := unstructured.NestedString(u.Object, "spec", "of", "apiVersion")
		if n != "r" || k != usedGK.Kind || !strings.HasPrefix(av, usedGK.Group+"/") {
			continue
		}
		all = append(all, u.GetName())
		if u.GetDeletionTimestamp() != nil {
			continue
		}
		conds, _, _ := unstructured.NestedSlice(u.Object, "status", "conditions")
		for _, c := range conds {
			m, _ := c.(map[string]any)
			if m["type"] == "Ready" && m["status"] == "True" {
				ready = append(ready, u.GetName())
			}
		}
	}
	return all, ready
}

func (w *world) onWrite(rec *simkube.WriteRecord) {
	// M3: the marker is on the used resource before a Usage reports ready.
	if rec.Call.Key.GK() == usageGK && rec.Call.Sub == "status" && rec.After != nil {
		_, ready := w.usagesNaming()
		for _, n := range ready {
			if n == rec.Call.Key.Name {
				r := w.s.Peek(usedKey)
				if r != nil && r.GetLabels()[inUseLabel] != "true" {
					w.r.Failf("M3/ready-before-marker", "Usage %s reports Ready=True while the used resource does not carry the in-use marker", n)
				}
			}
		}
	}
	// M4: the marker is removed only when the last Usage is deleted.
	if rec.Call.Key == usedKey && rec.Before != nil && rec.Before.GetLabels()[inUseLabel] == "true" && rec.After != nil && rec.After.GetLabels()[inUseLabel] != "true" {
		all, readyNow := w.usagesNaming()
		if w.interleaved {
			for _, n := range readyNow {
				if n != w.reconciling {
					w.r.Failf("M4/marker-removed-while-ready-usage-exists", "%s removed the in-use marker while Usage %s of the resource is Ready (all: %v)", rec.Call, n, all)
				}
			}
			return
		}
		others, othersTerminating := 0, 0
		for _, n := range all {
			u := w.s.Peek(usageKey(n))
			if u == nil {
				continue
			}
			if u.GetDeletionTimestamp() == nil {
				others++
			} else if n != w.reconciling {
				// A Usage whose deletion was requested but that still exists
				// (it waits for its using resource) is still a Usage of the
				// resource: the one being finalized now is not the last.
				othersTerminating++
			}
		}
		if others > 0 {
			w.r.Failf("M4/marker-removed-while-used", "%s removed the in-use marker while %d Usage(s) of the resource that are not being deleted exist (%v)", rec.Call, others, all)
		}
		if othersTerminating > 0 {
			w.r.Failf("M4/marker-removed-while-terminating-usage-exists", "%s (reconcile of %q) removed the in-use marker while %d other Usage(s) of the resource still exist, waiting to be finalized (%v)", rec.Call, w.reconciling, othersTerminating, all)
		}
	}
}

func body(r *explore.Run, rep *report.R, sc string, depth int, form usageForm, prep string) {
	xrh.BeginExecution(1)
	s := xrh.NewStore()
	w := &world{s: s, r: r}
	srv := &fakeServer{hooks: map[string]http.Handler{}}
	mgr := &fakeMgr{c: s.Client("webhook"), srv: srv}
	if err := usage.SetupWebhookWithManager(mgr, controller.Options{Logger: logging.NewNopLogger()}); err != nil {
		panic(err)
	}
	adm, ok := srv.hooks["/validate-no-usages"].(*webhook.Admission)
	if !ok {
		panic(explore.HarnessError{Msg: "webhook handler not registered at /validate-no-usages"})
	}
	w.handler = adm.Handler
	s.Admit = append(s.Admit, w.admit)

	used := res(usedGK, "v1", "r")
	used.SetLabels(map[string]string{"role": "db"})
	seedOwners(s, used, form)
	s.Seed(used)
	app := res(usingGK, "v1", "app")
	app.SetLabels(map[string]string{"role": "app"})
	s.Seed(app)

	inj := &xrh.FaultInjector{Run: r, Reads: false, Filter: func(c simkube.Call) bool { return c.Client == "usage" }}
	s.Inj = inj
	recMgr := &fakeMgr{c: s.Client("usage"), srv: srv}
	mkRec := func() *usagectrl.Reconciler { return usagectrl.NewReconciler(recMgr) }
	rec := mkRec()
	s.OnWrite = append(s.OnWrite, w.onWrite)
	user := s.Client("user")
	ctx := context.Background()
	// u1 exists (unreconciled) from the start: every interesting history
	// begins with its creation.
	_ = user.Create(ctx, mkUsage("u1", form))

	u2form := usageForm{ofVersion: "v2"}
	if form.ofVersion == "v2" {
		u2form.ofVersion = "v1"
	}
	// Non-initial start states, reached with the real reconciler fault free.
	switch prep {
	case "both-ready":
		_ = user.Create(ctx, mkUsage("u2", u2form))
		for _, n := range []string{"u1", "u2", "u1", "u2"} {
			w.reconciling = n
			if out := xrh.Reconcile(rec, types.NamespacedName{Name: n}); out.Crashed != nil {
				panic(explore.HarnessError{Msg: "crash in preparation"})
			}
			w.reconciling = ""
		}
	}
	events := []string{"reconcile-u1", "reconcile-u2", "create-u1", "create-u2", "delete-u1", "delete-u2", "delete-used", "delete-user", "gc", "clock", "recreate-user"}
	if form.composed {
		// The XR named by u1's composite label composes a Usage of that name:
		// its composer applies the rendered Usage the way composition_pt.go
		// does (real applicator, real apply options).
		events = append(events, "composite-applies-u1")
	}
	var trail []string
	refused, allowed := 0, 0
	for step := 0; step < depth; step++ {
		r.SeenRank(report.Hash(s.Canonical()), depth-step)
		ev := events[r.Free(len(events), fmt.Sprintf("ev%d", step))]
		desc := ev
		u1Completed := false
		switch ev {
		case "create-u1":
			if s.Peek(usageKey("u1")) == nil {
				_ = user.Create(ctx, mkUsage("u1", form))
			}
		case "create-u2":
			if s.Peek(usageKey("u2")) == nil {
				_ = user.Create(ctx, mkUsage("u2", u2form))
			}
		case "delete-u1", "delete-u2":
			n := strings.TrimPrefix(ev, "delete-")
			if s.Peek(usageKey(n)) != nil {
				// With foreground propagation the Usage lingers (terminating,
				// held by the garbage collector's finalizer) whether or not
				// the Usage controller has put its own finalizer on it yet.
				if r.Free(2, fmt.Sprintf("usage-delete-propagation%d(default,Foreground)", step)) == 1 {
					_ = user.Delete(ctx, mkUsage(n, form), client.PropagationPolicy(metav1.DeletePropagationForeground))
					desc = ev + " (foreground)"
				} else {
					_ = user.Delete(ctx, mkUsage(n, form))
				}
			}
		case "delete-user":
			_ = user.Delete(ctx, res(usingGK, "v1", "app"))
		case "recreate-user":
			// The using resource comes back under the same name: a new
			// object with a new UID.
			if s.Peek(simkube.ObjKey{Group: usingGK.Group, Kind: usingGK.Kind, Name: "app"}) == nil {
				na := res(usingGK, "v1", "app")
				na.SetLabels(map[string]string{"role": "app"})
				_ = user.Create(ctx, na)
			}
		case "composite-applies-u1":
			before := s.Peek(usageKey("u1"))
			if before != nil && before.GetDeletionTimestamp() != nil {
				continue
			}
			raw, err := runtime.DefaultUnstructuredConverter.ToUnstructured(mkUsage("u1", form))
			if err != nil {
				panic(err)
			}
			d := composed.New()
			d.Object = raw
			delete(d.Object, "status")
			t := true
			d.SetOwnerReferences([]metav1.OwnerReference{{APIVersion: "example.org/v1", Kind: "XThing", Name: "some-xr", UID: "some-xr-uid", Controller: &t, BlockOwnerDeletion: &t}})
			cc := s.Client("composite")
			aerr := resource.NewAPIPatchingApplicator(cc).Apply(ctx, d, resource.MustBeControllableBy("some-xr-uid"), usagectrl.RespectOwnerRefs())
			desc = fmt.Sprintf("%s err=%v", ev, aerr)
			if after := s.Peek(usageKey("u1")); before != nil && after != nil {
				for _, o := range before.GetOwnerReferences() {
					kept := false
					for _, a := range after.GetOwnerReferences() {
						kept = kept || a.UID == o.UID
					}
					if !kept {
						r.Failf("M5/owner-dropped-by-composite", "the composite's apply of Usage u1 removed its owner reference to %s %s (owners %v -> %v): a Usage owned by its using resource no longer is, so deleting the user does not release the used resource", o.Kind, o.Name, before.GetOwnerReferences(), after.GetOwnerReferences())
					}
				}
			}
		case "gc":
			s.GCRun()
		case "clock":
			time.Sleep(5 * time.Second)
		case "reconcile-u1", "reconcile-u2":
			n := strings.TrimPrefix(ev, "reconcile-")
			if s.Peek(usageKey(n)) == nil {
				continue
			}
			inj.Armed = true
			w.reconciling = n
			takenBefore := len(inj.Taken)
			out := xrh.Reconcile(rec, types.NamespacedName{Name: n})
			w.reconciling = ""
			inj.Armed = false
			u1Completed = n == "u1" && out.Err == nil && out.Crashed == nil && !out.Result.Requeue && len(inj.Taken) == takenBefore
			if out.Crashed != nil {
				rec = mkRec()
			}
			desc = fmt.Sprintf("%s err=%v crashed=%v", ev, out.Err, out.Crashed != nil)
		case "delete-used":
			if s.Peek(usedKey) == nil {
				continue
			}
			pol := []string{"", "Background", "Foreground", "Orphan"}[r.Free(4, fmt.Sprintf("policy%d", step))]
			ver := []string{"v1", "v2"}[r.Free(2, fmt.Sprintf("version%d", step))]
			dryRun := r.Free(2, fmt.Sprintf("dry-run%d", step)) == 1
			all, ready := w.usagesNaming()
			var opts []client.DeleteOption
			if pol != "" {
				opts = append(opts, client.PropagationPolicy(metav1.DeletionPropagation(pol)))
			}
			if dryRun {
				opts = append(opts, client.DryRunAll)
			}
			before := s.Peek(usedKey)
			err := user.Delete(ctx, res(usedGK, ver, "r"), opts...)
			after := s.Peek(usedKey)
			desc = fmt.Sprintf("DELETE used via %s policy=%q dry-run=%v -> err=%v (usages naming it %v, ready %v)", ver, pol, dryRun, err, all, ready)
			deleted := after == nil || (before.GetDeletionTimestamp() == nil && after.GetDeletionTimestamp() != nil)
			if len(ready) > 0 {
				if deleted || (err == nil && before.GetDeletionTimestamp() == nil) {
					r.Failf("M1/delete-allowed-while-in-use", "DELETE of the used resource through %s with policy %q (dry run: %v) was allowed although Usage(s) %v are ready and not being deleted", ver, pol, dryRun, ready)
				}
				want := pol
				if want == "" {
					want = "Background"
				}
				if got := after.GetAnnotations()[usage.AnnotationKeyDeletionAttempt]; got != want && err != nil {
					r.Failf("M2/attempt-not-recorded", "refused DELETE with policy %q was not recorded on the used resource (annotation %q)", pol, got)
				}
				refused++
			}
			if len(all) == 0 {
				if err != nil {
					r.Failf("M1/delete-refused-without-usage", "DELETE of a resource no Usage names was refused: %v (labels %v)", err, before.GetLabels())
				}
				allowed++
			}
		}
		trail = append(trail, desc)
		r.Logf("step %d: %s", step, desc)
		// S1: a selector names a resource it matches (labels and, when asked
		// for, the same controller): here that is r and never the decoy.
		if form.selector && u1Completed {
			if u := s.Peek(usageKey("u1")); u != nil {
				if n, _, _ := unstructured.NestedString(u.Object, "spec", "of", "resourceRef", "name"); n != "" && n != "r" {
					r.Failf("S1/selector-resolved-to-non-matching-resource", "Usage u1 selects resources labelled role=db (same controller required: %v) but was resolved to %q", form.matchCtrl, n)
				}
			}
		}
		// M5: a Usage by a resource is owned by it once ready.
		if form.by {
			if u := s.Peek(usageKey("u1")); u != nil {
				_, ready := w.usagesNaming()
				for _, n := range ready {
					if n != "u1" {
						continue
					}
					owned := false
					appNow := s.Peek(simkube.ObjKey{Group: usingGK.Group, Kind: usingGK.Kind, Name: "app"})
					for _, o := range u.GetOwnerReferences() {
						if o.Kind == usingGK.Kind && o.Name == "app" && (appNow == nil || o.UID == appNow.GetUID()) {
							owned = true
						}
					}
					// Judged right after a reconcile of u1 that found the using
					// resource: then the owner must be that very object.
					if !owned && (appNow == nil || u1Completed) {
						r.Failf("M5/not-owned-by-using", "Usage u1 by app is ready but is not owned by the using resource as it exists now (owners %v, app UID %v)", u.GetOwnerReferences(), func() any {
							if appNow == nil {
								return "<absent>"
							}
							return appNow.GetUID()
						}())
					}
				}
			}
		}
	}
	// Let any replay-deletion goroutine finish inside the bubble.
	time.Sleep(5 * time.Second)
	report.Settle()
	nt := ""
	if refused+allowed > 0 {
		nt = report.Hash(sc, trail)
	}
	rep.Eval(sc, report.Hash(refused, allowed, s.Peek(usedKey) == nil), nt)
	if rep.WantSample() && refused > 0 && allowed > 0 {
		rep.Sample(map[string]any{"scenario": sc, "trace": trail, "faults": inj.Taken})
	}
}

func TestCheck(t *testing.T) {
	rep := report.New("C19", "model_checking")
	rep.Meta(
		"States are API-server stores (used resource r with two served versions, using resource app, Usages u1 and u2); transitions are events {create/delete u1, create/delete u2, reconcile u1/u2 with the real usage.Reconciler (an API write fault or crash at any call, <=1 per sequence), DELETE r with propagation {unset, Background, Foreground, Orphan} through API version {v1, v2}, delete the using resource, garbage collector run, clock advance (replay-deletion)}; DELETE admission is dispatched to the real webhook Handler (with the real index function registered by SetupWebhookWithManager) according to the operations and objectSelector of cluster/webhookconfigurations/usage.yaml. Depth-bounded DFS with state-hash pruning ranked by remaining depth; u1 form enumerated: by reference / by selector / selector with controller match, with or without `by` (reference / selector), of-version v1 / v2, replayDeletion, composed (crossplane.io/composite label: deletion waits for the using resource); start states: u1 just created, or u1 and u2 both reconciled to Ready by the real reconciler. Thread-mode scenarios: the finalization of Usage u1 and the creation + reconciles of Usage u2 of the same resource run concurrently, all interleavings of their API calls with <= P preemptions. Monitors: M1 every DELETE is refused while some Usage naming r is Ready and not being deleted, and allowed when no Usage names r; M2 refused attempts are recorded; M3 marker before ready; M4 marker removed only by the last Usage (no other Usage naming r exists, terminating ones included); M5 Usage-by owned by the using resource.",
		[]string{"simkube models the API server, serving the used kind under any version", "admission webhook dispatch follows the repository's webhook configuration (operations, objectSelector); failurePolicy and TLS are not modelled"},
		[]string{"simkube", "controller-runtime admission types"},
	)
	depth := 4
	if report.Thorough() {
		depth = 6
	}
	rep.Bound("depth", depth)
	rep.Bound("max_faults", 1)
	var scs []report.Scenario
	forms := []usageForm{}
	for _, sel := range []int{0, 1, 2} {
		for _, by := range []int{0, 1, 2} {
			for _, v := range []string{"v1", "v2"} {
				for _, rp := range []bool{false, true} {
					if !report.Thorough() && (rp && (sel != 0 || by == 2) || sel == 1) {
						continue
					}
					forms = append(forms, usageForm{selector: sel > 0, matchCtrl: sel == 2, by: by > 0, bySelector: by == 2, ofVersion: v, replay: rp})
				}
			}
		}
	}
	for _, f := range forms {
		f := f
		name := fmt.Sprintf("u1/sel=%v,mc=%v,by=%v,bysel=%v,of=%s,replay=%v", f.selector, f.matchCtrl, f.by, f.bySelector, f.ofVersion, f.replay)
		scs = append(scs, report.Scenario{Name: name, Bound: 1, Prune: true, Wrap: report.Bubble(t), OnCut: report.DrainTimers, Body: func(r *explore.Run) { body(r, rep, name, depth, f, "") }})
	}
	// Composed Usages (their deletion waits for the using resource) and
	// histories that start with both Usages ready.
	for _, f := range []usageForm{
		{by: true, ofVersion: "v1", composed: true},
		{by: true, bySelector: true, ofVersion: "v2", composed: true},
		{by: true, ofVersion: "v1"},
		{ofVersion: "v1"},
		{selector: true, ofVersion: "v2", replay: true},
	} {
		f := f
		for _, prep := range []string{"", "both-ready"} {
			prep := prep
			if prep == "" && !f.composed {
				continue // already in the list above
			}
			name := fmt.Sprintf("u1/sel=%v,by=%v,bysel=%v,of=%s,replay=%v,composed=%v/start=%s", f.selector, f.by, f.bySelector, f.ofVersion, f.replay, f.composed, prep)
			scs = append(scs, report.Scenario{Name: name, Bound: 1, Prune: true, Wrap: report.Bubble(t), OnCut: report.DrainTimers, Body: func(r *explore.Run) { body(r, rep, name, depth, f, prep) }})
		}
	}
	// Concurrent reconciles of two Usages of one resource, interleaved at
	// their API calls.
	pb := 2
	if report.Thorough() {
		pb = 3
	}
	rep.Bound("preemptions", pb)
	for _, fs := range []struct {
		name   string
		f1, f2 usageForm
	}{
		{"ref+ref", usageForm{ofVersion: "v1"}, usageForm{ofVersion: "v1"}},
		{"ref+ref-other-version", usageForm{ofVersion: "v1"}, usageForm{ofVersion: "v2"}},
		{"ref+selector", usageForm{ofVersion: "v1"}, usageForm{selector: true, ofVersion: "v1"}},
		{"by+ref", usageForm{by: true, ofVersion: "v1"}, usageForm{ofVersion: "v1"}},
	} {
		fs := fs
		name := "interleave/finalize-u1+create-u2/" + fs.name
		scs = append(scs, report.Scenario{Name: name, Bound: pb, Wrap: report.Bubble(t), OnCut: report.DrainTimers, Body: func(r *explore.Run) { interleaveBody(r, rep, name, fs.f1, fs.f2, 2) }})
	}
	rep.SelfCheck(t, scs[0], nil)
	rep.RunScenarios(t, scs)
	rep.Write(t)
}
