package c19

import (
	"context"
	"fmt"
	"net/http"
	"strings"

	"k8s.io/apimachinery/pkg/types"
	"sigs.k8s.io/controller-runtime/pkg/webhook"

	"github.com/crossplane/crossplane-runtime/pkg/controller"
	"github.com/crossplane/crossplane-runtime/pkg/logging"

	usagectrl "github.com/crossplane/crossplane/internal/controller/apiextensions/usage"
	"github.com/crossplane/crossplane/internal/usage"
	"github.com/crossplane/crossplane/verif/explore"
	"github.com/crossplane/crossplane/verif/report"
	"github.com/crossplane/crossplane/verif/sched"
	"github.com/crossplane/crossplane/verif/simkube"
	"github.com/crossplane/crossplane/verif/xrh"
)

// interleaveBody: two Usage reconciles running concurrently (controller
// workers reconcile different Usages in parallel), interleaved at their API
// calls: Usage u1 of r is being deleted and finalized while Usage u2 of the
// same r is created and reconciled to Ready. All interleavings within the
// preemption bound are explored. Oracles: the marker is on r before u2 reports
// ready (M3); the marker is not removed while another Usage of r is Ready
// (M4); and at the end, if u2 is Ready, a DELETE of r is refused (M1).
func interleaveBody(r *explore.Run, rep *report.R, sc string, form, u2form usageForm, u2Rounds int) {
	xrh.BeginExecution(1)
	s := xrh.NewStore()
	w := &world{s: s, r: r, interleaved: true}
	srv := &fakeServer{hooks: map[string]http.Handler{}}
	mgr := &fakeMgr{c: s.Client("webhook"), srv: srv}
	if err := usage.SetupWebhookWithManager(mgr, controller.Options{Logger: logging.NewNopLogger()}); err != nil {
		panic(err)
	}
	adm, ok := srv.hooks["/validate-no-usages"].(*webhook.Admission)
	if !ok {
		panic(explore.HarnessError{Msg: "webhook handler not registered"})
	}
	w.handler = adm.Handler
	s.Admit = append(s.Admit, w.admit)
	used := res(usedGK, "v1", "r")
	used.SetLabels(map[string]string{"role": "db"})
	seedOwners(s, used, usageForm{matchCtrl: form.matchCtrl || u2form.matchCtrl})
	s.Seed(used)
	app := res(usingGK, "v1", "app")
	app.SetLabels(map[string]string{"role": "app"})
	s.Seed(app)
	recMgr := &fakeMgr{c: s.Client("usage"), srv: srv}
	rec1 := usagectrl.NewReconciler(recMgr)
	rec2 := usagectrl.NewReconciler(&fakeMgr{c: s.Client("usage2"), srv: srv})
	user := s.Client("user")
	ctx := context.Background()
	// Prepared: u1 Ready (marker placed), then its deletion is requested.
	_ = user.Create(ctx, mkUsage("u1", form))
	for i := 0; i < 2; i++ {
		xrh.Reconcile(rec1, types.NamespacedName{Name: "u1"})
	}
	if _, ready := w.usagesNaming(); len(ready) != 1 {
		panic(explore.HarnessError{Msg: "preparation: u1 is not ready"})
	}
	_ = user.Delete(ctx, mkUsage("u1", form))
	s.OnWrite = append(s.OnWrite, func(rec *simkube.WriteRecord) {
		defer func() {
			if p := recover(); p != nil {
				if f, ok := p.(explore.Failure); ok {
					sig, msg := f.Signature, f.Message
					// Classify the history: did the other Usage's reconcile
					// "mark" the used resource with a write that changed
					// nothing (the marker was already there), so that the
					// finalizing reconcile's stale update did not conflict?
					if strings.HasPrefix(sig, "M4/marker-removed-while-ready") || strings.HasPrefix(sig, "M3/ready-before-marker") {
						for _, wr := range s.Log {
							if wr.Call.Key == usedKey && wr.Call.Client == "usage2" && wr.Call.Verb == "update" && wr.Err == "" && !wr.Effective {
								sig += "/behind-no-op-marking-write"
								msg += " [the other Usage's reconcile had issued its marking update of the used resource, which changed nothing and so left the resourceVersion as the finalizing reconcile had read it]"
								break
							}
						}
					}
					r.FailLater(sig, "%s", msg)
					return
				}
				panic(p)
			}
		}()
		r.Logf("   write %s effective=%v err=%q", rec.Call, rec.Effective, rec.Err)
		w.onWrite(rec)
	})
	sch := sched.New(r)
	s.Inj = simkube.InjectorFn(func(c simkube.Call) simkube.Outcome {
		if c.Client == "usage" || c.Client == "usage2" || c.Client == "user2" {
			sch.Point(c.String())
		}
		return simkube.OK
	})
	sch.Spawn("finalize-u1", func() {
		w.reconciling = "u1"
		xrh.Reconcile(rec1, types.NamespacedName{Name: "u1"})
	})
	sch.Spawn("create+reconcile-u2", func() {
		_ = s.Client("user2").Create(ctx, mkUsage("u2", u2form))
		for i := 0; i < u2Rounds; i++ {
			xrh.Reconcile(rec2, types.NamespacedName{Name: "u2"})
		}
	})
	func() {
		defer func() { sch.Abort(); sch.Close(); s.Inj = nil }()
		sch.Run()
	}()
	if len(sch.Panics) > 0 {
		r.Failf("panic/interleaving", "thread panicked: %v", sch.Panics)
	}
	w.reconciling = ""
	r.Raise()
	// M1 at the end of the interleaving, before anything else reconciles.
	all, ready := w.usagesNaming()
	before := s.Peek(usedKey)
	outcome := "no-ready-usage"
	if len(ready) > 0 && before != nil {
		err := user.Delete(ctx, res(usedGK, "v1", "r"))
		after := s.Peek(usedKey)
		outcome = fmt.Sprintf("delete-refused=%v", err != nil)
		if err == nil || after == nil || after.GetDeletionTimestamp() != nil {
			r.Failf("M1/delete-allowed-while-in-use/interleaved", "after the concurrent finalization of u1 and creation of u2, Usage(s) %v are Ready but a DELETE of the used resource is allowed (labels of r: %v)", ready, before.GetLabels())
		}
	}
	nt := ""
	if r.Deviations() > 0 {
		nt = report.Hash(sc, r.Choices)
	}
	var seq []string
	for _, wr := range s.Log {
		if wr.Effective {
			seq = append(seq, wr.Call.Client+":"+wr.Call.Verb+wr.Call.Sub+":"+wr.Call.Key.Kind)
		}
	}
	rep.Eval(sc, report.Hash(outcome, len(all), strings.Join(seq, ";")), nt)
	if rep.WantSample() && r.Deviations() > 1 {
		rep.Sample(map[string]any{"scenario": sc, "schedule_choices": append([]int{}, r.Choices...), "effective_writes": seq, "end": outcome})
	}
}
