// C07: claim and XR exchange exactly the fields each side owns.
//
// Bounded exhaustive enumeration of claim / XR contents against the real
// claim reconciler (client-side syncer, server-side-apply syncer, and the
// client-side -> server-side upgrade path with the managed-fields upgrader)
// over the simkube API-server model: first sync, re-sync against an XR that
// has state of its own after a user edit of the claim, and a settling sync.
// The oracle is a reference partition of the field space transcribed from the
// property statement (oracle_test.go); stored objects are compared with it
// field by field.
package c07

import (
	"context"
	"fmt"
	"hash/fnv"
	"runtime/debug"
	"sort"
	"strings"
	"testing"

	corev1 "k8s.io/api/core/v1"
	metav1 "k8s.io/apimachinery/pkg/apis/meta/v1"
	"k8s.io/apimachinery/pkg/apis/meta/v1/unstructured"
	"k8s.io/apimachinery/pkg/types"
	"k8s.io/utils/ptr"
	"sigs.k8s.io/controller-runtime/pkg/reconcile"

	"github.com/crossplane/crossplane/verif/explore"
	"github.com/crossplane/crossplane/verif/report"
	"github.com/crossplane/crossplane/verif/simkube"
	"github.com/crossplane/crossplane/verif/xrh"
)

type config struct {
	mode      string // csa | ssa | upgrade
	family    string // fields | meta
	mach      machSet
	shape     int
	labels    int
	anns      int
	claimExt  bool
	xrExt     bool
	edit      int
	noSettle  bool
	statusVar int // 0: XR ready + claimConditionTypes, 1: XR ready, none listed, 2: XR not ready + listed
	xrEdits   int // family xr-edits: subset of xrEditNames the XR side writes after quiescence
}

var editNames = []string{"none", "modify-user-fields", "remove-user-fields", "complement-machinery", "change-machinery-values", "complement-labels"}

func (c config) String() string {
	if c.family == "xr-edits" {
		return fmt.Sprintf("mode=%s family=%s machinery=[%s] shape=%d claimExt=%v xr-side-writes=[%s]", c.mode, c.family, c.mach, c.shape, c.claimExt, xrEditString(c.xrEdits))
	}
	return fmt.Sprintf("mode=%s family=%s machinery=[%s] shape=%d labels=%s annotations=%s claimExt=%v xrExt=%v edit=%s xrStatus=%d",
		c.mode, c.family, c.mach, c.shape, keySetString(c.labels), keySetString(c.anns), c.claimExt, c.xrExt, editNames[c.edit], c.statusVar)
}

func (c config) nontrivial() bool {
	if c.family == "xr-edits" {
		return c.xrEdits != 0
	}
	return c.mach.nonEmpty() || hasSpecialKey(c.labels) || hasSpecialKey(c.anns)
}

var (
	nn       = types.NamespacedName{Namespace: "ns", Name: "c1"}
	claimKey = xrh.ClaimKey("ns", "c1")
	ctx      = context.Background()
)

func buildClaim(c config) *unstructured.Unstructured {
	spec := userSpec(c.shape)
	if c.shape == 1 || c.shape == 3 {
		junk(spec)
	}
	applyMach(spec, c.mach, 0, false)
	u := &unstructured.Unstructured{Object: map[string]any{"spec": spec}}
	u.SetGroupVersionKind(xrh.ClaimGVK)
	u.SetNamespace("ns")
	u.SetName("c1")
	if l := keyMap(c.labels, "v-"); len(l) > 0 {
		u.SetLabels(l)
	}
	a := keyMap(c.anns, "a-")
	if c.claimExt {
		a[extNameKey] = "claim-ext"
	}
	if len(a) > 0 {
		u.SetAnnotations(a)
	}
	admitClaim(u)
	for _, k := range []string{"claimRef", "resourceRefs", "notInSchema"} {
		if _, ok := specOf(u)[k]; ok {
			panic(explore.HarnessError{Msg: "pruning left unknown claim field " + k})
		}
	}
	return u
}

// editClaim is the user editing the stored claim between the syncs.
func editClaim(s *simkube.Store, c config) {
	s.Mutate(claimKey, func(u *unstructured.Unstructured) {
		spec := specOf(u)
		switch c.edit {
		case 1:
			editUserModify(spec)
		case 2:
			editUserRemove(spec)
		case 3:
			m := machSet{bits: ^c.mach.bits & 255, policy: (c.mach.policy + 2) % 3} // unset->Manual->Automatic->unset
			applyMach(spec, m, 0, true)
		case 4:
			applyMach(spec, c.mach, 1, true)
			if c.mach.policy != 0 {
				spec["compositionUpdatePolicy"] = policyNames[3-c.mach.policy]
			}
		case 5:
			full := 1<<len(metaKeys) - 1
			if l := keyMap(^c.labels&full, "v-"); len(l) > 0 {
				u.SetLabels(l)
			} else {
				u.SetLabels(nil)
			}
			a := keyMap(^c.anns&full, "a-")
			if e, ok := u.GetAnnotations()[extNameKey]; ok {
				a[extNameKey] = e
			}
			u.SetAnnotations(a)
		}
		admitClaim(u)
	})
}

func theXR(s *simkube.Store) *unstructured.Unstructured {
	xs := s.All(xrh.XRGVK.GroupKind())
	if len(xs) == 0 {
		return nil
	}
	if len(xs) > 1 {
		panic(explore.HarnessError{Msg: "more than one XR"})
	}
	return xs[0]
}

func cond(t, status, reason string) map[string]any {
	return map[string]any{"type": t, "status": status, "reason": sentinelReason + reason, "lastTransitionTime": "2001-01-01T00:00:00Z"}
}

// xrSide plays the XR reconciler (and whatever else writes the XR): composed
// resource references, the XR's own connection secret, composition selection,
// an external name, a user field only the XR has, and status.
func xrSide(s *simkube.Store, c config) {
	cl := s.Client("xr")
	xr := theXR(s)
	if xr == nil {
		panic(explore.HarnessError{Msg: "no XR after the first sync"})
	}
	spec := specOf(xr)
	spec["resourceRefs"] = []any{
		map[string]any{"apiVersion": "res.example.org/v1", "kind": "ResA", "name": "a-1"},
		map[string]any{"apiVersion": "res.example.org/v1", "kind": "ResB", "name": "b-1"},
	}
	spec["writeConnectionSecretToRef"] = map[string]any{"namespace": "crossplane-system", "name": "xr-conn"}
	if _, ok := spec["compositionRef"]; !ok {
		spec["compositionRef"] = map[string]any{"name": "comp-selected"}
	}
	// The XR reconciler follows the latest revision unless the policy is
	// Manual and a revision is already set.
	if _, ok := spec["compositionRevisionRef"]; !(ok && spec["compositionUpdatePolicy"] == "Manual") {
		spec["compositionRevisionRef"] = map[string]any{"name": "rev-latest"}
	}
	spec["xrOnly"] = "x-only"
	l := xr.GetLabels()
	if l == nil {
		l = map[string]string{}
	}
	l["crossplane.io/composite"] = xr.GetName()
	xr.SetLabels(l)
	if c.xrExt {
		a := xr.GetAnnotations()
		if a == nil {
			a = map[string]string{}
		}
		a[extNameKey] = "xr-ext"
		xr.SetAnnotations(a)
	}
	if err := cl.Update(ctx, xr); err != nil {
		panic(explore.HarnessError{Msg: "XR side update: " + err.Error()})
	}
	ready := "True"
	if c.statusVar == 2 {
		ready = "False"
	}
	st := map[string]any{
		"out":   "o1",
		"count": int64(0),
		// User status fields named like members of the bookkeeping entries.
		"message": "u-message", "reason": "u-reason", "type": "u-type", "status": "u-status", "lastPublishedTime": "u-time",
		"nestedOut": map[string]any{
			"conditions":          []any{map[string]any{"type": "UserCond", "status": "True"}},
			"connectionDetails":   map[string]any{"lastPublishedTime": "user-value"},
			"claimConditionTypes": []any{"UserListed"},
		},
		"conditions": []any{
			cond("Ready", ready, "Available"), cond("Synced", "True", "ReconcileSuccess"),
			cond("DatabaseReady", "True", "Custom"), cond("Unlisted", "True", "Unlisted"),
		},
		"connectionDetails": map[string]any{"lastPublishedTime": xrPublishedTime},
	}
	if c.statusVar != 1 {
		st["claimConditionTypes"] = []any{"DatabaseReady"}
	}
	xr.Object["status"] = st
	if err := cl.Status().Update(ctx, xr); err != nil {
		panic(explore.HarnessError{Msg: "XR side status update: " + err.Error()})
	}
	// The XR's connection secret, controlled by the XR.
	s.Seed(&corev1.Secret{
		TypeMeta: metav1.TypeMeta{APIVersion: "v1", Kind: "Secret"},
		ObjectMeta: metav1.ObjectMeta{Namespace: "crossplane-system", Name: "xr-conn", OwnerReferences: []metav1.OwnerReference{{
			APIVersion: xr.GetAPIVersion(), Kind: xr.GetKind(), Name: xr.GetName(), UID: xr.GetUID(), Controller: ptr.To(true), BlockOwnerDeletion: ptr.To(true),
		}}},
		Data: map[string][]byte{"endpoint": []byte("e")},
	})
}

// xrStatusMoves is the XR controller reporting different values for status
// fields the claim already shows (scalars, a list, nested fields).
func xrStatusMoves(s *simkube.Store) {
	xr := theXR(s)
	if xr == nil {
		return
	}
	st, _ := xr.Object["status"].(map[string]any)
	if st == nil {
		return
	}
	st["out"] = "o2"
	st["count"] = int64(7)
	st["list"] = []any{"only"}
	if n, ok := st["nestedOut"].(map[string]any); ok {
		n["connectionDetails"] = map[string]any{"lastPublishedTime": "user-value-2"}
	}
	if err := s.Client("xr").Status().Update(ctx, xr); err != nil {
		panic(explore.HarnessError{Msg: "XR side second status update: " + err.Error()})
	}
}

// counted holds the (case, phase) pairs already reported to rep.Eval.
var counted = map[string]bool{}

type runner struct {
	r     *explore.Run
	rep   *report.R
	sc    string
	c     config
	s     *simkube.Store
	viols []viol
}

func (w *runner) sync(phase string, rec reconcile.Reconciler, ssa bool, cprev *unstructured.Unstructured) *unstructured.Unstructured {
	cin := w.s.Peek(claimKey)
	x0 := theXR(w.s)
	out := xrh.Reconcile(rec, nn)
	if out.Err != nil || out.Crashed != nil {
		w.viols = append(w.viols, viol{"reconcile-error/" + phase, fmt.Sprintf("[%s %s] claim reconcile failed: %v", w.c.mode, phase, out.Err)})
	}
	o := syncObs{mode: w.c.mode, ssa: ssa, phase: phase, cin: cin, cprev: cprev, x0: x0, c1: w.s.Peek(claimKey), x1: theXR(w.s)}
	vs := oracle(o)
	w.viols = append(w.viols, vs...)
	w.r.Logf("%s: claim spec in %s", phase, compact(specOf(cin)))
	if len(vs) > 0 {
		w.r.Logf("%s: XR before %s", phase, compact(objView(x0)))
		w.r.Logf("%s: XR after  %s", phase, compact(objView(o.x1)))
		w.r.Logf("%s: claim after %s", phase, compact(objView(o.c1)))
	}
	// Evidence.
	var propagated []string
	if o.x1 != nil {
		for k := range o.x1.GetLabels() {
			propagated = append(propagated, "l:"+k)
		}
		for k := range o.x1.GetAnnotations() {
			propagated = append(propagated, "a:"+k)
		}
	}
	sort.Strings(propagated)
	outcome := report.Hash(phase, ssa, sortedKeys(specOf(o.x1)), sortedKeys(specOf(o.c1)), sortedKeys(statusOf(o.c1)), propagated, len(vs))
	// A violating execution is replayed twice by the explorer to confirm
	// it; count every (case, phase) once.
	id := report.Hash(w.c.String(), phase)
	nt := ""
	if w.c.nontrivial() {
		nt = id
	}
	if !counted[id] {
		counted[id] = true
		w.rep.Eval(w.sc+"#"+phase, outcome, nt)
	}
	if nt != "" && phase == "resync" && w.c.edit != 0 && w.rep.WantSample() {
		w.rep.Sample(map[string]any{"config": w.c.String(), "phase": phase, "claim_in": objView(cin), "xr_before": objView(x0), "xr_after": objView(o.x1), "claim_after": objView(o.c1), "deviations": len(vs)})
	}
	return cin
}

// objView is the part of an object the property talks about.
func objView(u *unstructured.Unstructured) map[string]any {
	if u == nil {
		return nil
	}
	return map[string]any{"name": u.GetName(), "labels": u.GetLabels(), "annotations": u.GetAnnotations(), "spec": u.Object["spec"], "status": u.Object["status"]}
}

func run(r *explore.Run, rep *report.R, sc string, c config) {
	xrh.BeginExecution(7)
	r.Logf("case: %s", c)
	s := xrh.NewStore()
	s.Admit = append(s.Admit, dropNulls)
	s.Seed(xrd)
	s.Seed(buildClaim(c))
	cl := s.Client("claim")
	csa := xrh.NewClaimReconciler(xrd, cl, false)
	ssa := xrh.NewClaimReconciler(xrd, cl, true)
	first, firstSSA := reconcile.Reconciler(csa), false
	later, laterSSA := reconcile.Reconciler(ssa), true
	switch c.mode {
	case "ssa":
		first, firstSSA = ssa, true
	case "csa":
		later, laterSSA = csa, false
	}
	w := &runner{r: r, rep: rep, sc: sc, c: c, s: s}

	// One reconciler (and syncer) instance serves every claim of the kind:
	// before the case's own claim, the same instances sync other claims - one
	// per update policy - which are then removed again. Whatever those syncs
	// leave behind lives in the instances, not in the cluster.
	for _, rc := range []struct {
		rec reconcile.Reconciler
		tag string
	}{{csa, "csa"}, {ssa, "ssa"}} {
		for _, pol := range []string{"Manual", "Automatic"} {
			o := &unstructured.Unstructured{Object: map[string]any{"spec": map[string]any{
				"param": "other", "compositionUpdatePolicy": pol,
				"compositionRef":         map[string]any{"name": "other-comp"},
				"compositionRevisionRef": map[string]any{"name": "other-comp-rev1"},
			}}}
			o.SetGroupVersionKind(xrh.ClaimGVK)
			o.SetNamespace("ns")
			o.SetName("zz-other-" + rc.tag + "-" + strings.ToLower(pol))
			s.Seed(o)
			on := types.NamespacedName{Namespace: "ns", Name: o.GetName()}
			xrh.Reconcile(rc.rec, on)
			xrh.Reconcile(rc.rec, on)
			for _, x := range s.All(xrh.XRGVK.GroupKind()) {
				s.Remove(simkube.KeyOf(x))
			}
			s.Remove(simkube.KeyOf(o))
		}
	}

	c0 := w.sync("first", first, firstSSA, nil)
	if theXR(s) != nil {
		xrSide(s, c)
		editClaim(s, c)
		c2 := w.sync("resync", later, laterSSA, c0)
		if !c.noSettle {
			// The XR's status moves on: the claim has to follow.
			xrStatusMoves(s)
			w.sync("settle", later, laterSSA, c2)
		}
	}

	w.fail()
}

// fail reports the deviations collected by the syncs of one case.
func (w *runner) fail() {
	if len(w.viols) == 0 {
		return
	}
	// Several deviations may co-occur; report one of the distinct signatures,
	// chosen by the case (deterministic), so that no signature is
	// systematically masked by another.
	var sigs []string
	seen := map[string]bool{}
	for _, v := range w.viols {
		if !seen[v.sig] {
			seen[v.sig] = true
			sigs = append(sigs, v.sig)
		}
	}
	h := fnv.New32a()
	fmt.Fprint(h, w.r.Choices)
	pick := sigs[int(h.Sum32())%len(sigs)]
	for _, v := range w.viols {
		if v.sig == pick {
			w.r.Failf(v.sig, "%s  {case: %s; all deviations in this case: %s}", v.msg, w.c, strings.Join(sigs, ", "))
		}
	}
}

type space struct {
	mach   []machSet
	labels []int
	anns   []int
}

// fieldsBody: machinery subset x user shape x edit x environment. The
// environment is (external names of claim / XR) x (XR status variant): the
// full 4 x 3 product with envFull, else four pairs covering every value of
// each.
func fieldsBody(mode string, machs []machSet, envFull bool, rep *report.R, sc string) func(r *explore.Run) {
	return func(r *explore.Run) {
		c := config{mode: mode, family: "fields", labels: fieldsFamilyKeys, anns: fieldsFamilyKeys}
		c.mach = machs[r.Free(len(machs), "machinery")]
		c.shape = r.Free(nShapes, "user-shape")
		c.edit = r.Free(5, "edit")
		var e int
		if envFull {
			env := r.Free(12, "env")
			e, c.statusVar = env%4, env/4
		} else {
			e = r.Free(4, "env")
			c.statusVar = []int{0, 1, 2, 0}[e]
		}
		c.claimExt, c.xrExt = e&1 != 0, e&2 != 0
		run(r, rep, sc, c)
	}
}

// metaBody: label key subset x annotation key subset x (external names,
// label edit); the user spec alternates between {param} and empty. The
// settling sync is skipped except in upgrade mode (where the second
// server-side reconcile completes the managed-fields upgrade).
func metaBody(mode string, sp space, rep *report.R, sc string) func(r *explore.Run) {
	return func(r *explore.Run) {
		c := config{mode: mode, family: "meta"}
		li := r.Free(len(sp.labels), "labels")
		ai := r.Free(len(sp.anns), "annotations")
		c.labels, c.anns = sp.labels[li], sp.anns[ai]
		// (external names, label edit) pairs covering every value of each.
		ee := [][2]int{{0, 0}, {3, 5}, {1, 5}, {2, 0}}[r.Free(4, "extnames-edit")]
		c.claimExt, c.xrExt, c.edit = ee[0]&1 != 0, ee[0]&2 != 0, ee[1]
		if (li+ai)%2 == 1 {
			c.shape = 4
		}
		c.noSettle = mode != "upgrade"
		run(r, rep, sc, c)
	}
}

func TestCheck(t *testing.T) {
	debug.SetGCPercent(400)
	rep := report.New("C07", "exploration")
	rep.Meta(
		"Every case is a claim that is a valid instance of the claim CRD generated (internal/xcrd) from an XRD with user fields {param, count, nested{resourceRef,claimRef,compositionRef,writeConnectionSecretToRef,compositeDeletePolicy,resourceRefs}, free (preserve-unknown), items[], xrOnly; status out,count,nestedOut{conditions,connectionDetails,claimConditionTypes}}: unknown top-level spec fields (claimRef, resourceRefs, ...) are pruned with the real structural-schema pruning, defaults applied, the result validated. Family 'fields': machinery subset x user-field shape x edit x environment (external names of claim / XR paired with XR status variant; the full 4x3 product in 'fields-env' on the quick machinery list); family 'meta': label key subset x annotation key subset x (external names, label edit) with the user spec alternating {param}/empty. Thorough: all 768 machinery subsets and all 512 label / annotation key subsets (one side full, the other reduced to none/each alone/all) for modes csa and ssa; mode upgrade uses the quick alphabets in both tiers. Each case runs the real claim reconciler three times: first sync (no XR), then the XR side writes its own state (resourceRefs, its own writeConnectionSecretToRef, selected compositionRef / compositionRevisionRef, external name, an XR-only user field, status with user fields + conditions + connectionDetails + claimConditionTypes) and the user edits the claim, re-sync, settle; for mode csa, ssa, and upgrade (first sync client-side, later syncs server-side with the managed-fields upgrader). After every sync the stored claim and XR are compared field by field with the reference partition. Non-trivial: the claim has at least one machinery field or a reserved / near-miss label or annotation key; distinct by (case, phase).",
		[]string{
			"simkube models the API server (real structured-merge-diff for server-side apply, JSON merge patch, status subresource); it does not prune writes, so what the syncer sends is what is stored (stricter than a pruning server)",
			"removal of a field from the claim is required to reach the XR only in mode ssa (a merge patch cannot delete; known limitation of the client-side syncer and of the upgrade path)",
			"user spec fields that exist only on the XR may flow back to the claim (late initialisation): don't care",
			"with the update policy unset the direction of compositionRevisionRef is not constrained",
			"the XR side is played by the harness (one Update + one status Update as field manager 'crossplane'), not by the XR reconciler",
		},
		[]string{"simkube", "structured-merge-diff (real)", "k8s.io/apiextensions-apiserver pruning / defaulting / validation (real)", "internal/xcrd CRD generation (for the claim schema only)"},
	)
	for _, n := range driftNotes() {
		rep.Note("%s", n)
	}
	sp := space{mach: quickMachSets(), labels: reducedKeySets(), anns: reducedKeySets()}
	if report.Thorough() {
		sp.mach = allMachSets()
	}
	rep.Bound("machinery_sets", len(sp.mach))
	rep.Bound("machinery_sets_upgrade_mode", len(quickMachSets()))
	rep.Bound("user_shapes", nShapes)
	rep.Bound("label_keys", len(metaKeys))
	rep.Bound("syncs_per_case", 3)
	rep.Bound("modes", []string{"csa", "ssa", "upgrade"})

	// A scenario name fixes its alphabet (so that a recorded violation
	// replays in either tier): fields / meta use the quick alphabets,
	// fields-all / fields-env / meta-labels / meta-annotations the full ones.
	quickSp := space{mach: quickMachSets(), labels: reducedKeySets(), anns: reducedKeySets()}
	var rest []int
	for _, a := range allKeySets() {
		if !isReducedKeySet(a) {
			rest = append(rest, a)
		}
	}
	scenarios := func(thorough bool) []report.Scenario {
		var list []report.Scenario
		for _, mode := range []string{"csa", "ssa", "upgrade"} {
			mode := mode
			add := func(name string, body func(sc string) func(r *explore.Run)) {
				sc := mode + "/" + name
				list = append(list, report.Scenario{Name: sc, Bound: 0, Wrap: report.Bubble(t), Body: body(sc)})
			}
			// The upgrade path differs from ssa only in the managed-fields
			// handling: it gets the quick alphabets in both tiers.
			if !thorough || mode == "upgrade" {
				add("fields", func(sc string) func(r *explore.Run) { return fieldsBody(mode, quickSp.mach, false, rep, sc) })
				if thorough {
					add("fields-env", func(sc string) func(r *explore.Run) { return fieldsBody(mode, quickSp.mach, true, rep, sc) })
				}
				add("meta", func(sc string) func(r *explore.Run) { return metaBody(mode, quickSp, rep, sc) })
				if mode != "upgrade" {
					add("xr-side-edits", func(sc string) func(r *explore.Run) { return xrEditsBody(mode, rep, sc) })
				}
				continue
			}
			add("fields-all", func(sc string) func(r *explore.Run) { return fieldsBody(mode, allMachSets(), false, rep, sc) })
			add("fields-env", func(sc string) func(r *explore.Run) { return fieldsBody(mode, quickSp.mach, true, rep, sc) })
			// Every label subset with the reduced annotation sets, and every
			// annotation subset (not already covered) with the reduced label
			// sets.
			spL := space{labels: allKeySets(), anns: reducedKeySets()}
			spA := space{labels: reducedKeySets(), anns: rest}
			add("meta-labels", func(sc string) func(r *explore.Run) { return metaBody(mode, spL, rep, sc) })
			add("meta-annotations", func(sc string) func(r *explore.Run) { return metaBody(mode, spA, rep, sc) })
			add("xr-side-edits", func(sc string) func(r *explore.Run) { return xrEditsBody(mode, rep, sc) })
		}
		list = append(list, report.Scenario{Name: "user-edits-during-first-reconcile", Bound: 0, Wrap: report.Bubble(t), Body: func(r *explore.Run) { bindBody(r, rep, "user-edits-during-first-reconcile") }})
		return list
	}
	list := scenarios(report.Thorough())
	if *report.ReplayF != "" {
		// Replay looks a scenario up by name: offer those of both tiers.
		seen := map[string]bool{}
		for _, sc := range list {
			seen[sc.Name] = true
		}
		for _, sc := range scenarios(!report.Thorough()) {
			if !seen[sc.Name] {
				list = append(list, sc)
			}
		}
	}
	if report.Thorough() {
		rep.Bound("label_sets", 1<<len(metaKeys))
		rep.Bound("annotation_sets", 1<<len(metaKeys))
	} else {
		rep.Bound("label_sets", len(sp.labels))
		rep.Bound("annotation_sets", len(sp.anns))
	}
	rep.SelfCheck(t, list[0], func() { counted = map[string]bool{} })
	rep.RunScenarios(t, list)
	rep.Write(t)
}
