package c07

import (
	"encoding/json"
	"fmt"
	"sort"
	"strings"

	"k8s.io/apiextensions-apiserver/pkg/apis/apiextensions"
	extv1 "k8s.io/apiextensions-apiserver/pkg/apis/apiextensions/v1"
	structuralschema "k8s.io/apiextensions-apiserver/pkg/apiserver/schema"
	"k8s.io/apiextensions-apiserver/pkg/apiserver/schema/defaulting"
	"k8s.io/apiextensions-apiserver/pkg/apiserver/schema/pruning"
	apivalidation "k8s.io/apiextensions-apiserver/pkg/apiserver/validation"
	"k8s.io/apimachinery/pkg/apis/meta/v1/unstructured"
	"k8s.io/apimachinery/pkg/runtime"

	v1 "github.com/crossplane/crossplane/apis/apiextensions/v1"
	"github.com/crossplane/crossplane/verif/explore"
	"github.com/crossplane/crossplane/verif/simkube"
	"github.com/crossplane/crossplane/verif/xrh"
)

// userSchema is the user part of the XRD: a scalar, an integer, an object
// whose property names collide with Crossplane machinery names one level
// down, a free-form object, a list of objects, and a field only the XR side
// ever sets. Status: a scalar, an integer and an object whose property names
// collide with the status bookkeeping names.
const userSchema = `{"type":"object","properties":{
 "spec":{"type":"object","properties":{
  "param":{"type":"string"},
  "count":{"type":"integer"},
  "nested":{"type":"object","properties":{
    "resourceRef":{"type":"object","properties":{"name":{"type":"string"}}},
    "claimRef":{"type":"object","properties":{"name":{"type":"string"}}},
    "compositionRef":{"type":"object","properties":{"name":{"type":"string"}}},
    "writeConnectionSecretToRef":{"type":"object","properties":{"name":{"type":"string"}}},
    "compositeDeletePolicy":{"type":"string"},
    "resourceRefs":{"type":"array","items":{"type":"object","properties":{"name":{"type":"string"}}}}}},
  "free":{"type":"object","x-kubernetes-preserve-unknown-fields":true},
  "items":{"type":"array","items":{"type":"object","properties":{"name":{"type":"string"},"resourceRef":{"type":"object","properties":{"name":{"type":"string"}}}}}},
  "xrOnly":{"type":"string"},
  "name":{"type":"string"},
  "type":{"type":"string"},
  "namespace":{"type":"string"},
  "kind":{"type":"string"},
  "labels":{"type":"object","x-kubernetes-preserve-unknown-fields":true},
  "metadata":{"type":"object","x-kubernetes-preserve-unknown-fields":true},
  "matchLabels":{"type":"object","x-kubernetes-preserve-unknown-fields":true}}},
 "status":{"type":"object","properties":{
  "out":{"type":"string"},
  "count":{"type":"integer"},
  "message":{"type":"string"},
  "reason":{"type":"string"},
  "type":{"type":"string"},
  "status":{"type":"string"},
  "lastPublishedTime":{"type":"string"},
  "nestedOut":{"type":"object","properties":{
    "conditions":{"type":"array","items":{"type":"object","properties":{"type":{"type":"string"},"status":{"type":"string"}}}},
    "connectionDetails":{"type":"object","properties":{"lastPublishedTime":{"type":"string"}}},
    "claimConditionTypes":{"type":"array","items":{"type":"string"}}}}}}}}`

// userSpecKeys / userStatusKeys are the top-level user-defined fields of the
// schema above (the oracle's notion of "user-defined").
var (
	userSpecKeys   = []string{"param", "count", "nested", "free", "items", "xrOnly", "name", "type", "namespace", "kind", "labels", "metadata", "matchLabels"}
	userStatusKeys = []string{"out", "count", "nestedOut", "message", "reason", "type", "status", "lastPublishedTime"}
)

func makeXRD() *v1.CompositeResourceDefinition {
	x := xrh.XRD()
	x.Spec.Versions[0].Schema = &v1.CompositeResourceValidation{OpenAPIV3Schema: runtime.RawExtension{Raw: []byte(userSchema)}}
	return x
}

type crdSchema struct {
	structural *structuralschema.Structural
	validator  apivalidation.SchemaValidator
}

func schemaOf(crd *extv1.CustomResourceDefinition) crdSchema {
	for _, v := range crd.Spec.Versions {
		if !v.Storage {
			continue
		}
		in := &apiextensions.JSONSchemaProps{}
		if err := extv1.Convert_v1_JSONSchemaProps_To_apiextensions_JSONSchemaProps(v.Schema.OpenAPIV3Schema, in, nil); err != nil {
			panic(err)
		}
		ss, err := structuralschema.NewStructural(in)
		if err != nil {
			panic(err)
		}
		val, _, err := apivalidation.NewSchemaValidator(in)
		if err != nil {
			panic(err)
		}
		return crdSchema{structural: ss, validator: val}
	}
	panic("no storage version")
}

var (
	xrd                = makeXRD()
	xrCRD, claimCRD    = xrh.CRDs(xrd)
	claimSchema        = schemaOf(claimCRD)
	xrSchema           = schemaOf(xrCRD)
	prunedProbeChecked bool
)

func init() { xrh.UseXRDSchemas(xrd) }

// admitClaim makes obj what the API server would have stored for it: unknown
// fields pruned with the real structural-schema pruning of the generated
// claim CRD, defaults applied, then validated (an invalid generated claim is
// a harness error, never a verdict).
func admitClaim(u *unstructured.Unstructured) {
	pruning.Prune(u.Object, claimSchema.structural, true)
	defaulting.PruneNonNullableNullsWithoutDefaults(u.Object, claimSchema.structural)
	defaulting.Default(u.Object, claimSchema.structural)
	// Validation looks at the object without metadata noise.
	if errs := apivalidation.ValidateCustomResource(nil, u.Object, claimSchema.validator); len(errs) > 0 {
		panic(explore.HarnessError{Msg: fmt.Sprintf("generated claim is not a valid instance of the claim CRD: %v", errs.ToAggregate())})
	}
}

// dropNulls is the one piece of the API server's schema coercion the store
// applies to every write of a claim or XR: nulls of non-nullable fields are
// removed (unstructuredSchemaCoercer). Unknown fields are deliberately NOT
// pruned on writes, so that whatever a syncer sends stays visible.
func dropNulls(op *simkube.AdmissionOp) error {
	if op.New == nil {
		return nil
	}
	switch op.Key.Kind {
	case xrh.ClaimGVK.Kind:
		defaulting.PruneNonNullableNullsWithoutDefaults(op.New.Object, claimSchema.structural)
	case xrh.XRGVK.Kind:
		defaulting.PruneNonNullableNullsWithoutDefaults(op.New.Object, xrSchema.structural)
	}
	return nil
}

// ---- alphabets ------------------------------------------------------------

// The nine claim machinery fields of the statement. Bits 0..7 of a machinery
// set select the first eight; the update policy has three values.
var machBits = []string{
	"compositionRef", "compositionSelector", "compositionRevisionRef", "compositionRevisionSelector",
	"compositeDeletePolicy", "resourceRef", "writeConnectionSecretToRef", "publishConnectionDetailsTo",
}

const (
	bCompRef = 1 << iota
	bCompSel
	bRevRef
	bRevSel
	bDelPol
	bResRef
	bWCSTR
	bPCDT
)

type machSet struct {
	bits   int
	policy int // 0 unset, 1 Automatic, 2 Manual
}

func (m machSet) String() string {
	var p []string
	for i, n := range machBits {
		if m.bits&(1<<i) != 0 {
			p = append(p, n)
		}
	}
	p = append(p, "policy="+[]string{"unset", "Automatic", "Manual"}[m.policy])
	return strings.Join(p, ",")
}

func (m machSet) nonEmpty() bool { return m.bits != 0 || m.policy != 0 }

func allMachSets() []machSet {
	var out []machSet
	for p := 0; p < 3; p++ {
		for b := 0; b < 256; b++ {
			out = append(out, machSet{b, p})
		}
	}
	return out
}

func quickMachSets() []machSet {
	out := []machSet{{0, 0}}
	for i := range machBits {
		out = append(out, machSet{1 << i, 0})
	}
	out = append(out, machSet{0, 1}, machSet{0, 2},
		machSet{255, 0}, machSet{255, 1}, machSet{255, 2},
		machSet{bRevRef, 1}, machSet{bRevRef, 2},
		machSet{bCompRef | bCompSel, 0}, machSet{bWCSTR | bPCDT | bDelPol, 2})
	return out
}

const presetXRName = "c1-preset"

func machValue(field string, variant int) any {
	sfx := ""
	if variant == 1 {
		sfx = "-v2"
	}
	switch field {
	case "compositionRef":
		return map[string]any{"name": "comp-claim" + sfx}
	case "compositionSelector":
		return map[string]any{"matchLabels": map[string]any{"tier": "gold" + sfx}}
	case "compositionRevisionRef":
		return map[string]any{"name": "rev-claim" + sfx}
	case "compositionRevisionSelector":
		return map[string]any{"matchLabels": map[string]any{"channel": "stable" + sfx}}
	case "compositeDeletePolicy":
		if variant == 1 {
			return "Background"
		}
		return "Foreground"
	case "resourceRef":
		return map[string]any{"apiVersion": xrh.XRGVK.GroupVersion().String(), "kind": xrh.XRGVK.Kind, "name": presetXRName}
	case "writeConnectionSecretToRef":
		return map[string]any{"name": "claim-secret" + sfx}
	case "publishConnectionDetailsTo":
		return map[string]any{"name": "claim-pub" + sfx, "metadata": map[string]any{"labels": map[string]any{"pub": "yes"}}}
	}
	panic(field)
}

var policyNames = []string{"", "Automatic", "Manual"}

// applyMach sets the machinery fields of m on spec and removes the optional
// ones not in m. resourceRef is only ever removed by first-sync generation:
// once the system has set it the user edits leave it alone (keepResRef).
func applyMach(spec map[string]any, m machSet, variant int, keepResRef bool) {
	for i, f := range machBits {
		if f == "resourceRef" && keepResRef {
			continue
		}
		if m.bits&(1<<i) != 0 {
			spec[f] = machValue(f, variant)
		} else {
			delete(spec, f)
		}
	}
	if m.policy == 0 {
		delete(spec, "compositionUpdatePolicy")
	} else {
		spec["compositionUpdatePolicy"] = policyNames[m.policy]
	}
}

// User spec shapes.
const nShapes = 4

func userSpec(shape int) map[string]any {
	spec := map[string]any{}
	nested := func() map[string]any {
		return map[string]any{
			"resourceRef":                map[string]any{"name": "u-rr"},
			"claimRef":                   map[string]any{"name": "u-cr"},
			"compositionRef":             map[string]any{"name": "u-comp"},
			"writeConnectionSecretToRef": map[string]any{"name": "u-wcs"},
			"compositeDeletePolicy":      "u-cdp",
			"resourceRefs":               []any{map[string]any{"name": "u-r1"}, map[string]any{"name": "u-r2"}},
		}
	}
	items := func() []any {
		return []any{
			map[string]any{"name": "i1", "resourceRef": map[string]any{"name": "i-rr"}},
			map[string]any{"name": "i2"},
		}
	}
	switch shape {
	case 0:
		spec["param"] = "p1"
	case 1:
		spec["param"] = "p1"
		spec["nested"] = nested()
		spec["free"] = map[string]any{"claimRef": map[string]any{"name": "f-cr"}, "resourceRefs": "f-scalar", "deep": map[string]any{"compositionRef": "f-deep"}}
		spec["name"] = "u-name"
		spec["type"] = "u-type"
		spec["labels"] = map[string]any{"tier": "u-tier"}
	case 2:
		spec["items"] = items()
		spec["count"] = int64(0)
	case 3:
		spec["param"] = "p1"
		spec["count"] = int64(3)
		spec["nested"] = nested()
		spec["free"] = map[string]any{"writeConnectionSecretToRef": map[string]any{"name": "f-w"}}
		spec["items"] = items()
		spec["name"] = "u-name"
		spec["namespace"] = "u-ns"
		spec["kind"] = "u-kind"
		spec["metadata"] = map[string]any{"labels": map[string]any{"a": "b"}}
		spec["matchLabels"] = map[string]any{"tier": "u-gold"}
	case 4: // empty user spec (meta family)
	}
	return spec
}

// junk adds top-level spec fields the claim CRD does not know (they are named
// like XR-side machinery); the API server prunes them, so must admitClaim.
func junk(spec map[string]any) {
	spec["claimRef"] = map[string]any{"apiVersion": "v1", "kind": "Bogus", "namespace": "evil", "name": "bogus"}
	spec["resourceRefs"] = []any{map[string]any{"apiVersion": "v1", "kind": "Bogus", "name": "bogus"}}
	spec["notInSchema"] = "x"
}

// editUserModify changes values of the user fields present and adds one.
func editUserModify(spec map[string]any) {
	if _, ok := spec["param"]; ok {
		spec["param"] = "p2"
	}
	if n, ok := spec["nested"].(map[string]any); ok {
		n["resourceRef"] = map[string]any{"name": "u-rr-2"}
		n["compositeDeletePolicy"] = "u-cdp-2"
	}
	if it, ok := spec["items"].([]any); ok && len(it) > 0 {
		it[0] = map[string]any{"name": "i1b", "resourceRef": map[string]any{"name": "i-rr-2"}}
		spec["items"] = append(it, map[string]any{"name": "i3"})
	}
	spec["count"] = int64(7)
	if _, ok := spec["name"]; ok {
		spec["name"] = "u-name-2"
	}
}

// editUserRemove removes user fields (whole fields and nested members).
func editUserRemove(spec map[string]any) {
	delete(spec, "param")
	delete(spec, "count")
	delete(spec, "free")
	delete(spec, "type")
	delete(spec, "kind")
	if n, ok := spec["nested"].(map[string]any); ok {
		delete(n, "claimRef")
		delete(n, "writeConnectionSecretToRef")
		delete(n, "resourceRefs")
	}
	if it, ok := spec["items"].([]any); ok && len(it) > 1 {
		spec["items"] = it[:1]
	}
}

// Label / annotation key alphabet with the class each key stands for.
type keyClass struct{ key, class string }

var metaKeys = []keyClass{
	{"team", "plain"},
	{"example.org/x", "other-domain"},
	{"kubernetes.io/x", "reserved-kubernetes.io"},
	{"app.kubernetes.io/name", "reserved-subdomain-kubernetes.io"},
	{"x.k8s.io/y", "reserved-subdomain-k8s.io"},
	{"kubectl.kubernetes.io/last-applied-configuration", "reserved-kubectl"},
	{"mykubernetes.io/x", "near-miss-kubernetes.io"},
	{"notk8s.io/y", "near-miss-k8s.io"},
	{"k8s.io", "bare-name-no-prefix"},
}

func classOf(key string) string {
	for _, k := range metaKeys {
		if k.key == key {
			return k.class
		}
	}
	if strings.HasPrefix(key, "crossplane.io/") {
		return "crossplane.io"
	}
	return "other"
}

// Key sets are bit masks over metaKeys.
func allKeySets() []int {
	out := make([]int, 0, 1<<len(metaKeys))
	for i := 0; i < 1<<len(metaKeys); i++ {
		out = append(out, i)
	}
	return out
}

func reducedKeySets() []int {
	out := []int{0}
	for i := range metaKeys {
		out = append(out, 1<<i)
	}
	return append(out, 1<<len(metaKeys)-1)
}

func isReducedKeySet(s int) bool {
	for _, x := range reducedKeySets() {
		if x == s {
			return true
		}
	}
	return false
}

func keySetString(s int) string {
	var p []string
	for i, k := range metaKeys {
		if s&(1<<i) != 0 {
			p = append(p, k.key)
		}
	}
	return "{" + strings.Join(p, " ") + "}"
}

func keyMap(set int, valuePrefix string) map[string]string {
	m := map[string]string{}
	for i, k := range metaKeys {
		if set&(1<<i) != 0 {
			m[k.key] = fmt.Sprintf("%s%d", valuePrefix, i)
		}
	}
	return m
}

// fieldsFamilyKeys is the fixed key set of the "fields" family: one key per
// class that is not covered by a suspected defect (the meta family covers
// every class).
const fieldsFamilyKeys = 1<<0 | 1<<1 | 1<<2 | 1<<4

func hasSpecialKey(set int) bool { return set&^(1<<0|1<<1) != 0 }

// ---- small helpers -----------------------------------------------------------

func compact(v any) string {
	b, _ := json.Marshal(v)
	return string(b)
}

func sortedKeys[V any](m map[string]V) []string {
	out := make([]string, 0, len(m))
	for k := range m {
		out = append(out, k)
	}
	sort.Strings(out)
	return out
}

func specOf(u *unstructured.Unstructured) map[string]any {
	if u == nil {
		return nil
	}
	m, _ := u.Object["spec"].(map[string]any)
	return m
}

func statusOf(u *unstructured.Unstructured) map[string]any {
	if u == nil {
		return nil
	}
	m, _ := u.Object["status"].(map[string]any)
	return m
}
