package c07

import (
	"strings"

	"sigs.k8s.io/controller-runtime/pkg/reconcile"

	"github.com/crossplane/crossplane/verif/explore"
	"github.com/crossplane/crossplane/verif/report"
	"github.com/crossplane/crossplane/verif/xrh"
)

// The XR-side writes of the xr-side-edits scenario: each is something the
// property says the XR owns (and, for the first three, that flows XR -> claim).
var xrEditNames = []string{"external-name", "compositionRef", "compositionRevisionRef", "resourceRefs", "status"}

func xrEditString(set int) string {
	var p []string
	for i, n := range xrEditNames {
		if set&(1<<i) != 0 {
			p = append(p, n)
		}
	}
	return strings.Join(p, ",")
}

// Machinery of the claim in the xr-side-edits scenario: every combination of
// (claim selected its composition itself or not) x (update policy) that
// decides whether compositionRef / compositionRevisionRef flow back.
func xrEditMachSets() []machSet {
	return []machSet{{0, 0}, {bCompRef, 0}, {0, 1}, {bCompRef, 1}, {bRevRef, 1}, {bRevRef, 2}, {bCompRef | bRevRef, 2}}
}

// xrEditsBody: the claim is synced until nothing changes any more (first sync
// plus one more), so that the next claim -> XR pass has nothing to write. Then
// the XR side writes a subset of what it owns - possibly only metadata, or
// only status, on an XR that is otherwise exactly what the claim propagated -
// and the claim is re-synced twice. Every sync is judged by the reference
// partition: whether claim -> XR had anything to write says nothing about
// whether the XR has something for the claim.
func xrEditsBody(mode string, rep *report.R, sc string) func(r *explore.Run) {
	machs := xrEditMachSets()
	return func(r *explore.Run) {
		c := config{mode: mode, family: "xr-edits", labels: 1, anns: 1}
		c.mach = machs[r.Free(len(machs), "machinery")]
		c.xrEdits = r.Free(1<<len(xrEditNames), "xr-side-writes")
		c.claimExt = r.Bool("claim-external-name")
		c.xrExt = c.xrEdits&1 != 0
		xrh.BeginExecution(7)
		r.Logf("case: %s", c)
		s := xrh.NewStore()
		s.Admit = append(s.Admit, dropNulls)
		s.Seed(xrd)
		s.Seed(buildClaim(c))
		isSSA := mode == "ssa"
		rec := reconcile.Reconciler(xrh.NewClaimReconciler(xrd, s.Client("claim"), isSSA))
		w := &runner{r: r, rep: rep, sc: sc, c: c, s: s}

		c0 := w.sync("first", rec, isSSA, nil)
		if theXR(s) == nil {
			w.fail()
			return
		}
		c1 := w.sync("quiesce", rec, isSSA, c0)
		xrSideSubset(w, c.xrEdits)
		c2 := w.sync("after-xr-write", rec, isSSA, c1)
		w.sync("after-xr-write-2", rec, isSSA, c2)
		w.fail()
	}
}

// xrSideSubset is the XR side writing the chosen subset of its own state.
func xrSideSubset(w *runner, set int) {
	if set == 0 {
		return
	}
	cl := w.s.Client("xr")
	xr := theXR(w.s)
	if xr == nil {
		panic(explore.HarnessError{Msg: "no XR"})
	}
	on := func(name string) bool {
		for i, n := range xrEditNames {
			if n == name {
				return set&(1<<i) != 0
			}
		}
		panic(name)
	}
	spec := specOf(xr)
	if on("external-name") {
		a := xr.GetAnnotations()
		if a == nil {
			a = map[string]string{}
		}
		a[extNameKey] = "xr-ext"
		xr.SetAnnotations(a)
	}
	if on("compositionRef") {
		// The XR reconciler selects a composition only when none is set.
		if _, ok := spec["compositionRef"]; !ok {
			spec["compositionRef"] = map[string]any{"name": "comp-selected"}
		}
	}
	if on("compositionRevisionRef") {
		// The XR reconciler follows the latest revision unless the policy is
		// Manual and a revision is already set.
		if _, ok := spec["compositionRevisionRef"]; !(ok && spec["compositionUpdatePolicy"] == "Manual") {
			spec["compositionRevisionRef"] = map[string]any{"name": "rev-latest"}
		}
	}
	if on("resourceRefs") {
		spec["resourceRefs"] = []any{
			map[string]any{"apiVersion": "res.example.org/v1", "kind": "ResA", "name": "a-1"},
		}
	}
	if set&^(1<<4) != 0 {
		if err := cl.Update(ctx, xr); err != nil {
			panic(explore.HarnessError{Msg: "XR side update: " + err.Error()})
		}
	}
	if on("status") {
		xr.Object["status"] = map[string]any{
			"out": "o1",
			"conditions": []any{
				cond("Ready", "True", "Available"), cond("Synced", "True", "ReconcileSuccess"),
			},
			"connectionDetails": map[string]any{"lastPublishedTime": xrPublishedTime},
		}
		if err := cl.Status().Update(ctx, xr); err != nil {
			panic(explore.HarnessError{Msg: "XR side status update: " + err.Error()})
		}
	}
}
