package c07

import (
	"fmt"

	"k8s.io/apimachinery/pkg/apis/meta/v1/unstructured"
	"k8s.io/apimachinery/pkg/types"

	"github.com/crossplane/crossplane/verif/explore"
	"github.com/crossplane/crossplane/verif/report"
	"github.com/crossplane/crossplane/verif/simkube"
	"github.com/crossplane/crossplane/verif/xrh"
)

// bindBody: the user edits the claim while its first reconcile is in flight.
// A new claim (its own external name, a user field) is being reconciled when,
// just before the k-th API call of that reconcile, the user binds it to a
// statically provisioned XR that has another external name and its own
// values (or, as a control, edits a user field). The reconciler read the
// claim before that edit and the XR never; whatever it does with its stale
// view, after the reconciles that follow each side must hold what it owns:
// the XR keeps its external name (and the claim learns it), the claim's user
// fields reach the XR.
func bindBody(r *explore.Run, rep *report.R, sc string) {
	ssa := r.Bool("server-side-syncer")
	at := 1 + r.Free(8, "user-edits-before-call")
	edit := []string{"binds-to-static-xr", "edits-user-field"}[r.Free(2, "user")]
	xrh.BeginExecution(7)
	s := xrh.NewStore()
	s.Admit = append(s.Admit, dropNulls)
	s.Seed(xrd)
	cm := xrh.Claim("ns", "c1")
	cm.SetAnnotations(map[string]string{extNameKey: "name-the-claim-asks-for"})
	s.Seed(cm)
	x := xrh.XR("x-static", "comp")
	x.SetAnnotations(map[string]string{extNameKey: "name-the-xr-already-has"})
	_ = unstructured.SetNestedField(x.Object, "xr-own", "spec", "xrOnly")
	s.Seed(x)
	cl := s.Client("claim")
	rec := xrh.NewClaimReconciler(xrd, cl, ssa)
	n, done := 0, false
	s.Inj = simkube.InjectorFn(func(c simkube.Call) simkube.Outcome {
		if done || c.Client != "claim" {
			return simkube.OK
		}
		n++
		if n != at {
			return simkube.OK
		}
		done = true
		s.Mutate(claimKey, func(u *unstructured.Unstructured) {
			switch edit {
			case "binds-to-static-xr":
				_ = unstructured.SetNestedMap(u.Object, map[string]any{"apiVersion": xrh.XRGVK.GroupVersion().String(), "kind": xrh.XRGVK.Kind, "name": "x-static"}, "spec", "resourceRef")
			case "edits-user-field":
				_ = unstructured.SetNestedField(u.Object, "p-edited", "spec", "param")
			}
		})
		return simkube.OK
	})
	nnC := types.NamespacedName{Namespace: "ns", Name: "c1"}
	first := xrh.Reconcile(rec, nnC)
	s.Inj = nil
	for i := 0; i < 4; i++ {
		xrh.Reconcile(rec, nnC)
	}
	c1 := s.Peek(claimKey)
	xs := s.All(xrh.XRGVK.GroupKind())
	r.Logf("ssa=%v user %s before call %d (happened %v): first reconcile err=%v; %d XR(s); claim ext %q ref %v", ssa, edit, at, done, first.Err, len(xs), c1.GetAnnotations()[extNameKey], specOf(c1)["resourceRef"])
	if edit == "binds-to-static-xr" && done {
		st := s.Peek(simkube.ObjKey{Group: xrh.XRGVK.Group, Kind: xrh.XRGVK.Kind, Name: "x-static"})
		if st == nil {
			r.Failf("bind-during-first-reconcile/static-xr-gone", "the statically provisioned XR was deleted")
		}
		ref, _, _ := unstructured.NestedString(c1.Object, "spec", "resourceRef", "name")
		if ref == "x-static" {
			if got := st.GetAnnotations()[extNameKey]; got != "name-the-xr-already-has" {
				r.Failf("xr<-claim/external-name-overwritten/bound-during-first-reconcile", "the claim was bound to XR x-static (external name %q) just before call %d of its first reconcile; afterwards the XR's external name is %q (the claim's own)", "name-the-xr-already-has", at, got)
			}
			if got := c1.GetAnnotations()[extNameKey]; got != "name-the-xr-already-has" {
				r.Failf("xr->claim/external-name-not-propagated/bound-during-first-reconcile", "the claim is bound to XR x-static whose external name is %q, but after five reconciles the claim still says %q", "name-the-xr-already-has", got)
			}
			if v, _, _ := unstructured.NestedString(st.Object, "spec", "xrOnly"); v != "xr-own" {
				r.Failf("xr<-claim/xr-field-lost/bound-during-first-reconcile", "XR x-static lost its own spec.xrOnly (%q)", v)
			}
		}
	}
	if edit == "edits-user-field" && done {
		for _, x := range xs {
			if x.GetName() == "x-static" {
				continue
			}
			if v, _, _ := unstructured.NestedString(x.Object, "spec", "param"); v != "p-edited" {
				r.Failf("claim->xr/stale-user-field/edited-during-first-reconcile", "the user set spec.param=p-edited just before call %d of the first reconcile; after five reconciles XR %s has %q", at, x.GetName(), v)
			}
		}
	}
	nt := ""
	if done {
		nt = report.Hash(sc, ssa, at, edit)
	}
	rep.Eval(sc, report.Hash(done, first.Err != nil, len(xs)), nt)
	_ = fmt.Sprint
	_ = explore.HarnessError{}
}
