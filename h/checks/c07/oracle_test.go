package c07

import (
	"fmt"
	"reflect"
	"sort"
	"strings"

	"k8s.io/apimachinery/pkg/apis/meta/v1/unstructured"

	"github.com/crossplane/crossplane/internal/xcrd"
)

// ---- the reference partition, transcribed from the property statement ------
//
// These lists are deliberately hard-coded (not derived from internal/xcrd):
// the code under test filters with the xcrd tables, the oracle must not.
// driftNotes() compares them with xcrd so that drift is visible as a note.

// Fields Crossplane adds to every claim spec.
var refClaimMachinery = []string{
	"compositionRef", "compositionSelector", "compositionRevisionRef", "compositionRevisionSelector",
	"compositionUpdatePolicy", "compositeDeletePolicy", "resourceRef", "writeConnectionSecretToRef",
	"publishConnectionDetailsTo",
}

// Fields Crossplane adds to every XR spec.
var refXRMachinery = []string{
	"compositionRef", "compositionSelector", "compositionRevisionRef", "compositionRevisionSelector",
	"compositionUpdatePolicy", "claimRef", "resourceRefs", "writeConnectionSecretToRef",
	"publishConnectionDetailsTo",
}

// Composition selection fields that always flow claim -> XR.
// (compositionRevisionRef is selection too, but its direction depends on the
// update policy: Manual = the claim is authoritative, Automatic = the XR is.)
var refSelection = []string{"compositionRef", "compositionSelector", "compositionRevisionSelector", "compositionUpdatePolicy"}

// Claim-only machinery that must never be stored in an XR spec as the
// claim's value.
var refClaimOnly = []string{"resourceRef", "writeConnectionSecretToRef", "publishConnectionDetailsTo", "compositeDeletePolicy"}

// Status bookkeeping that never flows XR -> claim.
var refStatusBookkeeping = []string{"conditions", "connectionDetails", "claimConditionTypes"}

const (
	extNameKey      = "crossplane.io/external-name"
	claimNameLabel  = "crossplane.io/claim-name"
	claimNSLabel    = "crossplane.io/claim-namespace"
	xrPublishedTime = "2001-02-03T04:05:06Z" // sentinel: the XR's own connectionDetails.lastPublishedTime
	sentinelReason  = "XRSentinel"           // prefix of the reason of every condition the XR side sets
)

func in(list []string, k string) bool {
	for _, x := range list {
		if x == k {
			return true
		}
	}
	return false
}

func sameSet(a, b []string) bool {
	a, b = append([]string{}, a...), append([]string{}, b...)
	sort.Strings(a)
	sort.Strings(b)
	return reflect.DeepEqual(a, b)
}

// driftNotes reports differences between the hard-coded partition and the
// tables the code under test uses.
func driftNotes() []string {
	var out []string
	chk := func(name string, ref, got []string) {
		if !sameSet(ref, got) {
			g := append([]string{}, got...)
			sort.Strings(g)
			out = append(out, fmt.Sprintf("partition drift: %s in internal/xcrd is %v, the oracle's list (from the statement) is %v", name, g, ref))
		}
	}
	chk("CompositeResourceClaimSpecProps", refClaimMachinery, xcrd.GetPropFields(xcrd.CompositeResourceClaimSpecProps()))
	chk("CompositeResourceSpecProps", refXRMachinery, xcrd.GetPropFields(xcrd.CompositeResourceSpecProps()))
	chk("CompositeResourceStatusProps", refStatusBookkeeping, xcrd.GetPropFields(xcrd.CompositeResourceStatusProps()))
	chk("PropagateSpecProps", refSelection, xcrd.PropagateSpecProps)
	return out
}

// reservedRef: a label / annotation key is Kubernetes-reserved when it has a
// prefix (the part before "/") that is the domain kubernetes.io or k8s.io or
// a subdomain of one of them. A key without a prefix is private to the user.
func reservedRef(key string) bool {
	i := strings.Index(key, "/")
	if i < 0 {
		return false
	}
	p := key[:i]
	for _, d := range []string{"kubernetes.io", "k8s.io"} {
		if p == d || strings.HasSuffix(p, "."+d) {
			return true
		}
	}
	return false
}

// ---- structural comparison ------------------------------------------------------

type delta struct {
	kind string // dropped | altered | extra
	path string
	want any
	got  any
}

func leafEqual(a, b any) bool {
	if reflect.DeepEqual(a, b) {
		return true
	}
	return compact(a) == compact(b)
}

// diff compares got against want. Every member of want must be in got with
// the same value (lists are compared as a whole). With exact, got may not
// have members want lacks.
func diff(want any, got any, present bool, path string, exact bool, out *[]delta) {
	if !present {
		*out = append(*out, delta{"dropped", path, want, nil})
		return
	}
	wm, ok := want.(map[string]any)
	if !ok {
		if !leafEqual(want, got) {
			p := path
			if _, isList := want.([]any); isList {
				p += "[]"
			}
			*out = append(*out, delta{"altered", p, want, got})
		}
		return
	}
	gm, ok := got.(map[string]any)
	if !ok {
		*out = append(*out, delta{"altered", path, want, got})
		return
	}
	for _, k := range sortedKeys(wm) {
		gv, has := gm[k]
		diff(wm[k], gv, has, path+"."+k, exact, out)
	}
	if exact {
		for _, k := range sortedKeys(gm) {
			if _, has := wm[k]; !has {
				*out = append(*out, delta{"extra", path + "." + k, nil, gm[k]})
			}
		}
	}
}

// ---- the oracle ---------------------------------------------------------------------

type syncObs struct {
	mode  string                     // csa | ssa | upgrade (client-side for the first sync, server-side afterwards)
	ssa   bool                       // the syncer that ran this sync
	phase string                     // first | resync | settle
	cin   *unstructured.Unstructured // the claim as stored when the reconcile started
	cprev *unstructured.Unstructured // the claim input of the previous sync (nil at first sync)
	x0    *unstructured.Unstructured // the XR as stored when the reconcile started (nil at first sync)
	c1    *unstructured.Unstructured // the stored claim afterwards
	x1    *unstructured.Unstructured // the stored XR afterwards
}

type viol struct{ sig, msg string }

func has(m map[string]any, k string) bool { _, ok := m[k]; return ok }

// oracle evaluates one sync against the reference partition and returns
// every deviation, each with a stable signature.
func oracle(o syncObs) []viol {
	var vs []viol
	add := func(sig, f string, a ...any) {
		vs = append(vs, viol{sig, fmt.Sprintf("[%s %s] ", o.mode, o.phase) + fmt.Sprintf(f, a...)})
	}
	if o.x1 == nil || o.c1 == nil {
		add("bind/object-missing", "after the sync claim present=%v XR present=%v", o.c1 != nil, o.x1 != nil)
		return vs
	}
	// Removal of a field from the claim reaches the XR only with server-side
	// apply throughout (a JSON merge patch of the client-side syncer cannot
	// delete, and the CSA->SSA upgrade orphans earlier fields): the oracle
	// demands it only then.
	strict := o.mode == "ssa"
	cs, xs, x0s, c1s, cps := specOf(o.cin), specOf(o.x1), specOf(o.x0), specOf(o.c1), specOf(o.cprev)
	if xs == nil {
		xs = map[string]any{}
	}
	if c1s == nil {
		c1s = map[string]any{}
	}

	// ---------- (a) claim -> XR: spec ----------
	for _, k := range userSpecKeys {
		cv, inClaim := cs[k]
		xv, inXR := xs[k]
		switch {
		case inClaim:
			var ds []delta
			diff(cv, xv, inXR, k, strict, &ds)
			for _, d := range ds {
				switch d.kind {
				case "extra":
					add("claim->xr/stale-user-field/"+d.path, "XR spec.%s = %s but the claim no longer has that member", d.path, compact(d.got))
				default:
					add("claim->xr/"+d.kind+"-user-field/"+d.path, "claim spec.%s = %s but the stored XR has %s", d.path, compact(d.want), compact(d.got))
				}
			}
		case inXR && strict && has(cps, k) && !has(x0sOwn(o), k):
			add("claim->xr/stale-user-field/"+k, "XR spec.%s = %s was asserted by the claim earlier; the claim no longer has it", k, compact(xv))
		}
	}
	for _, k := range sortedKeys(xs) {
		if !in(userSpecKeys, k) && !in(refXRMachinery, k) {
			add("claim->xr/leaked/"+k, "stored XR spec has %s = %s, which is not an XR field (claim spec.%s = %s)", k, compact(xs[k]), k, compact(cs[k]))
		}
	}
	// The XR's own connection secret settings.
	for _, k := range []string{"writeConnectionSecretToRef", "publishConnectionDetailsTo"} {
		xv, inXR := xs[k]
		x0v, inX0 := x0s[k]
		if inXR == inX0 && (!inXR || leafEqual(xv, x0v)) {
			continue
		}
		switch {
		case inXR && has(cs, k) && leafEqual(xv, cs[k]):
			add("claim->xr/leaked/"+k, "stored XR spec.%s = %s is the claim's own setting (XR had %s before)", k, compact(xv), compact(x0v))
		case inX0:
			add("resync/xr-owned-lost/"+k, "XR spec.%s was %s before the sync and is %s after", k, compact(x0v), compact(xv))
		default:
			add("claim->xr/leaked/"+k, "stored XR spec.%s = %s appeared during the sync (claim has %s)", k, compact(xv), compact(cs[k]))
		}
	}
	// Composed resource references.
	if xv, x0v := xs["resourceRefs"], x0s["resourceRefs"]; !leafEqual(xv, x0v) {
		if has(x0s, "resourceRefs") {
			add("resync/xr-owned-lost/resourceRefs", "XR spec.resourceRefs was %s before the sync and is %s after", compact(x0v), compact(xv))
		} else {
			add("claim->xr/leaked/resourceRefs", "XR spec.resourceRefs = %s appeared during the sync", compact(xv))
		}
	}
	// claimRef points at the claim.
	wantRef := map[string]any{"apiVersion": o.cin.GetAPIVersion(), "kind": o.cin.GetKind(), "namespace": o.cin.GetNamespace(), "name": o.cin.GetName()}
	if !leafEqual(xs["claimRef"], wantRef) {
		sig := "claim->xr/claimRef-wrong"
		if o.x0 != nil && leafEqual(x0s["claimRef"], wantRef) {
			sig = "resync/xr-owned-lost/claimRef"
		}
		add(sig, "XR spec.claimRef = %s, want %s", compact(xs["claimRef"]), compact(wantRef))
	}
	// Selection fields.
	for _, k := range refSelection {
		cv, inClaim := cs[k]
		xv, inXR := xs[k]
		switch {
		case inClaim && !inXR:
			add("claim->xr/dropped-selection/"+k, "claim spec.%s = %s is not in the stored XR", k, compact(cv))
		case inClaim && !leafEqual(cv, xv):
			add("claim->xr/altered-selection/"+k, "claim spec.%s = %s but XR has %s", k, compact(cv), compact(xv))
		case !inClaim && k == "compositionRef":
			// The XR's own selection is the XR's.
			if has(x0s, k) && !leafEqual(xv, x0s[k]) && !(has(cps, k) && leafEqual(x0s[k], cps[k])) {
				add("resync/xr-owned-lost/compositionRef", "the claim has no compositionRef; the XR's selected %s became %s", compact(x0s[k]), compact(xv))
			}
		case !inClaim && inXR && strict && has(cps, k):
			add("claim->xr/stale-selection/"+k, "XR spec.%s = %s was asserted by the claim earlier; the claim no longer has it", k, compact(xv))
		}
	}
	// compositionRevisionRef: its direction depends on the update policy.
	// Manual: the claim is authoritative (claim -> XR). Automatic: the XR is
	// (XR -> claim). The policy itself flows claim -> XR, so while the claim's
	// policy and the one the XR carried into this sync differ (the user just
	// changed it) the direction is not constrained; at the first sync there
	// is no XR and the claim's policy is the only one.
	policy, _ := cs["compositionUpdatePolicy"].(string)
	x0Policy, _ := x0s["compositionUpdatePolicy"].(string)
	eff := "transition"
	if o.x0 == nil || policy == x0Policy {
		eff = policy
	}
	const rev = "compositionRevisionRef"
	claimDerived := func(v any) bool {
		return has(cs, rev) && leafEqual(v, cs[rev]) || has(cps, rev) && leafEqual(v, cps[rev])
	}
	switch eff {
	case "Manual":
		if has(cs, rev) && !leafEqual(xs[rev], cs[rev]) {
			sig := "claim->xr/dropped-selection/compositionRevisionRef-under-manual"
			if o.x0 == nil {
				sig += "/first-sync"
			}
			add(sig, "policy Manual: claim spec.compositionRevisionRef = %s but the stored XR has %s", compact(cs[rev]), compact(xs[rev]))
		}
	case "Automatic":
		switch {
		case leafEqual(xs[rev], x0s[rev]):
		case has(xs, rev) && has(cs, rev) && leafEqual(xs[rev], cs[rev]):
			add("claim->xr/leaked/compositionRevisionRef-under-automatic", "policy Automatic: the XR's revision %s was replaced by the claim's %s", compact(x0s[rev]), compact(cs[rev]))
		case has(x0s, rev) && !claimDerived(x0s[rev]):
			add("resync/xr-owned-lost/compositionRevisionRef", "policy Automatic: the XR's own revision was %s and is %s", compact(x0s[rev]), compact(xs[rev]))
		}
	default:
		if has(xs, rev) && !leafEqual(xs[rev], x0s[rev]) && !(has(cs, rev) && leafEqual(xs[rev], cs[rev])) {
			add("claim->xr/unexpected/compositionRevisionRef", "XR revision was %s and is %s, which is neither the XR's nor the claim's (%s)", compact(x0s[rev]), compact(xs[rev]), compact(cs[rev]))
		}
	}

	// ---------- (a) claim -> XR: labels and annotations ----------
	metaCheck := func(what string, cl, cpl, xl, x0l map[string]string) {
		for _, k := range sortedKeys(cl) {
			if k == extNameKey {
				continue
			}
			xv, inXR := xl[k]
			if reservedRef(k) {
				if _, before := x0l[k]; inXR && !before {
					add(what+"/reserved-propagated/"+classOf(k), "reserved %s key %q of the claim was copied to the XR", what, k)
				}
				continue
			}
			if !inXR || xv != cl[k] {
				add(what+"/unreserved-dropped/"+classOf(k), "%s key %q = %q of the claim is not Kubernetes-reserved but the XR has %q (present=%v)", what, k, cl[k], xv, inXR)
			}
		}
		if strict {
			for _, k := range sortedKeys(cpl) {
				if _, still := cl[k]; still || k == extNameKey || reservedRef(k) {
					continue
				}
				if _, inXR := xl[k]; inXR {
					add(what+"/stale-after-removal/"+classOf(k), "%s key %q was removed from the claim but is still on the XR", what, k)
				}
			}
		}
		// What the XR side put there itself stays.
		for _, k := range sortedKeys(x0l) {
			if _, fromClaim := cl[k]; fromClaim || k == extNameKey {
				continue
			}
			if _, prev := cpl[k]; prev {
				continue
			}
			if xl[k] != x0l[k] {
				add("resync/xr-owned-lost/"+what, "XR %s key %q = %q became %q", what, k, x0l[k], xl[k])
			}
		}
	}
	var cpLabels, cpAnn, x0Labels, x0Ann map[string]string
	if o.cprev != nil {
		cpLabels, cpAnn = o.cprev.GetLabels(), o.cprev.GetAnnotations()
	}
	if o.x0 != nil {
		x0Labels, x0Ann = o.x0.GetLabels(), o.x0.GetAnnotations()
	}
	metaCheck("labels", o.cin.GetLabels(), cpLabels, o.x1.GetLabels(), x0Labels)
	metaCheck("annotations", o.cin.GetAnnotations(), cpAnn, o.x1.GetAnnotations(), x0Ann)
	if l := o.x1.GetLabels(); l[claimNameLabel] != o.cin.GetName() || l[claimNSLabel] != o.cin.GetNamespace() {
		add("labels/claim-labels-missing", "XR labels %v do not name the claim", l)
	}
	// External name.
	claimExt, x0Ext, x1Ext := o.cin.GetAnnotations()[extNameKey], x0Ann[extNameKey], o.x1.GetAnnotations()[extNameKey]
	switch {
	case x0Ext != "" && x1Ext != x0Ext:
		add("resync/xr-owned-lost/external-name", "the XR's existing external name %q became %q (claim has %q)", x0Ext, x1Ext, claimExt)
	case x0Ext == "" && claimExt != "" && x1Ext != claimExt:
		add("annotations/unreserved-dropped/external-name", "the claim's external name %q did not reach the XR (XR has %q)", claimExt, x1Ext)
	}

	// ---------- (b) XR -> claim: metadata ----------
	if !reflect.DeepEqual(nonEmpty(o.c1.GetLabels()), nonEmpty(o.cin.GetLabels())) {
		add("xr->claim/leaked/metadata-labels", "claim labels changed from %v to %v", o.cin.GetLabels(), o.c1.GetLabels())
	}
	wantAnn := nonEmpty(o.cin.GetAnnotations())
	wantExt := claimExt
	if x1Ext != "" {
		wantExt = x1Ext
	}
	if wantExt != "" {
		wantAnn[extNameKey] = wantExt
	}
	gotAnn := nonEmpty(o.c1.GetAnnotations())
	if gotAnn[extNameKey] != wantExt {
		add("xr->claim/missing/external-name", "the XR's external name is %q; the claim has %q (had %q)", x1Ext, gotAnn[extNameKey], claimExt)
	}
	delete(gotAnn, extNameKey)
	delete(wantAnn, extNameKey)
	if !reflect.DeepEqual(gotAnn, wantAnn) {
		add("xr->claim/leaked/metadata-annotations", "claim annotations changed from %v to %v", o.cin.GetAnnotations(), o.c1.GetAnnotations())
	}

	// ---------- (b) XR -> claim: spec ----------
	for _, k := range sortedKeys(c1s) {
		if !in(refClaimMachinery, k) && !in(userSpecKeys, k) {
			add("xr->claim/leaked/"+k, "stored claim spec has %s = %s, which is not a claim field (XR spec.%s = %s)", k, compact(c1s[k]), k, compact(xs[k]))
		}
	}
	for _, k := range []string{"writeConnectionSecretToRef", "publishConnectionDetailsTo", "compositeDeletePolicy"} {
		if has(cs, k) == has(c1s, k) && leafEqual(cs[k], c1s[k]) {
			continue
		}
		if has(xs, k) && leafEqual(c1s[k], xs[k]) {
			add("xr->claim/leaked/"+k, "claim spec.%s was %s and is now the XR's %s", k, compact(cs[k]), compact(c1s[k]))
		} else {
			add("xr->claim/altered-claim-field/"+k, "claim spec.%s was %s and is %s", k, compact(cs[k]), compact(c1s[k]))
		}
	}
	wantRR := map[string]any{"apiVersion": o.x1.GetAPIVersion(), "kind": o.x1.GetKind(), "name": o.x1.GetName()}
	if !leafEqual(c1s["resourceRef"], wantRR) {
		add("bind/resourceRef-wrong", "claim spec.resourceRef = %s, want %s", compact(c1s["resourceRef"]), compact(wantRR))
	}
	if has(cs, "compositionRef") {
		if !leafEqual(c1s["compositionRef"], cs["compositionRef"]) {
			add("xr->claim/overwritten/compositionRef", "the claim's own compositionRef %s became %s", compact(cs["compositionRef"]), compact(c1s["compositionRef"]))
		}
	} else {
		// The claim adopts the composition the XR carried into (or out of)
		// this sync.
		got, hasGot := c1s["compositionRef"]
		fromX1 := has(xs, "compositionRef") && hasGot && leafEqual(got, xs["compositionRef"])
		fromX0 := has(x0s, "compositionRef") && hasGot && leafEqual(got, x0s["compositionRef"])
		switch {
		case !has(xs, "compositionRef") && !has(x0s, "compositionRef"):
			if hasGot {
				add("xr->claim/unexpected/compositionRef", "neither the claim nor the XR had a compositionRef; the claim now has %s", compact(got))
			}
		case !fromX1 && !fromX0:
			add("xr->claim/missing/compositionRef", "the claim has no compositionRef; the XR selected %s; the claim now has %s", compact(xs["compositionRef"]), compact(got))
		}
	}
	switch eff {
	case "Automatic":
		if has(xs, rev) && !leafEqual(c1s[rev], xs[rev]) {
			add("xr->claim/missing/compositionRevisionRef-under-automatic", "policy Automatic: the XR's revision is %s but the claim has %s", compact(xs[rev]), compact(c1s[rev]))
		}
	case "Manual":
		if has(cs, rev) != has(c1s, rev) || !leafEqual(c1s[rev], cs[rev]) {
			add("xr->claim/leaked/compositionRevisionRef-under-manual", "policy Manual: claim revision was %s and is now %s (XR has %s)", compact(cs[rev]), compact(c1s[rev]), compact(xs[rev]))
		}
	}
	for _, k := range []string{"compositionSelector", "compositionRevisionSelector", "compositionUpdatePolicy"} {
		switch {
		case has(cs, k) && !leafEqual(c1s[k], cs[k]):
			add("xr->claim/altered-claim-field/"+k, "claim spec.%s was %s and is %s", k, compact(cs[k]), compact(c1s[k]))
		case !has(cs, k) && has(c1s, k) && strict:
			add("xr->claim/leaked/"+k, "the claim had no %s and now has the XR's %s", k, compact(c1s[k]))
		}
	}
	for _, k := range userSpecKeys {
		if cv, ok := cs[k]; ok {
			var ds []delta
			diff(cv, c1s[k], has(c1s, k), k, false, &ds)
			for _, d := range ds {
				add("xr->claim/altered-user-field/"+d.path, "the claim's own spec.%s = %s became %s", d.path, compact(d.want), compact(d.got))
			}
		}
	}

	// ---------- (b) XR -> claim: status ----------
	xst, cst := statusOf(o.x1), statusOf(o.c1)
	for _, k := range sortedKeys(xst) {
		if in(refStatusBookkeeping, k) {
			continue
		}
		var ds []delta
		diff(xst[k], cst[k], has(cst, k), k, o.ssa, &ds)
		for _, d := range ds {
			kind := d.kind
			if kind == "extra" {
				kind = "stale"
			}
			add("xr->claim/"+kind+"-user-status/"+d.path, "XR status.%s = %s but the claim status has %s", d.path, compact(d.want), compact(d.got))
		}
	}
	if o.ssa && xst != nil {
		for _, k := range sortedKeys(cst) {
			if !in(refStatusBookkeeping, k) && !has(xst, k) {
				add("xr->claim/stale-user-status/"+k, "claim status.%s = %s but the XR status has no such field", k, compact(cst[k]))
			}
		}
	}
	if has(cst, "claimConditionTypes") {
		add("xr->claim/copied-bookkeeping/claimConditionTypes", "claim status.claimConditionTypes = %s", compact(cst["claimConditionTypes"]))
	}
	if cd, ok := cst["connectionDetails"].(map[string]any); ok && fmt.Sprint(cd["lastPublishedTime"]) == xrPublishedTime {
		add("xr->claim/copied-bookkeeping/connectionDetails", "claim status.connectionDetails = %s is the XR's own bookkeeping", compact(cd))
	}
	listed := map[string]bool{}
	if l, ok := xst["claimConditionTypes"].([]any); ok {
		for _, t := range l {
			listed[fmt.Sprint(t)] = true
		}
	}
	if cl, ok := cst["conditions"].([]any); ok {
		for _, c := range cl {
			m, _ := c.(map[string]any)
			t, reason := fmt.Sprint(m["type"]), fmt.Sprint(m["reason"])
			if !strings.HasPrefix(reason, sentinelReason) {
				continue
			}
			system := t == "Ready" || t == "Synced" || t == "Healthy"
			switch {
			case system:
				add("xr->claim/copied-bookkeeping/conditions/system", "claim condition %s carries the XR's own condition (reason %s)", t, reason)
			case !listed[t]:
				add("xr->claim/copied-bookkeeping/conditions/unlisted-custom", "XR condition %s (reason %s) is not in claimConditionTypes but was copied to the claim", t, reason)
			}
		}
	}
	return vs
}

// x0sOwn returns the user spec fields the XR side set itself (never asserted
// by the claim): in this check only xrOnly.
func x0sOwn(o syncObs) map[string]any {
	out := map[string]any{}
	if s := specOf(o.x0); s != nil {
		if v, ok := s["xrOnly"]; ok && !has(specOf(o.cprev), "xrOnly") {
			out["xrOnly"] = v
		}
	}
	return out
}

func nonEmpty(m map[string]string) map[string]string {
	out := map[string]string{}
	for k, v := range m {
		out[k] = v
	}
	return out
}
