package c17

import (
	"context"
	"fmt"

	metav1 "k8s.io/apimachinery/pkg/apis/meta/v1"
	"k8s.io/apimachinery/pkg/apis/meta/v1/unstructured"

	pkgmetav1 "github.com/crossplane/crossplane/apis/pkg/meta/v1"
	v1 "github.com/crossplane/crossplane/apis/pkg/v1"
	"github.com/crossplane/crossplane/apis/pkg/v1beta1"
	"github.com/crossplane/crossplane/internal/controller/pkg/revision"
	"github.com/crossplane/crossplane/internal/dag"
	"github.com/crossplane/crossplane/internal/verifshim/vmap"
	"github.com/crossplane/crossplane/verif/explore"
	"github.com/crossplane/crossplane/verif/report"
	"github.com/crossplane/crossplane/verif/simkube"
	"github.com/crossplane/crossplane/verif/xrh"
)

// resolveRaceBody: the Lock is shared by all revisions. While the revision of
// slot 0 (not yet in the Lock) resolves, another revision's reconcile writes
// the Lock between this one's read and its write: a dependency removes itself,
// or is replaced by another version. Whatever Resolve does then, "no error"
// (the only answer that lets the revision become healthy) must be true of the
// Lock as it is when Resolve returns.
func resolveRaceBody(r *explore.Run, rep *report.R, sc string, n int) {
	vmap.Order = nil
	g := chooseRows(r, n)
	slotVersion = slotLayouts[0]
	cons := map[int]string{}
	var direct []int
	for j := 1; j < n; j++ {
		if g.has(0, j) {
			direct = append(direct, j)
			cons[j] = directConstraints[r.Free(2, fmt.Sprintf("constraint-on-p%d", j))]
		}
	}
	if len(direct) == 0 {
		rep.Eval(sc, "no-direct-dependency", "")
		return
	}
	victim := direct[r.Free(len(direct), "other-writer-touches")]
	action := []string{"removes-itself", "is-replaced-by-v0.9.0", "touches-nothing-relevant"}[r.Free(3, "other-writer")]
	all := g.packages(func(i int) string { return slotVersion[i] }, func(i, j int) string {
		if i == 0 {
			return cons[j]
		}
		return ">=v1.0.0"
	})
	self := all[0]
	s := xrh.NewStore()
	s.Seed(&v1beta1.Lock{ObjectMeta: metav1.ObjectMeta{Name: "lock"}, Packages: all[1:]})
	lockKey := simkube.ObjKey{Group: pkgGroup, Kind: "Lock", Name: "lock"}
	fired := false
	s.Inj = simkube.InjectorFn(func(c simkube.Call) simkube.Outcome {
		if fired || c.Client != "revision" || c.Key != lockKey || !c.Write {
			return simkube.OK
		}
		fired = true
		s.Mutate(lockKey, func(u *unstructured.Unstructured) {
			pk, _, _ := unstructured.NestedSlice(u.Object, "packages")
			var out []any
			for _, p := range pk {
				m, _ := p.(map[string]any)
				if m["source"] == src(victim) {
					switch action {
					case "removes-itself":
						continue
					case "is-replaced-by-v0.9.0":
						m["version"] = "v0.9.0"
					}
				}
				out = append(out, m)
			}
			if action == "touches-nothing-relevant" {
				out = append(out, map[string]any{"name": "unrelated-rev", "type": "Provider", "source": "xpkg.example.org/acme/unrelated", "version": "v1.0.0", "dependencies": []any{}})
			}
			_ = unstructured.SetNestedSlice(u.Object, out, "packages")
		})
		return simkube.OK
	})
	meta := &pkgmetav1.Provider{}
	for _, d := range self.Dependencies {
		p := d.Package
		meta.Spec.DependsOn = append(meta.Spec.DependsOn, pkgmetav1.Dependency{Provider: &p, Version: d.Constraints})
	}
	pr := &v1.ProviderRevision{ObjectMeta: metav1.ObjectMeta{Name: self.Name}}
	pr.Spec.Package = src(0) + ":" + slotVersion[0]
	pr.Spec.DesiredState = v1.PackageRevisionActive
	m := revision.NewPackageDependencyManager(s.Client("revision"), dag.NewMapDag, v1.ProviderGroupVersionKind)
	var found, installed, invalid int
	var err error
	guard(r, "resolve", func() { found, installed, invalid, err = m.Resolve(context.Background(), meta, pr) })
	s.Inj = nil
	lock := &v1beta1.Lock{}
	s.PeekInto(lockKey, lock)
	now := map[string]string{}
	for _, lp := range lock.Packages {
		now[lp.Source] = lp.Version
	}
	r.Logf("graph %s constraints %v; another revision %s (%s) before this one's first Lock write (happened: %v) -> found=%d installed=%d invalid=%d err=%v; lock now %v", g, cons, action, src(victim), fired, found, installed, invalid, err, now)
	ctx := fmt.Sprintf("graph %s, constraints %v, %s %s between this revision's read and write of the Lock", g, cons, src(victim), action)
	if err == nil {
		clo := refClosure(g.adj())
		for j := 1; j < n; j++ {
			if _, ok := now[src(j)]; clo[0][j] && !ok {
				r.Failf("resolve/satisfied-with-missing-dependency/concurrent-lock-writer", "%s: Resolve returned no error but %s is not in the Lock", ctx, src(j))
			}
		}
		for _, j := range direct {
			if v, ok := now[src(j)]; ok && !refVersionOK(v, cons[j]) {
				r.Failf("resolve/satisfied-with-invalid-version/concurrent-lock-writer", "%s: Resolve returned no error but the Lock holds %s@%s, which does not satisfy %q", ctx, src(j), v, cons[j])
			}
		}
	}
	if !fired {
		panic(explore.HarnessError{Msg: "the revision never wrote the Lock"})
	}
	rep.Eval(sc, report.Hash(err != nil, found, installed, invalid), report.Hash(sc, g.String(), fmt.Sprint(cons), victim, action))
}
