package c17

import (
	"fmt"
	"math/bits"

	"github.com/Masterminds/semver"
	"k8s.io/apimachinery/pkg/apis/meta/v1/unstructured"

	"github.com/crossplane/crossplane/apis/pkg/v1beta1"
	"github.com/crossplane/crossplane/internal/verifshim/vmap"
	"github.com/crossplane/crossplane/verif/explore"
	"github.com/crossplane/crossplane/verif/report"
)

// Alphabets of part 2.
var (
	tagAlphabet = []string{"v1.0.0", "v1.1.0", "v2.0.0", "v1.2.0-rc.1", "1.0", "latest", "v0.9.0"}
	// One constraint per branch: open range, exact, upper bound, range that
	// Masterminds/semver v1 rejects (space separated), the same range in the
	// accepted comma form, wildcard, empty, garbage, pinned digest,
	// unsatisfiable, and a range that admits pre-releases.
	constraintAlphabet = []string{">=v1.0.0", "v1.1.0", "<v2.0.0", ">=v1.0.0 <v1.1.0", ">=v1.0.0, <v1.1.0", "*", "", "not-a-constraint", digestA, ">v3.0.0", ">=v1.1.0-0"}
	installedAlphabet  = []string{"v1.0.0", "v1.1.0", "v2.0.0"}
)

const (
	depSrc     = "xpkg.example.org/acme/dep"
	depObjName = "acme-dep" // xpkg.ToDNSLabel of the repository
)

var cfgType = v1beta1.ConfigurationPackageType

// chooseTags builds the registry's tag list from free choices: every ordered
// selection of up to maxPerm distinct tags (all subsets of that size in all
// orders), and every larger subset in alphabet order and reversed.
func chooseTags(r *explore.Run, maxPerm int) []string {
	n := len(tagAlphabet)
	mode := 0
	switch {
	case maxPerm < 0:
		// Every subset, in alphabet order only.
		maxPerm, mode = -1, 1
	case maxPerm < n:
		mode = r.Free(3, "tag-list-mode")
	}
	if mode == 0 {
		var out []string
		used := 0
		for len(out) < maxPerm {
			// 0 = stop, else the k-th unused tag.
			var rest []int
			for i := 0; i < n; i++ {
				if used&(1<<i) == 0 {
					rest = append(rest, i)
				}
			}
			c := r.Free(len(rest)+1, fmt.Sprintf("tag#%d", len(out)))
			if c == 0 {
				break
			}
			used |= 1 << rest[c-1]
			out = append(out, tagAlphabet[rest[c-1]])
		}
		return out
	}
	var big []int
	for m := 0; m < 1<<n; m++ {
		if bits.OnesCount(uint(m)) > maxPerm {
			big = append(big, m)
		}
	}
	m := big[r.Free(len(big), "tag-subset")]
	var out []string
	for i := 0; i < n; i++ {
		if m&(1<<i) != 0 {
			out = append(out, tagAlphabet[i])
		}
	}
	if mode == 2 {
		for i, j := 0, len(out)-1; i < j; i, j = i+1, j-1 {
			out[i], out[j] = out[j], out[i]
		}
	}
	return out
}

func parent(i int, constraint string) v1beta1.LockPackage {
	return parentAs(i, constraint, 0)
}

// depForms are the ways a parent can say what kind of package its dependency
// is; the package the resolver creates must be of that kind.
var depForms = []struct{ name, kind string }{
	{"type-provider", "Provider"}, {"type-configuration", "Configuration"}, {"type-function", "Function"}, {"apiversion-kind-function", "Function"},
}

func parentAs(i int, constraint string, form int) v1beta1.LockPackage {
	dep := v1beta1.Dependency{Package: depSrc, Constraints: constraint}
	fnType := v1beta1.FunctionPackageType
	switch form {
	case 0:
		dep.Type = &providerType
	case 1:
		dep.Type = &cfgType
	case 2:
		dep.Type = &fnType
	case 3:
		av, k := "pkg.crossplane.io/v1", "Function"
		dep.APIVersion, dep.Kind = &av, &k
	}
	return v1beta1.LockPackage{
		Name: fmt.Sprintf("parent%d-rev", i), Type: &cfgType, Source: fmt.Sprintf("xpkg.example.org/acme/parent%d", i), Version: "v1.0.0",
		Dependencies: []v1beta1.Dependency{dep},
	}
}

// judge compares the version the resolver selected (got == "" if the
// dependency package does not exist) with what the reference allows.
func judge(r *explore.Run, what string, w want, got string, constraints []string, tags []string, ctx string) {
	if w.nothing {
		if got != "" {
			r.Failf(what+"/selected-although-nothing-qualifies", "%s: resolver selected %q but no tag of %v satisfies %q (or a constraint is unusable)", ctx, got, tags, constraints)
		}
		return
	}
	if w.digest != "" {
		if got != w.digest {
			r.Failf(what+"/digest-not-pinned", "%s: constraint pins %s but resolver selected %q", ctx, w.digest, got)
		}
		return
	}
	if got == "" {
		r.Failf(what+"/nothing-selected", "%s: resolver selected nothing although %s of %v satisfies %q", ctx, w, tags, constraints)
	}
	if w.tags[got] {
		return
	}
	known := false
	for _, t := range tags {
		known = known || t == got
	}
	if !known {
		r.Failf(what+"/unknown-version", "%s: resolver selected %q which is not a tag of %v", ctx, got, tags)
	}
	v, err := semver.NewVersion(got)
	if err != nil {
		r.Failf(what+"/non-semver-selected", "%s: resolver selected the non-semver tag %q", ctx, got)
	}
	for _, cs := range constraints {
		if c, err := semver.NewConstraint(cs); err != nil || !c.Check(v) {
			r.Failf(what+"/constraint-violated", "%s: resolver selected %q which violates %q (reference: %s)", ctx, got, cs, w)
		}
	}
	if what == "install" {
		r.Failf(what+"/not-highest", "%s: resolver selected %q but the highest satisfying tag is %s", ctx, got, w)
	}
	r.Failf(what+"/wrong-candidate", "%s: resolver selected %q, the rule selects %s", ctx, got, w)
}

// installBody is part 2a: a parent in the lock depends on a package that is
// neither in the lock nor installed.
func installBody(r *explore.Run, rep *report.R, sc string, ci, flags, maxPerm int) {
	vmap.Order = nil
	constraint := constraintAlphabet[ci]
	tags := chooseTags(r, maxPerm)
	// An unrelated package with the same repository path in another registry
	// is installed (and in the lock): it is neither the missing dependency
	// nor to be touched.
	const namesakeSrc, namesakeObj, namesakePkg = "registry.other.example/acme/dep", "other-registry-dep", "registry.other.example/acme/dep:v1.1.0"
	namesake := r.Bool("namesake-in-another-registry")
	form := r.Free(len(depForms), "dependency-kind-form")
	wantKey := depForms[form].kind + "/" + depObjName
	r.Logf("install: constraint=%q tags=%v flags=%d namesake=%v dependency=%s", constraint, tags, flags, namesake, depForms[form].name)
	lockPkgs := []v1beta1.LockPackage{parentAs(1, constraint, form)}
	var existing []*unstructured.Unstructured
	if namesake {
		lockPkgs = append(lockPkgs, v1beta1.LockPackage{Name: "other-registry-dep-rev", Type: &providerType, Source: namesakeSrc, Version: "v1.1.0", Dependencies: []v1beta1.Dependency{}})
		existing = append(existing, providerPackage(namesakeObj, namesakePkg))
	}
	w := newWorld(lockPkgs, existing, tags, flags)
	o := w.reconcile(r, "resolver/install")
	if namesake {
		if got := o.pkgs["Provider/"+namesakeObj]; got != namesakePkg {
			r.Failf("install/namesake-in-another-registry-changed", "missing dependency %s, constraint %q: the resolver changed the unrelated package %s from %q to %q", depSrc, constraint, namesakeObj, namesakePkg, got)
		}
		delete(o.pkgs, "Provider/"+namesakeObj)
	}
	r.Logf("observed %s", o)
	ref := refInstall(tags, constraint)
	ctx := fmt.Sprintf("missing dependency, constraint %q, tags %v, flags %d", constraint, tags, flags)

	got := ""
	for k, p := range o.pkgs {
		if k != wantKey {
			r.Failf("install/unexpected-package", "%s: resolver created %s (%s), the dependency is declared as %s", ctx, k, p, depForms[form].name)
		}
		got = versionOf(p, depSrc)
		if got == "" {
			r.Failf("install/malformed-package", "%s: created package has spec.package %q", ctx, p)
		}
		sep := p[len(depSrc)]
		if isDigest(got) != (sep == '@') {
			r.Failf("install/malformed-package", "%s: created package has spec.package %q", ctx, p)
		}
	}
	judge(r, "install", ref, got, []string{constraint}, tags, ctx)
	if got == "" && o.resolved != "False" {
		r.Failf("install/failure-not-surfaced", "%s: nothing was installed but the Lock's Resolved condition is %q (err=%v)", ctx, o.resolved, o.err)
	}
	if got != "" && (o.resolved != "True" || o.err != nil) {
		r.Failf("install/success-not-reported", "%s: %s installed but Resolved=%q err=%v", ctx, got, o.resolved, o.err)
	}
	nt := ""
	if !ref.nothing {
		nt = report.Hash("install", constraint, fmt.Sprint(tags), namesake, form)
	}
	evalCase(rep, sc, report.Hash("install", got, o.resolved, o.err != nil), nt)
	if nt != "" && len(tags) >= 3 && len(ref.tags) > 0 && wantSample(rep, "install") {
		rep.Sample(map[string]any{"part": "install", "constraint": constraint, "tags": tags, "flags": flags, "selected": got, "reference": ref.String(), "choices": append([]int{}, r.Choices...), "scenario": sc})
	}
}

func installedPackage(version string) *unstructured.Unstructured {
	if isDigest(version) {
		return providerPackage(depObjName, depSrc+"@"+version)
	}
	return providerPackage(depObjName, depSrc+":"+version)
}

// upgradeBody is part 2b: the dependency is installed (and normally in the
// lock) at some version; one or two parents constrain it.
func upgradeBody(r *explore.Run, rep *report.R, sc string, c1, ii, maxPerm int, second []int) {
	vmap.Order = nil
	installed := installedAlphabet[ii]
	flags := r.Free(3, "flags(off,upgrade,upgrade+downgrade)")
	inLock := r.Free(2, "dependency-in-lock(yes,no)") == 0
	parents := []string{constraintAlphabet[c1]}
	if c2 := r.Free(len(second)+1, "second-parent-constraint"); c2 > 0 {
		parents = append(parents, constraintAlphabet[second[c2-1]])
	}
	tags := chooseTags(r, maxPerm)
	r.Logf("upgrade: installed=%s inLock=%v parents=%q tags=%v flags=%d", installed, inLock, parents, tags, flags)
	var pkgs []v1beta1.LockPackage
	for i, c := range parents {
		pkgs = append(pkgs, parent(i+1, c))
	}
	if inLock {
		pkgs = append(pkgs, v1beta1.LockPackage{Name: "dep-rev", Type: &providerType, Source: depSrc, Version: installed, Dependencies: []v1beta1.Dependency{}})
	}
	w := newWorld(pkgs, []*unstructured.Unstructured{installedPackage(installed)}, tags, flags)
	o := w.reconcile(r, "resolver/upgrade")
	r.Logf("observed %s", o)
	ctx := fmt.Sprintf("dependency installed at %s (in lock: %v), parents' constraints %q, tags %v, flags %d", installed, inLock, parents, tags, flags)

	got := ""
	for k, p := range o.pkgs {
		if k != "Provider/"+depObjName {
			r.Failf("upgrade/unexpected-package", "%s: resolver created %s (%s)", ctx, k, p)
		}
		got = versionOf(p, depSrc)
		if got == "" || isDigest(got) != (p[len(depSrc)] == '@') {
			r.Failf("upgrade/malformed-package", "%s: package now has spec.package %q", ctx, p)
		}
	}
	if got == "" {
		r.Failf("upgrade/package-removed", "%s: the installed package disappeared", ctx)
	}

	// Does the installed version have to move?
	needs := !inLock
	for _, c := range parents {
		if !refVersionOK(installed, c) {
			needs = true
		}
	}
	class := "kept"
	nt := ""
	switch {
	case flags == 0:
		// Without the upgrade option the resolver never touches an
		// installed package.
		if got != installed {
			r.Failf("upgrade/changed-without-upgrade-option", "%s: version changed to %q", ctx, got)
		}
	case !needs:
		if got != installed {
			r.Failf("upgrade/changed-although-satisfied", "%s: every constraint is satisfied but version changed to %q", ctx, got)
		}
		if o.resolved != "True" || o.err != nil {
			r.Failf("upgrade/satisfied-not-reported", "%s: Resolved=%q err=%v", ctx, o.resolved, o.err)
		}
	default:
		ref := refUpgrade(tags, parents, installed, flags == 2)
		if ref.nothing {
			class = "no-candidate"
			if got != installed {
				judge(r, "upgrade", ref, got, parents, tags, ctx)
			}
			if o.resolved != "False" || o.err == nil {
				r.Failf("upgrade/failure-not-surfaced", "%s: no version qualifies but Resolved=%q err=%v", ctx, o.resolved, o.err)
			}
		} else {
			class = "moved"
			if got == installed && !ref.tags[got] {
				r.Failf("upgrade/not-moved", "%s: version stayed %s, the rule selects %s (Resolved=%q err=%v)", ctx, got, ref, o.resolved, o.err)
			}
			judge(r, "upgrade", ref, got, parents, tags, ctx)
			if o.resolved != "True" || o.err != nil {
				r.Failf("upgrade/success-not-reported", "%s: moved to %s but Resolved=%q err=%v", ctx, got, o.resolved, o.err)
			}
			nt = report.Hash("upgrade", installed, inLock, fmt.Sprint(parents), fmt.Sprint(tags), flags)
		}
	}
	for _, wr := range o.writes {
		if len(wr) >= 6 && wr[:6] == "create" {
			r.Failf("upgrade/created-package", "%s: resolver created a package: %v", ctx, o.writes)
		}
	}
	evalCase(rep, sc, report.Hash("upgrade", class, got, o.resolved, o.err != nil), nt)
	if nt != "" && len(tags) >= 3 && len(parents) == 2 && got != installed && wantSample(rep, "upgrade") {
		rep.Sample(map[string]any{"part": "upgrade", "installed": installed, "in_lock": inLock, "parent_constraints": parents, "tags": tags, "flags": flags, "selected": got, "choices": append([]int{}, r.Choices...), "scenario": sc})
	}
}

// nonSemverInstalledBody is part 2c: the dependency was installed by digest
// or by a non-semver tag and a parent then constrains it by a range, with
// upgrades enabled. "Not older" is undefined, so the only demands are: the
// reconciler must not crash, and whatever it selects must satisfy every
// parent.
func nonSemverInstalledBody(r *explore.Run, rep *report.R, sc string) {
	vmap.Order = nil
	installed := []string{digestA, "latest"}[r.Free(2, "installed(digest,latest)")]
	flags := 1 + r.Free(2, "flags(upgrade,upgrade+downgrade)")
	constraint := []string{">=v1.0.0", digestB, digestA}[r.Free(3, "constraint")]
	tags := []string{"v1.0.0", "v1.1.0", "latest"}
	pkgs := []v1beta1.LockPackage{parent(1, constraint), {Name: "dep-rev", Type: &providerType, Source: depSrc, Version: installed, Dependencies: []v1beta1.Dependency{}}}
	r.Logf("installed=%s constraint=%q flags=%d", installed, constraint, flags)
	w := newWorld(pkgs, []*unstructured.Unstructured{installedPackage(installed)}, tags, flags)
	o := w.reconcile(r, "resolver/upgrade/installed-version-not-semver")
	r.Logf("observed %s", o)
	got := versionOf(o.pkgs["Provider/"+depObjName], depSrc)
	ctx := fmt.Sprintf("dependency installed at %s, parent constraint %q, flags %d", installed, constraint, flags)
	if got != installed && !refVersionOK(got, constraint) {
		r.Failf("upgrade/constraint-violated", "%s: moved to %q", ctx, got)
	}
	if isDigest(constraint) && got != constraint {
		r.Failf("upgrade/digest-not-pinned", "%s: version is %q", ctx, got)
	}
	evalCase(rep, sc, report.Hash("nonsemver", got, o.resolved, o.err != nil), report.Hash("nonsemver", installed, constraint, flags))
}
