package c17

// Reference implementations (the oracle). They are written from the property
// statement and the documentation of the code under test, never by calling
// it. The only shared pieces are Masterminds/semver parsing, ordering and
// constraint matching (declared trusted base).

import (
	"regexp"
	"sort"

	"github.com/Masterminds/semver"
)

// ---- graphs ---------------------------------------------------------------

// refHasCycle is a three colour depth first search; a self loop is a cycle.
func refHasCycle(adj [][]bool) bool {
	n := len(adj)
	colour := make([]int, n) // 0 white, 1 grey, 2 black
	var dfs func(u int) bool
	dfs = func(u int) bool {
		colour[u] = 1
		for v := 0; v < n; v++ {
			if !adj[u][v] {
				continue
			}
			if colour[v] == 1 {
				return true
			}
			if colour[v] == 0 && dfs(v) {
				return true
			}
		}
		colour[u] = 2
		return false
	}
	for u := 0; u < n; u++ {
		if colour[u] == 0 && dfs(u) {
			return true
		}
	}
	return false
}

// refClosure is Warshall's algorithm: c[i][j] iff there is a path of length
// >= 1 from i to j.
func refClosure(adj [][]bool) [][]bool {
	n := len(adj)
	c := make([][]bool, n)
	for i := range c {
		c[i] = append([]bool{}, adj[i]...)
	}
	for k := 0; k < n; k++ {
		for i := 0; i < n; i++ {
			if !c[i][k] {
				continue
			}
			for j := 0; j < n; j++ {
				if c[k][j] {
					c[i][j] = true
				}
			}
		}
	}
	return c
}

// refTopoProblem validates a claimed topological order: every node of nodes
// exactly once and, for every edge u->v (u depends on v), v before u. It
// returns "" or a description of the first problem.
func refTopoProblem(order []int, nodes []int, adj [][]bool) string {
	pos := map[int]int{}
	for p, u := range order {
		if _, dup := pos[u]; dup {
			return "duplicate"
		}
		pos[u] = p
	}
	if len(order) != len(nodes) {
		return "length"
	}
	for _, u := range nodes {
		if _, ok := pos[u]; !ok {
			return "missing-node"
		}
	}
	for u := range adj {
		for v := range adj[u] {
			if adj[u][v] && pos[v] >= pos[u] {
				return "dependency-after-dependent"
			}
		}
	}
	return ""
}

// ---- versions -------------------------------------------------------------

var digestRE = regexp.MustCompile(`^sha256:[0-9a-f]{64}$`)

func isDigest(s string) bool { return digestRE.MatchString(s) }

// want describes what the reference allows the resolver to select.
type want struct {
	nothing bool            // nothing may be installed / changed
	digest  string          // exactly this digest
	tags    map[string]bool // any of these tags (equal versions tie)
	best    *semver.Version
}

func (w want) String() string {
	switch {
	case w.nothing:
		return "nothing"
	case w.digest != "":
		return w.digest
	}
	var ts []string
	for t := range w.tags {
		ts = append(ts, t)
	}
	sort.Strings(ts)
	return "one of " + join(ts)
}

func join(ss []string) string {
	out := ""
	for i, s := range ss {
		if i > 0 {
			out += ","
		}
		out += s
	}
	return out
}

type tagv struct {
	tag string
	v   *semver.Version
}

// semverTags drops the tags that are not semantic versions.
func semverTags(tags []string) []tagv {
	var out []tagv
	for _, t := range tags {
		if v, err := semver.NewVersion(t); err == nil {
			out = append(out, tagv{t, v})
		}
	}
	return out
}

func satisfiesAll(v *semver.Version, cs []*semver.Constraints) bool {
	for _, c := range cs {
		if !c.Check(v) {
			return false
		}
	}
	return true
}

// pick returns the tags whose version is the extreme (max if highest, else
// min) among cands.
func pick(cands []tagv, highest bool) want {
	if len(cands) == 0 {
		return want{nothing: true}
	}
	best := cands[0].v
	for _, c := range cands[1:] {
		if highest && c.v.GreaterThan(best) || !highest && c.v.LessThan(best) {
			best = c.v
		}
	}
	w := want{tags: map[string]bool{}, best: best}
	for _, c := range cands {
		if c.v.Equal(best) {
			w.tags[c.tag] = true
		}
	}
	return w
}

// refInstall: for a missing dependency, the highest semantic version tag
// satisfying the constraint, or exactly the pinned digest, or nothing.
func refInstall(tags []string, constraint string) want {
	if isDigest(constraint) {
		return want{digest: constraint}
	}
	c, err := semver.NewConstraint(constraint)
	if err != nil {
		return want{nothing: true}
	}
	var cands []tagv
	for _, t := range semverTags(tags) {
		if c.Check(t.v) {
			cands = append(cands, t)
		}
	}
	return pick(cands, true)
}

// refUpgrade: for an installed dependency whose version must change, the
// lowest not-older version satisfying every parent's constraint, else (with
// downgrades) the highest older one, else nothing. If any parent pins a
// digest, every parent must pin that same digest.
func refUpgrade(tags []string, parents []string, installed string, downgrade bool) want {
	nd := 0
	for _, p := range parents {
		if isDigest(p) {
			nd++
		}
	}
	if nd > 0 {
		for _, p := range parents {
			if p != parents[0] {
				return want{nothing: true}
			}
		}
		return want{digest: parents[0]}
	}
	var cs []*semver.Constraints
	for _, p := range parents {
		c, err := semver.NewConstraint(p)
		if err != nil {
			return want{nothing: true}
		}
		cs = append(cs, c)
	}
	cur, err := semver.NewVersion(installed)
	if err != nil {
		panic("refUpgrade: installed version is not a semantic version")
	}
	var notOlder, older []tagv
	for _, t := range semverTags(tags) {
		if !satisfiesAll(t.v, cs) {
			continue
		}
		if t.v.LessThan(cur) {
			older = append(older, t)
		} else {
			notOlder = append(notOlder, t)
		}
	}
	if len(notOlder) > 0 {
		return pick(notOlder, false)
	}
	if downgrade {
		return pick(older, true)
	}
	return want{nothing: true}
}

// refVersionOK: does an installed version (tag or digest) meet a constraint?
// A digest constraint is met only by the identical digest; a range only by a
// semantic version inside it; an unparsable constraint by nothing.
func refVersionOK(version, constraint string) bool {
	if isDigest(constraint) {
		return version == constraint
	}
	c, err := semver.NewConstraint(constraint)
	if err != nil {
		return false
	}
	v, err := semver.NewVersion(version)
	if err != nil {
		return false
	}
	return c.Check(v)
}

func refConstraintParses(c string) bool {
	_, err := semver.NewConstraint(c)
	return err == nil
}
