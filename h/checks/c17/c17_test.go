// C17: dependency resolution installs only satisfying versions and refuses
// broken graphs. Bounded exhaustive enumeration against the real code:
//
//	part 1  both DAG implementations on every directed graph (self loops and
//	        missing nodes included) under every map iteration order;
//	part 2  the resolver reconciler's version selection (install, upgrade,
//	        downgrade, digests) over tag lists x constraints x installed
//	        versions x options;
//	part 3  the resolver reconciler on locks shaped like every graph: a cycle
//	        stops installation;
//	part 4  PackageDependencyManager.Resolve on locks shaped like every graph.
//
// The oracles are in oracle_test.go.
package c17

import (
	"fmt"
	"os"
	"sort"
	"strings"
	"testing"

	"github.com/crossplane/crossplane/verif/explore"
	"github.com/crossplane/crossplane/verif/report"
)

func TestCheck(t *testing.T) {
	rep := report.New("C17", "exploration")
	thorough := report.Thorough()
	rep.Meta(
		"Every case is built from free choices and replayable. Part 1 (dag/*): a lock graph on N package slots (each slot: absent, or present with any subset of the N slots as dependencies, self loop included => every digraph on <= N nodes with every set of missing nodes) x DAG implementation (MapDag, MapUpgradingDag) x construction (Init, AddNodes+AddEdges) x map iteration order of the rewritten range-over-map sites; Sort, TraceNode (every node), implied nodes, NodeExists/GetNode/NodeNeighbors/AddNode/AddEdge/AddOrUpdateNodes are compared with reference algorithms (3-colour DFS, Warshall closure, topological order validator); non-trivial = graph has >= 1 edge. Part 2 (install/*, upgrade/*): the real resolver.Reconciler over simkube with a scripted tag fetcher; tag lists = ordered selections of distinct tags from the alphabet, constraints and installed versions from the alphabets, options {off, upgrade, upgrade+downgrade}, one or two parents; the package created/updated is compared with the reference selection rule; non-trivial = the reference selects a version. Part 3 (lock/*): resolver.Reconcile on the lock of every graph; cyclic => no package write and a surfaced error, acyclic => exactly the first missing dependency installed at the highest satisfying tag; non-trivial = cyclic or something missing. Part 4 (resolve/*): PackageDependencyManager.Resolve (MapDag, as wired in production) for the revision of slot 0 on the lock of every graph, revision already in the lock or not, constraints on direct dependencies from an alphabet; err==nil (the only result revision.Reconciler treats as satisfied) must imply the property's condition; found/installed/invalid and the error outcome are compared with a reference computation; non-trivial = the revision has >= 1 direct dependency.",
		[]string{
			"simkube models the API server (conformance tests in h/simkube)",
			"registry = scripted xpkg.Fetcher returning the tag list; no image configs / pull secrets",
			"one reconcile per lock content (the resolver is stateless between reconciles, so every reachable lock content is a start state)",
			"resolver wiring mirrors resolver.Setup (upgrading DAG iff upgrade feature; downgrades only with upgrades); Resolve uses MapDag as in revision.Setup*",
			"in parts 1 and 3 all packages are v1.0.0 and all constraints >=v1.0.0 except the marked variant; versions/constraints vary in parts 2 and 4",
			"Resolve reference evaluates 'missing' on the lock as read at the start of the call (a revision not yet in the lock that another lock package depends on counts as missing)",
		},
		[]string{"Masterminds/semver v1.5.0 (version parsing, ordering, constraint matching; which tags are semantic versions)", "simkube", "go-containerregistry name parsing", "mkoverlay map-order rewriting (vmap shim)"},
	)

	var list []report.Scenario
	add := func(name string, bubble bool, body func(r *explore.Run, sc string)) {
		sc := report.Scenario{Name: name, Bound: 0, Body: func(r *explore.Run) { body(r, name) }}
		if bubble {
			sc.Wrap = report.Bubble(t)
		}
		list = append(list, sc)
	}

	// ---- part 1 ----
	type dagCfg struct {
		n               int
		all             bool
		modes, variants int
	}
	dagCfgs := []dagCfg{{3, true, 2, 2}, {4, false, 1, 1}}
	if thorough {
		dagCfgs = []dagCfg{{4, true, 2, 2}}
	}
	// prefixes enumerates the fixed leading rows of a scenario: the 4-slot
	// families are split by the first two rows so that shards balance.
	prefixes := func(n, first int) [][]int {
		var out [][]int
		for a := 0; a < first; a++ {
			if n < 4 {
				out = append(out, []int{a})
				continue
			}
			for b := 0; b < nopts(n); b++ {
				out = append(out, []int{a, b})
			}
		}
		return out
	}
	rowsName := func(fixed []int) string {
		s := ""
		for i, f := range fixed {
			s += fmt.Sprintf("/row%d=%d", i, f)
		}
		return s
	}
	for _, c := range dagCfgs {
		for _, impl := range []string{"map", "upgrading"} {
			for _, fixed := range prefixes(c.n, nopts(c.n)) {
				c, impl, fixed := c, impl, fixed
				add(fmt.Sprintf("dag/%s/n%d%s", impl, c.n, rowsName(fixed)), false, func(r *explore.Run, sc string) {
					dagBody(r, rep, sc, impl, c.n, fixed, c.all, c.modes, c.variants)
				})
			}
		}
	}
	if thorough {
		rep.Bound("dag_nodes", "4 slots: all 65536 adjacency matrices x every set of absent sinks (17^4 = 83521 lock graphs) x {Init, AddNodes+AddEdges}; upgrading DAG additionally with violated constraints on p0 (Init)")
		rep.Bound("dag_map_orders", "all permutations of the node keys (<= 24)")
	} else {
		rep.Bound("dag_nodes", "3 slots (9^3 = 729 lock graphs: every digraph on <= 3 nodes) in full; 4 slots (17^4 = 83521 lock graphs: every digraph on <= 4 nodes) with Init construction only and without the violated-constraint variant")
		rep.Bound("dag_map_orders", "n=3: all permutations; n=4: sorted, reversed, every rotation")
	}

	// ---- part 2 ----
	installPerm, upgradePerm := 3, -1
	second := []int{0, 2, 5, 7, 8, 10} // quick: >=v1.0.0, <v2.0.0, *, not-a-constraint, digest, >=v1.1.0-0
	if thorough {
		installPerm, upgradePerm = len(tagAlphabet), 3
		second = nil
		for i := range constraintAlphabet {
			second = append(second, i)
		}
	}
	for ci := range constraintAlphabet {
		for _, flags := range []int{0, 1} {
			ci, flags := ci, flags
			add(fmt.Sprintf("install/c%d/flags%d", ci, flags), true, func(r *explore.Run, sc string) {
				installBody(r, rep, sc, ci, flags, installPerm)
			})
		}
	}
	for c1 := range constraintAlphabet {
		for ii := range installedAlphabet {
			c1, ii := c1, ii
			add(fmt.Sprintf("upgrade/c%d/installed=%s", c1, installedAlphabet[ii]), true, func(r *explore.Run, sc string) {
				upgradeBody(r, rep, sc, c1, ii, upgradePerm, second)
			})
		}
	}
	add("upgrade/installed-version-not-semver", true, func(r *explore.Run, sc string) { nonSemverInstalledBody(r, rep, sc) })
	rep.Bound("tags", fmt.Sprint(tagAlphabet))
	rep.Bound("constraints", fmt.Sprintf("%q", constraintAlphabet))
	rep.Bound("installed_versions", fmt.Sprintf("none %v (+ digest, latest in upgrade/installed-version-not-semver)", installedAlphabet))
	rep.Bound("tag_lists_install", fmt.Sprintf("every ordered selection of <= %d distinct tags; larger subsets in alphabet order and reversed", installPerm))
	if thorough {
		rep.Bound("tag_lists_upgrade", fmt.Sprintf("every ordered selection of <= %d distinct tags; larger subsets in alphabet order and reversed", upgradePerm))
		rep.Bound("parents", "1 or 2 parents, every pair of constraints")
	} else {
		rep.Bound("tag_lists_upgrade", "every subset of the tags (alphabet order)")
		rep.Bound("parents", "1 parent (every constraint) or 2 parents (every constraint x {>=v1.0.0, <v2.0.0, *, not-a-constraint, digest, >=v1.1.0-0})")
	}

	// ---- part 3 ----
	type lockCfg struct {
		n   int
		all bool
	}
	lockCfgs := []lockCfg{{3, true}}
	if thorough {
		lockCfgs = []lockCfg{{3, true}, {4, false}}
	}
	for _, c := range lockCfgs {
		for _, flags := range []int{0, 1} {
			for _, fixed := range prefixes(c.n, nopts(c.n)) {
				c, flags, fixed := c, flags, fixed
				add(fmt.Sprintf("lock/flags%d/n%d%s", flags, c.n, rowsName(fixed)), true, func(r *explore.Run, sc string) {
					lockGraphBody(r, rep, sc, flags, c.n, fixed, c.all)
				})
			}
		}
	}
	if thorough {
		rep.Bound("lock_graphs", "3 slots x all map orders; 4 slots (83521 locks) x sorted/reversed/rotated orders; upgrade feature off/on")
	} else {
		rep.Bound("lock_graphs", "3 slots (729 locks) x all map orders; upgrade feature off/on")
	}

	// ---- part 4 ----
	type resCfg struct{ n, nCons int }
	resCfgs := []resCfg{{3, len(directConstraints)}}
	if thorough {
		resCfgs = append(resCfgs, resCfg{4, 2})
	}
	for _, c := range resCfgs {
		for _, fixed := range prefixes(c.n, 1<<c.n) {
			c, fixed := c, fixed
			add(fmt.Sprintf("resolve/n%d%s", c.n, rowsName(fixed)), true, func(r *explore.Run, sc string) {
				resolveBody(r, rep, sc, c.n, fixed, c.nCons)
			})
		}
	}
	add("resolve/concurrent-lock-writer/n3", true, func(r *explore.Run, sc string) { resolveRaceBody(r, rep, sc, 3) })
	add("resolve/inactive", true, func(r *explore.Run, sc string) { inactiveBody(r, rep, sc) })
	if thorough {
		rep.Bound("resolve_graphs", "3 slots x 5 constraints per direct dependency; 4 slots x 2 constraints per direct dependency; revision in lock or not")
	} else {
		rep.Bound("resolve_graphs", "3 slots x 5 constraints per direct dependency; revision in lock or not")
	}

	// Debugging aid: VERIF_C17_ONLY=<name prefix> restricts the run.
	if only := os.Getenv("VERIF_C17_ONLY"); only != "" {
		var keep []report.Scenario
		for _, sc := range list {
			if strings.HasPrefix(sc.Name, only) {
				keep = append(keep, sc)
			}
		}
		list = keep
	}
	// Spread the heavy families over the shards.
	list = interleave(list)
	counting = false
	for _, sc := range list {
		if sc.Name == "dag/map/n4/row0=3/row1=5" || sc.Name == "dag/map/n3/row0=3" {
			rep.SelfCheck(t, sc, nil)
			break
		}
	}
	for _, sc := range list {
		if sc.Name == "upgrade/c0/installed=v1.1.0" {
			rep.SelfCheck(t, sc, nil)
		}
	}
	counting = true
	rep.RunScenarios(t, list)
	rep.Write(t)
}

// interleave reorders scenarios by a hash of their names: a fixed
// pseudo-random order, so that round-robin dealing gives every shard a
// similar mix of cheap and expensive scenarios of every family.
func interleave(in []report.Scenario) []report.Scenario {
	out := append([]report.Scenario{}, in...)
	sort.SliceStable(out, func(i, j int) bool { return report.Hash(out[i].Name) < report.Hash(out[j].Name) })
	return out
}
