package c17

import (
	"fmt"
	"sort"
	"strings"

	"github.com/crossplane/crossplane/apis/pkg/v1beta1"
	"github.com/crossplane/crossplane/internal/dag"
	"github.com/crossplane/crossplane/internal/verifshim/vmap"
	"github.com/crossplane/crossplane/verif/explore"
	"github.com/crossplane/crossplane/verif/report"
)

func newDag(impl string) dag.DAG {
	if impl == "upgrading" {
		return dag.NewUpgradingMapDag()
	}
	return dag.NewMapDag()
}

// guard converts a panic of the code under test into a violation.
func guard(r *explore.Run, site string, fn func()) {
	defer func() {
		if p := recover(); p != nil {
			switch p.(type) {
			case explore.Failure, explore.HarnessError:
				panic(p)
			}
			if fmt.Sprintf("%T", p) == "explore.pruneSignal" {
				panic(p)
			}
			r.Failf("panic/"+site, "the code under test panicked: %v", p)
		}
	}()
	fn()
}

func ids(ns []dag.Node) []string {
	out := make([]string, len(ns))
	for i, n := range ns {
		out[i] = n.Identifier()
	}
	return out
}

// dagBody is part 1: one graph, one DAG implementation, one construction
// mode, one map iteration order; every DAG query is compared with the
// reference algorithms.
func dagBody(r *explore.Run, rep *report.R, sc, impl string, n int, fixed []int, allOrders bool, modes, variants int) {
	vmap.Order = nil
	defer func() { vmap.Order = nil }()
	g := chooseRows(r, n, fixed...)
	variant := 0
	if impl == "upgrading" && variants > 1 {
		// 1: every dependency on p0 demands >=v2.0.0 while p0 is v1.0.0, so
		// the upgrading DAG must report p0 as needing an update.
		variant = r.Free(2, "constraints-on-p0-violated")
	}
	mode := 0 // 0 Init, 1 AddNodes+AddEdges
	if modes > 1 && (variant == 0 || n < 4) {
		// (with 4 slots the violated-constraint variant is built by Init only)
		mode = r.Free(2, "construction")
	}
	keys := g.keys()
	perm := chooseOrder(r, len(keys), allOrders)
	r.Logf("graph %s impl=%s variant=%d construction=%d order=%v", g, impl, variant, mode, perm)

	cons := func(_, j int) string {
		if variant == 1 && j == 0 {
			return ">=v2.0.0"
		}
		return ">=v1.0.0"
	}
	pkgs := g.packages(func(int) string { return "v1.0.0" }, cons)
	adj := g.adj()
	cyc := refHasCycle(adj)
	clo := refClosure(adj)
	for i := range clo {
		if clo[i][i] && !cyc {
			panic(explore.HarnessError{Msg: "reference algorithms disagree about cycles"})
		}
	}
	inKeys := map[int]bool{}
	for _, k := range keys {
		inKeys[k] = true
	}

	d := newDag(impl)
	var implied []dag.Node
	guard(r, "dag/construct/"+impl, func() {
		var err error
		if mode == 0 {
			implied, err = d.Init(v1beta1.ToNodes(pkgs...))
		} else {
			if err = d.AddNodes(v1beta1.ToNodes(pkgs...)...); err == nil {
				edges := map[string][]dag.Node{}
				for i := range pkgs {
					edges[pkgs[i].Source] = pkgs[i].Neighbors()
				}
				implied, err = d.AddEdges(edges)
			}
		}
		if err != nil {
			r.Failf("dag/construct-error/"+impl, "building the DAG of %s failed: %v", g, err)
		}
	})

	// Implied nodes: exactly the dependencies that are not in the lock (and,
	// for the upgrading DAG, present nodes whose version violates a parent's
	// constraint).
	wantImplied := map[int]bool{}
	for _, m := range g.missing() {
		wantImplied[m] = true
	}
	if impl == "upgrading" && variant == 1 && g.present(0) && g.named(0) {
		wantImplied[0] = true
	}
	gotImplied := map[int]int{}
	for _, id := range ids(implied) {
		gotImplied[slotOf(id)]++
	}
	for s := range wantImplied {
		if gotImplied[s] == 0 {
			what := "missing-dependency-not-implied"
			if g.present(s) {
				what = "violated-constraint-not-reported"
			}
			r.Failf("dag/implied/"+what+"/"+impl, "graph %s: %s should be reported by Init/AddEdges, got implied=%v", g, src(s), ids(implied))
		}
	}
	for s, c := range gotImplied {
		if !wantImplied[s] {
			r.Failf("dag/implied/spurious/"+impl, "graph %s: %s reported as implied but it is in the lock and satisfies every constraint (implied=%v)", g, src(s), ids(implied))
		}
		if impl == "map" && c != 1 {
			r.Failf("dag/implied/duplicate/"+impl, "graph %s: %s implied %d times", g, src(s), c)
		}
	}

	check := func(stage string) string {
		// Node bookkeeping.
		for s := 0; s < g.n; s++ {
			if d.NodeExists(src(s)) != inKeys[s] {
				r.Failf("dag/node-exists/"+impl, "%s graph %s: NodeExists(%s)=%v, want %v", stage, g, src(s), !inKeys[s], inKeys[s])
			}
			nd, err := d.GetNode(src(s))
			if (err == nil) != inKeys[s] || (err == nil && nd.Identifier() != src(s)) {
				r.Failf("dag/get-node/"+impl, "%s graph %s: GetNode(%s) = %v, %v; node exists: %v", stage, g, src(s), nd, err, inKeys[s])
			}
			nb, err := d.NodeNeighbors(src(s))
			if (err == nil) != inKeys[s] {
				r.Failf("dag/neighbors/"+impl, "%s graph %s: NodeNeighbors(%s) err=%v; node exists: %v", stage, g, src(s), err, inKeys[s])
			}
			if err == nil {
				var wantNb []string
				for j := 0; j < g.n; j++ {
					if g.has(s, j) {
						wantNb = append(wantNb, src(j))
					}
				}
				got := ids(nb)
				sort.Strings(got)
				if strings.Join(got, ",") != strings.Join(wantNb, ",") {
					r.Failf("dag/neighbors/"+impl, "%s graph %s: NodeNeighbors(%s) = %v, want %v", stage, g, src(s), got, wantNb)
				}
			}
		}
		// Sort: error iff cycle; else a topological order, dependencies first.
		var sorted []string
		var serr error
		guard(r, "dag/sort/"+impl, func() { sorted, serr = d.Sort() })
		if cyc && serr == nil {
			r.Failf("dag/sort/cycle-not-detected/"+impl, "%s graph %s has a cycle but Sort returned %v", stage, g, sorted)
		}
		if !cyc && serr != nil {
			r.Failf("dag/sort/spurious-cycle/"+impl, "%s graph %s is acyclic but Sort failed: %v", stage, g, serr)
		}
		if !cyc {
			order := make([]int, len(sorted))
			for i, id := range sorted {
				order[i] = slotOf(id)
				if order[i] < 0 {
					r.Failf("dag/sort/order/unknown-node/"+impl, "%s graph %s: Sort returned %v", stage, g, sorted)
				}
			}
			if p := refTopoProblem(order, keys, adj); p != "" {
				r.Failf("dag/sort/order/"+p+"/"+impl, "%s graph %s: Sort returned %v which is not a dependencies-first topological order of all nodes (%s)", stage, g, sorted, p)
			}
		}
		// TraceNode: the transitive closure (paths of length >= 1).
		var traces []string
		for s := 0; s < g.n; s++ {
			var tree map[string]dag.Node
			var terr error
			guard(r, "dag/trace/"+impl, func() { tree, terr = d.TraceNode(src(s)) })
			if !inKeys[s] {
				if terr == nil {
					r.Failf("dag/trace/missing-node-no-error/"+impl, "%s graph %s: TraceNode(%s) of a node that does not exist returned %v without error", stage, g, src(s), tree)
				}
				continue
			}
			if terr != nil {
				r.Failf("dag/trace/error/"+impl, "%s graph %s: TraceNode(%s) failed: %v", stage, g, src(s), terr)
			}
			var got, wantT []string
			for id, nd := range tree {
				if nd == nil || nd.Identifier() != id {
					r.Failf("dag/trace/bad-entry/"+impl, "%s graph %s: TraceNode(%s) maps %q to %v", stage, g, src(s), id, nd)
				}
				got = append(got, id)
			}
			sort.Strings(got)
			for j := 0; j < g.n; j++ {
				if clo[s][j] {
					wantT = append(wantT, src(j))
				}
			}
			if strings.Join(got, ",") != strings.Join(wantT, ",") {
				kind := "extra"
				if len(got) < len(wantT) {
					kind = "incomplete"
				}
				r.Failf("dag/trace/closure-"+kind+"/"+impl, "%s graph %s: TraceNode(%s) = %v, transitive closure is %v", stage, g, src(s), got, wantT)
			}
			traces = append(traces, fmt.Sprint(len(got)))
		}
		return fmt.Sprintf("cyc=%v sorted=%v traces=%v", cyc, sorted, traces)
	}
	o1 := check("after construction:")

	// Contract of the mutators on an existing graph.
	if len(pkgs) > 0 {
		dup := pkgs[0]
		if err := d.AddNode(&dup); err == nil {
			r.Failf("dag/add-node/duplicate-accepted/"+impl, "graph %s: AddNode of the existing node %s succeeded", g, dup.Source)
		}
	}
	for s := 0; s < g.n; s++ {
		if !inKeys[s] {
			if _, err := d.AddEdge(src(s), &v1beta1.Dependency{Package: src(0), Constraints: ">=v1.0.0"}); err == nil {
				r.Failf("dag/add-edge/from-missing-node/"+impl, "graph %s: AddEdge from the non-existent node %s succeeded", g, src(s))
			}
			if d.NodeExists(src(s)) {
				r.Failf("dag/add-edge/from-missing-node/"+impl, "graph %s: failed AddEdge created node %s", g, src(s))
			}
			break
		}
	}
	// Replacing every lock package by an identical copy changes nothing.
	cp := g.packages(func(int) string { return "v1.0.0" }, cons)
	guard(r, "dag/add-or-update/"+impl, func() { d.AddOrUpdateNodes(v1beta1.ToNodes(cp...)...) })
	// Everything is re-checked under the sorted and the reversed order; under
	// the other orders only the node bookkeeping (it does not iterate maps).
	if n < 4 || sortedOrReversed(perm) {
		if o2 := check("after AddOrUpdateNodes:"); o1 != o2 {
			r.Failf("dag/add-or-update/changed-results/"+impl, "graph %s: %s became %s", g, o1, o2)
		}
	} else {
		for s := 0; s < g.n; s++ {
			if d.NodeExists(src(s)) != inKeys[s] {
				r.Failf("dag/node-exists/"+impl, "after AddOrUpdateNodes: graph %s: NodeExists(%s)=%v", g, src(s), !inKeys[s])
			}
		}
	}

	r.Logf("result %s", o1)
	nt := ""
	if g.edges() > 0 {
		nt = report.Hash("dag", impl, g.String(), variant)
	}
	evalCase(rep, sc, report.Hash("dag", impl, o1, len(implied)), nt)
	if nt != "" && g.edges() >= 3 && len(g.missing()) > 0 && wantSample(rep, fmt.Sprintf("dag/cyc=%v", cyc)) {
		rep.Sample(map[string]any{"part": "dag", "impl": impl, "graph": g.String(), "map_order": perm, "construction": mode, "cyclic": cyc, "observed": o1, "implied": ids(implied), "choices": append([]int{}, r.Choices...), "scenario": sc})
	}
}

func sortedOrReversed(p []int) bool {
	up, down := true, true
	for i := range p {
		up = up && p[i] == i
		down = down && p[i] == len(p)-1-i
	}
	return up || down
}
