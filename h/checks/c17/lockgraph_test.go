package c17

import (
	"fmt"
	"strings"

	"github.com/crossplane/crossplane/internal/verifshim/vmap"
	"github.com/crossplane/crossplane/verif/explore"
	"github.com/crossplane/crossplane/verif/report"
)

// lockGraphBody is part 3: the real resolver reconciler on a lock shaped like
// the graph. A cycle (self loops included) must stop installation: no
// package is created or changed and the failure is surfaced. Without a cycle
// exactly the first missing dependency is installed, at the highest
// satisfying version.
func lockGraphBody(r *explore.Run, rep *report.R, sc string, flags, n int, fixed []int, allOrders bool) {
	vmap.Order = nil
	defer func() { vmap.Order = nil }()
	g := chooseRows(r, n, fixed...)
	perm := chooseOrder(r, len(g.keys()), allOrders)
	r.Logf("lock %s flags=%d order=%v", g, flags, perm)
	pkgs := g.packages(func(int) string { return "v1.0.0" }, func(int, int) string { return ">=v1.0.0" })
	tags := []string{"v0.9.0", "v1.1.0", "latest", "v1.0.0"}
	w := newWorld(pkgs, nil, tags, flags)
	o := w.reconcile(r, "resolver/lock-graph")
	r.Logf("observed %s", o)
	vmap.Order = nil

	cyc := refHasCycle(g.adj())
	missing := g.missing()
	class := ""
	switch {
	case len(pkgs) == 0:
		class = "empty"
		if len(o.pkgs) != 0 || o.err != nil {
			r.Failf("lock/empty-lock", "empty lock: %s", o)
		}
	case cyc:
		class = "cycle"
		if len(o.pkgs) != 0 || len(o.writes) != 0 {
			r.Failf("lock/cycle/package-installed", "lock %s has a dependency cycle but the resolver wrote packages: %s", g, o)
		}
		if o.err == nil || o.resolved != "False" {
			r.Failf("lock/cycle/not-surfaced", "lock %s has a dependency cycle but reconcile returned err=%v and Resolved=%q", g, o.err, o.resolved)
		}
		if !strings.Contains(o.message, "cycle") {
			r.Failf("lock/cycle/not-surfaced", "lock %s has a dependency cycle but the Resolved condition says %q", g, o.message)
		}
		// The failed reconcile is retried by the same controller instance,
		// on a Lock that has not changed: always detected, every time.
		for retry := 1; retry <= 2; retry++ {
			o2 := w.reconcile(r, "resolver/lock-graph")
			if len(o2.pkgs) != 0 || len(o2.writes) != 0 {
				r.Failf("lock/cycle/package-installed-on-retry", "lock %s has a dependency cycle; retry %d of the reconcile (same controller instance, unchanged Lock) wrote packages: %s", g, retry, o2)
			}
			if o2.err == nil || o2.resolved != "False" {
				r.Failf("lock/cycle/not-surfaced-on-retry", "lock %s has a dependency cycle; retry %d returned err=%v and Resolved=%q", g, retry, o2.err, o2.resolved)
			}
		}
	case len(missing) == 0:
		class = "complete"
		if len(o.pkgs) != 0 || len(o.writes) != 0 {
			r.Failf("lock/complete/package-installed", "lock %s misses nothing but the resolver wrote packages: %s", g, o)
		}
		if o.err != nil || o.resolved != "True" {
			r.Failf("lock/complete/not-resolved", "lock %s misses nothing but err=%v Resolved=%q %s", g, o.err, o.resolved, o.message)
		}
	default:
		// The first missing dependency in lock / dependency order.
		first := -1
		for i := 0; i < g.n && first < 0; i++ {
			for j := 0; j < g.n; j++ {
				if g.has(i, j) && !g.present(j) {
					first = j
					break
				}
			}
		}
		class = fmt.Sprintf("install-p%d", first)
		wantKey := fmt.Sprintf("Provider/acme-p%d", first)
		wantPkg := src(first) + ":v1.1.0"
		if len(o.pkgs) != 1 || o.pkgs[wantKey] != wantPkg {
			sig := "lock/missing/wrong-package"
			if len(o.pkgs) == 0 {
				sig = "lock/missing/not-installed"
			} else if len(o.pkgs) == 1 && o.pkgs[wantKey] != "" {
				sig = "lock/missing/wrong-version"
			}
			r.Failf(sig, "lock %s: want exactly %s=%s created, got %s", g, wantKey, wantPkg, o)
		}
		if o.err != nil || o.resolved != "True" {
			r.Failf("lock/missing/not-resolved", "lock %s: installed %s but err=%v Resolved=%q", g, wantPkg, o.err, o.resolved)
		}
	}
	nt := ""
	if cyc || len(missing) > 0 {
		nt = report.Hash("lock", flags, g.String())
	}
	evalCase(rep, sc, report.Hash("lock", class, o.resolved, o.err != nil, len(o.pkgs)), nt)
	if nt != "" && g.edges() >= 3 && cyc && len(missing) > 0 && wantSample(rep, "lock") {
		rep.Sample(map[string]any{"part": "lock-graph", "lock": g.String(), "flags": flags, "map_order": perm, "cyclic": cyc, "missing": missing, "observed": o.String(), "choices": append([]int{}, r.Choices...), "scenario": sc})
	}
}
