package c17

import (
	"context"
	"fmt"

	metav1 "k8s.io/apimachinery/pkg/apis/meta/v1"

	pkgmetav1 "github.com/crossplane/crossplane/apis/pkg/meta/v1"
	v1 "github.com/crossplane/crossplane/apis/pkg/v1"
	"github.com/crossplane/crossplane/apis/pkg/v1beta1"
	"github.com/crossplane/crossplane/internal/controller/pkg/revision"
	"github.com/crossplane/crossplane/internal/dag"
	"github.com/crossplane/crossplane/internal/verifshim/vmap"
	"github.com/crossplane/crossplane/verif/explore"
	"github.com/crossplane/crossplane/verif/report"
	"github.com/crossplane/crossplane/verif/simkube"
	"github.com/crossplane/crossplane/verif/xrh"
)

// Versions of the lock packages of part 4 (slot 0 is the revision itself).
var slotVersion = slotLayouts[0]

// slotLayouts: which lock package is installed by digest. In the second
// layout the digest-installed package is the revision's first dependency.
var slotLayouts = [][]string{
	{"v1.0.0", "v1.0.0", "v1.1.0", digestA},
	{"v1.0.0", digestA, "v1.0.0", "v1.1.0"},
}

// Constraints the revision may put on a direct dependency: satisfied by
// v1.0.0 and v1.1.0; only by v1.1.0; the digest of slot 3; another digest;
// unparsable.
var directConstraints = []string{">=v1.0.0", ">=v1.1.0", digestA, digestB, "not-a-constraint"}

// resolveBody is part 4: PackageDependencyManager.Resolve (production wiring:
// MapDag) for the revision of slot 0 against a lock shaped like the graph.
func resolveBody(r *explore.Run, rep *report.R, sc string, n int, fixed []int, nCons int) {
	vmap.Order = nil
	g := chooseRows(r, n, fixed...) // slot 0: the revision's own dependencies (always "present")
	layout := r.Free(len(slotLayouts), "installed-versions-layout")
	slotVersion = slotLayouts[layout]
	defer func() { slotVersion = slotLayouts[0] }()
	selfInLock := r.Free(2, "self-in-lock(yes,no)") == 0
	cons := map[int]string{}
	var direct []int
	for j := 0; j < n; j++ {
		if g.has(0, j) {
			direct = append(direct, j)
			cons[j] = directConstraints[r.Free(nCons, fmt.Sprintf("constraint-on-p%d", j))]
		}
	}
	r.Logf("resolve: graph %s selfInLock=%v constraints=%v", g, selfInLock, cons)

	all := g.packages(func(i int) string { return slotVersion[i] }, func(i, j int) string {
		if i == 0 {
			return cons[j]
		}
		return ">=v1.0.0"
	})
	self := all[0]
	pkgs := all[1:]
	if selfInLock {
		pkgs = all
	}
	s := xrh.NewStore()
	s.Seed(&v1beta1.Lock{ObjectMeta: metav1.ObjectMeta{Name: "lock"}, Packages: pkgs})
	meta := &pkgmetav1.Provider{}
	for _, d := range self.Dependencies {
		p := d.Package
		meta.Spec.DependsOn = append(meta.Spec.DependsOn, pkgmetav1.Dependency{Provider: &p, Version: d.Constraints})
	}
	pr := &v1.ProviderRevision{ObjectMeta: metav1.ObjectMeta{Name: self.Name}}
	pr.Spec.Package = src(0) + ":" + slotVersion[0]
	pr.Spec.DesiredState = v1.PackageRevisionActive
	m := revision.NewPackageDependencyManager(s.Client("revision"), dag.NewMapDag, v1.ProviderGroupVersionKind)
	var found, installed, invalid int
	var err error
	guard(r, "resolve", func() { found, installed, invalid, err = m.Resolve(context.Background(), meta, pr) })
	r.Logf("observed found=%d installed=%d invalid=%d err=%v", found, installed, invalid, err)
	ctx := fmt.Sprintf("graph %s (p0 = the revision, in lock before the call: %v), constraints on direct dependencies %v", g, selfInLock, cons)

	adj := g.adj()
	clo := refClosure(adj)

	// (1) The property. "Satisfied" is how revision.Reconciler reads the
	// result: err == nil lets the revision proceed to become healthy; any
	// error sets UnknownHealth and stops. In the lock after the call the
	// revision itself is present.
	if err == nil {
		for j := 0; j < n; j++ {
			if clo[0][j] && j != 0 && !g.present(j) {
				r.Failf("resolve/satisfied-with-missing-dependency", "%s: Resolve returned no error but %s (direct or transitive dependency) is not in the lock", ctx, src(j))
			}
		}
		for _, j := range direct {
			if g.present(j) && !refVersionOK(slotVersion[j], cons[j]) {
				r.Failf("resolve/satisfied-with-invalid-version", "%s: Resolve returned no error but %s@%s does not satisfy %q", ctx, src(j), slotVersion[j], cons[j])
			}
		}
		if found != installed || invalid != 0 {
			r.Failf("resolve/satisfied-with-inconsistent-counts", "%s: no error but found=%d installed=%d invalid=%d", ctx, found, installed, invalid)
		}
	}

	// (2) Reference computation of the totals, on the lock as it was read:
	// a slot is missing if it is not a lock package (the revision itself
	// counts as missing only if it was not in the lock and something in the
	// lock depends on it).
	inLock := func(j int) bool {
		if j == 0 {
			return selfInLock
		}
		return g.present(j)
	}
	node := func(j int) bool { // exists in the dependency graph built from the lock
		if inLock(j) {
			return true
		}
		for i := 0; i < n; i++ {
			if inLock(i) && g.has(i, j) {
				return true
			}
		}
		return false
	}
	rf, ri, rv := 0, 0, 0
	satisfied := true
	exactInvalid := true
	early := false
	if !selfInLock {
		// Direct dependencies are looked at first; if one is unknown to
		// the graph the transitive ones are not examined.
		cnt := 0
		for _, j := range direct {
			if j == 0 || node(j) {
				cnt++
			}
		}
		if cnt != len(direct) {
			rf, ri, satisfied, early = len(direct), cnt, false, true
		}
	}
	if !early {
		for j := 0; j < n; j++ {
			if clo[0][j] {
				rf++
				if inLock(j) || (j == 0 && !g.namedByOthers(selfInLock)) {
					ri++
				}
			}
		}
		if ri != rf {
			satisfied = false
		} else {
			for _, j := range direct {
				c := cons[j]
				switch {
				case isDigest(c):
					if slotVersion[j] != c {
						satisfied, exactInvalid = false, false
					}
				case !refConstraintParses(c):
					satisfied, exactInvalid = false, false
				case isDigest(slotVersion[j]):
					satisfied, exactInvalid = false, false
				case !refVersionOK(slotVersion[j], c):
					rv++
					satisfied = false
				}
			}
		}
	}
	if (err == nil) != satisfied {
		sig := "resolve/spurious-error"
		if err == nil {
			sig = "resolve/error-expected"
		}
		r.Failf(sig, "%s: reference says satisfied=%v but Resolve returned err=%v (found=%d installed=%d invalid=%d)", ctx, satisfied, err, found, installed, invalid)
	}
	if found != rf || installed != ri {
		r.Failf("resolve/counts/found-installed", "%s: Resolve reported found=%d installed=%d, reference found=%d installed=%d (err=%v)", ctx, found, installed, rf, ri, err)
	}
	if exactInvalid && invalid != rv {
		r.Failf("resolve/counts/invalid", "%s: Resolve reported invalid=%d, reference %d (err=%v)", ctx, invalid, rv, err)
	}
	if invalid < 0 || invalid > installed || installed > found {
		r.Failf("resolve/counts/inconsistent", "%s: found=%d installed=%d invalid=%d", ctx, found, installed, invalid)
	}
	// The revision registers itself in the lock.
	lock := &v1beta1.Lock{}
	if !s.PeekInto(simkube.ObjKey{Group: pkgGroup, Kind: "Lock", Name: "lock"}, lock) {
		r.Failf("resolve/lock-deleted", "%s: lock disappeared", ctx)
	}
	nself := 0
	for _, lp := range lock.Packages {
		if lp.Name == self.Name {
			nself++
		}
	}
	if nself != 1 {
		r.Failf("resolve/self-not-registered-once", "%s: the lock lists the revision %d times after Resolve", ctx, nself)
	}

	nt := ""
	if len(direct) > 0 {
		nt = report.Hash("resolve", g.String(), selfInLock, fmt.Sprint(cons), layout)
	}
	evalCase(rep, sc, report.Hash("resolve", found, installed, invalid, err != nil), nt)
	if nt != "" && g.edges() >= 3 && invalid > 0 && wantSample(rep, "resolve") {
		rep.Sample(map[string]any{"part": "resolve", "graph": g.String(), "self_in_lock": selfInLock, "constraints": fmt.Sprint(cons), "found": found, "installed": installed, "invalid": invalid, "error": fmt.Sprint(err), "choices": append([]int{}, r.Choices...), "scenario": sc})
	}
}

// namedByOthers: is slot 0 named by a package that is in the lock as read?
func (g gcase) namedByOthers(selfInLock bool) bool {
	for i := 0; i < g.n; i++ {
		if i == 0 && !selfInLock {
			continue
		}
		if g.has(i, 0) {
			return true
		}
	}
	return false
}

// inactiveBody: an inactive revision resolves nothing and writes nothing.
func inactiveBody(r *explore.Run, rep *report.R, sc string) {
	vmap.Order = nil
	g := chooseRows(r, 2, r.Free(nopts(2)-1, "row-p0"))
	all := g.packages(func(i int) string { return slotVersion[i] }, func(int, int) string { return ">=v9.0.0" })
	s := xrh.NewStore()
	s.Seed(&v1beta1.Lock{ObjectMeta: metav1.ObjectMeta{Name: "lock"}, Packages: all[1:]})
	meta := &pkgmetav1.Provider{}
	for _, d := range all[0].Dependencies {
		p := d.Package
		meta.Spec.DependsOn = append(meta.Spec.DependsOn, pkgmetav1.Dependency{Provider: &p, Version: d.Constraints})
	}
	pr := &v1.ProviderRevision{ObjectMeta: metav1.ObjectMeta{Name: all[0].Name}}
	pr.Spec.Package = src(0) + ":v1.0.0"
	pr.Spec.DesiredState = v1.PackageRevisionInactive
	m := revision.NewPackageDependencyManager(s.Client("revision"), dag.NewMapDag, v1.ProviderGroupVersionKind)
	f, i, v, err := m.Resolve(context.Background(), meta, pr)
	if f != 0 || i != 0 || v != 0 || err != nil || len(s.Log) != 0 {
		r.Failf("resolve/inactive", "inactive revision, graph %s: found=%d installed=%d invalid=%d err=%v writes=%d", g, f, i, v, err, len(s.Log))
	}
	evalCase(rep, sc, report.Hash("inactive", f, i, v), "")
}
