package c17

import (
	"fmt"
	"strings"

	"github.com/crossplane/crossplane/apis/pkg/v1beta1"
	"github.com/crossplane/crossplane/internal/verifshim/vmap"
	"github.com/crossplane/crossplane/verif/explore"
)

const (
	digestA = "sha256:aaaaaaaaaaaaaaaaaaaaaaaaaaaaaaaaaaaaaaaaaaaaaaaaaaaaaaaaaaaaaaaa"
	digestB = "sha256:bbbbbbbbbbbbbbbbbbbbbbbbbbbbbbbbbbbbbbbbbbbbbbbbbbbbbbbbbbbbbbbb"
)

var providerType = v1beta1.ProviderPackageType

// src is the OCI source (the DAG identifier) of package slot i.
func src(i int) string { return srcTable[i] }

var srcTable = func() []string {
	t := make([]string, 8)
	for i := range t {
		t[i] = fmt.Sprintf("xpkg.example.org/acme/p%d", i)
	}
	return t
}()

func slotOf(id string) int {
	for i := 0; i < 8; i++ {
		if src(i) == id {
			return i
		}
	}
	return -1
}

// gcase is a lock shaped like a directed graph on n package slots. rows[i] is
// -1 if slot i is not in the lock, else the bit mask of the slots that
// package i depends on (bit i = self loop). A slot that is absent but named
// by an edge is a missing (implied) dependency; an absent, unnamed slot does
// not exist at all, so graphs on fewer than n nodes are included.
type gcase struct {
	n    int
	rows []int
}

// nopts is the number of alternatives per row: 2^n masks + absent.
func nopts(n int) int { return 1<<n + 1 }

// decodeRow maps a choice to a row, simplest first: 0 = present without
// dependencies, 1..2^n-1 = masks, 2^n = absent.
func decodeRow(opt, n int) int {
	if opt == 1<<n {
		return -1
	}
	return opt
}

func (g gcase) present(i int) bool { return g.rows[i] >= 0 }

func (g gcase) has(i, j int) bool { return g.rows[i] >= 0 && g.rows[i]&(1<<j) != 0 }

func (g gcase) adj() [][]bool {
	a := make([][]bool, g.n)
	for i := range a {
		a[i] = make([]bool, g.n)
		for j := range a[i] {
			a[i][j] = g.has(i, j)
		}
	}
	return a
}

func (g gcase) edges() int {
	e := 0
	for i := 0; i < g.n; i++ {
		for j := 0; j < g.n; j++ {
			if g.has(i, j) {
				e++
			}
		}
	}
	return e
}

// named reports whether some present package depends on slot j.
func (g gcase) named(j int) bool {
	for i := 0; i < g.n; i++ {
		if g.has(i, j) {
			return true
		}
	}
	return false
}

// keys are the slots that are nodes of the graph: present or named.
func (g gcase) keys() []int {
	var k []int
	for i := 0; i < g.n; i++ {
		if g.present(i) || g.named(i) {
			k = append(k, i)
		}
	}
	return k
}

// missing are the named, absent slots.
func (g gcase) missing() []int {
	var k []int
	for i := 0; i < g.n; i++ {
		if !g.present(i) && g.named(i) {
			k = append(k, i)
		}
	}
	return k
}

func (g gcase) String() string {
	var b strings.Builder
	for i := 0; i < g.n; i++ {
		if i > 0 {
			b.WriteString(" ")
		}
		if !g.present(i) {
			fmt.Fprintf(&b, "p%d:absent", i)
			continue
		}
		fmt.Fprintf(&b, "p%d->[", i)
		first := true
		for j := 0; j < g.n; j++ {
			if g.has(i, j) {
				if !first {
					b.WriteString(",")
				}
				first = false
				fmt.Fprintf(&b, "p%d", j)
			}
		}
		b.WriteString("]")
	}
	return b.String()
}

// chooseRows builds a gcase whose first rows are fixed (scenario parameters)
// and whose other rows are free choices.
func chooseRows(r *explore.Run, n int, fixed ...int) gcase {
	g := gcase{n: n, rows: make([]int, n)}
	for i, f := range fixed {
		g.rows[i] = decodeRow(f, n)
	}
	for i := len(fixed); i < n; i++ {
		g.rows[i] = decodeRow(r.Free(nopts(n), fmt.Sprintf("row-p%d", i)), n)
	}
	return g
}

// packages renders the lock packages of the graph.
func (g gcase) packages(version func(i int) string, constraint func(i, j int) string) []v1beta1.LockPackage {
	var out []v1beta1.LockPackage
	for i := 0; i < g.n; i++ {
		if !g.present(i) {
			continue
		}
		lp := v1beta1.LockPackage{Name: fmt.Sprintf("p%d-rev", i), Type: &providerType, Source: src(i), Version: version(i), Dependencies: []v1beta1.Dependency{}}
		for j := 0; j < g.n; j++ {
			if g.has(i, j) {
				lp.Dependencies = append(lp.Dependencies, v1beta1.Dependency{Package: src(j), Type: &providerType, Constraints: constraint(i, j)})
			}
		}
		out = append(out, lp)
	}
	return out
}

// ---- map iteration orders -------------------------------------------------

func permutations(k int) [][]int {
	var out [][]int
	cur := make([]int, 0, k)
	used := make([]bool, k)
	var rec func()
	rec = func() {
		if len(cur) == k {
			out = append(out, append([]int{}, cur...))
			return
		}
		for i := 0; i < k; i++ {
			if !used[i] {
				used[i] = true
				cur = append(cur, i)
				rec()
				cur = cur[:len(cur)-1]
				used[i] = false
			}
		}
	}
	rec()
	return out
}

// orders returns the iteration orders explored for a map of k keys: every
// permutation if all, else sorted, reversed and every rotation (deduplicated,
// sorted first).
func orders(k int, all bool) [][]int {
	key := k * 2
	if all {
		key++
	}
	if o, ok := orderCache[key]; ok {
		return o
	}
	o := computeOrders(k, all)
	orderCache[key] = o
	return o
}

var orderCache = map[int][][]int{}

func computeOrders(k int, all bool) [][]int {
	if k <= 1 {
		return [][]int{nil}
	}
	if all {
		return permutations(k)
	}
	var out [][]int
	seen := map[string]bool{}
	add := func(p []int) {
		s := fmt.Sprint(p)
		if !seen[s] {
			seen[s] = true
			out = append(out, p)
		}
	}
	id := make([]int, k)
	rev := make([]int, k)
	for i := range id {
		id[i] = i
		rev[i] = k - 1 - i
	}
	add(id)
	add(rev)
	for s := 1; s < k; s++ {
		p := make([]int, k)
		for i := range p {
			p[i] = (i + s) % k
		}
		add(p)
	}
	return out
}

// installOrder makes every rewritten range-over-map of the code under test
// iterate according to perm: a site with m <= len(perm) keys visits its
// sorted keys in the order of perm restricted to 0..m-1.
func installOrder(perm []int) {
	if perm == nil {
		vmap.Order = nil
		return
	}
	vmap.Order = func(_ string, m int) []int {
		if m > len(perm) {
			return nil
		}
		p := make([]int, 0, m)
		for _, x := range perm {
			if x < m {
				p = append(p, x)
			}
		}
		return p
	}
}

// chooseOrder picks and installs a map order for k keys.
func chooseOrder(r *explore.Run, k int, all bool) []int {
	os := orders(k, all)
	p := os[r.Free(len(os), "map-order")]
	installOrder(p)
	return p
}
