package c17

import (
	"context"
	"errors"
	"fmt"
	"sort"
	"strings"

	"github.com/google/go-containerregistry/pkg/name"
	conregv1 "github.com/google/go-containerregistry/pkg/v1"
	metav1 "k8s.io/apimachinery/pkg/apis/meta/v1"
	"k8s.io/apimachinery/pkg/apis/meta/v1/unstructured"
	"k8s.io/apimachinery/pkg/runtime/schema"
	"k8s.io/apimachinery/pkg/types"
	"sigs.k8s.io/controller-runtime/pkg/client"
	"sigs.k8s.io/controller-runtime/pkg/manager"

	"github.com/crossplane/crossplane-runtime/pkg/feature"

	"github.com/crossplane/crossplane/apis/pkg/v1beta1"
	"github.com/crossplane/crossplane/internal/controller/pkg/resolver"
	"github.com/crossplane/crossplane/internal/dag"
	"github.com/crossplane/crossplane/internal/features"
	"github.com/crossplane/crossplane/internal/xpkg"
	"github.com/crossplane/crossplane/verif/explore"
	"github.com/crossplane/crossplane/verif/report"
	"github.com/crossplane/crossplane/verif/simkube"
	"github.com/crossplane/crossplane/verif/xrh"
)

// sampled keeps one sample per class so that samples are diverse.
var sampled = map[string]bool{}

func wantSample(rep *report.R, class string) bool {
	if !counting || sampled[class] || !rep.WantSample() {
		return false
	}
	sampled[class] = true
	return true
}

// counting is false while the determinism self check replays executions, so
// that evidence counts only explored cases.
var counting = true

func evalCase(rep *report.R, sc, outcome, nontrivial string) {
	if counting {
		rep.Eval(sc, outcome, nontrivial)
	}
}

// fakeManager provides the only thing resolver.NewReconciler asks of a
// manager: the client.
type fakeManager struct {
	manager.Manager
	c client.Client
}

func (m fakeManager) GetClient() client.Client { return m.c }

// tagFetcher is the registry: it lists the scripted tags.
type tagFetcher struct {
	tags  []string
	asked []string
}

func (f *tagFetcher) Fetch(context.Context, name.Reference, ...string) (conregv1.Image, error) {
	return nil, errors.New("tagFetcher: Fetch is not part of the model")
}

func (f *tagFetcher) Head(context.Context, name.Reference, ...string) (*conregv1.Descriptor, error) {
	return nil, errors.New("tagFetcher: Head is not part of the model")
}

func (f *tagFetcher) Tags(_ context.Context, ref name.Reference, _ ...string) ([]string, error) {
	f.asked = append(f.asked, ref.String())
	return append([]string{}, f.tags...), nil
}

const pkgGroup = "pkg.crossplane.io"

var pkgKinds = []string{"Configuration", "Function", "Provider"}

// world is one resolver reconciler over one simulated API server.
type world struct {
	s     *simkube.Store
	rec   *resolver.Reconciler
	fetch *tagFetcher
}

// flags: 0 = upgrades off, 1 = upgrades on, 2 = upgrades and downgrades on.
// The wiring mirrors resolver.Setup: the upgrading DAG is used iff the
// upgrade feature is enabled, downgrades only together with it.
func newWorld(pkgs []v1beta1.LockPackage, installed []*unstructured.Unstructured, tags []string, flags int) *world {
	s := xrh.NewStore()
	// The lock already carries the resolver's finalizer (as after its first
	// reconcile).
	lock := &v1beta1.Lock{ObjectMeta: metav1.ObjectMeta{Name: "lock", Finalizers: []string{"lock.pkg.crossplane.io"}}, Packages: pkgs}
	s.Seed(lock)
	for _, u := range installed {
		s.Seed(u)
	}
	c := s.Client("resolver")
	f := &feature.Flags{}
	fetch := &tagFetcher{tags: tags}
	opts := []resolver.ReconcilerOption{
		resolver.WithFetcher(fetch),
		resolver.WithDefaultRegistry("xpkg.example.org"),
		resolver.WithConfigStore(xpkg.NewImageConfigStore(c, "crossplane-system")),
		resolver.WithFeatures(f),
	}
	if flags >= 1 {
		f.Enable(features.EnableAlphaDependencyVersionUpgrades)
		opts = append(opts, resolver.WithNewDagFn(dag.NewUpgradingMapDag))
		if flags == 2 {
			opts = append(opts, resolver.WithDowngradesEnabled())
		}
	}
	return &world{s: s, fetch: fetch, rec: resolver.NewReconciler(fakeManager{c: c}, opts...)}
}

func providerPackage(objName, pkg string) *unstructured.Unstructured {
	u := &unstructured.Unstructured{}
	u.SetAPIVersion(pkgGroup + "/v1")
	u.SetKind("Provider")
	u.SetName(objName)
	_ = unstructured.SetNestedField(u.Object, pkg, "spec", "package")
	return u
}

// observation of one reconcile.
type observation struct {
	err      error
	resolved string            // status of the Lock's Resolved condition ("" if unset)
	message  string            // its message
	pkgs     map[string]string // Kind/name -> spec.package of every package object
	writes   []string          // effective writes to package objects
}

func (o observation) String() string {
	var ks []string
	for k, v := range o.pkgs {
		ks = append(ks, k+"="+v)
	}
	sort.Strings(ks)
	e := "nil"
	if o.err != nil {
		e = "error"
	}
	return fmt.Sprintf("err=%s resolved=%s packages=[%s] writes=%v", e, o.resolved, strings.Join(ks, " "), o.writes)
}

// reconcile runs the real resolver reconciler once.
func (w *world) reconcile(r *explore.Run, site string) observation {
	var out xrh.Outcome
	guard(r, site, func() { out = xrh.Reconcile(w.rec, types.NamespacedName{Name: "lock"}) })
	o := observation{err: out.Err, pkgs: map[string]string{}}
	for _, k := range pkgKinds {
		for _, u := range w.s.All(schema.GroupKind{Group: pkgGroup, Kind: k}) {
			p, _, _ := unstructured.NestedString(u.Object, "spec", "package")
			o.pkgs[k+"/"+u.GetName()] = p
		}
	}
	for _, wr := range w.s.Log {
		if wr.Effective && wr.Call.Key.Group == pkgGroup && wr.Call.Key.Kind != "Lock" {
			o.writes = append(o.writes, wr.Call.String())
		}
	}
	if l := w.s.Peek(simkube.ObjKey{Group: pkgGroup, Kind: "Lock", Name: "lock"}); l != nil {
		conds, _, _ := unstructured.NestedSlice(l.Object, "status", "conditions")
		for _, c := range conds {
			m, _ := c.(map[string]any)
			if m["type"] == "Resolved" {
				o.resolved, _ = m["status"].(string)
				o.message, _ = m["message"].(string)
			}
		}
	}
	return o
}

// versionOf splits "source:tag" / "source@digest".
func versionOf(pkg, source string) string {
	rest := strings.TrimPrefix(pkg, source)
	if rest == pkg || rest == "" {
		return ""
	}
	return rest[1:]
}
