// C13: dynamic controllers and watches stay consistent under any
// interleaving. The real ControllerEngine, InformerTrackingCache,
// StoppableSource and watch GarbageCollector run under a cooperative
// scheduler (vsync shim: every lock acquisition is a scheduling point);
// all schedules of small thread scenarios are enumerated up to a preemption
// bound and checked for deadlock, linearizability against a sequential
// specification, and handler-registration accounting.
package c13

import (
	"github.com/crossplane/crossplane/internal/verifshim/vmap"
	"context"
	"fmt"
	"sort"
	"strings"
	gosync "sync"
	"testing"

	corev1 "k8s.io/api/core/v1"
	metav1 "k8s.io/apimachinery/pkg/apis/meta/v1"
	extv1 "k8s.io/apiextensions-apiserver/pkg/apis/apiextensions/v1"
	"k8s.io/apimachinery/pkg/apis/meta/v1/unstructured"
	"k8s.io/apimachinery/pkg/runtime"
	"k8s.io/apimachinery/pkg/runtime/schema"
	kcache "k8s.io/client-go/tools/cache"
	"sigs.k8s.io/controller-runtime/pkg/cache"
	"sigs.k8s.io/controller-runtime/pkg/client"
	"sigs.k8s.io/controller-runtime/pkg/client/apiutil"
	kcontroller "sigs.k8s.io/controller-runtime/pkg/controller"
	"sigs.k8s.io/controller-runtime/pkg/handler"
	"sigs.k8s.io/controller-runtime/pkg/manager"
	"sigs.k8s.io/controller-runtime/pkg/reconcile"
	"sigs.k8s.io/controller-runtime/pkg/source"

	"github.com/crossplane/crossplane-runtime/pkg/resource"

	v1 "github.com/crossplane/crossplane/apis/apiextensions/v1"
	"github.com/crossplane/crossplane/internal/controller/apiextensions/composite/watch"
	"github.com/crossplane/crossplane/internal/engine"
	"github.com/crossplane/crossplane/verif/explore"
	"github.com/crossplane/crossplane/verif/report"
	"github.com/crossplane/crossplane/verif/sched"
	"github.com/crossplane/crossplane/verif/simkube"
	"github.com/crossplane/crossplane/verif/xrh"
)

// ---- fakes -----------------------------------------------------------------

type fakeMgr struct {
	manager.Manager
	elected chan struct{}
}

func (m *fakeMgr) Elected() <-chan struct{}   { return m.elected }
func (m *fakeMgr) GetScheme() *runtime.Scheme { return xrh.Scheme }

type registration struct {
	id  int
	inf *fakeInformer
	h   kcache.ResourceEventHandler
}

func (r *registration) HasSynced() bool { return true }

type fakeInformer struct {
	cache.Informer
	gvk  schema.GroupVersionKind
	regs map[*registration]bool
	c    *fakeCache
}

func (i *fakeInformer) AddEventHandler(h kcache.ResourceEventHandler) (kcache.ResourceEventHandlerRegistration, error) {
	i.c.mu.Lock()
	defer i.c.mu.Unlock()
	i.c.nreg++
	r := &registration{id: i.c.nreg, inf: i, h: h}
	i.regs[r] = true
	return r, nil
}

func (i *fakeInformer) RemoveEventHandler(h kcache.ResourceEventHandlerRegistration) error {
	i.c.mu.Lock()
	defer i.c.mu.Unlock()
	if r, ok := h.(*registration); ok {
		delete(i.regs, r)
	}
	return nil
}

// fakeCache is the cache.Cache under the InformerTrackingCache: it records
// handler registrations per kind and drops them when an informer is removed.
type fakeCache struct {
	cache.Cache
	mu   gosync.Mutex // real informers are thread safe
	infs map[schema.GroupVersionKind]*fakeInformer
	nreg int
	// fail, when set, decides whether this GetInformer call fails (a costed
	// deviation chosen by the explorer).
	fail   func() bool
	failed int
}

func (c *fakeCache) GetInformer(_ context.Context, obj client.Object, _ ...cache.InformerGetOption) (cache.Informer, error) {
	gvk, err := apiutil.GVKForObject(obj, xrh.Scheme)
	if err != nil {
		return nil, err
	}
	if c.fail != nil && c.fail() {
		c.mu.Lock()
		c.failed++
		c.mu.Unlock()
		return nil, fmt.Errorf("injected informer error for %s", gvk.Kind)
	}
	c.mu.Lock()
	defer c.mu.Unlock()
	i, ok := c.infs[gvk]
	if !ok {
		i = &fakeInformer{gvk: gvk, regs: map[*registration]bool{}, c: c}
		c.infs[gvk] = i
	}
	return i, nil
}

func (c *fakeCache) RemoveInformer(_ context.Context, obj client.Object) error {
	gvk, err := apiutil.GVKForObject(obj, xrh.Scheme)
	if err != nil {
		return err
	}
	c.mu.Lock()
	defer c.mu.Unlock()
	delete(c.infs, gvk)
	return nil
}

func (c *fakeCache) liveRegs(gvk schema.GroupVersionKind) int {
	c.mu.Lock()
	defer c.mu.Unlock()
	if i, ok := c.infs[gvk]; ok {
		return len(i.regs)
	}
	return 0
}

type fakeController struct {
	kcontroller.Controller
	name      string
	ctx       context.Context
	cancelled bool
	started   bool
	mu        gosync.Mutex
	kill      chan struct{}
}

func (f *fakeController) Watch(src source.TypedSource[reconcile.Request]) error {
	return src.Start(context.Background(), nil)
}

func (f *fakeController) Start(ctx context.Context) error {
	f.mu.Lock()
	f.started = true
	f.mu.Unlock()
	select {
	case <-ctx.Done():
		f.mu.Lock()
		f.cancelled = true
		f.mu.Unlock()
	case <-f.kill:
		// The harness ends the execution (after judging it): a controller
		// that was never cancelled must not keep the bubble alive.
	}
	return nil
}

// ---- operations --------------------------------------------------------------

var (
	kinds = map[string]schema.GroupVersionKind{
		"k1": xrh.ResA, "k2": xrh.ResB, "xr": xrh.XRGVK,
		"rev": v1.CompositionRevisionGroupVersionKind,
	}
)

func obj(kind string) client.Object {
	if kind == "rev" {
		return &v1.CompositionRevision{}
	}
	u := &unstructured.Unstructured{}
	u.SetGroupVersionKind(kinds[kind])
	return u
}

func wtype(kind string) engine.WatchType {
	switch kind {
	case "xr":
		return engine.WatchTypeCompositeResource
	case "rev":
		return engine.WatchTypeCompositionRevision
	}
	return engine.WatchTypeComposedResource
}

func wid(kind string) engine.WatchID { return engine.WatchID{Type: wtype(kind), GVK: kinds[kind]} }

func widName(w engine.WatchID) string {
	for n, g := range kinds {
		if g == w.GVK {
			return string(w.Type) + ":" + n
		}
	}
	return string(w.Type) + ":" + w.GVK.Kind
}

// op is one engine operation: name, controller, kinds.
type op struct {
	name  string
	ctrl  string
	kinds []string
}

func (o op) String() string { return fmt.Sprintf("%s(%s%v)", o.name, o.ctrl, o.kinds) }

type world struct {
	eng   *engine.ControllerEngine
	cache *fakeCache
	infs  *engine.InformerTrackingCache
	store *simkube.Store
	ctrls []*fakeController
	gcs   map[string]*watch.GarbageCollector
	clock int
	hist  []sched.Op

	gcCtx    context.Context
	gcCancel context.CancelFunc
}

func newWorld(xrRefs []string) *world {
	w := &world{cache: &fakeCache{infs: map[schema.GroupVersionKind]*fakeInformer{}}, gcs: map[string]*watch.GarbageCollector{}}
	w.store = xrh.NewStore()
	for i, k := range xrRefs {
		xr := xrh.XR(fmt.Sprintf("xr%d", i), "comp")
		// "k1", "k1+k2", and with a trailing "!" an XR that is being deleted
		// (held by a finalizer while its composed resources go away).
		terminating := strings.HasSuffix(k, "!")
		k = strings.TrimSuffix(k, "!")
		if k != "" {
			var rs []corev1.ObjectReference
			for _, one := range strings.Split(k, "+") {
				g := kinds[one]
				rs = append(rs, corev1.ObjectReference{APIVersion: g.GroupVersion().String(), Kind: g.Kind, Name: "r"})
			}
			xr.SetResourceReferences(rs)
		}
		if terminating {
			now := metav1.Now()
			xr.SetDeletionTimestamp(&now)
			xr.SetFinalizers([]string{"composite.apiextensions.crossplane.io"})
		}
		w.store.Seed(xr)
	}
	el := make(chan struct{})
	close(el)
	w.infs = engine.TrackInformers(w.cache, xrh.Scheme)
	c := w.store.Client("engine")
	w.eng = engine.New(&fakeMgr{elected: el}, w.infs, c, c)
	for _, n := range []string{"c1", "c2"} {
		w.gcs[n] = watch.NewGarbageCollector(n, resource.CompositeKind(xrh.XRGVK), w.eng)
	}
	w.gcCtx, w.gcCancel = context.WithCancel(context.Background())
	if err := w.eng.GarbageCollectCustomResourceInformers(w.gcCtx); err != nil {
		panic(err)
	}
	return w
}

// killControllers releases controller goroutines that were never cancelled.
func (w *world) killControllers() {
	for _, fc := range w.ctrls {
		select {
		case <-fc.kill:
		default:
			close(fc.kill)
		}
	}
}

// deleteCRD delivers a CRD delete event to the handler the engine registered
// with GarbageCollectCustomResourceInformers.
func (w *world) deleteCRD(kind string) {
	gvk := kinds[kind]
	crd := &extv1.CustomResourceDefinition{}
	crd.SetName(strings.ToLower(gvk.Kind) + "s." + gvk.Group)
	crd.Spec.Group = gvk.Group
	crd.Spec.Names.Kind = gvk.Kind
	crd.Spec.Versions = []extv1.CustomResourceDefinitionVersion{{Name: gvk.Version}}
	w.cache.mu.Lock()
	var hs []kcache.ResourceEventHandler
	if i, ok := w.cache.infs[extv1.SchemeGroupVersion.WithKind("CustomResourceDefinition")]; ok {
		for r := range i.regs {
			hs = append(hs, r.h)
		}
	}
	w.cache.mu.Unlock()
	for _, h := range hs {
		h.OnDelete(crd)
	}
}

func (w *world) newController(name string, _ manager.Manager, _ kcontroller.Options) (kcontroller.Controller, error) {
	fc := &fakeController{name: name, kill: make(chan struct{})}
	w.ctrls = append(w.ctrls, fc)
	return fc, nil
}

func errStr(err error) string {
	if err != nil {
		return "err"
	}
	return "ok"
}

// exec runs one operation against the real engine and returns its observable
// result.
func (w *world) exec(o op) string {
	ctx := context.Background()
	switch o.name {
	case "Start":
		return errStr(w.eng.Start(o.ctrl, engine.WithNewControllerFn(w.newController)))
	case "Stop":
		return errStr(w.eng.Stop(ctx, o.ctrl))
	case "IsRunning":
		return fmt.Sprint(w.eng.IsRunning(o.ctrl))
	case "StartWatches":
		var ws []engine.Watch
		for _, k := range o.kinds {
			ws = append(ws, engine.WatchFor(obj(k), wtype(k), &handler.EnqueueRequestForObject{}))
		}
		return errStr(w.eng.StartWatches(o.ctrl, ws...))
	case "StopWatches":
		var ws []engine.WatchID
		for _, k := range o.kinds {
			ws = append(ws, wid(k))
		}
		n, err := w.eng.StopWatches(ctx, o.ctrl, ws...)
		if err != nil {
			return "err"
		}
		return fmt.Sprint(n)
	case "GetWatches":
		ws, err := w.eng.GetWatches(o.ctrl)
		if err != nil {
			return "err"
		}
		var names []string
		for _, x := range ws {
			names = append(names, widName(x))
		}
		sort.Strings(names)
		return strings.Join(names, ",")
	case "GC":
		return errStr(w.gcs[o.ctrl].GarbageCollectWatchesNow(ctx))
	case "RawRemoveInformer":
		// Directly on the tracking cache (not what the engine does itself,
		// but part of the cache's contract: it must stay consistent).
		return errStr(w.infs.RemoveInformer(ctx, obj(o.kinds[0])))
	case "RemoveInformer":
		// The production path: the CRD that defines the kind is deleted and
		// the engine's CRD informer handler removes the kind's informer.
		w.deleteCRD(o.kinds[0])
		return "ok"
	}
	panic("unknown op " + o.name)
}

// ---- sequential specification -------------------------------------------------

// spec state: "c1=w1,w2;c2=..." for running controllers.
type specState map[string]map[string]bool

func parseSpec(s string) specState {
	st := specState{}
	if s == "" {
		return st
	}
	for _, part := range strings.Split(s, ";") {
		kv := strings.SplitN(part, "=", 2)
		st[kv[0]] = map[string]bool{}
		if kv[1] != "" {
			for _, w := range strings.Split(kv[1], ",") {
				st[kv[0]][w] = true
			}
		}
	}
	return st
}

func (st specState) String() string {
	var cs []string
	for c, ws := range st {
		var l []string
		for w := range ws {
			l = append(l, w)
		}
		sort.Strings(l)
		cs = append(cs, c+"="+strings.Join(l, ","))
	}
	sort.Strings(cs)
	return strings.Join(cs, ";")
}

// specStep is the sequential specification of the engine. used lists the
// composed kinds referenced by XRs (for GC).
func specStep(used map[string]bool) func(state string, o sched.Op) []sched.Alt {
	one := func(r, n string) []sched.Alt { return []sched.Alt{{Result: r, Next: n}} }
	return func(state string, o sched.Op) []sched.Alt {
		st := parseSpec(state)
		parts := strings.SplitN(o.Args, "|", 2)
		ctrl := parts[0]
		var ks []string
		if len(parts) > 1 && parts[1] != "" {
			ks = strings.Split(parts[1], ",")
		}
		ws, running := st[ctrl]
		switch o.Name {
		case "Start":
			if !running {
				st[ctrl] = map[string]bool{}
			}
			return one("ok", st.String())
		case "Stop":
			delete(st, ctrl)
			return one("ok", st.String())
		case "IsRunning":
			return one(fmt.Sprint(running), state)
		case "StartWatches":
			if !running {
				return one("err", state)
			}
			for _, k := range ks {
				ws[widName(wid(k))] = true
			}
			return one("ok", st.String())
		case "StopWatches":
			if !running {
				// A caller that looked the controller up just before it was
				// stopped finds nothing to stop: harmless, and not promised
				// to be an error by the property.
				return []sched.Alt{{Result: "err", Next: state}, {Result: "0", Next: state}}
			}
			n := 0
			for _, k := range ks {
				if ws[widName(wid(k))] {
					delete(ws, widName(wid(k)))
					n++
				}
			}
			return one(fmt.Sprint(n), st.String())
		case "GetWatches":
			if !running {
				// Likewise an empty answer for a controller that was just
				// stopped is accepted.
				return []sched.Alt{{Result: "err", Next: state}, {Result: "", Next: state}}
			}
			var l []string
			for w := range ws {
				l = append(l, w)
			}
			sort.Strings(l)
			return one(strings.Join(l, ","), state)
		case "GC":
			if !running {
				return []sched.Alt{{Result: "err", Next: state}, {Result: "ok", Next: state}}
			}
			for w := range ws {
				if strings.HasPrefix(w, string(engine.WatchTypeComposedResource)+":") && !used[strings.SplitN(w, ":", 2)[1]] {
					delete(ws, w)
				}
			}
			return one("ok", st.String())
		case "RawRemoveInformer":
			return one("ok", state)
		case "RemoveInformer":
			// The watches of the kind die with its informer; the engine
			// forgets them (they are started again by the next request).
			for _, w := range st {
				for _, k := range ks {
					delete(w, widName(wid(k)))
				}
			}
			return one("ok", st.String())
		}
		panic("spec: unknown op " + o.Name)
	}
}

// ---- scenarios -----------------------------------------------------------------

type scenario struct {
	name           string
	xrRefs         []string // one XR per entry referencing that composed kind ("" = no refs)
	pre            []op     // sequential prefix
	threads        [][]op
	bound          int
	informerFaults bool
	// mapOrders: Go's map iteration order is unspecified and differs from
	// one range statement to the next. With this flag the explorer owns it:
	// every range over a two-or-more-entry map in the engine iterates in
	// sorted or in reverse order, alternating per range statement, starting
	// with either (a choice) - enough for two concurrent loops over one map
	// to meet in opposite directions.
	mapOrders bool
}

func sw(c string, ks ...string) op  { return op{"StartWatches", c, ks} }
func stw(c string, ks ...string) op { return op{"StopWatches", c, ks} }

func curated(bound int) []scenario {
	start1 := op{"Start", "c1", nil}
	return []scenario{
		{"dup-start-watch", nil, []op{start1}, [][]op{{sw("c1", "k1")}, {sw("c1", "k1")}}, bound, false, false},
		{"dup-start-watch-3", nil, []op{start1}, [][]op{{sw("c1", "k1")}, {sw("c1", "k1", "k2")}, {sw("c1", "k2")}}, bound, false, false},
		{"stop-watch-race", nil, []op{start1, sw("c1", "k1", "k2")}, [][]op{{stw("c1", "k1")}, {stw("c1", "k1", "k2")}, {{"GetWatches", "c1", nil}}}, bound, false, false},
		{"start-stop-isrunning", nil, nil, [][]op{{start1, sw("c1", "k1")}, {{"Stop", "c1", nil}}, {{"IsRunning", "c1", nil}}}, bound, false, false},
		{"stop-vs-startwatches", nil, []op{start1}, [][]op{{{"Stop", "c1", nil}}, {sw("c1", "k1")}}, bound, false, false},
		{"remove-informer", nil, []op{start1, sw("c1", "k1")}, [][]op{{{"RemoveInformer", "", []string{"k1"}}}, {sw("c1", "k1")}}, bound, false, false},
		{"two-controllers", nil, []op{start1, {"Start", "c2", nil}, sw("c1", "k1"), sw("c2", "k1")}, [][]op{{{"Stop", "c1", nil}}, {sw("c2", "k1", "k2")}, {stw("c2", "k1")}}, bound, false, false},
		{"gc-vs-startwatches", []string{"k1"}, []op{start1, sw("c1", "xr", "rev", "k1", "k2")}, [][]op{{{"GC", "c1", nil}}, {sw("c1", "k2")}, {{"GetWatches", "c1", nil}}}, bound, false, false},
		{"gc-unused", []string{""}, []op{start1, sw("c1", "xr", "rev", "k1")}, [][]op{{{"GC", "c1", nil}}, {{"GetWatches", "c1", nil}}}, bound, false, false},
		{"start-start-stop", nil, nil, [][]op{{start1}, {start1}, {{"Stop", "c1", nil}}}, bound, false, false},
		{"restart", nil, []op{start1, sw("c1", "k1")}, [][]op{{{"Stop", "c1", nil}, start1}, {sw("c1", "k1")}, {{"GetWatches", "c1", nil}}}, bound, false, false},
		{"shared-informer-removed", nil, []op{start1, {"Start", "c2", nil}, sw("c1", "k1")}, [][]op{{sw("c2", "k1")}, {{"RemoveInformer", "", []string{"k1"}}}}, bound, false, false},
		{"shared-informer-removed-3", nil, []op{start1, {"Start", "c2", nil}, sw("c1", "k1")}, [][]op{{sw("c2", "k1")}, {{"RemoveInformer", "", []string{"k1"}}}, {sw("c1", "k1", "k2")}}, bound, false, false},
		// Two informers removed at once (two CRDs deleted together) under two
		// running controllers: the removals loop over the controllers.
		{mapOrders: true, name: "two-informer-removals", pre: []op{start1, {"Start", "c2", nil}, sw("c1", "k1", "k2"), sw("c2", "k1", "k2")}, threads: [][]op{{{"RemoveInformer", "", []string{"k1"}}}, {{"RemoveInformer", "", []string{"k2"}}}}, bound: bound},
		{mapOrders: true, name: "two-informer-removals-vs-startwatches", pre: []op{start1, {"Start", "c2", nil}, sw("c1", "k1"), sw("c2", "k2")}, threads: [][]op{{{"RemoveInformer", "", []string{"k1"}}}, {{"RemoveInformer", "", []string{"k2"}}}, {sw("c1", "k2")}}, bound: bound},
		{informerFaults: true, name: "stop-with-informer-error", pre: []op{start1, sw("c1", "k1", "k2")}, threads: [][]op{{{"Stop", "c1", nil}, {"Stop", "c1", nil}}, {{"IsRunning", "c1", nil}}}, bound: bound},
		{informerFaults: true, name: "watches-with-informer-error", pre: []op{start1, sw("c1", "k1")}, threads: [][]op{{sw("c1", "k2"), stw("c1", "k1", "k2")}, {{"Stop", "c1", nil}}}, bound: bound},
	}
}

var alphabet = []op{
	{"Start", "c1", nil}, {"Stop", "c1", nil}, {"IsRunning", "c1", nil},
	sw("c1", "k1"), sw("c1", "k1", "k2"), stw("c1", "k1"), stw("c1", "k1", "k2"),
	{"GetWatches", "c1", nil}, {"GC", "c1", nil}, {"RemoveInformer", "", []string{"k1"}},
	{"RawRemoveInformer", "", []string{"k1"}},
}

func opArgs(o op) string { return o.ctrl + "|" + strings.Join(o.kinds, ",") }

func body(r *explore.Run, rep *report.R, sc scenario) {
	used := map[string]bool{}
	for _, k := range sc.xrRefs {
		if k != "" {
			used[k] = true
		}
	}
	w := newWorld(sc.xrRefs)
	tick := func() int { w.clock++; return w.clock }
	record := func(thread string, o op, f func() string) {
		call := tick()
		res := f()
		w.hist = append(w.hist, sched.Op{Thread: thread, Call: call, Return: tick(), Name: o.name, Args: opArgs(o), Result: res})
	}
	// Sequential prefix (no scheduler: vsync passes through to sync).
	for _, o := range sc.pre {
		o := o
		record("pre", o, func() string { return w.exec(o) })
	}
	s := sched.New(r)
	s.ReleasePoints = true
	vmap.Order = nil
	if sc.mapOrders {
		calls := r.Free(2, "first-map-range-iterates(sorted,reversed)")
		vmap.Order = func(_ string, n int) []int {
			calls++
			if calls%2 == 1 {
				return nil
			}
			p := make([]int, n)
			for i := range p {
				p[i] = n - 1 - i
			}
			return p
		}
		defer func() { vmap.Order = nil }()
	}
	if sc.informerFaults {
		w.cache.fail = func() bool { return r.Choose(2, "informer-get") == 1 }
	}
	defer func() {
		// Cleanup outside the scheduler: stop everything so that helper
		// goroutines (controllers, collectors) exit and the bubble can end.
		s.Abort()
		s.Close()
		for _, c := range []string{"c1", "c2"} {
			_ = w.eng.Stop(context.Background(), c)
		}
		w.gcCancel()
		w.killControllers()
	}()
	for i, ops := range sc.threads {
		ops := ops
		label := fmt.Sprintf("T%d", i+1)
		s.Spawn(label, func() {
			for _, o := range ops {
				o := o
				record(label, o, func() string { return w.exec(o) })
			}
		})
	}
	s.Run()
	s.Close()
	w.cache.fail = nil
	if len(s.Panics) > 0 {
		r.Failf("panic/"+sc.name, "thread panicked: %v", s.Panics)
	}
	// ---- quiescent point: observe, then linearizability ----
	for _, c := range []string{"c1", "c2"} {
		c := c
		record("obs", op{"IsRunning", c, nil}, func() string { return w.exec(op{"IsRunning", c, nil}) })
		record("obs", op{"GetWatches", c, nil}, func() string { return w.exec(op{"GetWatches", c, nil}) })
	}
	// The tracking cache and the cache it wraps agree on which informers
	// exist.
	active := map[schema.GroupVersionKind]bool{}
	for _, g := range w.infs.ActiveInformers() {
		active[g] = true
	}
	w.cache.mu.Lock()
	for n, g := range kinds {
		_, has := w.cache.infs[g]
		// (An informer that failed to start stays marked active by design:
		// judged only in executions without injected informer errors.)
		if has != active[g] && w.cache.failed == 0 {
			w.cache.mu.Unlock()
			r.Failf("cache/tracking-inconsistent", "kind %s: tracked as active=%v but the wrapped cache has an informer=%v", n, active[g], has)
		}
	}
	w.cache.mu.Unlock()
	var hs []string
	for _, h := range w.hist {
		hs = append(hs, fmt.Sprintf("%s:%s(%s)=%s@%d-%d", h.Thread, h.Name, h.Args, h.Result, h.Call, h.Return))
	}
	r.Logf("history: %s", strings.Join(hs, " "))
	// A Stop that failed half way (injected informer error) leaves a partially
	// stopped controller, which the sequential specification does not
	// describe; such histories are judged by the structural checks only.
	if w.cache.failed == 0 && !sched.Linearizable(w.hist, "", specStep(used)) {
		r.Failf("linearizability/"+opClass(w.hist), "history is not linearizable w.r.t. the engine specification: %s", strings.Join(hs, " "))
	}
	// "A watch lost with its informer is re-established by the next start
	// request": every running controller now asks for both composed kinds
	// (and again for whatever else it reports); afterwards each running
	// controller must hold exactly one live registration per kind it watches.
	expect := map[schema.GroupVersionKind]int{}
	for _, c := range []string{"c1", "c2"} {
		if !w.eng.IsRunning(c) {
			continue
		}
		w.exec(sw(c, "k1", "k2"))
		ws, err := w.eng.GetWatches(c)
		if err != nil {
			continue
		}
		for _, x := range ws {
			for n, g := range kinds {
				if g == x.GVK {
					w.exec(sw(c, n))
				}
			}
			expect[x.GVK]++
		}
		for _, k := range []string{"k1", "k2"} {
			found := false
			for _, x := range ws {
				if x == wid(k) {
					found = true
				}
			}
			if !found {
				r.Failf("watch/not-started-by-request", "controller %s asked for a watch on %s but does not hold it afterwards (history: %s)", c, k, strings.Join(hs, " "))
			}
		}
	}
	for n, g := range kinds {
		if got := w.cache.liveRegs(g); got != expect[g] {
			sig := "registrations/leaked/"
			if got < expect[g] {
				sig = "registrations/lost/"
			}
			if expect[g] == 0 {
				sig += "on-stopped-controller/"
			} else {
				sig += "duplicate-source/"
			}
			r.Failf(strings.TrimSuffix(sig, "/"), "kind %s has %d live event handler registrations but the running controllers hold %d watches on it (history: %s)", n, got, expect[g], strings.Join(hs, " "))
		}
	}
	// After stopping every controller: no registration survives, every
	// controller context is cancelled.
	for _, c := range []string{"c1", "c2"} {
		_ = w.eng.Stop(context.Background(), c)
	}
	report.Settle()
	for n, g := range kinds {
		if got := w.cache.liveRegs(g); got != 0 {
			r.Failf("stop/handlers-left/"+opClass(w.hist), "after stopping all controllers kind %s still has %d event handler registrations (history: %s)", n, got, strings.Join(hs, " "))
		}
	}
	for _, fc := range w.ctrls {
		fc.mu.Lock()
		bad := fc.started && !fc.cancelled
		fc.mu.Unlock()
		if bad {
			r.Failf("stop/not-cancelled/"+opClass(w.hist), "controller %s was stopped but its context is not cancelled", fc.name)
		}
	}
	var out []string
	for _, h := range w.hist {
		out = append(out, h.Name+"="+h.Result)
	}
	nt := ""
	if r.Deviations() > 0 || len(sc.threads) > 1 {
		nt = report.Hash(sc.name, r.Choices)
	}
	rep.Eval(sc.name, report.Hash(sc.name, out), nt)
	if rep.WantSample() && r.Deviations() > 0 {
		rep.Sample(map[string]any{"scenario": sc.name, "schedule_choices": append([]int{}, r.Choices...), "history": hs})
	}
}

// collector enumerates, sequentially, every set of XR references and running
// watches given to the real collector.
func collectorBody(r *explore.Run, rep *report.R) {
	refs := []string{}
	for i := 0; i < 2; i++ {
		switch r.Free(7, fmt.Sprintf("xr%d", i)) {
		case 1:
			refs = append(refs, "")
		case 2:
			refs = append(refs, "k1")
		case 3:
			refs = append(refs, "k2")
		case 4:
			refs = append(refs, "k1!")
		case 5:
			refs = append(refs, "k2!")
		case 6:
			refs = append(refs, "k1+k2")
		}
	}
	var running []string
	for _, k := range []string{"xr", "rev", "k1", "k2"} {
		if r.Bool("watch-" + k) {
			running = append(running, k)
		}
	}
	w := newWorld(refs)
	defer func() { _ = w.eng.Stop(context.Background(), "c1"); w.gcCancel(); w.killControllers() }()
	w.exec(op{"Start", "c1", nil})
	if len(running) > 0 {
		w.exec(sw("c1", running...))
	}
	res := w.exec(op{"GC", "c1", nil})
	got := w.exec(op{"GetWatches", "c1", nil})
	used := map[string]bool{}
	for _, k := range refs {
		// An XR that is being deleted still references (and needs events
		// from) its composed resources.
		for _, one := range strings.Split(strings.TrimSuffix(k, "!"), "+") {
			used[one] = true
		}
	}
	var want []string
	for _, k := range running {
		if wtype(k) == engine.WatchTypeComposedResource && !used[k] {
			continue
		}
		want = append(want, widName(wid(k)))
	}
	sort.Strings(want)
	r.Logf("xr refs %v, running %v: GC=%s watches after=%s", refs, running, res, got)
	if got != strings.Join(want, ",") {
		kind := "composed"
		for _, k := range running {
			if wtype(k) != engine.WatchTypeComposedResource && !strings.Contains(got, widName(wid(k))) {
				kind = string(wtype(k))
			}
		}
		r.Failf("collector/wrong-watches/"+kind, "XRs reference %v and watches %v were running; after garbage collection the engine watches [%s], want [%s]", refs, running, got, strings.Join(want, ","))
	}
	rep.Eval("collector", report.Hash(got), report.Hash(refs, running))
	if rep.WantSample() {
		rep.Sample(map[string]any{"scenario": "collector", "xr_refs": refs, "running": running, "after": got})
	}
}

func TestCheck(t *testing.T) {
	rep := report.New("C13", "model_checking")
	rep.Meta(
		"Each scenario is a closed system of 2-3 threads x 1-2 engine operations (Start/Stop/IsRunning/StartWatches/StopWatches/GetWatches/GarbageCollectWatchesNow/RemoveInformer over controllers {c1,c2}, kinds {k1,k2,XR,CompositionRevision}) forced to collide on the same controller and kind, run on the real ControllerEngine + InformerTrackingCache + StoppableSource + watch.GarbageCollector compiled with the vsync shim; every lock acquisition is a scheduling point and all schedules with <= P preemptions are enumerated (DFS over choice sequences). Oracles: no deadlock; the call/return history plus final observations is linearizable w.r.t. a sequential specification (brute force); live handler registrations per kind equal the watches held by running controllers after the next start request; after Stop no registration survives and every controller context is cancelled. The collector is additionally run sequentially on every combination of XR references and running watches. states = distinct executions' histories; transitions = executions.",
		[]string{"interleaving granularity = lock acquisitions of the instrumented files (engine.go, cache.go, source.go); unsynchronised memory accesses between them are not visible to this scheduler (a free-running -race pass is auxiliary, see DESIGN.md)", "fake manager (elected), fake informer cache recording registrations per kind, fake controller whose Watch starts the source and whose Start blocks until cancelled"},
		[]string{"go1.26.8 testing/synctest (durable-block detection)", "vsync shim", "fake informer cache"},
	)
	bound := 2
	if report.Thorough() {
		bound = 3
	}
	rep.Bound("preemptions", bound)
	var scs []report.Scenario
	for _, sc := range curated(bound) {
		sc := sc
		scs = append(scs, report.Scenario{Name: sc.name, Bound: sc.bound, Wrap: report.Bubble(t), Body: func(r *explore.Run) { body(r, rep, sc) }})
	}
	// All pairs of single operations on c1, from two pre-states.
	pres := map[string][]op{"fresh": nil, "running": {{"Start", "c1", nil}, sw("c1", "k1")}}
	for pn, pre := range pres {
		for i, a := range alphabet {
			for j, b := range alphabet {
				if j < i {
					continue
				}
				sc := scenario{name: fmt.Sprintf("pair/%s/%s|%s", pn, a, b), xrRefs: []string{"k2"}, pre: pre, threads: [][]op{{a}, {b}}, bound: bound}
				scs = append(scs, report.Scenario{Name: sc.name, Bound: sc.bound, Wrap: report.Bubble(t), Body: func(r *explore.Run) { body(r, rep, sc) }})
			}
		}
	}
	if report.Thorough() {
		// Triples of single operations from the running pre-state.
		for i, a := range alphabet {
			for j, b := range alphabet {
				for k, c := range alphabet {
					if j < i || k < j {
						continue
					}
					sc := scenario{name: fmt.Sprintf("triple/%s|%s|%s", a, b, c), xrRefs: []string{"k2"}, pre: pres["running"], threads: [][]op{{a}, {b}, {c}}, bound: 2}
					scs = append(scs, report.Scenario{Name: sc.name, Bound: sc.bound, Wrap: report.Bubble(t), Body: func(r *explore.Run) { body(r, rep, sc) }})
				}
			}
		}
	}
	scs = append(scs, report.Scenario{Name: "collector", Bound: 0, Wrap: report.Bubble(t), Body: func(r *explore.Run) { collectorBody(r, rep) }})
	rep.Bound("scenarios", len(scs))
	rep.SelfCheck(t, scs[0], nil)
	rep.RunScenarios(t, scs)
	rep.Write(t)
}

// opClass names the set of operation kinds that ran concurrently (a stable,
// scenario-independent identity for a violation's root cause).
func opClass(h []sched.Op) string {
	set := map[string]bool{}
	for _, o := range h {
		if o.Thread != "pre" && o.Thread != "obs" {
			set[o.Name] = true
		}
	}
	var l []string
	for k := range set {
		l = append(l, k)
	}
	sort.Strings(l)
	return strings.Join(l, "+")
}
