package c13

import (
	"context"
	"sync"
	"testing"

	"github.com/crossplane/crossplane/verif/explore"
)

// TestRaceFreeRunning is the auxiliary, free-running pass for the "does not
// race" clause: the same scenario thread bodies run as plain goroutines (the
// vsync shim passes through to sync) under the Go race detector. It samples
// schedules; it is reported as auxiliary evidence, never as the deciding step.
func TestRaceFreeRunning(t *testing.T) {
	_ = explore.Run{}
	for rep := 0; rep < 200; rep++ {
		for _, sc := range curated(0) {
			w := newWorld(sc.xrRefs)
			for _, o := range sc.pre {
				w.exec(o)
			}
			var wg sync.WaitGroup
			for _, ops := range sc.threads {
				ops := ops
				wg.Add(1)
				go func() {
					defer wg.Done()
					for _, o := range ops {
						w.exec(o)
					}
				}()
			}
			wg.Wait()
			for _, c := range []string{"c1", "c2"} {
				_ = w.eng.Stop(context.Background(), c)
			}
			w.gcCancel()
			w.killControllers()
		}
	}
}
