// C03: a failing composition pipeline is never destructive; garbage
// collection is exact. All pipelines of 1..3 steps over a behaviour alphabet
// x observed states are run through the real XR reconciler (function composer
// with the real FetchingFunctionRunner) and compared with a reference
// interpreter of the pipeline; P&T template-set changes likewise. One API
// fault per reconcile (reads included) is enumerated on top.
package c03

import (
	"context"
	"errors"
	"fmt"
	"sort"
	"strings"
	"testing"

	"google.golang.org/protobuf/types/known/structpb"
	metav1 "k8s.io/apimachinery/pkg/apis/meta/v1"
	"k8s.io/apimachinery/pkg/apis/meta/v1/unstructured"
	"k8s.io/apimachinery/pkg/types"
	"k8s.io/utils/ptr"

	fnv1 "github.com/crossplane/crossplane/apis/apiextensions/fn/proto/v1"
	v1 "github.com/crossplane/crossplane/apis/apiextensions/v1"
	xcomposite "github.com/crossplane/crossplane/internal/controller/apiextensions/composite"
	"github.com/crossplane/crossplane/internal/xfn"
	"github.com/crossplane/crossplane/verif/explore"
	"github.com/crossplane/crossplane/verif/report"
	"github.com/crossplane/crossplane/verif/simkube"
	"github.com/crossplane/crossplane/verif/xrh"
)

// Step behaviours. Each is a deterministic function of its request.
// The reqalt-* behaviours never stabilise: their requirements alternate in
// exactly one dimension of the selector (one per field a comparison could
// forget).
var behaviours = []string{"base", "keep", "addx", "dropa", "rename", "error", "fatal", "fatal-nomsg", "warn", "normal", "req0", "req1", "req4", "req5", "reqalt", "reqalt-labelvalue", "reqalt-labelkey", "reqalt-kind", "reqalt-apiversion", "reqalt-key"}

var quickBehaviours = []string{"base", "keep", "addx", "dropa", "rename", "error", "fatal", "fatal-nomsg", "warn", "req1", "req4", "req5", "reqalt", "reqalt-labelvalue", "reqalt-labelkey", "reqalt-kind", "reqalt-apiversion", "reqalt-key"}

// Observed states (prepared by real reconciles, then perturbed).
var observedStates = []string{"none", "a", "ab", "a-deleted", "a-terminating", "a-foreign", "a-uncontrolled", "a-foreign-same-name", "a-client-side-managed", "ab-a-foreign"}

func names(d map[string]*fnv1.Resource) []string {
	var out []string
	for k := range d {
		out = append(out, k)
	}
	sort.Strings(out)
	return out
}

func copyDesired(req *fnv1.RunFunctionRequest) map[string]*fnv1.Resource {
	out := map[string]*fnv1.Resource{}
	for k, v := range req.GetDesired().GetResources() {
		out[k] = v
	}
	return out
}

func ctxCounter(req *fnv1.RunFunctionRequest, key string) int {
	if v := req.GetContext().GetFields()[key]; v != nil {
		return int(v.GetNumberValue())
	}
	return 0
}

func withCounter(req *fnv1.RunFunctionRequest, key string, n int) *structpb.Struct {
	m := map[string]any{}
	if req.GetContext() != nil {
		m = req.GetContext().AsMap()
	}
	m[key] = float64(n)
	s, _ := structpb.NewStruct(m)
	return s
}

func requirement(name string) *fnv1.Requirements {
	return &fnv1.Requirements{ExtraResources: map[string]*fnv1.ResourceSelector{
		"extra": {ApiVersion: "v1", Kind: "ConfigMap", Match: &fnv1.ResourceSelector_MatchName{MatchName: name}},
	}}
}

// runner interprets the behaviour named by the step (function name =
// "<index>-<behaviour>").
func runner(calls *[]string) xrh.FunctionRunner {
	return func(_ context.Context, name string, req *fnv1.RunFunctionRequest) (*fnv1.RunFunctionResponse, error) {
		*calls = append(*calls, name)
		b := name[strings.Index(name, "-")+1:]
		d := copyDesired(req)
		rsp := &fnv1.RunFunctionResponse{Context: req.GetContext()}
		switch b {
		case "base":
			d["a"] = xrh.DesiredResource("a", "p", true)
			d["b"] = xrh.DesiredResource("b", "p", true)
		case "base-a":
			d["a"] = xrh.DesiredResource("a", "p", true)
		case "none":
		case "keep":
		case "addx":
			d["x"] = xrh.DesiredResource("x", "p", true)
		case "dropa":
			delete(d, "a")
		case "rename":
			if _, ok := d["a"]; ok {
				delete(d, "a")
				d["c"] = xrh.DesiredResource("c", "p", true)
			}
		case "error":
			return nil, errors.New("function failed")
		case "fatal":
			rsp.Results = []*fnv1.Result{{Severity: fnv1.Severity_SEVERITY_FATAL, Message: "fatal"}}
		case "fatal-nomsg":
			// A fatal result need not carry a message.
			rsp.Results = []*fnv1.Result{{Severity: fnv1.Severity_SEVERITY_NORMAL, Message: ""}, {Severity: fnv1.Severity_SEVERITY_FATAL}}
		case "warn":
			rsp.Results = []*fnv1.Result{{Severity: fnv1.Severity_SEVERITY_WARNING, Message: "warn"}}
		case "normal":
			rsp.Results = []*fnv1.Result{{Severity: fnv1.Severity_SEVERITY_NORMAL, Message: "normal"}}
		case "req0", "req1", "req4", "req5":
			n := int(b[3] - '0')
			key := "round-" + name
			round := ctxCounter(req, key)
			k := round
			if k > n {
				k = n
			}
			rsp.Requirements = requirement(fmt.Sprintf("cm-%d", k))
			rsp.Context = withCounter(req, key, round+1)
		case "reqalt":
			key := "round-" + name
			round := ctxCounter(req, key)
			rsp.Requirements = requirement(fmt.Sprintf("cm-%d", round%2))
			rsp.Context = withCounter(req, key, round+1)
		case "reqalt-labelvalue", "reqalt-labelkey", "reqalt-kind", "reqalt-apiversion", "reqalt-key":
			key := "round-" + name
			round := ctxCounter(req, key)
			v := fmt.Sprint(round % 2)
			sel := &fnv1.ResourceSelector{ApiVersion: "v1", Kind: "ConfigMap", Match: &fnv1.ResourceSelector_MatchLabels{MatchLabels: &fnv1.MatchLabels{Labels: map[string]string{"k": "v"}}}}
			rk := "extra"
			switch b {
			case "reqalt-labelvalue":
				sel.Match = &fnv1.ResourceSelector_MatchLabels{MatchLabels: &fnv1.MatchLabels{Labels: map[string]string{"k": "v" + v}}}
			case "reqalt-labelkey":
				sel.Match = &fnv1.ResourceSelector_MatchLabels{MatchLabels: &fnv1.MatchLabels{Labels: map[string]string{"k" + v: "v"}}}
			case "reqalt-kind":
				sel.Kind = "Kind" + v
			case "reqalt-apiversion":
				sel.ApiVersion = "example.org/v" + v
			case "reqalt-key":
				rk = "extra" + v
			}
			rsp.Requirements = &fnv1.Requirements{ExtraResources: map[string]*fnv1.ResourceSelector{rk: sel}}
			rsp.Context = withCounter(req, key, round+1)
		default:
			panic("unknown behaviour " + b)
		}
		rsp.Desired = &fnv1.State{Resources: d}
		return rsp, nil
	}
}

// reference interprets a pipeline: final desired names, or failure.
func reference(steps []string) (final map[string]bool, fails bool) {
	d := map[string]bool{}
	for _, b := range steps {
		switch b {
		case "base":
			d["a"], d["b"] = true, true
		case "addx":
			d["x"] = true
		case "dropa":
			delete(d, "a")
		case "rename":
			if d["a"] {
				delete(d, "a")
				d["c"] = true
			}
		case "error", "fatal", "fatal-nomsg", "req5", "reqalt":
			return nil, true
		}
		if strings.HasPrefix(b, "reqalt-") {
			return nil, true
		}
	}
	return d, false
}

type world struct {
	s   *simkube.Store
	xrd *v1.CompositeResourceDefinition
}

func setComposition(s *simkube.Store, steps []string) {
	var fnames []string
	for i, b := range steps {
		fnames = append(fnames, fmt.Sprintf("%d-%s", i, b))
	}
	comp := xrh.PipelineComposition("comp", fnames...)
	s.Remove(simkube.ObjKey{Group: "apiextensions.crossplane.io", Kind: "Composition", Name: "comp"})
	for _, r := range s.All(v1.CompositionRevisionGroupVersionKind.GroupKind()) {
		s.Remove(simkube.KeyOf(r))
	}
	rev := xrh.SeedComposition(s, comp)
	// The XR follows the latest revision automatically; drop a stale pin.
	s.Mutate(xrh.XRKey("xr1"), func(u *unstructured.Unstructured) {
		unstructured.RemoveNestedField(u.Object, "spec", "compositionRevisionRef")
	})
	_ = rev
}

var prepared = map[string]*simkube.Store{}

// prepare builds the observed state by real reconciles and a perturbation.
func prepare(state string) *simkube.Store {
	if p, ok := prepared[state]; ok {
		return p.Clone()
	}
	xrh.BeginExecution(3)
	s := xrh.NewStore()
	xrd := xrh.XRD()
	s.Seed(xrd)
	var calls []string
	base := []string{"base-a"}
	switch state {
	case "none":
		base = []string{"none"}
	case "ab", "ab-a-foreign":
		base = []string{"base"}
	}
	setComposition(s, base)
	s.Seed(xrh.XR("xr1", "comp"))
	c := s.Client("xr")
	rec := xrh.NewXRReconciler(xrd, xrh.XROptions{Cached: c, Runner: runner(&calls)})
	if !xrh.ToQuiescence(s, rec, types.NamespacedName{Name: "xr1"}, 10, nil) {
		panic(explore.HarnessError{Msg: "preparation did not quiesce"})
	}
	as := s.All(xrh.ResA.GroupKind())
	switch state {
	case "a-deleted":
		s.Remove(simkube.KeyOf(as[0]))
	case "a-terminating":
		s.Mutate(simkube.KeyOf(as[0]), func(u *unstructured.Unstructured) {
			u.SetFinalizers([]string{"example.org/hold"})
			now := metav1.Now()
			u.SetDeletionTimestamp(&now)
		})
	case "a-foreign", "ab-a-foreign":
		// (ab-a-foreign: the XR's other resource, referenced after this one,
		// is still its own.)
		s.Mutate(simkube.KeyOf(as[0]), func(u *unstructured.Unstructured) {
			u.SetOwnerReferences([]metav1.OwnerReference{{APIVersion: "example.org/v1", Kind: "XThing", Name: "other", UID: "foreign-uid", Controller: ptr.To(true)}})
		})
	case "a-foreign-same-name":
		s.Mutate(simkube.KeyOf(as[0]), func(u *unstructured.Unstructured) {
			u.SetOwnerReferences([]metav1.OwnerReference{{APIVersion: "other.example.org/v1", Kind: "OtherXR", Name: "xr1", UID: "foreign-uid", Controller: ptr.To(true)}})
		})
	case "a-uncontrolled":
		s.Mutate(simkube.KeyOf(as[0]), func(u *unstructured.Unstructured) { u.SetOwnerReferences(nil) })
	case "a-client-side-managed":
		// The resource was last written by the patch-and-transform composer
		// (client-side apply) before the Composition moved to a pipeline: its
		// managed fields are still to be upgraded, which is a write.
		s.Mutate(simkube.KeyOf(as[0]), func(u *unstructured.Unstructured) {
			now := metav1.Now()
			u.SetManagedFields([]metav1.ManagedFieldsEntry{{Manager: "crossplane", Operation: metav1.ManagedFieldsOperationUpdate, APIVersion: u.GetAPIVersion(), Time: &now, FieldsType: "FieldsV1", FieldsV1: &metav1.FieldsV1{Raw: []byte(`{"f:spec":{"f:param":{},"f:for":{}}}`)}}})
		})
	}
	prepared[state] = s.Clone()
	return s
}

func composedSnapshot(s *simkube.Store) map[string]*unstructured.Unstructured {
	out := map[string]*unstructured.Unstructured{}
	for _, gvk := range xrh.ComposedKinds {
		for _, o := range s.All(gvk.GroupKind()) {
			out[o.GetKind()+"/"+o.GetName()] = o
		}
	}
	return out
}

func isComposedKind(k string) bool { return k == "ResA" || k == "ResB" || k == "ResX" }

func pipelineBody(r *explore.Run, rep *report.R, scName string, nsteps int, alphabet []string, faults bool) {
	pipelineBodyVia(r, rep, scName, nsteps, alphabet, faults, false)
}

// pipelineBodyVia: with overGRPC the functions are gRPC servers reached
// through the real PackagedFunctionRunner (see grpc_test.go).
func pipelineBodyVia(r *explore.Run, rep *report.R, scName string, nsteps int, alphabet []string, faults, overGRPC bool) {
	state := observedStates[r.Free(len(observedStates), "observed")]
	steps := make([]string, nsteps)
	for i := range steps {
		steps[i] = alphabet[r.Free(len(alphabet), fmt.Sprintf("step%d", i))]
	}
	order := r.Free(2, "maporder")
	// In the fault scenarios the informer cache may lag: reads of composed
	// resources miss the cache and fall through to the uncached client.
	cacheMiss := faults && r.Bool("cache-miss")
	s := prepare(state)
	xrh.BeginExecution(11)
	xrh.MapOrder(order)
	xrd := xrh.XRD()
	var calls []string
	var fnRunner xcomposite.FunctionRunner = runner(&calls)
	if overGRPC {
		env, err := grpcServers()
		if err != nil {
			panic(explore.HarnessError{Msg: "cannot start function servers: " + err.Error()})
		}
		version := []string{"v1", "beta"}[r.Free(2, "function-serves")]
		fns := setCompositionGRPC(s, steps, env.endpoints[version])
		env.mu.Lock()
		env.calls = &calls
		env.mu.Unlock()
		pr := xfn.NewPackagedFunctionRunner(s.Client("xfn"))
		fnRunner = pr
		defer func() {
			for _, k := range fns {
				s.Remove(k)
			}
			_, _ = pr.GarbageCollectConnectionsNow(context.Background())
			env.mu.Lock()
			env.calls = nil
			env.mu.Unlock()
		}()
		scName += "/" + version
	} else {
		setComposition(s, steps)
	}
	// A 404 for an existing object is what a lagging cache answers; the
	// uncached client (API server) never does that.
	inj := (&xrh.FaultInjector{Run: r, Reads: true, NotFoundReads: true, NotFoundFilter: func(c simkube.Call) bool { return c.Client == "xr" }}).WithErrClasses(s)
	s.Inj = inj
	c := s.Client("xr")
	opts := xrh.XROptions{Cached: c, Runner: fnRunner}
	if cacheMiss {
		opts.Cached = &xrh.MissingCache{Client: c, Kinds: map[string]bool{"ResA": true, "ResB": true, "ResX": true}}
		opts.Uncached = s.Client("xr-uncached")
	}
	rec := xrh.NewXRReconciler(xrd, opts)

	xrBefore := s.Peek(xrh.XRKey("xr1"))
	refsBefore := xrh.Refs(xrBefore)
	before := composedSnapshot(s)
	// Previously composed by this XR and observable: referenced, existing,
	// annotated, controlled by the XR or by nobody.
	observed := map[string]string{} // resource name -> Kind/name
	inRefs := map[string]bool{}
	for _, ref := range refsBefore {
		inRefs[ref] = true
	}
	for id, o := range before {
		if !inRefs[id] {
			continue
		}
		if ctl := metav1.GetControllerOf(o); ctl != nil && ctl.UID != xrBefore.GetUID() {
			continue
		}
		observed[xrh.ResourceNameOf(o)] = id
	}

	final, refFails := reference(steps)
	logStart := len(s.Log)
	inj.Armed = faults
	out := xrh.Reconcile(rec, types.NamespacedName{Name: "xr1"})
	inj.Armed = false
	faulted := len(inj.Taken) > 0
	r.Logf("state=%s steps=%v order=%d faults=%v -> err=%v crashed=%v calls=%v", state, steps, order, inj.Taken, out.Err, out.Crashed != nil, calls)

	after := composedSnapshot(s)
	xrAfter := s.Peek(xrh.XRKey("xr1"))
	log := s.Log[logStart:]

	// An injected failure of a read of a composed resource is a failure to
	// observe the existing composed resources (or to allocate a name): like a
	// failing pipeline it must leave everything untouched.
	observeFailed := false
	for _, f := range inj.Taken {
		// (A 404 from the cache is not a failure: the composer then asks the
		// API server.)
		if strings.HasPrefix(f, "get Res") && !strings.HasSuffix(f, "not-found") {
			observeFailed = true
		}
	}
	if observeFailed {
		for _, w := range log {
			if w.Effective && !w.Call.DryRun && isComposedKind(w.Call.Key.Kind) {
				r.Failf("fail/destructive/observe-error", "reading a composed resource failed (%v), yet the reconcile performed %s (steps %v, observed state %s, cache miss %v)", inj.Taken, w.Call, steps, state, cacheMiss)
			}
		}
		if got := xrh.Refs(xrAfter); strings.Join(got, ",") != strings.Join(refsBefore, ",") {
			r.Failf("fail/refs-changed/observe-error", "reading a composed resource failed (%v), yet spec.resourceRefs changed from %v to %v", inj.Taken, refsBefore, got)
		}
	}
	if refFails && !faulted {
		// The pipeline fails: nothing composed may be touched.
		for _, w := range log {
			if w.Effective && !w.Call.DryRun && isComposedKind(w.Call.Key.Kind) {
				r.Failf("fail/destructive/"+failKind(steps), "pipeline %v fails, yet the reconcile performed %s", steps, w.Call)
			}
		}
		if got := xrh.Refs(xrAfter); strings.Join(got, ",") != strings.Join(refsBefore, ",") {
			r.Failf("fail/refs-changed/"+failKind(steps), "pipeline %v fails, yet spec.resourceRefs changed from %v to %v", steps, refsBefore, got)
		}
	}

	// Whatever happens (also under an injected fault): a resource that is in
	// the final desired state is never deleted, not even transiently; and
	// when the pipeline fails nothing is deleted at all.
	for _, w := range log {
		if w.Call.Verb != "delete" || !isComposedKind(w.Call.Key.Kind) || !w.Effective {
			continue
		}
		id := w.Call.Key.Kind + "/" + w.Call.Key.Name
		var rn string
		if o := before[id]; o != nil {
			rn = xrh.ResourceNameOf(o)
		}
		if refFails {
			r.Failf("fail/deleted/"+failKind(steps), "pipeline %v fails, yet %s was deleted", steps, id)
		}
		if final[rn] {
			r.Failf("gc/deleted-desired", "resource %q (%s) is in the final desired state %v but was deleted (steps %v, observed state %s)", rn, id, keys(final), steps, state)
		}
	}

	if !refFails && !faulted {
		if out.Err != nil && false {
			r.Failf("success/error", "pipeline %v should succeed but reconcile returned %v", steps, out.Err)
		}
		// Exactness: deleted = observed \ final desired.
		want := map[string]bool{}
		for rn, id := range observed {
			if !final[rn] {
				want[id] = true
			}
		}
		got := map[string]bool{}
		for id, o := range before {
			a, still := after[id]
			if !still || (o.GetDeletionTimestamp() == nil && a.GetDeletionTimestamp() != nil) {
				got[id] = true
			}
		}
		// A delete call addressed to an already terminating object has no
		// visible effect; count it through the write log instead.
		for _, w := range log {
			if w.Call.Verb == "delete" && isComposedKind(w.Call.Key.Kind) && w.Err == "" && !w.Call.DryRun {
				got[w.Call.Key.Kind+"/"+w.Call.Key.Name] = true
			}
		}
		if fmt.Sprint(keys(want)) != fmt.Sprint(keys(got)) {
			r.Failf("gc/inexact", "steps %v observed-state %s: garbage collection deleted %v, want exactly %v (observed %v, final desired %v)", steps, state, keys(got), keys(want), observed, keys(final))
		}
		// Every finally desired resource exists afterwards and is referenced.
		have := map[string]bool{}
		for _, o := range xrh.ComposedOf(s, xrAfter.GetUID(), xrh.ComposedKinds...) {
			have[xrh.ResourceNameOf(o)] = true
		}
		for rn := range final {
			if !have[rn] {
				r.Failf("success/missing", "steps %v observed-state %s: desired resource %q does not exist after a successful reconcile", steps, state, rn)
			}
		}
		// ... once: an existing resource of the XR is updated, not doubled.
		count := map[string][]string{}
		for _, o := range xrh.ComposedOf(s, xrAfter.GetUID(), xrh.ComposedKinds...) {
			if o.GetDeletionTimestamp() == nil {
				count[xrh.ResourceNameOf(o)] = append(count[xrh.ResourceNameOf(o)], o.GetKind()+"/"+o.GetName())
			}
		}
		for rn, objs := range count {
			if len(objs) > 1 {
				r.Failf("success/duplicate", "steps %v observed-state %s: after a successful reconcile the XR controls %d live resources for %q: %v (observed before: %v)", steps, state, len(objs), rn, objs, observed)
			}
		}
	}

	// After a reconcile that was hit by a fault, fault-free retries must still
	// end with exactly the final desired resources: what the faulted reconcile
	// did not get to delete is deleted later, not forgotten.
	if faulted && !refFails {
		rec2 := rec
		if out.Crashed != nil {
			rec2 = xrh.NewXRReconciler(xrd, opts)
		}
		for i := 0; i < 3; i++ {
			if o := xrh.Reconcile(rec2, types.NamespacedName{Name: "xr1"}); o.Crashed != nil {
				panic(explore.HarnessError{Msg: "crash in fault-free reconcile"})
			}
		}
		xrNow := s.Peek(xrh.XRKey("xr1"))
		left, any := map[string]string{}, map[string]bool{}
		for _, o := range xrh.ComposedOf(s, xrNow.GetUID(), xrh.ComposedKinds...) {
			any[xrh.ResourceNameOf(o)] = true // (a terminating one is held by the fixture's finalizer)
			if o.GetDeletionTimestamp() == nil {
				left[xrh.ResourceNameOf(o)] = o.GetKind() + "/" + o.GetName()
			}
		}
		for rn, id := range left {
			if !final[rn] {
				r.Failf("gc/forgotten-after-fault", "steps %v observed-state %s: after the fault %v and three fault-free reconciles the XR still controls %s (resource %q), which is not in the final desired state %v; spec.resourceRefs %v", steps, state, inj.Taken, id, rn, keys(final), xrh.Refs(xrNow))
			}
		}
		for rn := range final {
			if !any[rn] {
				r.Failf("success/missing-after-fault", "steps %v observed-state %s: after the fault %v and three fault-free reconciles desired resource %q does not exist", steps, state, inj.Taken, rn)
			}
		}
	}

	var seq []string
	for _, w := range log {
		if w.Effective {
			seq = append(seq, w.Call.Verb+w.Call.Sub+":"+w.Call.Key.Kind)
		}
	}
	outcome := report.Hash(refFails, strings.Join(seq, ";"), out.Err != nil)
	nt := ""
	if len(observed) > 0 && (refFails || len(steps) > 1 || faulted) {
		nt = report.Hash(scName, state, steps, order, inj.Taken)
	}
	rep.Eval(scName, outcome, nt)
	if nt != "" && rep.WantSample() && (faulted || refFails) {
		rep.Sample(map[string]any{"scenario": scName, "observed_state": state, "steps": steps, "map_order": order, "faults": inj.Taken, "reference_fails": refFails, "effective_writes": seq})
	}
}

func failKind(steps []string) string {
	for _, b := range steps {
		switch b {
		case "error", "fatal", "fatal-nomsg", "req5", "reqalt":
			return b
		}
		if strings.HasPrefix(b, "reqalt-") {
			return b
		}
	}
	return "none"
}

func keys(m map[string]bool) []string {
	var out []string
	for k := range m {
		out = append(out, k)
	}
	sort.Strings(out)
	return out
}

// ---- P&T: template set changes ---------------------------------------------

var templateSets = [][]string{{"a", "b"}, {"a"}, {"a", "c"}, {"b"}, {"c"}}

func ptComposition(set []string) *v1.Composition {
	var ts []xrh.Template
	for _, n := range set {
		ts = append(ts, xrh.Template{Name: n, GVK: xrh.KindFor(n)})
	}
	return xrh.ResourcesComposition("comp", ts...)
}

func ptBody(r *explore.Run, rep *report.R, scName string, faults bool) {
	from := templateSets[r.Free(len(templateSets), "from")]
	to := templateSets[r.Free(len(templateSets), "to")]
	perturb := []string{"none", "foreign", "uncontrolled", "deleted", "foreign-same-name", "foreign-same-uid-prefix"}[r.Free(6, "perturb-first")]
	xrh.BeginExecution(5)
	xrh.MapOrder(0)
	s := xrh.NewStore()
	xrd := xrh.XRD()
	s.Seed(xrd)
	xrh.SeedComposition(s, ptComposition(from))
	s.Seed(xrh.XR("xr1", "comp"))
	c := s.Client("xr")
	var calls []string
	rec := xrh.NewXRReconciler(xrd, xrh.XROptions{Cached: c, Runner: runner(&calls)})
	if !xrh.ToQuiescence(s, rec, types.NamespacedName{Name: "xr1"}, 10, nil) {
		panic(explore.HarnessError{Msg: "pt preparation did not quiesce"})
	}
	xr := s.Peek(xrh.XRKey("xr1"))
	first := xrh.ComposedOf(s, xr.GetUID(), xrh.ComposedKinds...)
	sort.Slice(first, func(i, j int) bool { return xrh.ResourceNameOf(first[i]) < xrh.ResourceNameOf(first[j]) })
	switch perturb {
	case "foreign":
		s.Mutate(simkube.KeyOf(first[0]), func(u *unstructured.Unstructured) {
			u.SetOwnerReferences([]metav1.OwnerReference{{APIVersion: "example.org/v1", Kind: "XThing", Name: "other", UID: "foreign-uid", Controller: ptr.To(true)}})
		})
	case "foreign-same-name":
		// Another object that merely shares the XR's name (other kind, other
		// UID) controls the resource.
		s.Mutate(simkube.KeyOf(first[0]), func(u *unstructured.Unstructured) {
			u.SetOwnerReferences([]metav1.OwnerReference{{APIVersion: "other.example.org/v1", Kind: "OtherXR", Name: "xr1", UID: "foreign-uid", Controller: ptr.To(true)}})
		})
	case "foreign-same-uid-prefix":
		// Same kind and name as the XR (a deleted and re-created namesake), a
		// UID that extends the XR's.
		s.Mutate(simkube.KeyOf(first[0]), func(u *unstructured.Unstructured) {
			u.SetOwnerReferences([]metav1.OwnerReference{{APIVersion: xrh.XRGVK.GroupVersion().String(), Kind: xrh.XRGVK.Kind, Name: "xr1", UID: xr.GetUID() + "-2", Controller: ptr.To(true)}})
		})
	case "uncontrolled":
		s.Mutate(simkube.KeyOf(first[0]), func(u *unstructured.Unstructured) { u.SetOwnerReferences(nil) })
	case "deleted":
		s.Remove(simkube.KeyOf(first[0]))
	}
	// Edit the composition: new revision 2.
	comp2 := ptComposition(to)
	s.Remove(simkube.ObjKey{Group: "apiextensions.crossplane.io", Kind: "Composition", Name: "comp"})
	s.Seed(comp2)
	if fmt.Sprint(from) != fmt.Sprint(to) {
		s.Seed(xrh.Revision(comp2, 2))
	}
	before := composedSnapshot(s)
	refsBefore := map[string]bool{}
	for _, ref := range xrh.Refs(s.Peek(xrh.XRKey("xr1"))) {
		refsBefore[ref] = true
	}
	inj := (&xrh.FaultInjector{Run: r, Reads: true, NotFoundReads: true}).WithErrClasses(s)
	s.Inj = inj
	logStart := len(s.Log)
	inj.Armed = faults
	out := xrh.Reconcile(rec, types.NamespacedName{Name: "xr1"})
	inj.Armed = false
	faulted := len(inj.Taken) > 0
	r.Logf("pt from=%v to=%v perturb=%s faults=%v err=%v", from, to, perturb, inj.Taken, out.Err)
	toSet := map[string]bool{}
	for _, n := range to {
		toSet[n] = true
	}
	foreignBlocks := false
	want := map[string]bool{}
	for id, o := range before {
		if !refsBefore[id] {
			continue
		}
		rn := xrh.ResourceNameOf(o)
		if toSet[rn] {
			continue
		}
		if ctl := metav1.GetControllerOf(o); ctl != nil && ctl.UID != xr.GetUID() {
			foreignBlocks = true
			continue
		}
		want[id] = true
	}
	got := map[string]bool{}
	for _, w := range s.Log[logStart:] {
		if w.Call.Verb == "delete" && isComposedKind(w.Call.Key.Kind) && w.Effective {
			id := w.Call.Key.Kind + "/" + w.Call.Key.Name
			got[id] = true
			if o := before[id]; o != nil && toSet[xrh.ResourceNameOf(o)] {
				r.Failf("pt-gc/deleted-templated", "P&T: %s (template %q still exists in %v) was deleted", id, xrh.ResourceNameOf(o), to)
			}
			if !want[id] {
				r.Failf("pt-gc/deleted-unexpected", "P&T: %s deleted but it is not a referenced resource of this XR without template (from %v to %v perturb %s)", id, from, to, perturb)
			}
		}
	}
	if !faulted && !foreignBlocks && fmt.Sprint(keys(want)) != fmt.Sprint(keys(got)) {
		r.Failf("pt-gc/inexact", "P&T from %v to %v (perturb %s): deleted %v, want exactly %v", from, to, perturb, keys(got), keys(want))
	}
	rep.Eval(scName, report.Hash(keys(got), out.Err != nil, foreignBlocks), report.Hash(from, to, perturb, inj.Taken))
	if rep.WantSample() && len(got) > 0 {
		rep.Sample(map[string]any{"scenario": scName, "templates_before": from, "templates_after": to, "perturbation": perturb, "faults": inj.Taken, "deleted": keys(got)})
	}
}

func TestCheck(t *testing.T) {
	rep := report.New("C03", "fault_enumeration")
	rep.Meta(
		"Pipelines: every sequence of 1..N step behaviours over the alphabet x every prepared observed state x 2 map iteration orders is run through the real XR reconciler (function composer + FetchingFunctionRunner) over simkube and compared with a reference interpreter; in the fault scenarios every API call (reads included) of that reconcile is additionally a fault point (<=1 deviation). P&T: every (template set before, template set after, perturbation) triple. A case is non-trivial when composed resources were observed and the pipeline has >1 step, fails, or a fault was injected; distinct by (state, steps, order, faults).",
		[]string{"simkube models the API server", "function behaviours are deterministic functions of their request", "MaxRequirementsIterations as defined by the code (read at run time)"},
		[]string{"simkube", "structured-merge-diff (real)"},
	)
	alpha, n := quickBehaviours, 2
	if report.Thorough() {
		alpha, n = behaviours, 3
	}
	rep.Bound("max_pipeline_steps", n)
	rep.Bound("behaviours", alpha)
	rep.Bound("observed_states", observedStates)
	rep.Bound("faults_per_reconcile", 1)
	var scs []report.Scenario
	for k := 1; k <= n; k++ {
		k := k
		name := fmt.Sprintf("pipeline/steps%d", k)
		scs = append(scs, report.Scenario{Name: name, Bound: 0, Wrap: report.Bubble(t), Body: func(r *explore.Run) { pipelineBody(r, rep, name, k, alpha, false) }})
	}
	fk := 2
	if report.Thorough() {
		fk = 2
	}
	for k := 1; k <= fk; k++ {
		k := k
		name := fmt.Sprintf("pipeline-faults/steps%d", k)
		fa := []string{"base", "dropa", "rename", "fatal", "fatal-nomsg", "req1"}
		scs = append(scs, report.Scenario{Name: name, Bound: 1, Wrap: report.Bubble(t), Body: func(r *explore.Run) { pipelineBody(r, rep, name, k, fa, true) }})
	}
	// Functions as gRPC servers behind the real PackagedFunctionRunner (real
	// sockets: outside the synctest bubble; no oracle looks at the clock).
	ga := []string{"base", "dropa", "error", "fatal", "fatal-nomsg", "req5", "keep"}
	for k := 1; k <= 2; k++ {
		k := k
		name := fmt.Sprintf("grpc-pipeline/steps%d", k)
		scs = append(scs, report.Scenario{Name: name, Bound: 0, Body: func(r *explore.Run) { pipelineBodyVia(r, rep, name, k, ga, false, true) }})
	}
	defer stopGRPC()
	scs = append(scs, report.Scenario{Name: "pt/template-sets", Bound: 0, Wrap: report.Bubble(t), Body: func(r *explore.Run) { ptBody(r, rep, "pt/template-sets", false) }})
	scs = append(scs, report.Scenario{Name: "pt-faults/template-sets", Bound: 1, Wrap: report.Bubble(t), Body: func(r *explore.Run) { ptBody(r, rep, "pt-faults/template-sets", true) }})
	scs = append(scs, report.Scenario{Name: "pipeline/colliding-coordinates", Bound: 0, Wrap: report.Bubble(t), Body: func(r *explore.Run) { twinsBody(r, rep, "pipeline/colliding-coordinates") }})
	rep.SelfCheck(t, scs[0], func() { prepared = map[string]*simkube.Store{} })
	rep.RunScenarios(t, scs)
	rep.Write(t)
}
