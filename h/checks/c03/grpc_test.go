package c03

// Pipelines whose functions are real gRPC servers, reached through the real
// xfn.PackagedFunctionRunner (function / revision lookup, connection cache,
// v1 -> v1beta1 fallback for functions that only serve v1beta1). What a
// function call returns - in particular that it failed - has to arrive at the
// composer unchanged, whichever protocol version the function speaks.

import (
	"context"
	"encoding/json"
	"fmt"
	"net"
	"os"
	"path/filepath"
	"sync"

	"google.golang.org/grpc"
	"google.golang.org/protobuf/proto"
	metav1 "k8s.io/apimachinery/pkg/apis/meta/v1"
	"k8s.io/apimachinery/pkg/apis/meta/v1/unstructured"
	"k8s.io/apimachinery/pkg/runtime"

	fnv1 "github.com/crossplane/crossplane/apis/apiextensions/fn/proto/v1"
	fnv1beta1 "github.com/crossplane/crossplane/apis/apiextensions/fn/proto/v1beta1"
	v1 "github.com/crossplane/crossplane/apis/apiextensions/v1"
	pkgv1 "github.com/crossplane/crossplane/apis/pkg/v1"
	"github.com/crossplane/crossplane/verif/simkube"
	"github.com/crossplane/crossplane/verif/xrh"
)

type grpcEnv struct {
	dir       string
	endpoints map[string]string // "v1" | "beta" -> target
	servers   []*grpc.Server
	mu        sync.Mutex
	calls     *[]string // calls of the current execution
}

var (
	theGRPC    *grpcEnv
	theGRPCErr error
)

// behave runs the scripted behaviour named in the step input.
func (e *grpcEnv) behave(ctx context.Context, req *fnv1.RunFunctionRequest) (*fnv1.RunFunctionResponse, error) {
	name := req.GetInput().GetFields()["name"].GetStringValue()
	e.mu.Lock()
	calls := e.calls
	e.mu.Unlock()
	var sink []string
	if calls == nil {
		calls = &sink
	}
	return runner(calls)(ctx, name, req)
}

type v1Fn struct {
	fnv1.UnimplementedFunctionRunnerServiceServer
	e *grpcEnv
}

func (s *v1Fn) RunFunction(ctx context.Context, req *fnv1.RunFunctionRequest) (*fnv1.RunFunctionResponse, error) {
	return s.e.behave(ctx, req)
}

type betaFn struct {
	fnv1beta1.UnimplementedFunctionRunnerServiceServer
	e *grpcEnv
}

func (s *betaFn) RunFunction(ctx context.Context, req *fnv1beta1.RunFunctionRequest) (*fnv1beta1.RunFunctionResponse, error) {
	// The two versions are wire compatible.
	b, err := proto.Marshal(req)
	if err != nil {
		return nil, err
	}
	r1 := &fnv1.RunFunctionRequest{}
	if err := proto.Unmarshal(b, r1); err != nil {
		return nil, err
	}
	rsp, err := s.e.behave(ctx, r1)
	if err != nil {
		return nil, err
	}
	b, err = proto.Marshal(rsp)
	if err != nil {
		return nil, err
	}
	out := &fnv1beta1.RunFunctionResponse{}
	return out, proto.Unmarshal(b, out)
}

func grpcServers() (*grpcEnv, error) {
	if theGRPC != nil || theGRPCErr != nil {
		return theGRPC, theGRPCErr
	}
	dir, err := os.MkdirTemp("", "c03-")
	if err != nil {
		theGRPCErr = err
		return nil, err
	}
	e := &grpcEnv{dir: dir, endpoints: map[string]string{}}
	for _, id := range []string{"v1", "beta"} {
		path := filepath.Join(dir, id+".sock")
		lis, err := net.Listen("unix", path)
		if err != nil {
			theGRPCErr = err
			e.stop()
			return nil, err
		}
		g := grpc.NewServer()
		if id == "beta" {
			// This server does not register the v1 service at all.
			fnv1beta1.RegisterFunctionRunnerServiceServer(g, &betaFn{e: e})
		} else {
			fnv1.RegisterFunctionRunnerServiceServer(g, &v1Fn{e: e})
		}
		go func() { _ = g.Serve(lis) }()
		e.servers = append(e.servers, g)
		e.endpoints[id] = "unix://" + path
	}
	theGRPC = e
	return e, nil
}

func (e *grpcEnv) stop() {
	for _, g := range e.servers {
		g.Stop()
	}
	_ = os.RemoveAll(e.dir)
}

func stopGRPC() {
	if theGRPC != nil {
		theGRPC.stop()
		theGRPC = nil
	}
}

// setCompositionGRPC is setComposition for functions served over gRPC: each
// step carries its behaviour as input, and a Function with one active
// revision pointing at the chosen server exists per step.
func setCompositionGRPC(s *simkube.Store, steps []string, endpoint string) []simkube.ObjKey {
	setComposition(s, steps)
	var fns []simkube.ObjKey
	patch := func(u *unstructured.Unstructured) {
		pl, _, _ := unstructured.NestedSlice(u.Object, "spec", "pipeline")
		for i := range pl {
			st := pl[i].(map[string]any)
			name := st["step"].(string)
			st["input"] = map[string]any{"apiVersion": "fn.example.org/v1", "kind": "Input", "name": name}
		}
		_ = unstructured.SetNestedSlice(u.Object, pl, "spec", "pipeline")
	}
	s.Mutate(simkube.ObjKey{Group: "apiextensions.crossplane.io", Kind: "Composition", Name: "comp"}, patch)
	for _, r := range s.All(v1.CompositionRevisionGroupVersionKind.GroupKind()) {
		s.Mutate(simkube.KeyOf(r), patch)
	}
	for i, b := range steps {
		name := fmt.Sprintf("%d-%s", i, b)
		fk := simkube.ObjKey{Group: "pkg.crossplane.io", Kind: "Function", Name: name}
		s.Remove(fk)
		s.Remove(simkube.ObjKey{Group: "pkg.crossplane.io", Kind: "FunctionRevision", Name: name + "-rev1"})
		s.Seed(&pkgv1.Function{TypeMeta: metav1.TypeMeta{APIVersion: "pkg.crossplane.io/v1", Kind: "Function"}, ObjectMeta: metav1.ObjectMeta{Name: name},
			Spec: pkgv1.FunctionSpec{PackageSpec: pkgv1.PackageSpec{Package: "example.org/" + name + ":v1"}}})
		s.Seed(&pkgv1.FunctionRevision{TypeMeta: metav1.TypeMeta{APIVersion: "pkg.crossplane.io/v1", Kind: "FunctionRevision"},
			ObjectMeta: metav1.ObjectMeta{Name: name + "-rev1", Labels: map[string]string{pkgv1.LabelParentPackage: name}},
			Spec:       pkgv1.FunctionRevisionSpec{PackageRevisionSpec: pkgv1.PackageRevisionSpec{DesiredState: pkgv1.PackageRevisionActive, Package: "example.org/" + name + ":v1", Revision: 1}},
			Status:     pkgv1.FunctionRevisionStatus{Endpoint: endpoint}})
		fns = append(fns, fk)
	}
	return fns
}

var _ = json.Marshal
var _ = runtime.RawExtension{}
var _ = xrh.XRGVK
