package c03

import (
	"context"
	"fmt"
	"sort"

	"google.golang.org/protobuf/types/known/structpb"
	"k8s.io/apimachinery/pkg/runtime/schema"
	"k8s.io/apimachinery/pkg/types"

	fnv1 "github.com/crossplane/crossplane/apis/apiextensions/fn/proto/v1"
	"github.com/crossplane/crossplane/verif/explore"
	"github.com/crossplane/crossplane/verif/report"
	"github.com/crossplane/crossplane/verif/xrh"
)

// ---- scenario: composed resources that differ only in one coordinate -------------
//
// The composed resources of the other scenarios have distinct kinds and
// generated names. Here a function desires, by explicit name, resources that
// collide in all but one coordinate: same kind and name in two namespaces,
// same name in two kinds, same kind and namespace with two names. Every
// subset is desired, then every subset: after each pipeline run the XR must
// control exactly the desired ones (garbage collection is exact in both
// directions), for both map orders.

var resN = schema.GroupVersionKind{Group: xrh.ResA.Group, Version: xrh.ResA.Version, Kind: "ResN"}

type twin struct{ rn, kind, ns, name string }

var twins = []twin{
	{"t-a", "ResN", "team-a", "shared"},
	{"t-b", "ResN", "team-b", "shared"},
	{"t-a2", "ResN", "team-a", "shared2"},
	{"t-k", "ResA", "", "shared"},
}

func twinsFn(want *[]string) xrh.FunctionRunner {
	return func(_ context.Context, _ string, req *fnv1.RunFunctionRequest) (*fnv1.RunFunctionResponse, error) {
		d := map[string]*fnv1.Resource{}
		for _, rn := range *want {
			for _, t := range twins {
				if t.rn != rn {
					continue
				}
				md := map[string]any{"name": t.name}
				if t.ns != "" {
					md["namespace"] = t.ns
				}
				s, _ := structpb.NewStruct(map[string]any{"apiVersion": resN.GroupVersion().String(), "kind": t.kind, "metadata": md, "spec": map[string]any{"param": "p", "for": rn}})
				d[rn] = &fnv1.Resource{Resource: s, Ready: fnv1.Ready_READY_TRUE}
			}
		}
		return &fnv1.RunFunctionResponse{Context: req.GetContext(), Desired: &fnv1.State{Resources: d}}, nil
	}
}

func subset(mask int) []string {
	var out []string
	for i, t := range twins {
		if mask&(1<<i) != 0 {
			out = append(out, t.rn)
		}
	}
	return out
}

func twinsBody(r *explore.Run, rep *report.R, sc string) {
	first := r.Free(1<<len(twins), "desired-first")
	second := r.Free(1<<len(twins), "desired-then")
	order := r.Free(2, "maporder")
	xrh.BeginExecution(17)
	xrh.MapOrder(order)
	s := xrh.NewStore()
	s.NamespacedKinds[resN.GroupKind()] = true
	xrd := xrh.XRD()
	s.Seed(xrd)
	xrh.SeedComposition(s, xrh.PipelineComposition("comp", "fn"))
	s.Seed(xrh.XR("xr1", "comp"))
	var want []string
	c := s.Client("xr")
	rec := xrh.NewXRReconciler(xrd, xrh.XROptions{Cached: c, Runner: twinsFn(&want)})
	kinds := append([]schema.GroupVersionKind{resN}, xrh.ComposedKinds...)
	for phase, mask := range []int{first, second} {
		want = subset(mask)
		if !xrh.ToQuiescence(s, rec, types.NamespacedName{Name: "xr1"}, 8, nil) {
			r.Failf("twins/no-fixpoint", "desired %v (phase %d): the reconciler keeps writing after 8 reconciles", want, phase+1)
		}
		xr := s.Peek(xrh.XRKey("xr1"))
		var have []string
		for _, o := range xrh.ComposedOf(s, xr.GetUID(), kinds...) {
			if o.GetDeletionTimestamp() == nil {
				have = append(have, xrh.ResourceNameOf(o))
			}
		}
		sort.Strings(have)
		w := append([]string{}, want...)
		sort.Strings(w)
		r.Logf("phase %d desired %v -> controls %v refs %v", phase+1, w, have, xrh.Refs(xr))
		if fmt.Sprint(have) != fmt.Sprint(w) {
			missing, extra := diffNames(w, have)
			if len(extra) > 0 {
				r.Failf("gc/forgotten/colliding-coordinates", "after desiring %v and then %v the XR still controls %v, which are not desired (controls %v, spec.resourceRefs %v)", subset(first), w, extra, have, xrh.Refs(xr))
			}
			r.Failf("success/missing/colliding-coordinates", "desired %v but the XR controls only %v (missing %v)", w, have, missing)
		}
		if got := len(xrh.Refs(xr)); got != len(w) {
			r.Failf("refs/inexact/colliding-coordinates", "desired %v but spec.resourceRefs has %d entries: %v", w, got, xrh.Refs(xr))
		}
	}
	nt := ""
	if first != second && first != 0 {
		nt = report.Hash(sc, first, second, order)
	}
	rep.Eval(sc, report.Hash(first, second), nt)
}

func diffNames(want, have []string) (missing, extra []string) {
	in := func(l []string, x string) bool {
		for _, e := range l {
			if e == x {
				return true
			}
		}
		return false
	}
	for _, w := range want {
		if !in(have, w) {
			missing = append(missing, w)
		}
	}
	for _, h := range have {
		if !in(want, h) {
			extra = append(extra, h)
		}
	}
	return
}
