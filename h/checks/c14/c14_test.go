// C14: a package has at most one active revision, numbered last; history GC
// spares it. Depth-bounded exhaustive search over sequences of package edits,
// registry changes and real package-manager reconciles (with an API fault or
// crash at any call), with state-hash pruning.
package c14

import (
	"fmt"
	"sort"
	"strings"
	"testing"

	corev1 "k8s.io/api/core/v1"
	metav1 "k8s.io/apimachinery/pkg/apis/meta/v1"
	"k8s.io/apimachinery/pkg/apis/meta/v1/unstructured"
	"k8s.io/apimachinery/pkg/types"

	xpv1 "github.com/crossplane/crossplane-runtime/apis/common/v1"

	v1 "github.com/crossplane/crossplane/apis/pkg/v1"
	"github.com/crossplane/crossplane/internal/xpkg"
	"github.com/crossplane/crossplane/verif/explore"
	"github.com/crossplane/crossplane/verif/pkgh"
	"github.com/crossplane/crossplane/verif/report"
	"github.com/crossplane/crossplane/verif/simkube"
	"github.com/crossplane/crossplane/verif/xrh"
)

const repoName = "acme/provider-x"

var pkgKey = simkube.ObjKey{Group: "pkg.crossplane.io", Kind: "Provider", Name: "p"}
var revGK = v1.ProviderRevisionGroupVersionKind.GroupKind()

type rev struct {
	name   string
	num    int64
	active bool
	uid    types.UID
}

func revisions(s *simkube.Store) []rev {
	var out []rev
	for _, u := range s.All(revGK) {
		if u.GetLabels()[v1.LabelParentPackage] != "p" {
			continue
		}
		n, _, _ := unstructured.NestedInt64(u.Object, "spec", "revision")
		st, _, _ := unstructured.NestedString(u.Object, "spec", "desiredState")
		out = append(out, rev{name: u.GetName(), num: n, active: st == string(v1.PackageRevisionActive), uid: u.GetUID()})
	}
	sort.Slice(out, func(i, j int) bool { return out[i].name < out[j].name })
	return out
}

func describe(rs []rev) string {
	var out []string
	for _, r := range rs {
		out = append(out, fmt.Sprintf("%s#%d(active=%v)", r.name, r.num, r.active))
	}
	return strings.Join(out, " ")
}

type event struct {
	name string
	do   func(w *world)
}

type world struct {
	s   *simkube.Store
	reg *pkgh.Registry
	r   *explore.Run
}

func (w *world) editPkg(fn func(p *v1.Provider)) {
	p := &v1.Provider{}
	if !w.s.PeekInto(pkgKey, p) {
		return
	}
	fn(p)
	u := w.s.MustU(p)
	w.s.Mutate(pkgKey, func(o *unstructured.Unstructured) {
		o.Object["spec"] = u.Object["spec"]
	})
}

func setSource(tag string) func(w *world) {
	return func(w *world) {
		w.editPkg(func(p *v1.Provider) { p.Spec.Package = repoName + ":" + tag })
	}
}

func setLimit(n int64) func(w *world) {
	return func(w *world) { w.editPkg(func(p *v1.Provider) { p.Spec.RevisionHistoryLimit = &n }) }
}

// menu returns the event menu: "base" (8 events), "all" (14) or "registry"
// (reconcile, two sources, re-tag, registry failure, pull policy).
func menu(which string) []event {
	m := menuAll(which != "base")
	if which != "registry" {
		return m
	}
	var out []event
	for _, e := range m {
		switch e.name {
		case "reconcile", "src=v1", "src=v2", "src=v1b", "retag-v1", "registry-fail-toggle", "pull-ifnotpresent-toggle", "revision-controller-finalizes":
			out = append(out, e)
		}
	}
	return out
}

func menuAll(thorough bool) []event {
	m := []event{
		{"reconcile", nil},
		{"src=v1", setSource("v1")},
		{"src=v2", setSource("v2")},
		{"src=v3", setSource("v3")},
		{"limit=1", setLimit(1)},
		{"limit=0", setLimit(0)},
		{"toggle-activation", func(w *world) {
			w.editPkg(func(p *v1.Provider) {
				if p.Spec.RevisionActivationPolicy != nil && *p.Spec.RevisionActivationPolicy == v1.ManualActivation {
					a := v1.AutomaticActivation
					p.Spec.RevisionActivationPolicy = &a
				} else {
					m := v1.ManualActivation
					p.Spec.RevisionActivationPolicy = &m
				}
			})
		}},
		{"revision-controller-finalizes", func(w *world) {
			// The revision controller lets go of revisions whose deletion
			// was requested (until then they linger, terminating).
			for _, u := range w.s.All(revGK) {
				if u.GetDeletionTimestamp() != nil {
					w.s.Mutate(simkube.KeyOf(u), func(o *unstructured.Unstructured) { o.SetFinalizers(nil) })
				}
			}
		}},
		{"retag-v1", func(w *world) {
			if w.reg.Table[repoName+":v1"] == "A" {
				w.reg.Table[repoName+":v1"] = "D"
			} else {
				w.reg.Table[repoName+":v1"] = "A"
			}
		}},
	}
	if thorough {
		m = append(m,
			event{"src=v1b", setSource("v1b")},
			event{"limit=2", setLimit(2)},
			event{"limit=nil", func(w *world) { w.editPkg(func(p *v1.Provider) { p.Spec.RevisionHistoryLimit = nil }) }},
			event{"registry-fail-toggle", func(w *world) { w.reg.Fail = !w.reg.Fail }},
			event{"pull-ifnotpresent-toggle", func(w *world) {
				w.editPkg(func(p *v1.Provider) {
					if p.Spec.PackagePullPolicy != nil && *p.Spec.PackagePullPolicy == corev1.PullIfNotPresent {
						p.Spec.PackagePullPolicy = nil
					} else {
						pp := corev1.PullIfNotPresent
						p.Spec.PackagePullPolicy = &pp
					}
				})
			}},
			event{"current-rev-healthy", func(w *world) {
				p := &v1.Provider{}
				if !w.s.PeekInto(pkgKey, p) || p.Status.CurrentRevision == "" {
					return
				}
				k := simkube.ObjKey{Group: revGK.Group, Kind: revGK.Kind, Name: p.Status.CurrentRevision}
				w.s.Mutate(k, func(o *unstructured.Unstructured) {
					_ = unstructured.SetNestedSlice(o.Object, []any{map[string]any{"type": "Healthy", "status": "True", "reason": "HealthyPackageRevision", "lastTransitionTime": "2000-01-01T00:00:00Z"}}, "status", "conditions")
				})
			}},
		)
	}
	return m
}

func regKey(reg *pkgh.Registry) string {
	var ks []string
	for k, v := range reg.Table {
		ks = append(ks, k+"="+v)
	}
	sort.Strings(ks)
	return fmt.Sprintf("%v fail=%v", ks, reg.Fail)
}

func body(r *explore.Run, rep *report.R, sc string, depth int, which string, start string) {
	history := start == "history"
	xrh.BeginExecution(1)
	s := xrh.NewStore()
	reg := &pkgh.Registry{Table: map[string]string{repoName + ":v1": "A", repoName + ":v2": "B", repoName + ":v3": "C", repoName + ":v1b": "A"}}
	w := &world{s: s, reg: reg, r: r}
	one := int64(1)
	p := &v1.Provider{
		TypeMeta:   metav1.TypeMeta{APIVersion: v1.SchemeGroupVersion.String(), Kind: v1.ProviderKind},
		ObjectMeta: metav1.ObjectMeta{Name: "p"},
		Spec:       v1.ProviderSpec{PackageSpec: v1.PackageSpec{Package: repoName + ":v1", RevisionHistoryLimit: &one}},
	}
	s.Seed(p)
	inj := (&xrh.FaultInjector{Run: r, Reads: false}).WithErrClasses(s)
	s.Inj = inj
	c := s.Client("pkgmgr")
	rec := pkgh.NewProviderManager(c, reg)
	evs := menu(which)
	if start == "established" {
		// Prepared: source v1 resolved and its revision current.
		for i := 0; i < 2; i++ {
			xrh.Reconcile(rec, types.NamespacedName{Name: "p"})
		}
		if len(revisions(s)) != 1 {
			panic(explore.HarnessError{Msg: "established preparation: " + describe(revisions(s))})
		}
	}
	if history {
		// Prepared (fault-free, not explored): sources v1, v2, v3 in turn
		// with limit 1, which leaves revisions B#2 and C#3 (A was collected).
		for _, tag := range []string{"v1", "v2", "v3"} {
			setSource(tag)(w)
			for i := 0; i < 2; i++ {
				xrh.Reconcile(rec, types.NamespacedName{Name: "p"})
			}
		}
		if len(revisions(s)) != 2 {
			panic(explore.HarnessError{Msg: "history preparation: " + describe(revisions(s))})
		}
		for _, u := range s.All(revGK) {
			s.Mutate(simkube.KeyOf(u), func(o *unstructured.Unstructured) { o.SetFinalizers([]string{"revision.pkg.crossplane.io"}) })
		}
	}

	// A1 on every effective write.
	s.OnWrite = append(s.OnWrite, func(wr *simkube.WriteRecord) {
		if wr.Call.Client != "pkgmgr" {
			return
		}
		// The revision controller puts its finalizer on every new revision,
		// so a revision whose deletion is requested lingers until that
		// controller has cleaned up.
		if wr.Call.Key.GK() == revGK && wr.Before == nil && wr.After != nil {
			s.Mutate(wr.Call.Key, func(o *unstructured.Unstructured) { o.SetFinalizers([]string{"revision.pkg.crossplane.io"}) })
		}
		n := 0
		rs := revisions(s)
		for _, x := range rs {
			if x.active {
				n++
			}
		}
		if n > 1 {
			r.Failf("A1/two-active", "after %s two revisions are Active at once: %s", wr.Call, describe(rs))
		}
	})
	var trail []string
	reconciles, faulted := 0, 0
	// acc: the revisions a completed reconcile may leave as current. While
	// the controller keeps seeing the source it resolved last (lastSrc), the
	// tag may or may not be resolved again (pull policy), so every digest the
	// tag has pointed at since then is acceptable. When a reconcile meets
	// another source than the one resolved last, that source has to be
	// resolved then: only the digests its tag points at from that reconcile
	// on are acceptable (pending collects them across reconciles that were
	// hit by a fault and may or may not have got that far).
	acc, pending, lastSrc := map[string]bool{}, map[string]bool{}, ""
	nameOf := func(src string) string {
		if l, ok := reg.Table[src]; ok {
			return xpkg.FriendlyID("p", pkgh.Digest(l))
		}
		return ""
	}
	srcNow := func() string {
		pk := &v1.Provider{}
		s.PeekInto(pkgKey, pk)
		return pk.Spec.Package
	}
	track := func() {
		if src := srcNow(); src == lastSrc {
			if n := nameOf(src); n != "" {
				acc[n] = true
			}
		}
	}
	if pk := (&v1.Provider{}); s.PeekInto(pkgKey, pk) && pk.Status.CurrentRevision != "" {
		// a prepared start state: the source was resolved during preparation
		lastSrc = pk.Spec.Package
		acc[pk.Status.CurrentRevision] = true
	}
	track()
	for step := 0; step < depth; step++ {
		r.SeenRank(report.Hash(s.Canonical(), regKey(reg), lastSrc, fmt.Sprint(acc), fmt.Sprint(pending)), depth-step)
		e := evs[r.Free(len(evs), fmt.Sprintf("ev%d", step))]
		trail = append(trail, e.name)
		if e.do != nil {
			e.do(w)
			track()
			r.Logf("step %d: %s", step, e.name)
			continue
		}
		// A real reconcile; any API call may fail or crash.
		pre := revisions(s)
		pkg := &v1.Provider{}
		s.PeekInto(pkgKey, pkg)
		logStart := len(s.Log)
		heads := reg.Heads
		taken := len(inj.Taken)
		inj.Armed = true
		out := xrh.Reconcile(rec, types.NamespacedName{Name: "p"})
		inj.Armed = false
		reconciles++
		wasFaulted := len(inj.Taken) > taken
		if wasFaulted {
			faulted++
		}
		if out.Crashed != nil {
			rec = pkgh.NewProviderManager(c, reg)
		}
		post := revisions(s)
		r.Logf("step %d: reconcile src=%s limit=%s err=%v requeue=%v crashed=%v faults=%v -> %s", step, pkg.Spec.Package, lim(pkg.Spec.RevisionHistoryLimit), out.Err, out.Result.Requeue, out.Crashed != nil, inj.Taken[taken:], describe(post))

		// The revision for the package's current source.
		var curName string
		tag := strings.TrimPrefix(pkg.Spec.Package, repoName+":")
		if l, ok := reg.Table[repoName+":"+tag]; ok && !reg.Fail && reg.Heads > heads {
			curName = xpkg.FriendlyID("p", pkgh.Digest(l))
		}
		// A3: names are a function of package name and digest.
		valid := map[string]bool{}
		for _, l := range []string{"A", "B", "C", "D"} {
			valid[xpkg.FriendlyID("p", pkgh.Digest(l))] = true
		}
		for _, x := range post {
			if !valid[x.name] {
				r.Failf("A3/name", "revision %q is not named after the package and an image digest", x.name)
			}
		}
		// A4: history garbage collection.
		for _, wr := range s.Log[logStart:] {
			if wr.Call.Verb != "delete" || wr.Call.Key.Kind != revGK.Kind || !wr.Effective {
				continue
			}
			victim := wr.Call.Key.Name
			limit := pkg.Spec.RevisionHistoryLimit
			if limit == nil || *limit == 0 {
				r.Failf("A4/gc-with-limit-0", "revision %s deleted although revisionHistoryLimit is %s", victim, lim(limit))
			}
			if len(pre) <= int(*limit)+1 {
				r.Failf("A4/gc-below-limit", "revision %s deleted although only %d revisions existed (limit %d)", victim, len(pre), *limit)
			}
			cur := curName
			if cur == "" {
				cur = pkg.Status.CurrentRevision
			}
			if victim == cur {
				r.Failf("A4/gc-current", "history GC deleted %s, the revision for the package's current source %s (revisions before: %s, limit %d)", victim, pkg.Spec.Package, describe(pre), *limit)
			}
			oldest := ""
			var oldestNum int64 = 1 << 62
			for _, x := range pre {
				if x.name != cur && x.num < oldestNum {
					oldest, oldestNum = x.name, x.num
				}
			}
			if victim != oldest {
				r.Failf("A4/gc-not-oldest", "history GC deleted %s but the oldest non-current revision is %s (%s)", victim, oldest, describe(pre))
			}
		}
		// A2 (source): a completed, fault-free reconcile - whether or not it
		// asked the registry - leaves as current revision one the source
		// stands for (see acc above).
		src := pkg.Spec.Package
		if out.Err == nil && !out.Result.Requeue && out.Crashed == nil && !wasFaulted {
			if src != lastSrc {
				acc = map[string]bool{}
				for n := range pending {
					acc[n] = true
				}
				pending, lastSrc = map[string]bool{}, src
			}
			if n := nameOf(src); n != "" {
				acc[n] = true
			}
			pk := &v1.Provider{}
			s.PeekInto(pkgKey, pk)
			if cr := pk.Status.CurrentRevision; cr != "" && !acc[cr] {
				var ps []string
				for k := range acc {
					ps = append(ps, k)
				}
				sort.Strings(ps)
				r.Failf("A2/current-not-for-source", "a completed reconcile leaves %s as the current revision of source %s; since the controller first met that source its tag has only pointed at %v (registry failing: %v; revisions %s)", cr, pk.Spec.Package, ps, reg.Fail, describe(post))
			}
		} else if src != lastSrc {
			// This reconcile may or may not have resolved the new source.
			if n := nameOf(src); n != "" {
				pending[n] = true
			}
		}
		// A2 after a completed, fault-free reconcile that resolved the source.
		if out.Err == nil && !out.Result.Requeue && out.Crashed == nil && !wasFaulted && curName != "" {
			var cur *rev
			for i := range post {
				if post[i].name == curName {
					cur = &post[i]
				}
			}
			if cur == nil {
				r.Failf("A2/current-missing", "after a completed reconcile the revision %s for source %s does not exist: %s (before: %s)", curName, pkg.Spec.Package, describe(post), describe(pre))
			}
			for _, x := range post {
				if x.name != cur.name && x.num >= cur.num {
					r.Failf("A2/not-highest", "current revision %s has number %d but %s has %d", cur.name, cur.num, x.name, x.num)
				}
			}
			manual := pkg.Spec.RevisionActivationPolicy != nil && *pkg.Spec.RevisionActivationPolicy == v1.ManualActivation
			if !manual && !cur.active {
				r.Failf("A2/not-active", "current revision %s is not Active under automatic activation: %s", cur.name, describe(post))
			}
			for _, x := range post {
				if x.name != cur.name && x.active {
					r.Failf("A2/other-active", "after a completed reconcile non-current revision %s is still Active: %s", x.name, describe(post))
				}
			}
		}
	}
	nt := ""
	if reconciles >= 2 {
		nt = report.Hash(trail, inj.Taken)
	}
	rep.Eval(sc, report.Hash(describe(revisions(s))), nt)
	if rep.WantSample() && faulted > 0 && reconciles >= 2 {
		rep.Sample(map[string]any{"scenario": sc, "events": trail, "faults": inj.Taken, "final_revisions": describe(revisions(s))})
	}
	_ = xpv1.TypeReady
}

func TestCheck(t *testing.T) {
	rep := report.New("C14", "fault_enumeration")
	rep.Meta(
		"Executions are event sequences of bounded depth over menus drawn from {reconcile (real manager.Reconciler + PackageRevisioner, scripted registry), source edits to 3-4 tags incl. rollbacks and a second tag of the same digest, revisionHistoryLimit edits, activation policy toggle, registry re-tag / failure, pull policy, revision health, the revision controller finalizing revisions whose deletion was requested (until then they linger)} (base menu: the first 8; registry menu: reconcile, two sources, re-tag, registry failure, IfNotPresent, from an established package; thorough adds the full 14-event menu at depth-1); every API write of a reconcile is a fault point {error-before, conflict, error-after, crash-before, crash-after} (<= F deviations per sequence). DFS with state-hash pruning ranked by remaining depth. Non-trivial: sequences with >= 2 reconciles; distinct by (event trail, faults).",
		[]string{"simkube models the API server", "the registry is a scripted xpkg.Fetcher (tag -> digest table)", "'at most one Active' is judged on writes made by the package manager; no event makes a user activate a second revision"},
		[]string{"simkube", "go-containerregistry name parsing (real)"},
	)
	depth, bound := 6, 1
	if report.Thorough() {
		depth, bound = 7, 2
	}
	rep.Bound("depth", depth)
	rep.Bound("max_faults", bound)
	scs := []report.Scenario{
		{Name: "provider/fresh", Bound: bound, Prune: true, Wrap: report.Bubble(t), Body: func(r *explore.Run) { body(r, rep, "provider/fresh", depth, "base", "") }},
		{Name: "provider/history", Bound: bound, Prune: true, Wrap: report.Bubble(t), Body: func(r *explore.Run) { body(r, rep, "provider/history", depth-1, "base", "history") }},
		// Registry outages, re-tags and the IfNotPresent pull policy, from an
		// established package.
		{Name: "provider/registry", Bound: 1, Prune: true, Wrap: report.Bubble(t), Body: func(r *explore.Run) { body(r, rep, "provider/registry", depth, "registry", "established") }},
	}
	if report.Thorough() {
		scs = append(scs,
			report.Scenario{Name: "provider/registry-deep", Bound: 1, Prune: true, Wrap: report.Bubble(t), Body: func(r *explore.Run) { body(r, rep, "provider/registry-deep", depth+1, "registry", "established") }},
			report.Scenario{Name: "provider/all-events", Bound: 1, Prune: true, Wrap: report.Bubble(t), Body: func(r *explore.Run) { body(r, rep, "provider/all-events", depth-1, "all", "") }},
		)
	}
	// The real fetcher against an in-process HTTP registry (real sockets: not
	// in a bubble; no oracle looks at the clock).
	scs = append(scs, report.Scenario{Name: "provider/http-registry", Bound: 0, Body: func(r *explore.Run) { registryBody(r, rep, "provider/http-registry") }})
	rep.SelfCheck(t, scs[0], nil)
	rep.RunScenarios(t, scs)
	rep.Write(t)
}

func lim(p *int64) string {
	if p == nil {
		return "nil"
	}
	return fmt.Sprint(*p)
}
