package c14

import (
	"context"
	"fmt"
	"net/http"
	"net/http/httptest"
	"strings"
	"sync/atomic"

	"github.com/google/go-containerregistry/pkg/name"
	"github.com/google/go-containerregistry/pkg/registry"
	regv1 "github.com/google/go-containerregistry/pkg/v1"
	"github.com/google/go-containerregistry/pkg/v1/empty"
	"github.com/google/go-containerregistry/pkg/v1/mutate"
	"github.com/google/go-containerregistry/pkg/v1/random"
	"github.com/google/go-containerregistry/pkg/v1/remote"
	metav1 "k8s.io/apimachinery/pkg/apis/meta/v1"
	"k8s.io/apimachinery/pkg/types"
	corev1 "k8s.io/api/core/v1"
	kerrors "k8s.io/apimachinery/pkg/api/errors"
	"k8s.io/apimachinery/pkg/runtime/schema"
	"k8s.io/client-go/kubernetes"
	corev1client "k8s.io/client-go/kubernetes/typed/core/v1"

	v1 "github.com/crossplane/crossplane/apis/pkg/v1"
	"github.com/crossplane/crossplane/internal/xpkg"
	"github.com/crossplane/crossplane/verif/explore"
	"github.com/crossplane/crossplane/verif/pkgh"
	"github.com/crossplane/crossplane/verif/report"
	"github.com/crossplane/crossplane/verif/xrh"
)

// ---- scenario: the registry as the real fetcher sees it --------------------------
//
// The event scenarios script the Fetcher interface. "Registry answers" are
// HTTP answers, though, and the production Fetcher (xpkg.K8sFetcher) turns
// them into the digest a revision is named after: a manifest HEAD, and a GET
// when the HEAD fails. Here the real package manager resolves a package
// through the real K8sFetcher against an in-process OCI registry
// (go-containerregistry's) whose manifest HEAD / GET requests fail on demand,
// for a single-platform image and for a multi-platform index, over every
// sequence of three reconciles x {all answers fine, HEAD fails, HEAD and GET
// fail}: resolving the same, unmoved tag never yields a second revision, and
// the one revision stays Active with the highest number.

type flakyRegistry struct {
	h                http.Handler
	failHead, failGet atomic.Bool
	heads, gets       atomic.Int64
}

func (f *flakyRegistry) ServeHTTP(w http.ResponseWriter, req *http.Request) {
	if strings.Contains(req.URL.Path, "/manifests/") {
		switch req.Method {
		case http.MethodHead:
			f.heads.Add(1)
			if f.failHead.Load() {
				http.Error(w, `{"errors":[{"code":"TOOMANYREQUESTS","message":"slow down"}]}`, http.StatusTooManyRequests)
				return
			}
		case http.MethodGet:
			f.gets.Add(1)
			if f.failGet.Load() {
				http.Error(w, `{"errors":[{"code":"UNKNOWN","message":"backend down"}]}`, http.StatusBadGateway)
				return
			}
		}
	}
	f.h.ServeHTTP(w, req)
}

func registryBody(r *explore.Run, rep *report.R, sc string) {
	form := []string{"single-platform-image", "multi-platform-index"}[r.Free(2, "image")]
	answers := []string{"fine", "head-fails", "head-and-get-fail"}
	var seq []string
	for i := 0; i < 3; i++ {
		seq = append(seq, answers[r.Free(len(answers), fmt.Sprintf("registry-answers-during-reconcile-%d", i))])
	}
	xrh.BeginExecution(1)
	fr := &flakyRegistry{h: registry.New()}
	srv := httptest.NewServer(fr)
	defer srv.Close()
	host := strings.TrimPrefix(srv.URL, "http://")
	ref, err := name.ParseReference(host + "/acme/provider-x:v1")
	if err != nil {
		panic(explore.HarnessError{Msg: err.Error()})
	}
	img, err := random.Image(64, 1)
	if err != nil {
		panic(explore.HarnessError{Msg: err.Error()})
	}
	switch form {
	case "single-platform-image":
		if err := remote.Write(ref, img); err != nil {
			panic(explore.HarnessError{Msg: "push: " + err.Error()})
		}
	default:
		arm, _ := random.Image(64, 1)
		idx := mutate.AppendManifests(empty.Index,
			mutate.IndexAddendum{Add: img, Descriptor: regv1.Descriptor{Platform: &regv1.Platform{OS: "linux", Architecture: "amd64"}}},
			mutate.IndexAddendum{Add: arm, Descriptor: regv1.Descriptor{Platform: &regv1.Platform{OS: "linux", Architecture: "arm64"}}})
		if err := remote.WriteIndex(ref, idx); err != nil {
			panic(explore.HarnessError{Msg: "push index: " + err.Error()})
		}
	}
	fetcher, err := xpkg.NewK8sFetcher(noCredentials{}, xpkg.WithNamespace("crossplane-system"), xpkg.WithServiceAccount("crossplane"))
	if err != nil {
		panic(explore.HarnessError{Msg: err.Error()})
	}
	s := xrh.NewStore()
	one := int64(1)
	s.Seed(&v1.Provider{
		TypeMeta:   metav1.TypeMeta{APIVersion: v1.SchemeGroupVersion.String(), Kind: v1.ProviderKind},
		ObjectMeta: metav1.ObjectMeta{Name: "p"},
		Spec:       v1.ProviderSpec{PackageSpec: v1.PackageSpec{Package: ref.String(), RevisionHistoryLimit: &one}},
	})
	rec := pkgh.NewProviderManager(s.Client("pkgmgr"), fetcher)
	var names []string
	for i, a := range seq {
		fr.failHead.Store(a != "fine")
		fr.failGet.Store(a == "head-and-get-fail")
		out := xrh.Reconcile(rec, types.NamespacedName{Name: "p"})
		rs := revisions(s)
		r.Logf("reconcile %d (%s, registry %s): err=%v -> %s (manifest HEADs %d, GETs %d)", i, form, a, out.Err, describe(rs), fr.heads.Load(), fr.gets.Load())
		for _, x := range rs {
			seen := false
			for _, n := range names {
				seen = seen || n == x.name
			}
			if !seen {
				names = append(names, x.name)
			}
		}
		if len(names) > 1 {
			r.Failf("A3/second-revision-for-one-image", "%s, tag never moved, registry answers %v: resolving it again created a second revision: %v (now %s)", form, seq[:i+1], names, describe(rs))
		}
		active := 0
		for _, x := range rs {
			if x.active {
				active++
			}
		}
		if active > 1 {
			r.Failf("A1/two-active", "%s, registry answers %v: two revisions Active at once: %s", form, seq[:i+1], describe(rs))
		}
		if a == "fine" && out.Err == nil && (len(rs) != 1 || !rs[0].active) {
			r.Failf("A2/current-missing-or-inactive", "%s, registry answers %v: after a reconcile with a healthy registry the package has %s", form, seq[:i+1], describe(rs))
		}
	}
	rep.Eval(sc, report.Hash(len(names), form), report.Hash(sc, form, seq))
}

// noCredentials is the part of a Kubernetes clientset the fetcher's keychain
// uses: a cluster with no pull secrets and no service account secrets.
type noCredentials struct{ kubernetes.Interface }

func (noCredentials) CoreV1() corev1client.CoreV1Interface { return noCoreV1{} }

type noCoreV1 struct{ corev1client.CoreV1Interface }

func (noCoreV1) Secrets(string) corev1client.SecretInterface { return noSecrets{} }
func (noCoreV1) ServiceAccounts(string) corev1client.ServiceAccountInterface {
	return noServiceAccounts{}
}

type noSecrets struct{ corev1client.SecretInterface }

func (noSecrets) Get(_ context.Context, name string, _ metav1.GetOptions) (*corev1.Secret, error) {
	return nil, kerrors.NewNotFound(schema.GroupResource{Resource: "secrets"}, name)
}

type noServiceAccounts struct {
	corev1client.ServiceAccountInterface
}

func (noServiceAccounts) Get(_ context.Context, name string, _ metav1.GetOptions) (*corev1.ServiceAccount, error) {
	return nil, kerrors.NewNotFound(schema.GroupResource{Resource: "serviceaccounts"}, name)
}
