package c10

import (
	"fmt"
	"reflect"
	"strings"

	"k8s.io/apimachinery/pkg/runtime"

	xpv1 "github.com/crossplane/crossplane-runtime/apis/common/v1"
	"github.com/crossplane/crossplane-runtime/pkg/resource"
	"github.com/crossplane/crossplane-runtime/pkg/resource/unstructured/composed"
	"github.com/crossplane/crossplane-runtime/pkg/resource/unstructured/composite"

	v1 "github.com/crossplane/crossplane/apis/apiextensions/v1"
	xcomposite "github.com/crossplane/crossplane/internal/controller/apiextensions/composite"
	"github.com/crossplane/crossplane/verif/explore"
	"github.com/crossplane/crossplane/verif/report"
)

// ---- objects -----------------------------------------------------------------

const annKey = "example.org/key"

// mkObject builds one side of a patch. Both sides have the same layout so the
// same path shapes serve both directions. The source side carries the value
// under test at spec.src and spec.list[1].
func mkObject(apiVersion, kind, name string, v any, source bool) map[string]any {
	spec := map[string]any{
		"list":  []any{"e0", "e1"},
		"obj":   map[string]any{"k": "old", "keep": "kept"},
		"str":   "scalar",
		"fixed": "v",
		"nul":   nil,
		"arr":   []any{map[string]any{"f": "x"}, map[string]any{"f": "y"}},
		"strs":  []any{"a", "b"},
	}
	ann := "old-annotation"
	if source {
		spec["src"] = v
		spec["list"] = []any{"e0", deepCopy(v)}
		ann = "annot"
	}
	return map[string]any{
		"apiVersion": apiVersion,
		"kind":       kind,
		"metadata":   map[string]any{"name": name, "annotations": map[string]any{annKey: ann}},
		"spec":       spec,
	}
}

func mkXR(v any, source bool) *composite.Unstructured {
	xr := composite.New()
	xr.Object = mkObject("example.org/v1", "XThing", "xr1", v, source)
	return xr
}

func mkCD(v any, source bool) *composed.Unstructured {
	cd := composed.New()
	cd.Object = mkObject("res.example.org/v1", "ResA", "cd1", v, source)
	return cd
}

func specOf(o map[string]any) map[string]any { return o["spec"].(map[string]any) }

// ---- path shapes ---------------------------------------------------------------

const (
	lookFoundV  = iota // the value under test
	lookFoundAn        // the annotation string
	lookMissing
	lookUnknown // the documentation does not say (through a scalar, wildcard, malformed, empty)
	lookNilPath // FromFieldPath not set
)

type fromShape struct {
	name  string
	path  *string
	look  int
	quick bool
	// setSame writes v at the same path of another object (ToFieldPath defaults
	// to FromFieldPath).
	setSame func(o map[string]any, v any)
	getSame func(o map[string]any) (any, bool)
}

var fromShapes = []fromShape{
	{name: "plain", path: ptr("spec.src"), look: lookFoundV, quick: true,
		setSame: func(o map[string]any, v any) { specOf(o)["src"] = v },
		getSame: func(o map[string]any) (any, bool) { v, ok := specOf(o)["src"]; return v, ok }},
	{name: "bracket", path: ptr("spec[src]"), look: lookFoundV, quick: true,
		setSame: func(o map[string]any, v any) { specOf(o)["src"] = v },
		getSame: func(o map[string]any) (any, bool) { v, ok := specOf(o)["src"]; return v, ok }},
	{name: "index", path: ptr("spec.list[1]"), look: lookFoundV, quick: true,
		setSame: func(o map[string]any, v any) { specOf(o)["list"].([]any)[1] = v },
		getSame: func(o map[string]any) (any, bool) { return specOf(o)["list"].([]any)[1], true }},
	{name: "annotation", path: ptr("metadata.annotations[" + annKey + "]"), look: lookFoundAn,
		setSame: func(o map[string]any, v any) {
			o["metadata"].(map[string]any)["annotations"].(map[string]any)[annKey] = v
		},
		getSame: func(o map[string]any) (any, bool) {
			return o["metadata"].(map[string]any)["annotations"].(map[string]any)[annKey], true
		}},
	{name: "missing", path: ptr("spec.nope"), look: lookMissing, quick: true},
	{name: "missing-deep", path: ptr("spec.nope.deeper[2].x"), look: lookMissing},
	{name: "index-out-of-range", path: ptr("spec.list[7]"), look: lookMissing, quick: true},
	{name: "through-scalar", path: ptr("spec.str.deeper"), look: lookUnknown, quick: true},
	{name: "through-null", path: ptr("spec.nul.deeper"), look: lookUnknown},
	{name: "wildcard", path: ptr("spec.list[*]"), look: lookUnknown, quick: true},
	{name: "malformed", path: ptr("spec..src["), look: lookUnknown, quick: true},
	{name: "empty", path: ptr(""), look: lookUnknown},
	{name: "unset", path: nil, look: lookNilPath, quick: true},
}

const (
	toOK = iota
	toErr
	toUnknown
)

type toShape struct {
	name  string
	path  *string
	kind  int
	multi bool // wildcard: several destinations
	quick bool
	set   func(o map[string]any, v func() any)
	get   func(o map[string]any) (any, bool) // existing destination value (single destination shapes)
}

func arrOf(o map[string]any) []any { return specOf(o)["arr"].([]any) }

var toShapes = []toShape{
	{name: "same-as-from", path: nil, kind: toOK, quick: true},
	{name: "plain", path: ptr("spec.dst"), kind: toOK, quick: true,
		set: func(o map[string]any, v func() any) { specOf(o)["dst"] = v() },
		get: func(o map[string]any) (any, bool) { v, ok := specOf(o)["dst"]; return v, ok }},
	{name: "bracket", path: ptr("spec[dst]"), kind: toOK,
		set: func(o map[string]any, v func() any) { specOf(o)["dst"] = v() },
		get: func(o map[string]any) (any, bool) { v, ok := specOf(o)["dst"]; return v, ok }},
	{name: "over-scalar", path: ptr("spec.fixed"), kind: toOK, quick: true,
		set: func(o map[string]any, v func() any) { specOf(o)["fixed"] = v() },
		get: func(o map[string]any) (any, bool) { return specOf(o)["fixed"], true }},
	{name: "over-map", path: ptr("spec.obj"), kind: toOK, quick: true,
		set: func(o map[string]any, v func() any) { specOf(o)["obj"] = v() },
		get: func(o map[string]any) (any, bool) { return specOf(o)["obj"], true }},
	{name: "over-array", path: ptr("spec.strs"), kind: toOK, quick: true,
		set: func(o map[string]any, v func() any) { specOf(o)["strs"] = v() },
		get: func(o map[string]any) (any, bool) { return specOf(o)["strs"], true }},
	{name: "over-null", path: ptr("spec.nul"), kind: toOK,
		set: func(o map[string]any, v func() any) { specOf(o)["nul"] = v() },
		get: func(o map[string]any) (any, bool) { return nil, true }},
	{name: "array-element", path: ptr("spec.arr[1].f"), kind: toOK, quick: true,
		set: func(o map[string]any, v func() any) { arrOf(o)[1].(map[string]any)["f"] = v() },
		get: func(o map[string]any) (any, bool) { return arrOf(o)[1].(map[string]any)["f"], true }},
	{name: "array-extend", path: ptr("spec.arr[3].f"), kind: toOK, quick: true,
		set: func(o map[string]any, v func() any) {
			specOf(o)["arr"] = append(arrOf(o), nil, map[string]any{"f": v()})
		},
		get: func(o map[string]any) (any, bool) { return nil, false }},
	{name: "label", path: ptr("metadata.labels[example.org/l]"), kind: toOK,
		set: func(o map[string]any, v func() any) {
			o["metadata"].(map[string]any)["labels"] = map[string]any{"example.org/l": v()}
		},
		get: func(o map[string]any) (any, bool) { return nil, false }},
	{name: "wildcard", path: ptr("spec.arr[*].f"), kind: toOK, multi: true, quick: true,
		set: func(o map[string]any, v func() any) {
			for _, e := range arrOf(o) {
				e.(map[string]any)["f"] = v()
			}
		}},
	{name: "wildcard-map", path: ptr("spec.obj[*]"), kind: toOK, multi: true,
		set: func(o map[string]any, v func() any) {
			m := specOf(o)["obj"].(map[string]any)
			for k := range m {
				m[k] = v()
			}
		}},
	{name: "wildcard-no-match", path: ptr("spec.none[*].f"), kind: toErr, quick: true},
	{name: "over-max-index", path: ptr("spec.arr[2000]"), kind: toErr, quick: true},
	{name: "through-scalar", path: ptr("spec.fixed.x"), kind: toErr, quick: true},
	{name: "malformed", path: ptr("spec.dst["), kind: toErr, quick: true},
}

// ---- policies ------------------------------------------------------------------

type policyShape struct {
	name     string
	p        *v1.PatchPolicy
	required bool
	moNil    bool
	keep     bool
	app      bool
}

func mkPolicies() (basic, merge []policyShape) {
	opt, req := v1.FromFieldPathPolicyOptional, v1.FromFieldPathPolicyRequired
	t, f := true, false
	basic = []policyShape{
		{name: "none", p: nil, moNil: true},
		{name: "optional", p: &v1.PatchPolicy{FromFieldPath: &opt}, moNil: true},
		{name: "required", p: &v1.PatchPolicy{FromFieldPath: &req}, required: true, moNil: true},
	}
	for _, ffp := range []struct {
		n string
		p *v1.FromFieldPathPolicy
		r bool
	}{{"default", nil, false}, {"required", &req, true}} {
		merge = append(merge,
			policyShape{name: ffp.n + "+mo-empty", p: &v1.PatchPolicy{FromFieldPath: ffp.p, MergeOptions: &xpv1.MergeOptions{}}, required: ffp.r},
			policyShape{name: ffp.n + "+mo-false", p: &v1.PatchPolicy{FromFieldPath: ffp.p, MergeOptions: &xpv1.MergeOptions{KeepMapValues: &f, AppendSlice: &f}}, required: ffp.r},
			policyShape{name: ffp.n + "+keepMapValues", p: &v1.PatchPolicy{FromFieldPath: ffp.p, MergeOptions: &xpv1.MergeOptions{KeepMapValues: &t}}, required: ffp.r, keep: true},
			policyShape{name: ffp.n + "+appendSlice", p: &v1.PatchPolicy{FromFieldPath: ffp.p, MergeOptions: &xpv1.MergeOptions{AppendSlice: &t}}, required: ffp.r, app: true},
			policyShape{name: ffp.n + "+keep+append", p: &v1.PatchPolicy{FromFieldPath: ffp.p, MergeOptions: &xpv1.MergeOptions{KeepMapValues: &t, AppendSlice: &t}}, required: ffp.r, keep: true, app: true},
		)
	}
	return basic, merge
}

// mergeExpect is the documented result of merging src onto an existing
// destination: replace without merge options or when either side is absent /
// null; keepMapValues preserves existing map values and adds new keys;
// appendSlice preserves existing elements and appends the new ones.
func mergeExpect(dst any, present bool, src any, po policyShape) (any, bool) {
	if po.moNil || !present || dst == nil || src == nil {
		return src, true
	}
	dm, dIsMap := dst.(map[string]any)
	sm, sIsMap := src.(map[string]any)
	if dIsMap && sIsMap && po.keep {
		out := deepCopy(dm).(map[string]any)
		for k, e := range sm {
			if old, ok := out[k]; ok {
				switch old.(type) {
				case map[string]any, []any:
					return nil, false
				}
				continue
			}
			out[k] = deepCopy(e)
		}
		return out, true
	}
	da, dIsArr := dst.([]any)
	sa, sIsArr := src.([]any)
	if dIsArr && sIsArr && po.app {
		out := deepCopy(da).([]any)
		for _, e := range sa {
			dup := false
			for _, d := range da {
				if looseEqual(d, e) {
					dup = true
				}
			}
			if !dup {
				out = append(out, deepCopy(e))
			}
		}
		return out, true
	}
	return nil, false
}

// ---- the patch under test ------------------------------------------------------

type patchDims struct {
	types    []v1.PatchType
	values   []val
	froms    []fromShape
	tos      []toShape
	policies []policyShape
	tfs      [][]tcase
	onlys    []string // "", "same", "other"
}

func tfName(tf []tcase) string {
	if len(tf) == 0 {
		return "none"
	}
	var n []string
	for _, t := range tf {
		n = append(n, t.name)
	}
	return strings.Join(n, "+")
}

type applyResult struct {
	err    error
	pan    any
	source map[string]any
	target map[string]any
}

func (a applyResult) same(b applyResult) bool {
	return fmt.Sprint(a.pan) == fmt.Sprint(b.pan) && errStr(a.err) == errStr(b.err) && strictEqual(a.source, b.source) && strictEqual(a.target, b.target)
}

// toXR reports whether the patch type reads the composed resource and writes
// the composite.
func toXR(t v1.PatchType) bool {
	return t == v1.PatchTypeToCompositeFieldPath || t == v1.PatchTypeCombineToComposite
}

// runApply builds fresh objects and applies the patch once.
func runApply(p v1.Patch, v any, only []v1.PatchType) (res applyResult, srcBefore, tgtBefore map[string]any) {
	rev := toXR(p.Type)
	xr := mkXR(v, !rev)
	cd := mkCD(v, rev)
	src, tgt := xr.Object, cd.Object
	if rev {
		src, tgt = cd.Object, xr.Object
	}
	srcBefore = deepCopy(src).(map[string]any)
	tgtBefore = deepCopy(tgt).(map[string]any)
	func() {
		defer func() {
			if pn := recover(); pn != nil {
				res.pan = pn
			}
		}()
		res.err = xcomposite.Apply(p, resource.Composite(xr), resource.Composed(cd), only...)
	}()
	res.source, res.target = xr.Object, cd.Object
	if rev {
		res.source, res.target = cd.Object, xr.Object
	}
	return res, srcBefore, tgtBefore
}

func fieldPathScenario(rep *report.R, name string, d patchDims) report.Scenario {
	a := newAcct(rep, name)
	return report.Scenario{Name: name, Bound: 0, After: a.after, Body: func(r *explore.Run) {
		pt := d.types[r.Free(len(d.types), "type")]
		fs := d.froms[r.Free(len(d.froms), "from")]
		ts := d.tos[r.Free(len(d.tos), "to")]
		po := d.policies[r.Free(len(d.policies), "policy")]
		tf := d.tfs[r.Free(len(d.tfs), "transforms")]
		onlyMode := d.onlys[r.Free(len(d.onlys), "only")]
		v := d.values[r.Free(len(d.values), "value")]

		p := v1.Patch{Type: pt, FromFieldPath: fs.path, ToFieldPath: ts.path, Policy: po.p}
		for _, t := range tf {
			p.Transforms = append(p.Transforms, t.t)
		}
		var only []v1.PatchType
		switch onlyMode {
		case "same":
			only = []v1.PatchType{pt}
		case "other":
			for _, o := range []v1.PatchType{v1.PatchTypeFromCompositeFieldPath, v1.PatchTypeToCompositeFieldPath, v1.PatchTypeCombineFromComposite, v1.PatchTypeCombineToComposite} {
				if o != pt {
					only = append(only, o)
				}
			}
		}
		ok, why := validatedPatch(p)
		shape := fmt.Sprintf("from=%s,to=%s,policy=%s,tf=%s,only=%s", fs.name, ts.name, po.name, tfName(tf), onlyMode)
		r.Logf("Apply type=%q %s value %s = %s; %s %s", pt, shape, v.name, render(v.mk()), valWord(ok), why)

		psnap := p.DeepCopy()
		r1, srcBefore, tgtBefore := runApply(p, v.mk(), only)
		r2, _, _ := runApply(p, v.mk(), only)
		if ts.multi && ts.name == "wildcard-map" {
			// The destinations are the keys of a Go map, whose iteration
			// order is random (for a two-key map the second key comes first
			// about once in eight iterations): two runs cannot expose an
			// order dependence reliably, and a violation must reproduce when
			// replayed, so run until a difference shows, up to 120 times
			// (an order dependence stays unseen with probability < 1e-6).
			for i := 0; i < 118 && r1.same(r2); i++ {
				r2, _, _ = runApply(p, v.mk(), only)
			}
		}
		r.Logf("err=%v panic=%v", r1.err, r1.pan)

		changed := !strictEqual(r1.target, tgtBefore)
		rec := &evalRec{outcome: report.Hash(errStr(r1.err), fmt.Sprint(r1.pan), render(r1.target))}
		// Non-trivial: validation accepts the patch, the type filter lets it
		// through and it is a field path patch with a source path, so the
		// source lookup really happens.
		dispatch := pt == v1.PatchTypeFromCompositeFieldPath || pt == v1.PatchTypeToCompositeFieldPath || pt == ""
		if ok && onlyMode != "other" && dispatch && fs.path != nil {
			rec.nontrivial = report.Hash("p", name, pt, shape, v.name)
		}
		if rec.nontrivial != "" && changed {
			rec.sample = map[string]any{"scenario": name, "type": string(pt), "shape": shape, "value": v.name, "error": errStr(r1.err), "target_changed": changed, "choices": append([]int{}, r.Choices...)}
		}
		// Signatures name the site, never the whole input: patch type, and
		// for destination-dependent failures the destination shape and merge
		// options.
		moName := "none"
		if !po.moNil {
			moName = po.name[strings.Index(po.name, "+")+1:]
		}
		sigDest := fmt.Sprintf("%s/to=%s,mo=%s", typeName(pt), ts.name, moName)
		sigPanic := fmt.Sprintf("%s/from=%s,to=%s,mo=%s,tf=%s", typeName(pt), fs.name, ts.name, moName, tfName(tf))

		if r1.pan != nil {
			if ok {
				a.fail(r, rec, "panic/patch/"+sigPanic+"/"+typeClass(v.mk()), "Apply panicked: %v; patch type=%q %s (validated: Patch.Validate() and Composition.Validate() accept it), source value %s", r1.pan, pt, shape, render(v.mk()))
			}
			rec.unvalPanic = "patch/" + sigPanic
		}
		if !r1.same(r2) {
			a.fail(r, rec, "determinism/patch/"+typeName(pt), "two runs of the same Apply differ: err %q vs %q, target %s vs %s; patch %s (%s)", errStr(r1.err), errStr(r2.err), render(r1.target), render(r2.target), shape, valWord(ok))
		}
		if !strictEqual(r1.source, srcBefore) {
			a.fail(r, rec, "purity/patch-source/"+typeName(pt), "Apply modified its SOURCE object: before %s after %s; patch type=%q %s (%s)", render(srcBefore), render(r1.source), pt, shape, valWord(ok))
		}
		if !reflect.DeepEqual(&p, psnap) {
			a.fail(r, rec, "purity/patch-config/"+typeName(pt), "Apply modified the patch (template) it was given; %s (%s)", shape, valWord(ok))
		}
		if r1.pan != nil {
			a.done(rec)
			return
		}

		// ---- reference ----
		fail := func(kind, format string, args ...any) {
			sig := "oracle/patch/" + kind + "/" + typeName(pt)
			if kind == "wrong-target" || kind == "unexpected-error" || kind == "bad-destination-accepted" {
				sig = "oracle/patch/" + kind + "/" + sigDest
			}
			a.fail(r, rec, sig, "%s; patch type=%q %s, source value %s (%s)", fmt.Sprintf(format, args...), pt, shape, render(v.mk()), valWord(ok))
		}
		if onlyMode == "other" {
			if pt == "" {
				a.done(rec) // an unset type against a filter: not documented
				return
			}
			if r1.err != nil || changed {
				fail("filtered-patch-applied", "a patch whose type is not in the 'only' filter must be skipped, got err=%v changed=%v", r1.err, changed)
			}
			a.done(rec)
			return
		}
		if !dispatch {
			if pt != v1.PatchTypePatchSet && r1.err == nil {
				fail("unknown-type-accepted", "unsupported patch type did not return an error")
			}
			a.done(rec)
			return
		}
		switch fs.look {
		case lookNilPath:
			if r1.err == nil {
				fail("missing-fromfieldpath-accepted", "a field path patch without fromFieldPath must be an error")
			}
			a.done(rec)
			return
		case lookUnknown:
			a.done(rec)
			return
		case lookMissing:
			if po.required {
				if r1.err == nil {
					fail("required-missing-not-an-error", "Required patch with a missing source path returned no error (target changed=%v)", changed)
				}
			} else if r1.err != nil || changed {
				fail("optional-missing-not-a-noop", "Optional patch with a missing source path must be a no-op: err=%v, target before %s after %s", r1.err, render(tgtBefore), render(r1.target))
			}
			a.done(rec)
			return
		}
		// The source value exists: transform it.
		var in any = "annot"
		if fs.look == lookFoundV {
			in = v.mk()
		}
		for _, t := range tf {
			if t.ref == nil {
				a.done(rec)
				return
			}
			e := t.ref(in)
			if !e.known || e.pred != nil || len(e.alt) > 0 || (e.loose && containsNumber(e.out)) {
				a.done(rec)
				return
			}
			if e.err {
				if r1.err == nil {
					fail("transform-error-swallowed", "transform %s cannot handle %s but Apply returned no error", t.name, render(in))
				}
				a.done(rec)
				return
			}
			in = e.out
		}
		// Write it.
		set, get := ts.set, ts.get
		if ts.path == nil {
			set = func(o map[string]any, v func() any) { fs.setSame(o, v()) }
			get = fs.getSame
		}
		switch ts.kind {
		case toUnknown:
			a.done(rec)
			return
		case toErr:
			if r1.err == nil {
				fail("bad-destination-accepted", "writing to %s must fail, got no error", *ts.path)
			}
			a.done(rec)
			return
		}
		want := deepCopy(tgtBefore).(map[string]any)
		if ts.multi {
			if !po.moNil && in != nil {
				a.done(rec)
				return
			}
			set(want, func() any { return deepCopy(in) })
		} else {
			dst, present := get(tgtBefore)
			merged, known := mergeExpect(dst, present, in, po)
			if !known {
				a.done(rec)
				return
			}
			set(want, func() any { return deepCopy(merged) })
		}
		if r1.err != nil {
			fail("unexpected-error", "expected the value %s to be patched to the target, got error %q", render(in), r1.err)
		}
		if !looseEqual(r1.target, want) {
			fail("wrong-target", "target after the patch is %s, expected %s", render(r1.target), render(want))
		}
		a.done(rec)
	}}
}

func typeName(t v1.PatchType) string {
	if t == "" {
		return "DefaultType"
	}
	return string(t)
}

// ---- combine patches -----------------------------------------------------------

type varShape struct {
	name  string
	paths []string
	// vals returns the values the variables resolve to (v = value under test);
	// missing reports a missing variable, unknown an undocumented lookup.
	vals             func(v any) []any
	missing, unknown bool
}

var varShapes = []varShape{
	{name: "none", paths: nil, unknown: true},
	{name: "v", paths: []string{"spec.src"}, vals: func(v any) []any { return []any{v} }},
	{name: "v+str", paths: []string{"spec.src", "spec.str"}, vals: func(v any) []any { return []any{v, "scalar"} }},
	{name: "str+v", paths: []string{"spec[str]", "spec.list[1]"}, vals: func(v any) []any { return []any{"scalar", v} }},
	{name: "v+missing", paths: []string{"spec.src", "spec.nope"}, missing: true},
	{name: "missing+v", paths: []string{"spec.list[9]", "spec.src"}, missing: true},
	{name: "empty-path", paths: []string{""}, unknown: true},
	{name: "malformed+missing", paths: []string{"spec..[", "spec.nope"}, unknown: true},
}

type combineShape struct {
	name   string
	c      func(vars []v1.CombineVariable) *v1.Combine
	format string
	bad    bool // strategy unsupported or its configuration missing: an error
}

var combineShapes = []combineShape{
	{name: "fmt-s-s", format: "%s-%s", c: func(vs []v1.CombineVariable) *v1.Combine {
		return &v1.Combine{Variables: vs, Strategy: v1.CombineStrategyString, String: &v1.StringCombine{Format: "%s-%s"}}
	}},
	{name: "fmt-v", format: "%v", c: func(vs []v1.CombineVariable) *v1.Combine {
		return &v1.Combine{Variables: vs, Strategy: v1.CombineStrategyString, String: &v1.StringCombine{Format: "%v"}}
	}},
	{name: "fmt-d-s", format: "%d-%s", c: func(vs []v1.CombineVariable) *v1.Combine {
		return &v1.Combine{Variables: vs, Strategy: v1.CombineStrategyString, String: &v1.StringCombine{Format: "%d-%s"}}
	}},
	{name: "fmt-lone-percent", format: "%", c: func(vs []v1.CombineVariable) *v1.Combine {
		return &v1.Combine{Variables: vs, Strategy: v1.CombineStrategyString, String: &v1.StringCombine{Format: "%"}}
	}},
	{name: "fmt-star-index", format: "%[3]*.[2]*[1]f", c: func(vs []v1.CombineVariable) *v1.Combine {
		return &v1.Combine{Variables: vs, Strategy: v1.CombineStrategyString, String: &v1.StringCombine{Format: "%[3]*.[2]*[1]f"}}
	}},
	{name: "fmt-empty", format: "", c: func(vs []v1.CombineVariable) *v1.Combine {
		return &v1.Combine{Variables: vs, Strategy: v1.CombineStrategyString, String: &v1.StringCombine{}}
	}},
	{name: "string-config-nil", bad: true, c: func(vs []v1.CombineVariable) *v1.Combine {
		return &v1.Combine{Variables: vs, Strategy: v1.CombineStrategyString}
	}},
	{name: "strategy-unknown", bad: true, c: func(vs []v1.CombineVariable) *v1.Combine {
		return &v1.Combine{Variables: vs, Strategy: "concat", String: &v1.StringCombine{Format: "%s"}}
	}},
	{name: "strategy-empty", bad: true, c: func(vs []v1.CombineVariable) *v1.Combine {
		return &v1.Combine{Variables: vs, String: &v1.StringCombine{Format: "%s"}}
	}},
	{name: "combine-nil", bad: true, c: func(vs []v1.CombineVariable) *v1.Combine { return nil }},
}

// refCombine: the documented meaning of the string strategy is fmt.Sprintf of
// the variables; the oracle answers only for the verbs whose result needs no
// fmt knowledge.
func refCombine(format string, vals []any) (string, bool) {
	str := func(v any) (string, bool) {
		switch x := norm(v).(type) {
		case string:
			return x, true
		case int64:
			return decimal(x), true
		case bool:
			if x {
				return "true", true
			}
			return "false", true
		}
		return "", false
	}
	switch format {
	case "%s-%s":
		if len(vals) != 2 {
			return "", false
		}
		a, aok := vals[0].(string)
		b, bok := vals[1].(string)
		return a + "-" + b, aok && bok
	case "%v":
		if len(vals) != 1 {
			return "", false
		}
		return str(vals[0])
	case "%d-%s":
		if len(vals) != 2 {
			return "", false
		}
		i, iok := norm(vals[0]).(int64)
		s, sok := vals[1].(string)
		return decimal(i) + "-" + s, iok && sok
	}
	return "", false
}

func combineScenario(rep *report.R, name string, types []v1.PatchType, values []val, tos []toShape, policies []policyShape, tfs [][]tcase) report.Scenario {
	a := newAcct(rep, name)
	return report.Scenario{Name: name, Bound: 0, After: a.after, Body: func(r *explore.Run) {
		pt := types[r.Free(len(types), "type")]
		vs := varShapes[r.Free(len(varShapes), "variables")]
		cs := combineShapes[r.Free(len(combineShapes), "combine")]
		ts := tos[r.Free(len(tos), "to")]
		po := policies[r.Free(len(policies), "policy")]
		tf := tfs[r.Free(len(tfs), "transforms")]
		v := values[r.Free(len(values), "value")]

		var vars []v1.CombineVariable
		for _, p := range vs.paths {
			vars = append(vars, v1.CombineVariable{FromFieldPath: p})
		}
		p := v1.Patch{Type: pt, Combine: cs.c(vars), ToFieldPath: ts.path, Policy: po.p}
		for _, t := range tf {
			p.Transforms = append(p.Transforms, t.t)
		}
		ok, why := validatedPatch(p)
		shape := fmt.Sprintf("vars=%s,combine=%s,to=%s,policy=%s,tf=%s", vs.name, cs.name, ts.name, po.name, tfName(tf))
		r.Logf("Apply type=%q %s value %s = %s; %s %s", pt, shape, v.name, render(v.mk()), valWord(ok), why)

		psnap := p.DeepCopy()
		r1, srcBefore, tgtBefore := runApply(p, v.mk(), nil)
		r2, _, _ := runApply(p, v.mk(), nil)
		r.Logf("err=%v panic=%v", r1.err, r1.pan)
		changed := !strictEqual(r1.target, tgtBefore)

		rec := &evalRec{outcome: report.Hash(errStr(r1.err), fmt.Sprint(r1.pan), render(r1.target))}
		// Non-trivial: accepted by validation and at least one variable, so
		// the variables are looked up.
		if ok && len(vars) > 0 {
			rec.nontrivial = report.Hash("c", pt, shape, v.name)
		}
		if rec.nontrivial != "" && changed {
			rec.sample = map[string]any{"scenario": name, "type": string(pt), "shape": shape, "value": v.name, "error": errStr(r1.err), "target_changed": changed, "choices": append([]int{}, r.Choices...)}
		}
		sigPanic := fmt.Sprintf("%s/vars=%s,combine=%s,to=%s,tf=%s", pt, vs.name, cs.name, ts.name, tfName(tf))
		if r1.pan != nil {
			if ok {
				a.fail(r, rec, "panic/patch/"+sigPanic+"/"+typeClass(v.mk()), "Apply panicked: %v; patch type=%q %s (validated: Patch.Validate() and Composition.Validate() accept it), source value %s", r1.pan, pt, shape, render(v.mk()))
			}
			rec.unvalPanic = "patch/" + sigPanic
		}
		if !r1.same(r2) {
			a.fail(r, rec, "determinism/patch/"+string(pt), "two runs of the same Apply differ: err %q vs %q, target %s vs %s; patch %s (%s)", errStr(r1.err), errStr(r2.err), render(r1.target), render(r2.target), shape, valWord(ok))
		}
		if !strictEqual(r1.source, srcBefore) {
			a.fail(r, rec, "purity/patch-source/"+string(pt), "Apply modified its SOURCE object: before %s after %s; patch %s (%s)", render(srcBefore), render(r1.source), shape, valWord(ok))
		}
		if !reflect.DeepEqual(&p, psnap) {
			a.fail(r, rec, "purity/patch-config/"+string(pt), "Apply modified the patch (template) it was given; %s (%s)", shape, valWord(ok))
		}
		if r1.pan != nil {
			a.done(rec)
			return
		}
		fail := func(kind, format string, args ...any) {
			sig := "oracle/patch/" + kind + "/" + string(pt)
			if kind == "wrong-target" || kind == "unexpected-error" || kind == "bad-destination-accepted" {
				sig += "/combine=" + cs.name + ",to=" + ts.name
			}
			a.fail(r, rec, sig, "%s; patch type=%q %s, source value %s (%s)", fmt.Sprintf(format, args...), pt, shape, render(v.mk()), valWord(ok))
		}
		if cs.c(vars) == nil || ts.path == nil {
			if r1.err == nil {
				fail("incomplete-combine-accepted", "a combine patch without combine or toFieldPath must be an error")
			}
			a.done(rec)
			return
		}
		if vs.unknown {
			a.done(rec)
			return
		}
		if vs.missing {
			if po.required {
				if r1.err == nil {
					fail("required-missing-not-an-error", "Required combine patch with a missing variable returned no error (target changed=%v)", changed)
				}
			} else if r1.err != nil || changed {
				fail("optional-missing-not-a-noop", "Optional combine patch with a missing variable must be a no-op: err=%v, target before %s after %s", r1.err, render(tgtBefore), render(r1.target))
			}
			a.done(rec)
			return
		}
		if cs.bad {
			if r1.err == nil {
				fail("bad-combine-accepted", "an unsupported or unconfigured combine strategy must be an error")
			}
			a.done(rec)
			return
		}
		s, known := refCombine(cs.format, vs.vals(v.mk()))
		if !known {
			a.done(rec)
			return
		}
		var in any = s
		for _, t := range tf {
			if t.ref == nil {
				a.done(rec)
				return
			}
			e := t.ref(in)
			if !e.known || e.pred != nil || len(e.alt) > 0 || (e.loose && containsNumber(e.out)) {
				a.done(rec)
				return
			}
			if e.err {
				if r1.err == nil {
					fail("transform-error-swallowed", "transform %s cannot handle %s but Apply returned no error", t.name, render(in))
				}
				a.done(rec)
				return
			}
			in = e.out
		}
		switch ts.kind {
		case toErr:
			if r1.err == nil {
				fail("bad-destination-accepted", "writing to %s must fail, got no error", *ts.path)
			}
			a.done(rec)
			return
		case toUnknown:
			a.done(rec)
			return
		}
		if ts.multi {
			a.done(rec) // combine patches do not expand wildcards; not documented
			return
		}
		want := deepCopy(tgtBefore).(map[string]any)
		ts.set(want, func() any { return deepCopy(in) })
		if r1.err != nil {
			fail("unexpected-error", "expected %s to be patched to the target, got error %q", render(in), r1.err)
		}
		if !looseEqual(r1.target, want) {
			fail("wrong-target", "target after the patch is %s, expected %s", render(r1.target), render(want))
		}
		a.done(rec)
	}}
}

var _ runtime.Object = (*composite.Unstructured)(nil)
