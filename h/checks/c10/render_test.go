package c10

import (
	"strings"
	"fmt"
	"reflect"

	corev1 "k8s.io/api/core/v1"
	metav1 "k8s.io/apimachinery/pkg/apis/meta/v1"
	"k8s.io/apimachinery/pkg/types"

	xpv1 "github.com/crossplane/crossplane-runtime/apis/common/v1"
	"github.com/crossplane/crossplane-runtime/pkg/resource/unstructured/composed"

	v1 "github.com/crossplane/crossplane/apis/apiextensions/v1"
	xcomposite "github.com/crossplane/crossplane/internal/controller/apiextensions/composite"
	"github.com/crossplane/crossplane/verif/explore"
	"github.com/crossplane/crossplane/verif/report"
)

// ---- sequences of patches: aliasing between source and target ------------------

type seqPatch struct {
	name      string
	from, to  string
	keep, app bool
}

var copyPatches = []seqPatch{
	{name: "obj->copy", from: "spec.obj", to: "spec.copy"},
	{name: "obj->obj+keep", from: "spec.obj", to: "spec.obj", keep: true},
	{name: "arr->copy", from: "spec.arr", to: "spec.copy"},
	{name: "arr->arr+append", from: "spec.arr", to: "spec.arr", app: true},
	{name: "arr[0]->copy", from: "spec.arr[0]", to: "spec.copy"},
	{name: "spec->copy", from: "spec", to: "spec.copy"},
	{name: "src->copy", from: "spec.src", to: "spec.copy"},
}

var pokePatches = []seqPatch{
	{name: "str->copy.k", from: "spec.str", to: "spec.copy.k"},
	{name: "str->copy[0].f", from: "spec.str", to: "spec.copy[0].f"},
	{name: "str->copy.arr[0].f", from: "spec.str", to: "spec.copy.arr[0].f"},
	{name: "str->obj.k", from: "spec.str", to: "spec.obj.k"},
	{name: "str->arr[*].f", from: "spec.str", to: "spec.arr[*].f"},
	{name: "str->copy.obj.keep", from: "spec.str", to: "spec.copy.obj.keep"},
	{name: "str->copy.n.k", from: "spec.str", to: "spec.copy.n.k"},
}

func (s seqPatch) patch(t v1.PatchType) v1.Patch {
	p := v1.Patch{Type: t, FromFieldPath: ptr(s.from), ToFieldPath: ptr(s.to)}
	if s.keep || s.app {
		p.Policy = &v1.PatchPolicy{MergeOptions: &xpv1.MergeOptions{KeepMapValues: ptr(s.keep), AppendSlice: ptr(s.app)}}
	}
	return p
}

// sequenceScenario renders two patches in a row through the real render
// functions. The first copies a container from the source to the target, the
// second writes inside that container in the target. If the two objects share
// memory after the first patch, the second one corrupts the source. A third
// patch of the opposite direction would write "LEAK" into the source; the
// render functions must skip it.
func sequenceScenario(rep *report.R, values []val) report.Scenario {
	name := "render/sequence"
	a := newAcct(rep, name)
	return report.Scenario{Name: name, Bound: 0, After: a.after, Body: func(r *explore.Run) {
		rev := r.Bool("to-composite")
		cp := copyPatches[r.Free(len(copyPatches), "copy")]
		pk := pokePatches[r.Free(len(pokePatches), "poke")]
		v := values[r.Free(len(values), "value")]
		dir, other := v1.PatchTypeFromCompositeFieldPath, v1.PatchTypeToCompositeFieldPath
		if rev {
			dir, other = other, dir
		}
		leak := v1.Patch{Type: other, FromFieldPath: ptr("spec.fixed"), ToFieldPath: ptr("spec.leak"), Transforms: []v1.Transform{strT(v1.StringTransform{Type: v1.StringTransformTypeFormat, Format: ptr("LEAK-%s")})}}
		ps := []v1.Patch{cp.patch(dir), leak, pk.patch(dir)}
		r.Logf("render %s: [%s, opposite-direction, %s] value %s", dir, cp.name, pk.name, v.name)

		type out struct {
			err      error
			pan      any
			src, tgt map[string]any
		}
		run := func() (o out, srcBefore map[string]any) {
			xr := mkXR(v.mk(), !rev)
			cd := mkCD(v.mk(), rev)
			sb := xr.Object
			if rev {
				sb = cd.Object
			}
			srcBefore = deepCopy(sb).(map[string]any)
			func() {
				defer func() {
					if p := recover(); p != nil {
						o.pan = p
					}
				}()
				if rev {
					o.err = xcomposite.RenderToCompositePatches(xr, cd, ps)
				} else {
					o.err = xcomposite.RenderFromCompositePatches(cd, xr, ps)
				}
			}()
			o.src, o.tgt = xr.Object, cd.Object
			if rev {
				o.src, o.tgt = cd.Object, xr.Object
			}
			return o, srcBefore
		}
		o1, before := run()
		o2, _ := run()
		r.Logf("err=%v panic=%v", o1.err, o1.pan)
		rec := &evalRec{outcome: report.Hash(errStr(o1.err), fmt.Sprint(o1.pan), render(o1.tgt))}
		// Non-trivial: the first patch copied a container, so aliasing is possible.
		if c, ok := specOf(o1.tgt)["copy"]; ok || cp.to != "spec.copy" {
			switch c.(type) {
			case map[string]any, []any:
				rec.nontrivial = report.Hash("seq", rev, cp.name, pk.name, v.name)
			}
			if cp.to != "spec.copy" {
				rec.nontrivial = report.Hash("seq", rev, cp.name, pk.name, v.name)
			}
			rec.sample = map[string]any{"scenario": name, "direction": string(dir), "patches": []string{cp.name, "opposite-direction", pk.name}, "value": v.name, "error": errStr(o1.err), "choices": append([]int{}, r.Choices...)}
		}
		sig := fmt.Sprintf("%s/%s+%s", dir, cp.name, pk.name)
		if o1.pan != nil {
			a.fail(r, rec, "panic/render/"+sig, "rendering panicked: %v (validated: every patch passes Validate())", o1.pan)
		}
		if fmt.Sprint(o1.pan) != fmt.Sprint(o2.pan) || errStr(o1.err) != errStr(o2.err) || !strictEqual(o1.tgt, o2.tgt) {
			a.fail(r, rec, "determinism/render/"+string(dir), "two renders differ: err %q vs %q; target %s vs %s", errStr(o1.err), errStr(o2.err), render(o1.tgt), render(o2.tgt))
		}
		if !strictEqual(o1.src, before) {
			a.fail(r, rec, "purity/render-source/"+string(dir), "rendering modified the SOURCE object: before %s after %s (validated)", render(before), render(o1.src))
		}
		a.done(rec)
	}}
}

// ---- base template and metadata -------------------------------------------------

type baseShape struct {
	name     string
	raw      string
	parses   bool
	kind     string
	baseName string
}

var baseShapes = []baseShape{
	{name: "valid", raw: `{"apiVersion":"res.example.org/v1","kind":"ResA","spec":{"fixed":"v"}}`, parses: true, kind: "ResA"},
	{name: "valid-with-name", raw: `{"apiVersion":"res.example.org/v1","kind":"ResA","metadata":{"name":"from-base","namespace":"ns"},"spec":{}}`, parses: true, kind: "ResA", baseName: "from-base"},
	{name: "other-kind", raw: `{"apiVersion":"res.example.org/v1","kind":"ResB"}`, parses: true, kind: "ResB"},
	{name: "no-kind", raw: `{"spec":{}}`},
	{name: "malformed", raw: `{`},
	{name: "empty", raw: ``},
	{name: "null", raw: `null`},
	{name: "array", raw: `[]`},
	{name: "string", raw: `"str"`},
	{name: "number-metadata", raw: `{"apiVersion":"v1","kind":"ResA","metadata":5}`},
}

func baseScenario(rep *report.R) report.Scenario {
	name := "render/base"
	a := newAcct(rep, name)
	return report.Scenario{Name: name, Bound: 0, After: a.after, Body: func(r *explore.Run) {
		b := baseShapes[r.Free(len(baseShapes), "base")]
		existing := []string{"fresh", "existing-ResA", "existing-ResB"}[r.Free(3, "existing")]
		mk := func() *composed.Unstructured {
			switch existing {
			case "existing-ResA":
				return composed.New(composed.FromReference(corev1.ObjectReference{APIVersion: "res.example.org/v1", Kind: "ResA", Name: "existing"}))
			case "existing-ResB":
				return composed.New(composed.FromReference(corev1.ObjectReference{APIVersion: "res.example.org/v1", Kind: "ResB", Name: "existing"}))
			}
			return composed.New()
		}
		run := func() (cd *composed.Unstructured, err error, pan any) {
			cd = mk()
			defer func() {
				if p := recover(); p != nil {
					pan = p
				}
			}()
			err = xcomposite.RenderFromJSON(cd, []byte(b.raw))
			return cd, err, nil
		}
		c1, e1, p1 := run()
		c2, e2, p2 := run()
		r.Logf("RenderFromJSON base=%s onto %s: err=%v panic=%v", b.name, existing, e1, p1)
		rec := &evalRec{outcome: report.Hash(errStr(e1), fmt.Sprint(p1), render(c1.Object))}
		if b.parses {
			rec.nontrivial = report.Hash("base", b.name, existing)
			rec.sample = map[string]any{"scenario": name, "base": b.name, "existing": existing, "error": errStr(e1), "choices": append([]int{}, r.Choices...)}
		}
		sig := b.name + "/" + existing
		if p1 != nil {
			a.fail(r, rec, "panic/render-base/"+sig, "RenderFromJSON panicked: %v (base templates are not validated by Composition.Validate: validation never sees this)", p1)
		}
		if fmt.Sprint(p1) != fmt.Sprint(p2) || errStr(e1) != errStr(e2) || !strictEqual(c1.Object, c2.Object) {
			a.fail(r, rec, "determinism/render-base/"+sig, "two runs differ: %v / %v", e1, e2)
		}
		if b.parses {
			kindChanged := existing != "fresh" && "existing-"+b.kind != existing
			switch {
			case kindChanged && e1 == nil:
				a.fail(r, rec, "oracle/render-base/kind-change-accepted", "base of kind %s rendered onto an existing %s without error", b.kind, existing)
			case !kindChanged && e1 != nil:
				a.fail(r, rec, "oracle/render-base/unexpected-error", "valid base %s onto %s failed: %v", b.name, existing, e1)
			case !kindChanged && existing != "fresh" && c1.GetName() != "existing":
				a.fail(r, rec, "oracle/render-base/name-not-preserved", "rendering the base renamed the existing resource to %q", c1.GetName())
			case !kindChanged && c1.GetKind() != b.kind:
				a.fail(r, rec, "oracle/render-base/wrong-kind", "rendered kind %q, base says %q", c1.GetKind(), b.kind)
			}
		} else if b.name == "malformed" && e1 == nil {
			a.fail(r, rec, "oracle/render-base/malformed-accepted", "malformed base JSON rendered without error")
		}
		a.done(rec)
	}}
}

func metadataScenario(rep *report.R) report.Scenario {
	name := "render/metadata"
	a := newAcct(rep, name)
	return report.Scenario{Name: name, Bound: 0, After: a.after, Body: func(r *explore.Run) {
		label := []string{"present", "empty", "absent"}[r.Free(3, "name-prefix-label")]
		rn := []string{"", "a"}[r.Free(2, "resource-name")]
		owner := []string{"none", "same-xr", "other-controller", "other-owner"}[r.Free(4, "existing-owner")]
		run := func() (xrBefore, xrAfter map[string]any, cd *composed.Unstructured, err error, pan any) {
			xr := mkXR("abc", true)
			xr.SetUID("xr-uid")
			switch label {
			case "present":
				xr.SetLabels(map[string]string{"crossplane.io/composite": "xr1", "crossplane.io/claim-name": "c", "crossplane.io/claim-namespace": "ns"})
			case "empty":
				xr.SetLabels(map[string]string{"crossplane.io/composite": ""})
			}
			cd = mkCD(nil, false)
			cd.SetName("")
			t := true
			switch owner {
			case "same-xr":
				cd.SetOwnerReferences([]metav1.OwnerReference{{APIVersion: "example.org/v1", Kind: "XThing", Name: "xr1", UID: "xr-uid", Controller: &t}})
			case "other-controller":
				cd.SetOwnerReferences([]metav1.OwnerReference{{APIVersion: "example.org/v1", Kind: "XThing", Name: "xr2", UID: "other-uid", Controller: &t}})
			case "other-owner":
				cd.SetOwnerReferences([]metav1.OwnerReference{{APIVersion: "v1", Kind: "ConfigMap", Name: "cm", UID: "cm-uid"}})
			}
			xrBefore = deepCopy(xr.Object).(map[string]any)
			defer func() {
				if p := recover(); p != nil {
					pan = p
				}
			}()
			err = xcomposite.RenderComposedResourceMetadata(cd, xr, xcomposite.ResourceName(rn))
			return xrBefore, xr.Object, cd, err, nil
		}
		b1, x1, c1, e1, p1 := run()
		_, _, c2, e2, p2 := run()
		r.Logf("RenderComposedResourceMetadata label=%s name=%q owner=%s: err=%v panic=%v", label, rn, owner, e1, p1)
		rec := &evalRec{outcome: report.Hash(errStr(e1), fmt.Sprint(p1), render(c1.Object))}
		if label == "present" {
			rec.nontrivial = report.Hash("meta", label, rn, owner)
			rec.sample = map[string]any{"scenario": name, "label": label, "resource_name": rn, "owner": owner, "error": errStr(e1), "choices": append([]int{}, r.Choices...)}
		}
		sig := label + "/" + owner
		if p1 != nil {
			a.fail(r, rec, "panic/render-metadata/"+sig, "RenderComposedResourceMetadata panicked: %v (validation never sees this input)", p1)
		}
		if fmt.Sprint(p1) != fmt.Sprint(p2) || errStr(e1) != errStr(e2) || !strictEqual(c1.Object, c2.Object) {
			a.fail(r, rec, "determinism/render-metadata/"+sig, "two runs differ: %v / %v", e1, e2)
		}
		if !strictEqual(b1, x1) {
			a.fail(r, rec, "purity/render-metadata-xr/"+sig, "metadata rendering modified the XR: before %s after %s", render(b1), render(x1))
		}
		wantErr := label != "present" || owner == "other-controller"
		switch {
		case wantErr && e1 == nil:
			a.fail(r, rec, "oracle/render-metadata/error-expected/"+sig, "expected an error (missing name prefix label or resource controlled by someone else)")
		case !wantErr && e1 != nil:
			a.fail(r, rec, "oracle/render-metadata/unexpected-error/"+sig, "unexpected error %v", e1)
		case !wantErr:
			ctrl := metav1.GetControllerOf(c1)
			if ctrl == nil || ctrl.UID != types.UID("xr-uid") {
				a.fail(r, rec, "oracle/render-metadata/controller-ref/"+sig, "composed resource is not controlled by the XR after rendering: %v", c1.GetOwnerReferences())
			}
			if c1.GetGenerateName() != "xr1-" {
				a.fail(r, rec, "oracle/render-metadata/generate-name/"+sig, "generateName %q, want xr1-", c1.GetGenerateName())
			}
			if rn != "" && c1.GetAnnotations()["crossplane.io/composition-resource-name"] != rn {
				a.fail(r, rec, "oracle/render-metadata/resource-name/"+sig, "template name annotation %q, want %q", c1.GetAnnotations()["crossplane.io/composition-resource-name"], rn)
			}
		}
		a.done(rec)
	}}
}

// ---- patch sets -----------------------------------------------------------------

// patchSetScenario: ComposedTemplates inlines patch sets. It must not panic,
// must not modify the templates or sets it was given, and puts the patches of
// a set exactly where the reference to it stood.
func patchSetScenario(rep *report.R) report.Scenario {
	name := "render/patchsets"
	a := newAcct(rep, name)
	mk := func(tag string) v1.Patch {
		return v1.Patch{Type: v1.PatchTypeFromCompositeFieldPath, FromFieldPath: ptr("spec." + tag), ToFieldPath: ptr("spec." + tag)}
	}
	type refShape struct {
		name string
		p    *v1.Patch
		ok   bool
	}
	refs := []refShape{
		{name: "none"},
		{name: "valid", p: &v1.Patch{Type: v1.PatchTypePatchSet, PatchSetName: ptr("ps")}, ok: true},
		{name: "second-set", p: &v1.Patch{Type: v1.PatchTypePatchSet, PatchSetName: ptr("other")}, ok: true},
		{name: "undefined", p: &v1.Patch{Type: v1.PatchTypePatchSet, PatchSetName: ptr("nope")}},
		{name: "nil-name", p: &v1.Patch{Type: v1.PatchTypePatchSet}},
		{name: "empty-name", p: &v1.Patch{Type: v1.PatchTypePatchSet, PatchSetName: ptr("")}},
	}
	setShapes := []string{"two-sets", "no-sets", "nested-patchset", "empty-set", "duplicate-name"}
	return report.Scenario{Name: name, Bound: 0, After: a.after, Body: func(r *explore.Run) {
		ref := refs[r.Free(len(refs), "reference")]
		ss := setShapes[r.Free(len(setShapes), "sets")]
		pos := r.Free(3, "position")
		// The other template may lead with the same patch set, and the slices
		// may have spare capacity - as every slice the API client decodes
		// from JSON has - so that an append to one of them can write into
		// memory another one shares.
		uLeads := r.Bool("other-template-leads-with-the-same-set")
		spare := r.Bool("slices-have-spare-capacity")
		var sets []v1.PatchSet
		switch ss {
		case "two-sets":
			sets = []v1.PatchSet{{Name: "ps", Patches: []v1.Patch{mk("s1"), mk("s2")}}, {Name: "other", Patches: []v1.Patch{mk("o1")}}}
		case "nested-patchset":
			sets = []v1.PatchSet{{Name: "ps", Patches: []v1.Patch{mk("s1"), {Type: v1.PatchTypePatchSet, PatchSetName: ptr("other")}}}, {Name: "other", Patches: []v1.Patch{mk("o1")}}}
		case "empty-set":
			sets = []v1.PatchSet{{Name: "ps"}, {Name: "other", Patches: []v1.Patch{mk("o1")}}}
		case "duplicate-name":
			sets = []v1.PatchSet{{Name: "ps", Patches: []v1.Patch{mk("s1")}}, {Name: "ps", Patches: []v1.Patch{mk("s2")}}, {Name: "other", Patches: []v1.Patch{mk("o1")}}}
		}
		own := []v1.Patch{mk("a"), mk("b")}
		var ps []v1.Patch
		ps = append(ps, own[:pos]...)
		if ref.p != nil {
			ps = append(ps, *ref.p)
		}
		ps = append(ps, own[pos:]...)
		n := "t"
		ups := []v1.Patch{mk("u")}
		if uLeads && ref.p != nil {
			ups = []v1.Patch{*ref.p, mk("u")}
		}
		cts := []v1.ComposedTemplate{{Name: &n, Patches: ps}, {Name: ptr("u"), Patches: ups}}
		if spare {
			roomy := func(in []v1.Patch) []v1.Patch {
				if in == nil {
					return nil
				}
				out := make([]v1.Patch, len(in), len(in)+3)
				copy(out, in)
				return out
			}
			for i := range sets {
				sets[i].Patches = roomy(sets[i].Patches)
			}
			for i := range cts {
				cts[i].Patches = roomy(cts[i].Patches)
			}
		}
		comp := &v1.Composition{Spec: v1.CompositionSpec{PatchSets: sets, Resources: cts}}
		_, verrs := comp.Validate()
		validated := len(verrs) == 0
		snapSets := (&v1.CompositionSpec{PatchSets: sets}).DeepCopy().PatchSets
		snapCts := (&v1.CompositionSpec{Resources: cts}).DeepCopy().Resources
		run := func() (out []v1.ComposedTemplate, err error, pan any) {
			defer func() {
				if p := recover(); p != nil {
					pan = p
				}
			}()
			out, err = xcomposite.ComposedTemplates(sets, cts)
			return out, err, nil
		}
		o1, e1, p1 := run()
		o2, e2, p2 := run()
		r.Logf("ComposedTemplates sets=%s reference=%s at %d: err=%v panic=%v (%s)", ss, ref.name, pos, e1, p1, valWord(validated))
		rec := &evalRec{outcome: report.Hash(errStr(e1), fmt.Sprint(p1), fmt.Sprint(len(o1)))}
		if validated && ref.p != nil {
			rec.nontrivial = report.Hash("ps", ref.name, ss, pos, uLeads, spare)
			rec.sample = map[string]any{"scenario": name, "sets": ss, "reference": ref.name, "position": pos, "error": errStr(e1), "choices": append([]int{}, r.Choices...)}
		}
		sig := ss + "/" + ref.name
		if p1 != nil {
			if validated {
				a.fail(r, rec, "panic/patchsets/"+sig, "ComposedTemplates panicked: %v (validated: Composition.Validate() accepts it)", p1)
			}
			rec.unvalPanic = "patchsets/" + sig
			a.done(rec)
			return
		}
		if fmt.Sprint(p1) != fmt.Sprint(p2) || errStr(e1) != errStr(e2) || !reflect.DeepEqual(o1, o2) {
			a.fail(r, rec, "determinism/patchsets/"+sig, "two runs differ (%s)", valWord(validated))
		}
		if !reflect.DeepEqual(sets, snapSets) || !reflect.DeepEqual(cts, snapCts) {
			a.fail(r, rec, "purity/patchsets/"+sig, "ComposedTemplates modified the patch sets or templates it was given (%s)", valWord(validated))
		}
		// Reference: defined for the unambiguous set shapes.
		if ss == "two-sets" || ss == "empty-set" || ss == "no-sets" {
			defined := map[string][]v1.Patch{}
			for _, s := range sets {
				defined[s.Name] = s.Patches
			}
			wantErr := false
			var want []v1.Patch
			want = append(want, own[:pos]...)
			if ref.p != nil {
				set, ok := []v1.Patch(nil), false
				if ref.p.PatchSetName != nil {
					set, ok = defined[*ref.p.PatchSetName]
				}
				if !ok {
					wantErr = true
				}
				want = append(want, set...)
			}
			want = append(want, own[pos:]...)
			wantU := []v1.Patch{mk("u")}
			if uLeads && ref.p != nil && !wantErr {
				wantU = append(append([]v1.Patch{}, defined[*ref.p.PatchSetName]...), mk("u"))
			}
			switch {
			case wantErr && e1 == nil:
				a.fail(r, rec, "oracle/patchsets/undefined-reference-accepted", "reference %s to an undefined patch set returned no error (%s)", ref.name, valWord(validated))
			case !wantErr && e1 != nil:
				a.fail(r, rec, "oracle/patchsets/unexpected-error", "unexpected error %v (%s)", e1, valWord(validated))
			case !wantErr:
				if len(o1) != 2 || !(len(o1[0].Patches) == 0 && len(want) == 0 || reflect.DeepEqual(o1[0].Patches, want)) || !reflect.DeepEqual(o1[1].Patches, wantU) {
					a.fail(r, rec, "oracle/patchsets/wrong-inlining", "inlined patches differ from the reference: template t has %s, want %s; template u has %s, want %s (%s)", patchTags(o1[0].Patches), patchTags(want), patchTags(o1[1].Patches), patchTags(wantU), valWord(validated))
				}
			}
		}
		a.done(rec)
	}}
}

func patchTags(ps []v1.Patch) string {
	var out []string
	for _, p := range ps {
		switch {
		case p.Type == v1.PatchTypePatchSet:
			out = append(out, "set:"+ptrStr(p.PatchSetName))
		default:
			out = append(out, ptrStr(p.FromFieldPath))
		}
	}
	return "[" + strings.Join(out, " ") + "]"
}

func ptrStr(s *string) string {
	if s == nil {
		return "<nil>"
	}
	return *s
}
