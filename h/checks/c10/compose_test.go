package c10

import (
	"context"
	"fmt"
	"strings"
	"testing"

	"k8s.io/apimachinery/pkg/apis/meta/v1/unstructured"
	"k8s.io/apimachinery/pkg/runtime/schema"
	"k8s.io/apimachinery/pkg/types"
	"sigs.k8s.io/controller-runtime/pkg/reconcile"

	xpv1 "github.com/crossplane/crossplane-runtime/apis/common/v1"
	"github.com/crossplane/crossplane-runtime/pkg/resource/unstructured/composite"

	fnv1 "github.com/crossplane/crossplane/apis/apiextensions/fn/proto/v1"
	v1 "github.com/crossplane/crossplane/apis/apiextensions/v1"
	xcomposite "github.com/crossplane/crossplane/internal/controller/apiextensions/composite"
	"github.com/crossplane/crossplane/verif/explore"
	"github.com/crossplane/crossplane/verif/report"
	"github.com/crossplane/crossplane/verif/simkube"
	"github.com/crossplane/crossplane/verif/xrh"
)

// Compose level: "A composed resource for which any from-XR patch, metadata
// rendering or name generation failed is not created or updated in that
// reconcile, while the other resources still are."

var kindOf = map[string]schema.GroupVersionKind{"a": xrh.ResA, "b": xrh.ResB}

func noFunctions(_ context.Context, name string, _ *fnv1.RunFunctionRequest) (*fnv1.RunFunctionResponse, error) {
	panic(explore.HarnessError{Msg: "function " + name + " called in resources mode"})
}

var composeModes = []string{"control", "required-missing", "transform-error", "combine-required-missing", "name-generation-get-error", "name-generation-kind-not-served"}

func commonPatch() v1.Patch {
	return v1.Patch{Type: v1.PatchTypeFromCompositeFieldPath, FromFieldPath: ptr("spec.param"), ToFieldPath: ptr("spec.param")}
}

func failingPatch(mode string) *v1.Patch {
	req := v1.FromFieldPathPolicyRequired
	switch mode {
	case "required-missing":
		return &v1.Patch{Type: v1.PatchTypeFromCompositeFieldPath, FromFieldPath: ptr("spec.count"), ToFieldPath: ptr("spec.count"), Policy: &v1.PatchPolicy{FromFieldPath: &req}}
	case "transform-error":
		return &v1.Patch{Type: v1.PatchTypeFromCompositeFieldPath, FromFieldPath: ptr("spec.param"), ToFieldPath: ptr("spec.num"), Transforms: []v1.Transform{convT("int64", nil)}}
	case "combine-required-missing":
		return &v1.Patch{Type: v1.PatchTypeCombineFromComposite, ToFieldPath: ptr("spec.combined"), Policy: &v1.PatchPolicy{FromFieldPath: &req},
			Combine: &v1.Combine{Strategy: v1.CombineStrategyString, String: &v1.StringCombine{Format: "%s-%d"}, Variables: []v1.CombineVariable{{FromFieldPath: "spec.param"}, {FromFieldPath: "spec.count"}}}}
	}
	return nil
}

type composeWorld struct {
	s   *simkube.Store
	xrd *v1.CompositeResourceDefinition
	rev *v1.CompositionRevision
	rec reconcile.Reconciler
	c   *simkube.Client
}

func newComposeWorld(ts ...xrh.Template) *composeWorld {
	return newComposeWorldWith(nil, ts...)
}

func newComposeWorldWith(patchSets []v1.PatchSet, ts ...xrh.Template) *composeWorld {
	xrh.BeginExecution(7)
	xrh.MapOrder(0)
	s := xrh.NewStore()
	w := &composeWorld{s: s, xrd: xrh.XRD()}
	s.Seed(w.xrd)
	comp := xrh.ResourcesComposition("comp", ts...)
	comp.Spec.PatchSets = patchSets
	if _, errs := comp.Validate(); len(errs) > 0 {
		panic(explore.HarnessError{Msg: "fixture composition does not pass Composition.Validate(): " + errs.ToAggregate().Error()})
	}
	w.rev = xrh.SeedComposition(s, comp)
	w.c = s.Client("xr")
	w.rec = xrh.NewXRReconciler(w.xrd, xrh.XROptions{Cached: w.c, Uncached: w.c, Runner: xrh.FunctionRunner(noFunctions)})
	return w
}

func (w *composeWorld) reconcile() xrh.Outcome {
	return xrh.Reconcile(w.rec, types.NamespacedName{Name: "xr1"})
}

// quiesce reconciles without faults until a reconcile changes nothing. On
// a correct tree that takes a few reconciles; rendering the same inputs over
// and over must converge because it is a pure function of them.
func (w *composeWorld) quiesce(r *explore.Run) {
	for i := 0; i < 10; i++ {
		before := fmt.Sprint(w.s.Versions())
		if out := w.reconcile(); out.Crashed != nil {
			panic(explore.HarnessError{Msg: "crash without injector"})
		}
		if fmt.Sprint(w.s.Versions()) == before {
			return
		}
	}
	r.Failf("compose/fault-free-reconciles-do-not-converge", "10 fault-free reconciles of an unchanged XR keep writing: ResA objects %d, ResB objects %d, refs %v; last writes: %s",
		len(w.s.All(xrh.ResA.GroupKind())), len(w.s.All(xrh.ResB.GroupKind())), xrh.Refs(w.s.Peek(xrh.XRKey("xr1"))), xrh.DescribeWrites(w.s, max(0, len(w.s.Log)-8)))
}

// writesTo lists the non-dry-run write calls addressed to a kind since from.
func writesTo(s *simkube.Store, from int, kind string) (all []string, effective int) {
	for _, w := range s.Log[from:] {
		if w.Call.Key.Kind != kind || w.Call.DryRun {
			continue
		}
		all = append(all, fmt.Sprintf("%s(effective=%v err=%q)", w.Call, w.Effective, w.Err))
		if w.Effective {
			effective++
		}
	}
	return all, effective
}

func refsOfKind(xr *unstructured.Unstructured, kind string) []string {
	var out []string
	for _, r := range xrh.Refs(xr) {
		if strings.HasPrefix(r, kind+"/") {
			out = append(out, r)
		}
	}
	return out
}

func reconcilerScenario(t *testing.T, rep *report.R) report.Scenario {
	name := "compose/reconciler"
	a := newAcct(rep, name)
	return report.Scenario{Name: name, Bound: 0, After: a.after, Wrap: report.Bubble(t), Body: func(r *explore.Run) {
		mode := composeModes[r.Free(len(composeModes), "failure")]
		failed := []string{"a", "b"}[r.Free(2, "failed-template")]
		initial := []string{"fresh", "steady"}[r.Free(2, "initial")]
		position := []string{"last", "first", "via-patchset"}[r.Free(3, "failing-patch-position")]
		failFirst := position != "last"
		sibling := map[string]string{"a": "b", "b": "a"}[failed]
		fk, sk := kindOf[failed].Kind, kindOf[sibling].Kind
		r.Logf("mode=%s failed=%s(%s) initial=%s failing-patch-position=%s", mode, failed, fk, initial, position)
		nameGen := mode == "name-generation-get-error" || mode == "name-generation-kind-not-served"
		if nameGen && (initial == "steady" || failFirst) {
			return // existing resources are never renamed, and there is no failing patch to position: not a case
		}
		if mode == "control" && failFirst {
			return // no failing patch to position: not a case
		}

		var ts []xrh.Template
		var sets []v1.PatchSet
		for _, n := range []string{"a", "b"} {
			ps := []v1.Patch{commonPatch()}
			if fp := failingPatch(mode); fp != nil && n == failed {
				switch position {
				case "first":
					ps = []v1.Patch{*fp, commonPatch()}
				case "last":
					ps = []v1.Patch{commonPatch(), *fp}
				case "via-patchset":
					// The failing patch sits in a PatchSet the template includes.
					sets = []v1.PatchSet{{Name: "shared", Patches: []v1.Patch{*fp}}}
					ps = []v1.Patch{{Type: v1.PatchTypePatchSet, PatchSetName: ptr("shared")}, commonPatch()}
				}
			}
			ts = append(ts, xrh.Template{Name: n, GVK: kindOf[n], Patches: ps})
		}
		w := newComposeWorldWith(sets, ts...)
		s := w.s
		xr := xrh.XR("xr1", "comp")
		_ = unstructured.SetNestedField(xr.Object, "5", "spec", "param")
		_ = unstructured.SetNestedField(xr.Object, int64(3), "spec", "count")
		s.Seed(xr)

		var failedBefore *unstructured.Unstructured
		var failedRefBefore []string
		breakXR := func(u *unstructured.Unstructured) {
			_ = unstructured.SetNestedField(u.Object, "p2", "spec", "param")
			unstructured.RemoveNestedField(u.Object, "spec", "count")
		}
		if initial == "steady" {
			w.quiesce(r)
			if len(s.All(kindOf["a"].GroupKind())) != 1 || len(s.All(kindOf["b"].GroupKind())) != 1 {
				panic(explore.HarnessError{Msg: "steady preparation did not create both composed resources"})
			}
			failedBefore = s.All(kindOf[failed].GroupKind())[0]
			failedRefBefore = refsOfKind(s.Peek(xrh.XRKey("xr1")), fk)
		}
		// The XR changes: param becomes non-numeric, count disappears. Both
		// templates now want a different spec.param.
		s.Mutate(xrh.XRKey("xr1"), breakXR)

		armed, fired := false, false
		if mode == "name-generation-get-error" {
			s.Inj = simkube.InjectorFn(func(c simkube.Call) simkube.Outcome {
				if armed && !fired && c.Verb == "get" && c.Key.Kind == fk {
					fired = true
					r.Logf("FAULT %s -> error (the Get issued by the name generator)", c)
					return simkube.ErrBefore
				}
				return simkube.OK
			})
		}
		expectFailure := mode != "control"

		rec := &evalRec{}
		var seqAll []string
		for i := 0; i < 2; i++ {
			logStart := len(s.Log)
			armed = i == 0
			if mode == "name-generation-kind-not-served" {
				// The CRD of the failed template's kind is not installed yet:
				// every call on that kind answers "no matches for kind". It is
				// installed before the second reconcile.
				s.NoMatch[kindOf[failed].GroupKind()] = i == 0
				fired = true
			}
			out := w.reconcile()
			armed = false
			if out.Crashed != nil {
				panic(explore.HarnessError{Msg: "unexpected crash"})
			}
			fw, feff := writesTo(s, logStart, fk)
			sw, seff := writesTo(s, logStart, sk)
			r.Logf("reconcile %d: err=%v; writes to %s: %v; writes to %s: %v; refs %v", i, out.Err, fk, fw, sk, sw, xrh.Refs(s.Peek(xrh.XRKey("xr1"))))
			for _, wr := range s.Log[logStart:] {
				if wr.Effective && !wr.Call.DryRun {
					seqAll = append(seqAll, wr.Call.Verb+" "+wr.Call.Key.Kind)
				}
			}
			failing := expectFailure && (!nameGen || i == 0)
			rec.outcome = report.Hash(mode, initial, strings.Join(seqAll, ";"), render(xrh.Refs(s.Peek(xrh.XRKey("xr1")))))
			if failing {
				rec.nontrivial = report.Hash("compose", mode, failed, initial, position)
			}
			if mode == "name-generation-get-error" && initial == "fresh" && i == 0 && !fired {
				panic(explore.HarnessError{Msg: "the name generator's Get was never issued"})
			}
			if failing {
				if len(fw) > 0 {
					a.fail(r, rec, "compose/failed-resource-written/"+mode, "template %q failed to render (%s) but its kind %s was written in reconcile %d: %v (effective=%d); sibling writes %v", failed, mode, fk, i, fw, feff, sw)
				}
				if i == 0 && seff == 0 {
					a.fail(r, rec, "compose/sibling-not-applied/"+mode, "template %q failed to render (%s); its sibling %q (%s) was not created/updated in the same reconcile: writes %v, reconcile error %v", failed, mode, sibling, sk, sw, out.Err)
				}
				refs := refsOfKind(s.Peek(xrh.XRKey("xr1")), fk)
				if len(refs) != 1 {
					a.fail(r, rec, "compose/reference-dropped/"+mode, "XR does not keep exactly one reference of kind %s for the failed template: refs %v", fk, xrh.Refs(s.Peek(xrh.XRKey("xr1"))))
				}
				if initial == "steady" {
					if fmt.Sprint(refs) != fmt.Sprint(failedRefBefore) {
						a.fail(r, rec, "compose/reference-changed/"+mode, "reference to the existing failed resource changed from %v to %v", failedRefBefore, refs)
					}
					now := s.Peek(simkube.KeyOf(failedBefore))
					if now == nil || !strictEqual(now.Object, failedBefore.Object) {
						a.fail(r, rec, "compose/failed-resource-changed/"+mode, "existing resource of failed template changed in the store")
					}
				} else if n := len(s.All(kindOf[failed].GroupKind())); n != 0 {
					a.fail(r, rec, "compose/failed-resource-created/"+mode, "%d objects of kind %s exist although its template never rendered", n, fk)
				}
			} else if i == 0 {
				// Control (or the failure is gone): both are applied.
				if feff == 0 || seff == 0 {
					a.fail(r, rec, "compose/control-not-applied/"+mode, "without a render failure both templates must be applied in one reconcile: %s writes %v, %s writes %v, err %v", fk, fw, sk, sw, out.Err)
				}
			}
		}
		// The sibling carries the new value.
		sibs := s.All(kindOf[sibling].GroupKind())
		if len(sibs) != 1 {
			a.fail(r, rec, "compose/sibling-count/"+mode, "%d objects of sibling kind %s", len(sibs), sk)
		}
		if p, _, _ := unstructured.NestedString(sibs[0].Object, "spec", "param"); p != "p2" {
			a.fail(r, rec, "compose/sibling-stale/"+mode, "sibling %s has spec.param %q, want p2", sk, p)
		}
		if rec.nontrivial != "" {
			rec.sample = map[string]any{"scenario": name, "mode": mode, "failed_template": failed, "initial": initial, "effective_writes": seqAll, "refs": xrh.Refs(s.Peek(xrh.XRKey("xr1"))), "choices": append([]int{}, r.Choices...)}
		}
		a.done(rec)
	}}
}

// directComposeScenario calls the real PTComposer directly with an XR that
// lacks the name prefix label, the only way to make metadata rendering fail
// (the reconciler always sets the label before composing).
func directComposeScenario(t *testing.T, rep *report.R) report.Scenario {
	name := "compose/metadata-direct"
	a := newAcct(rep, name)
	return report.Scenario{Name: name, Bound: 0, After: a.after, Wrap: report.Bubble(t), Body: func(r *explore.Run) {
		initial := []string{"fresh", "steady"}[r.Free(2, "initial")]
		label := []string{"absent", "empty", "present"}[r.Free(3, "name-prefix-label")]
		w := newComposeWorld(
			xrh.Template{Name: "a", GVK: xrh.ResA, Patches: []v1.Patch{commonPatch()}},
			xrh.Template{Name: "b", GVK: xrh.ResB, Patches: []v1.Patch{commonPatch()}},
		)
		s := w.s
		s.Seed(xrh.XR("xr1", "comp"))
		var before map[string]string
		if initial == "steady" {
			w.quiesce(r)
			before = map[string]string{}
			for _, k := range []string{"a", "b"} {
				for _, o := range s.All(kindOf[k].GroupKind()) {
					before[k] = render(o.Object)
				}
			}
		}
		s.Mutate(xrh.XRKey("xr1"), func(u *unstructured.Unstructured) {
			_ = unstructured.SetNestedField(u.Object, "p2", "spec", "param")
			l := u.GetLabels()
			if l == nil {
				l = map[string]string{}
			}
			switch label {
			case "absent":
				delete(l, "crossplane.io/composite")
			case "empty":
				l["crossplane.io/composite"] = ""
			case "present":
				l["crossplane.io/composite"] = "xr1"
			}
			u.SetLabels(l)
		})
		refsBefore := xrh.Refs(s.Peek(xrh.XRKey("xr1")))
		xr := composite.New(composite.WithGroupVersionKind(xrh.XRGVK))
		xr.Object = s.Peek(xrh.XRKey("xr1")).Object
		ptc := xcomposite.NewPTComposer(w.c, w.c)
		logStart := len(s.Log)
		var err error
		var pan any
		func() {
			defer func() { pan = recover() }()
			_, err = ptc.Compose(context.Background(), xr, xcomposite.CompositionRequest{Revision: w.rev})
		}()
		aw, aeff := writesTo(s, logStart, "ResA")
		bw, beff := writesTo(s, logStart, "ResB")
		refs := xrh.Refs(s.Peek(xrh.XRKey("xr1")))
		r.Logf("Compose label=%s initial=%s: err=%v panic=%v ResA writes %v ResB writes %v refs %v", label, initial, err, pan, aw, bw, refs)
		rec := &evalRec{outcome: report.Hash(errStr(err), fmt.Sprint(pan), aeff, beff, len(refs))}
		if label != "present" {
			rec.nontrivial = report.Hash("direct", initial, label)
		}
		rec.sample = map[string]any{"scenario": name, "initial": initial, "label": label, "error": errStr(err), "resa_writes": aw, "resb_writes": bw, "refs": refs, "choices": append([]int{}, r.Choices...)}
		if pan != nil {
			a.fail(r, rec, "panic/compose/metadata-"+label, "PTComposer.Compose panicked: %v", pan)
		}
		if label == "present" {
			if aeff == 0 || beff == 0 {
				a.fail(r, rec, "compose/control-not-applied/metadata-direct", "with the label present both templates must be applied: %v %v err %v", aw, bw, err)
			}
			a.done(rec)
			return
		}
		if len(aw)+len(bw) > 0 {
			a.fail(r, rec, "compose/failed-resource-written/metadata-render", "metadata rendering failed (name prefix label %s) but composed resources were written: %v %v", label, aw, bw)
		}
		if len(refs) != 2 {
			a.fail(r, rec, "compose/reference-dropped/metadata-render", "XR must keep one reference per template, has %v", refs)
		}
		if initial == "steady" {
			if fmt.Sprint(refs) != fmt.Sprint(refsBefore) {
				a.fail(r, rec, "compose/reference-changed/metadata-render", "references changed from %v to %v", refsBefore, refs)
			}
			for _, k := range []string{"a", "b"} {
				for _, o := range s.All(kindOf[k].GroupKind()) {
					if render(o.Object) != before[k] {
						a.fail(r, rec, "compose/failed-resource-changed/metadata-render", "existing composed resource %s changed", k)
					}
				}
			}
		}
		a.done(rec)
	}}
}

// mergeScenario covers merge.go: merge options of a from-XR patch are honoured
// when the rendered resource is applied onto the existing one.
func mergeScenario(t *testing.T, rep *report.R) report.Scenario {
	name := "compose/merge-options"
	a := newAcct(rep, name)
	return report.Scenario{Name: name, Bound: 0, After: a.after, Wrap: report.Bubble(t), Body: func(r *explore.Run) {
		appendSlice := r.Bool("appendSlice")
		keepMap := r.Bool("keepMapValues")
		withPolicy := r.Bool("policy-set")
		var pol *v1.PatchPolicy
		if withPolicy {
			pol = &v1.PatchPolicy{MergeOptions: &xpv1.MergeOptions{AppendSlice: &appendSlice, KeepMapValues: &keepMap}}
		} else if appendSlice || keepMap {
			return // merge options need a policy: not a case
		}
		w := newComposeWorld(
			xrh.Template{Name: "a", GVK: xrh.ResA, Patches: []v1.Patch{
				commonPatch(),
				{Type: v1.PatchTypeFromCompositeFieldPath, FromFieldPath: ptr("spec.list"), ToFieldPath: ptr("spec.list"), Policy: pol},
				{Type: v1.PatchTypeFromCompositeFieldPath, FromFieldPath: ptr("spec.obj"), ToFieldPath: ptr("spec.obj"), Policy: pol},
			}},
			// The second template patches the same paths without merge
			// options: what is applied for it must not depend on the policy of
			// the template before it.
			xrh.Template{Name: "b", GVK: xrh.ResB, Patches: []v1.Patch{
				commonPatch(),
				{Type: v1.PatchTypeFromCompositeFieldPath, FromFieldPath: ptr("spec.list"), ToFieldPath: ptr("spec.list")},
				{Type: v1.PatchTypeFromCompositeFieldPath, FromFieldPath: ptr("spec.obj"), ToFieldPath: ptr("spec.obj")},
			}},
		)
		s := w.s
		xr := xrh.XR("xr1", "comp")
		_ = unstructured.SetNestedSlice(xr.Object, []any{"a"}, "spec", "list")
		_ = unstructured.SetNestedMap(xr.Object, map[string]any{"k": "new", "add": "x"}, "spec", "obj")
		s.Seed(xr)
		w.quiesce(r)
		as := s.All(xrh.ResA.GroupKind())
		if len(as) != 1 {
			panic(explore.HarnessError{Msg: "preparation did not create ResA"})
		}
		// Another actor extends the list and changes a map value.
		s.Mutate(simkube.KeyOf(as[0]), func(u *unstructured.Unstructured) {
			_ = unstructured.SetNestedSlice(u.Object, []any{"a", "ext"}, "spec", "list")
			_ = unstructured.SetNestedField(u.Object, "ext", "spec", "obj", "k")
		})
		bs := s.All(xrh.ResB.GroupKind())
		if len(bs) != 1 {
			panic(explore.HarnessError{Msg: "preparation did not create ResB"})
		}
		s.Mutate(simkube.KeyOf(bs[0]), func(u *unstructured.Unstructured) {
			_ = unstructured.SetNestedSlice(u.Object, []any{"a", "ext"}, "spec", "list")
			_ = unstructured.SetNestedField(u.Object, "ext", "spec", "obj", "k")
		})
		s.Mutate(xrh.XRKey("xr1"), func(u *unstructured.Unstructured) {
			_ = unstructured.SetNestedField(u.Object, "p2", "spec", "param")
		})
		w.quiesce(r)
		gotB := s.Peek(simkube.KeyOf(bs[0]))
		listB, _, _ := unstructured.NestedSlice(gotB.Object, "spec", "list")
		kB, _, _ := unstructured.NestedString(gotB.Object, "spec", "obj", "k")
		got := s.Peek(simkube.KeyOf(as[0]))
		list, _, _ := unstructured.NestedSlice(got.Object, "spec", "list")
		k, _, _ := unstructured.NestedString(got.Object, "spec", "obj", "k")
		param, _, _ := unstructured.NestedString(got.Object, "spec", "param")
		r.Logf("policy=%v appendSlice=%v keepMapValues=%v: list=%v obj.k=%q param=%q", withPolicy, appendSlice, keepMap, list, k, param)
		rec := &evalRec{outcome: report.Hash(render(list), k, param), nontrivial: report.Hash("merge", withPolicy, appendSlice, keepMap)}
		rec.sample = map[string]any{"scenario": name, "policy": withPolicy, "appendSlice": appendSlice, "keepMapValues": keepMap, "list": list, "obj.k": k, "choices": append([]int{}, r.Choices...)}
		if !looseEqual(listB, []any{"a"}) || kB != "new" {
			a.fail(r, rec, "compose/merge/leaked-into-next-template", "template b has no merge options, yet after template a (appendSlice=%v keepMapValues=%v) its resource has spec.list %s (want [a]) and spec.obj.k %q (want new); existing [a ext] / ext", appendSlice, keepMap, render(listB), kB)
		}
		if param != "p2" {
			a.fail(r, rec, "compose/merge/not-updated", "composed resource was not updated at all (spec.param %q)", param)
		}
		wantList := []any{"a"}
		if appendSlice {
			wantList = []any{"a", "ext"}
		}
		// keepMapValues without appendSlice: whether an existing slice is
		// kept is not documented.
		if (appendSlice || !keepMap) && !looseEqual(list, wantList) {
			a.fail(r, rec, fmt.Sprintf("compose/merge/appendSlice=%v", appendSlice), "spec.list is %s, want %s (existing [a ext], patched [a])", render(list), render(wantList))
		}
		wantK := "new"
		if keepMap {
			wantK = "ext"
		}
		if k != wantK {
			a.fail(r, rec, fmt.Sprintf("compose/merge/keepMapValues=%v", keepMap), "spec.obj.k is %q, want %q (existing ext, patched new)", k, wantK)
		}
		a.done(rec)
	}}
}
