package c10

import (
	"math"
	"strings"

	extv1 "k8s.io/apiextensions-apiserver/pkg/apis/apiextensions/v1"

	v1 "github.com/crossplane/crossplane/apis/apiextensions/v1"
)

// tcase is one transform configuration of the alphabet.
type tcase struct {
	name  string
	site  string // stable site used in panic signatures
	t     v1.Transform
	ref   func(in any) exp // nil: totality / determinism / purity only
	quick bool             // member of the reduced chain alphabet (quick tier)
	// convTo is set for plain (format none) convert transforms: the target
	// type, used by the round-trip law.
	convTo string
}

func raw(s string) extv1.JSON { return extv1.JSON{Raw: []byte(s)} }

func mathT(typ v1.MathTransformType, mul, cmin, cmax *int64) v1.Transform {
	return v1.Transform{Type: v1.TransformTypeMath, Math: &v1.MathTransform{Type: typ, Multiply: mul, ClampMin: cmin, ClampMax: cmax}}
}

func strT(s v1.StringTransform) v1.Transform {
	return v1.Transform{Type: v1.TransformTypeString, String: &s}
}

func convT(to string, format *v1.ConvertTransformFormat) v1.Transform {
	return v1.Transform{Type: v1.TransformTypeConvert, Convert: &v1.ConvertTransform{ToType: v1.TransformIOType(to), Format: format}}
}

func matchT(m v1.MatchTransform) v1.Transform {
	return v1.Transform{Type: v1.TransformTypeMatch, Match: &m}
}

func mapT(pairs map[string]string) v1.Transform {
	m := &v1.MapTransform{}
	if pairs != nil {
		m.Pairs = map[string]extv1.JSON{}
		for k, v := range pairs {
			m.Pairs[k] = raw(v)
		}
	}
	return v1.Transform{Type: v1.TransformTypeMap, Map: m}
}

func hasPrefixAB(s string) bool { return strings.HasPrefix(s, "ab") }
func hasDigit(s string) bool    { return strings.ContainsAny(s, "0123456789") }
func hasA(s string) bool        { return strings.Contains(s, "a") }

const wordNum = `([a-z]+)-([0-9]+)`

func catalogue() []tcase {
	var cs []tcase
	add := func(c tcase) { cs = append(cs, c) }
	i64 := func(i int64) *int64 { return &i }

	// ---- math ----
	for _, m := range []struct {
		n string
		v int64
		q bool
	}{{"0", 0, false}, {"3", 3, true}, {"-1", -1, false}, {"max", math.MaxInt64, true}} {
		add(tcase{name: "math-multiply-" + m.n, site: "math-multiply", t: mathT(v1.MathTransformTypeMultiply, i64(m.v), nil, nil), ref: refMultiply(m.v), quick: m.q})
	}
	add(tcase{name: "math-default-type-2", site: "math-multiply", t: mathT("", i64(2), nil, nil), ref: refMultiply(2)})
	for _, m := range []struct {
		n string
		v int64
		q bool
	}{{"0", 0, true}, {"1", 1, false}, {"max", math.MaxInt64, false}, {"min", math.MinInt64, false}} {
		add(tcase{name: "math-clampmin-" + m.n, site: "math-clampmin", t: mathT(v1.MathTransformTypeClampMin, nil, i64(m.v), nil), ref: refClamp(true, m.v), quick: m.q})
		add(tcase{name: "math-clampmax-" + m.n, site: "math-clampmax", t: mathT(v1.MathTransformTypeClampMax, nil, nil, i64(m.v)), ref: refClamp(false, m.v), quick: m.q})
	}
	add(tcase{name: "math-nil", site: "math-nil-config", t: v1.Transform{Type: v1.TransformTypeMath}})
	add(tcase{name: "math-multiply-nil", site: "math-multiply-nil", t: mathT(v1.MathTransformTypeMultiply, nil, i64(1), i64(1)), quick: true})
	add(tcase{name: "math-clampmin-nil", site: "math-clampmin-nil", t: mathT(v1.MathTransformTypeClampMin, i64(2), nil, i64(1))})
	add(tcase{name: "math-clampmax-nil", site: "math-clampmax-nil", t: mathT(v1.MathTransformTypeClampMax, i64(2), i64(1), nil)})
	add(tcase{name: "math-unknown-type", site: "math-unknown-type", t: mathT("Divide", i64(2), i64(1), i64(1))})

	// ---- map ----
	basic := map[string]string{"abc": `"X"`, "true": `5`, "42": `{"k":"v"}`, "": `null`}
	add(tcase{name: "map-basic", site: "map", t: mapT(basic), ref: refMap(basic), quick: true})
	add(tcase{name: "map-empty", site: "map-empty", t: mapT(map[string]string{})})
	add(tcase{name: "map-nil-pairs", site: "map-nil-pairs", t: mapT(nil)})
	add(tcase{name: "map-nil", site: "map-nil-config", t: v1.Transform{Type: v1.TransformTypeMap}})
	bad := map[string]string{"abc": `{`, "42": ``}
	add(tcase{name: "map-bad-json", site: "map-bad-json", t: mapT(bad), ref: refMap(bad)})

	// ---- match ----
	lit := func(l, res string) v1.MatchTransformPattern {
		return v1.MatchTransformPattern{Type: v1.MatchTransformPatternTypeLiteral, Literal: &l, Result: raw(res)}
	}
	re := func(r, res string) v1.MatchTransformPattern {
		return v1.MatchTransformPattern{Type: v1.MatchTransformPatternTypeRegexp, Regexp: &r, Result: raw(res)}
	}
	eq := func(l string) func(string) bool { return func(s string) bool { return s == l } }
	add(tcase{name: "match-literal", site: "match-literal", quick: true,
		t:   matchT(v1.MatchTransform{Patterns: []v1.MatchTransformPattern{lit("abc", `"L1"`), lit("42", `2`)}, FallbackValue: raw(`"FB"`)}),
		ref: refMatch([]refPattern{{eq("abc"), `"L1"`}, {eq("42"), `2`}}, `"FB"`, false)})
	add(tcase{name: "match-regexp", site: "match-regexp", quick: true,
		t:   matchT(v1.MatchTransform{Patterns: []v1.MatchTransformPattern{re("^ab", `"R1"`), re("[0-9]+", `{"num":true}`)}}),
		ref: refMatch([]refPattern{{hasPrefixAB, `"R1"`}, {hasDigit, `{"num":true}`}}, "", false)})
	add(tcase{name: "match-order", site: "match-order",
		t:   matchT(v1.MatchTransform{Patterns: []v1.MatchTransformPattern{re("a", `1`), lit("abc", `2`)}, FallbackTo: v1.MatchFallbackToTypeValue, FallbackValue: raw(`[1,"x"]`)}),
		ref: refMatch([]refPattern{{hasA, `1`}, {eq("abc"), `2`}}, `[1,"x"]`, false)})
	add(tcase{name: "match-fallback-input", site: "match-fallback-input", quick: true,
		t:   matchT(v1.MatchTransform{Patterns: []v1.MatchTransformPattern{lit("zzz", `"Z"`)}, FallbackTo: v1.MatchFallbackToTypeInput}),
		ref: refMatch([]refPattern{{eq("zzz"), `"Z"`}}, "", true)})
	add(tcase{name: "match-fallback-both", site: "match-fallback-both",
		t: matchT(v1.MatchTransform{Patterns: []v1.MatchTransformPattern{lit("zzz", `"Z"`)}, FallbackTo: v1.MatchFallbackToTypeInput, FallbackValue: raw(`"FB"`)})})
	add(tcase{name: "match-fallback-bad-json", site: "match-fallback-bad-json",
		t:   matchT(v1.MatchTransform{Patterns: []v1.MatchTransformPattern{lit("abc", `"L"`)}, FallbackValue: raw(`{`)}),
		ref: refMatch([]refPattern{{eq("abc"), `"L"`}}, `{`, false)})
	add(tcase{name: "match-result-bad-json", site: "match-result-bad-json",
		t:   matchT(v1.MatchTransform{Patterns: []v1.MatchTransformPattern{lit("abc", `{`)}}),
		ref: refMatch([]refPattern{{eq("abc"), `{`}}, "", false)})
	add(tcase{name: "match-empty-patterns", site: "match-empty-patterns", t: matchT(v1.MatchTransform{FallbackValue: raw(`"FB"`)})})
	add(tcase{name: "match-empty-patterns-input", site: "match-empty-patterns", t: matchT(v1.MatchTransform{FallbackTo: v1.MatchFallbackToTypeInput})})
	add(tcase{name: "match-nil", site: "match-nil-config", t: v1.Transform{Type: v1.TransformTypeMatch}})
	add(tcase{name: "match-literal-nil", site: "match-literal-nil", t: matchT(v1.MatchTransform{Patterns: []v1.MatchTransformPattern{{Type: v1.MatchTransformPatternTypeLiteral, Result: raw(`1`)}}})})
	add(tcase{name: "match-regexp-nil", site: "match-regexp-nil", t: matchT(v1.MatchTransform{Patterns: []v1.MatchTransformPattern{{Type: v1.MatchTransformPatternTypeRegexp, Result: raw(`1`)}}})})
	add(tcase{name: "match-regexp-malformed", site: "match-regexp-malformed", t: matchT(v1.MatchTransform{Patterns: []v1.MatchTransformPattern{re("(", `1`)}})})
	add(tcase{name: "match-type-unknown", site: "match-type-unknown", t: matchT(v1.MatchTransform{Patterns: []v1.MatchTransformPattern{{Type: "glob", Literal: ptr("a"), Regexp: ptr("a"), Result: raw(`1`)}}})})
	add(tcase{name: "match-type-default", site: "match-type-default", t: matchT(v1.MatchTransform{Patterns: []v1.MatchTransformPattern{{Type: "", Literal: ptr("abc"), Result: raw(`1`)}}})})
	add(tcase{name: "match-fallback-unknown", site: "match-fallback-unknown", t: matchT(v1.MatchTransform{Patterns: []v1.MatchTransformPattern{lit("zzz", `1`)}, FallbackTo: "Nothing"})})

	// ---- string: format ----
	for _, f := range []struct {
		n, f string
		q    bool
	}{
		{"s", "%s", true}, {"pre-post", "pre-%s-post", false}, {"d", "%d", true}, {"v", "%v", false}, {"f", "%5.2f", false},
		{"lone-percent", "%", true}, {"bang", "%!", false}, {"bad-verb", "%z", false}, {"bad-index", "%[5]d", false}, {"star-width", "%*d", true},
		{"huge-width", "%999999999d", false}, {"empty", "", false}, {"no-verb", "const", false}, {"two-verbs", "%s%s", false}, {"percent-percent", "100%%", false},
	} {
		f := f
		add(tcase{name: "string-fmt-" + f.n, site: "string-format", t: strT(v1.StringTransform{Type: v1.StringTransformTypeFormat, Format: &f.f}), ref: refFormat(f.f), quick: f.q})
	}
	add(tcase{name: "string-fmt-default-type", site: "string-format", t: strT(v1.StringTransform{Format: ptr("%s")})})
	add(tcase{name: "string-fmt-nil", site: "string-format-nil", t: strT(v1.StringTransform{Type: v1.StringTransformTypeFormat})})
	add(tcase{name: "string-nil", site: "string-nil-config", t: v1.Transform{Type: v1.TransformTypeString}})
	add(tcase{name: "string-type-unknown", site: "string-type-unknown", t: strT(v1.StringTransform{Type: "Reverse", Format: ptr("%s")})})

	// ---- string: convert ----
	for _, k := range []string{"ToUpper", "ToLower", "ToJson", "ToBase64", "FromBase64", "ToSha1", "ToSha256", "ToSha512", "ToAdler32"} {
		kk := v1.StringConversionType(k)
		add(tcase{name: "string-convert-" + k, site: "string-convert-" + k, t: strT(v1.StringTransform{Type: v1.StringTransformTypeConvert, Convert: &kk}), ref: refStringConvert(k),
			quick: k == "ToUpper" || k == "ToJson" || k == "ToBase64" || k == "FromBase64" || k == "ToSha256"})
	}
	bogus := v1.StringConversionType("ToRot13")
	add(tcase{name: "string-convert-unknown", site: "string-convert-unknown", t: strT(v1.StringTransform{Type: v1.StringTransformTypeConvert, Convert: &bogus})})
	add(tcase{name: "string-convert-nil", site: "string-convert-nil", t: strT(v1.StringTransform{Type: v1.StringTransformTypeConvert})})

	// ---- string: trim ----
	add(tcase{name: "string-trimprefix-a", site: "string-trim", t: strT(v1.StringTransform{Type: v1.StringTransformTypeTrimPrefix, Trim: ptr("a")}), ref: refTrim(true, "a"), quick: true})
	add(tcase{name: "string-trimprefix-empty", site: "string-trim", t: strT(v1.StringTransform{Type: v1.StringTransformTypeTrimPrefix, Trim: ptr("")}), ref: refTrim(true, "")})
	add(tcase{name: "string-trimsuffix-123", site: "string-trim", t: strT(v1.StringTransform{Type: v1.StringTransformTypeTrimSuffix, Trim: ptr("123")}), ref: refTrim(false, "123")})
	add(tcase{name: "string-trim-nil", site: "string-trim-nil", t: strT(v1.StringTransform{Type: v1.StringTransformTypeTrimSuffix})})

	// ---- string: regexp ----
	rx := func(match string, g *int) v1.Transform {
		return strT(v1.StringTransform{Type: v1.StringTransformTypeRegexp, Regexp: &v1.StringTransformRegexp{Match: match, Group: g}})
	}
	add(tcase{name: "string-regexp-group-default", site: "string-regexp", t: rx(wordNum, nil), ref: refRegexp(matchWordNum, 0), quick: true})
	add(tcase{name: "string-regexp-group-0", site: "string-regexp", t: rx(wordNum, ptr(0)), ref: refRegexp(matchWordNum, 0)})
	add(tcase{name: "string-regexp-group-1", site: "string-regexp", t: rx(wordNum, ptr(1)), ref: refRegexp(matchWordNum, 1)})
	add(tcase{name: "string-regexp-group-2", site: "string-regexp", t: rx(wordNum, ptr(2)), ref: refRegexp(matchWordNum, 2), quick: true})
	add(tcase{name: "string-regexp-group-3-too-large", site: "string-regexp-group-too-large", t: rx(wordNum, ptr(3)), ref: refRegexp(matchWordNum, 3), quick: true})
	add(tcase{name: "string-regexp-group-maxint", site: "string-regexp-group-too-large", t: rx(wordNum, ptr(math.MaxInt)), ref: refRegexp(matchWordNum, math.MaxInt)})
	add(tcase{name: "string-regexp-group--1", site: "string-regexp-negative-group", t: rx(wordNum, ptr(-1)), ref: refRegexp(matchWordNum, -1), quick: true})
	add(tcase{name: "string-regexp-group-minint", site: "string-regexp-negative-group", t: rx(wordNum, ptr(math.MinInt)), ref: refRegexp(matchWordNum, math.MinInt)})
	add(tcase{name: "string-regexp-xstar", site: "string-regexp", t: rx("x*", nil), ref: refRegexp(matchXStar, 0)})
	add(tcase{name: "string-regexp-empty-match", site: "string-regexp-empty-match", t: rx("", nil)})
	add(tcase{name: "string-regexp-malformed", site: "string-regexp-malformed", t: rx("(", nil), quick: true})
	add(tcase{name: "string-regexp-malformed-negative", site: "string-regexp-malformed", t: rx("[", ptr(-1))})
	add(tcase{name: "string-regexp-nil", site: "string-regexp-nil", t: strT(v1.StringTransform{Type: v1.StringTransformTypeRegexp})})

	// ---- string: join ----
	add(tcase{name: "string-join-comma", site: "string-join", t: strT(v1.StringTransform{Type: v1.StringTransformTypeJoin, Join: &v1.StringTransformJoin{Separator: ","}}), ref: refJoin(","), quick: true})
	add(tcase{name: "string-join-empty", site: "string-join", t: strT(v1.StringTransform{Type: v1.StringTransformTypeJoin, Join: &v1.StringTransformJoin{}}), ref: refJoin("")})
	add(tcase{name: "string-join-nil", site: "string-join-nil", t: strT(v1.StringTransform{Type: v1.StringTransformTypeJoin})})

	// ---- convert ----
	for _, to := range []string{"string", "int", "int64", "bool", "float64", "object", "array"} {
		ct := to
		if ct == "int" {
			ct = "int64"
		}
		c := tcase{name: "convert-" + to, site: "convert-" + to, t: convT(to, nil), ref: refConvert(to, "none"), quick: to != "int" && to != "array"}
		if to != "object" && to != "array" {
			c.convTo = ct
		}
		add(c)
	}
	fNone, fQty, fJSON, fBogus := v1.ConvertTransformFormatNone, v1.ConvertTransformFormatQuantity, v1.ConvertTransformFormatJSON, v1.ConvertTransformFormat("yaml")
	add(tcase{name: "convert-string-explicit-none", site: "convert-string", t: convT("string", &fNone), ref: refConvert("string", "none")})
	add(tcase{name: "convert-float64-quantity", site: "convert-quantity", t: convT("float64", &fQty), ref: refConvert("float64", "quantity"), quick: true})
	add(tcase{name: "convert-int64-quantity", site: "convert-quantity", t: convT("int64", &fQty), ref: refConvert("int64", "quantity")})
	add(tcase{name: "convert-object-json", site: "convert-json", t: convT("object", &fJSON), ref: refConvert("object", "json"), quick: true})
	add(tcase{name: "convert-array-json", site: "convert-json", t: convT("array", &fJSON), ref: refConvert("array", "json"), quick: true})
	add(tcase{name: "convert-string-json", site: "convert-json", t: convT("string", &fJSON), ref: refConvert("string", "json")})
	add(tcase{name: "convert-totype-unknown", site: "convert-totype-unknown", t: convT("uint8", nil)})
	add(tcase{name: "convert-totype-empty", site: "convert-totype-unknown", t: convT("", nil)})
	add(tcase{name: "convert-format-unknown", site: "convert-format-unknown", t: convT("string", &fBogus)})
	add(tcase{name: "convert-nil", site: "convert-nil-config", t: v1.Transform{Type: v1.TransformTypeConvert}})

	// ---- transform type ----
	add(tcase{name: "type-unknown", site: "type-unknown", t: v1.Transform{Type: "jq", Math: &v1.MathTransform{Multiply: i64(1)}}})
	add(tcase{name: "type-empty", site: "type-unknown", t: v1.Transform{}})
	return cs
}

// group of a transform case = its name up to the second dash (scenario names).
func (c tcase) group() string {
	p := strings.SplitN(c.name, "-", 3)
	if len(p) >= 2 {
		return p[0] + "-" + p[1]
	}
	return c.name
}
