// C10: P&T rendering is total, deterministic, never applies a half-rendered
// resource.
//
// Bounded exhaustive enumeration of the real patch / transform / render code
// (internal/controller/apiextensions/composite) over a value alphabet that
// holds every JSON type and the numeric boundaries, every patch type, policy,
// merge option and path shape, and every transform type with its parameter
// corners (alone and in chains of two), against reference oracles written
// from the API documentation. The compose-level clause is checked by driving
// the real XR reconciler / PTComposer over simkube.
package c10

import (
	"sort"
	"testing"

	v1 "github.com/crossplane/crossplane/apis/apiextensions/v1"
	"github.com/crossplane/crossplane/verif/report"
)

func pick[T any](all []T, keep func(T) bool) []T {
	var out []T
	for _, x := range all {
		if keep(x) {
			out = append(out, x)
		}
	}
	return out
}

func byName(cs []tcase, names ...string) [][]tcase {
	out := [][]tcase{nil}
	for _, n := range names {
		for _, c := range cs {
			if c.name == n {
				out = append(out, []tcase{c})
			}
		}
	}
	if len(out) != len(names)+1 {
		panic("catalogue entry missing")
	}
	return out
}

func TestCheck(t *testing.T) {
	rep := report.New("C10", "exploration")
	thorough := report.Thorough()
	rep.Meta(
		"Every case is one combination of free choices, enumerated exhaustively (no sampling): (transform configuration x source value) for Resolve, (first x second x value) for ResolveTransforms chains of two, (patch type x from-path shape x to-path shape x policy/merge options x transforms x only-filter x value) for Apply, (variables x combine config x ...) for combine patches, pairs of patches for the render functions, and (failure mode x failed template x initial state x patch position) for the reconciler-level clause. Each case runs the real code twice on fresh inputs (determinism), compares the source object with a deep copy taken before (purity), recovers panics (totality) and compares with a reference oracle where the documentation is unambiguous. A case is non-trivial when the input is accepted by the API type's own Validate() (and Composition.Validate()) and reaches the code it targets: the transform's resolver ran (for chains: the first transform succeeded so the second ran on its output), the patch passed the type filter and performed its source lookup, the sequence copied a container, the compose scenario really had a failing template.",
		[]string{
			"source objects hold JSON data as client-go decodes it (string, int64, float64, bool, nil, map, slice); Go int is only fed to Resolve directly",
			"panics count as violations only for inputs accepted by the type's own Validate() or never seen by validation; panics on rejected inputs are recorded as notes",
			"oracles answer only where the field documentation pins the result; elsewhere only totality, determinism and purity are checked",
			"compose level: simkube models the API server; one reconcile at a time; metadata render failure is only reachable by calling PTComposer.Compose directly",
		},
		[]string{"simkube", "Go standard library (math/big, encoding/json, encoding/base64, crypto/sha*, hash/adler32) inside the oracles", "crossplane-runtime fieldpath / mergo are part of the system under test"},
	)

	cat := catalogue()
	valsDirect := valuesFor(thorough, true)
	vals := valuesFor(thorough, false)
	mergeVals := pick(allValues, func(v val) bool {
		return !v.direct && (thorough || v.quick || v.name == "o-merge" || v.name == "a-mixed" || v.name == "a-empty" || v.name == "o-empty")
	})
	froms := pick(fromShapes, func(f fromShape) bool { return thorough || f.quick })
	tos := pick(toShapes, func(s toShape) bool { return thorough || s.quick })
	basic, merge := mkPolicies()
	fromPolicies := basic
	if thorough {
		fromPolicies = append(append([]policyShape{}, basic...), merge...)
	}

	var list []report.Scenario

	// 1. single transforms, one scenario per transform family.
	groups := map[string][]tcase{}
	var gnames []string
	for _, c := range cat {
		if _, ok := groups[c.group()]; !ok {
			gnames = append(gnames, c.group())
		}
		groups[c.group()] = append(groups[c.group()], c)
	}
	sort.Strings(gnames)
	for _, g := range gnames {
		list = append(list, transformScenario(rep, "transform/"+g, groups[g], valuesFor(true, true)))
	}

	// 2. chains of two.
	chainSet := pick(cat, func(c tcase) bool { return thorough || c.quick })
	for _, first := range chainSet {
		list = append(list, chainScenario(rep, first, chainSet, valsDirect))
	}

	// 3. field path patches.
	tfs := byName(cat, "string-fmt-v", "math-multiply-3")
	for _, f := range froms {
		f := f
		list = append(list, fieldPathScenario(rep, "patch/from-composite/from="+f.name, patchDims{
			types: []v1.PatchType{v1.PatchTypeFromCompositeFieldPath}, values: vals, froms: []fromShape{f}, tos: tos, policies: fromPolicies, tfs: tfs, onlys: []string{""}}))
		list = append(list, fieldPathScenario(rep, "patch/to-composite/from="+f.name, patchDims{
			types: []v1.PatchType{v1.PatchTypeToCompositeFieldPath}, values: vals, froms: []fromShape{f}, tos: tos, policies: basic, tfs: tfs[:1], onlys: []string{""}}))
	}
	singleTos := pick(toShapes, func(s toShape) bool { return s.kind == toOK })
	list = append(list, fieldPathScenario(rep, "patch/merge-options", patchDims{
		types: []v1.PatchType{v1.PatchTypeFromCompositeFieldPath, v1.PatchTypeToCompositeFieldPath}, values: mergeVals, froms: fromShapes[:1], tos: singleTos, policies: merge, tfs: tfs[:1], onlys: []string{""}}))
	list = append(list, fieldPathScenario(rep, "patch/types-and-filter", patchDims{
		types:  []v1.PatchType{v1.PatchTypeFromCompositeFieldPath, v1.PatchTypeToCompositeFieldPath, "", v1.PatchTypeCombineFromComposite, v1.PatchTypeCombineToComposite, v1.PatchTypePatchSet, "FromEnvironmentFieldPath"},
		values: pick(allValues, func(v val) bool { return v.name == "s-abc" || v.name == "i-1" || v.name == "o-nested" }),
		froms:  pick(fromShapes, func(f fromShape) bool { return f.name == "plain" || f.name == "missing" || f.name == "unset" }),
		tos:    toShapes[:2], policies: basic, tfs: tfs[:1], onlys: []string{"", "same", "other"}}))

	// 4. combine patches.
	combTos := pick(toShapes, func(s toShape) bool {
		return s.name == "same-as-from" || s.name == "plain" || s.name == "over-map" || s.name == "malformed" || (thorough && (s.name == "wildcard" || s.name == "array-extend" || s.name == "through-scalar"))
	})
	for _, pt := range []v1.PatchType{v1.PatchTypeCombineFromComposite, v1.PatchTypeCombineToComposite} {
		list = append(list, combineScenario(rep, "patch/"+string(pt), []v1.PatchType{pt}, vals, combTos, basic, byName(cat, "string-convert-ToUpper")))
	}

	// 5. render functions.
	list = append(list, sequenceScenario(rep, pick(allValues, func(v val) bool {
		return v.name == "o-nested" || v.name == "a-mixed" || v.name == "s-abc" || v.name == "null"
	})))
	list = append(list, baseScenario(rep), metadataScenario(rep), patchSetScenario(rep))

	// 6. compose level.
	reconcilerSc := reconcilerScenario(t, rep)
	list = append(list, reconcilerSc, directComposeScenario(t, rep), mergeScenario(t, rep))

	rep.Bound("max_transform_chain", 2)
	rep.Bound("source_values", len(valuesFor(true, true)))
	rep.Bound("source_values_in_products", len(vals))
	rep.Bound("transform_configurations", len(cat))
	rep.Bound("chain_alphabet", len(chainSet))
	rep.Bound("from_path_shapes", len(froms))
	rep.Bound("to_path_shapes", len(tos))
	rep.Bound("policies", len(basic)+len(merge))
	rep.Bound("patches_per_render_sequence", 3)
	rep.Bound("compose_templates", 2)
	rep.Bound("compose_reconciles_observed", 2)
	rep.Bound("scenarios", len(list))

	rep.SelfCheck(t, list[0], nil)
	rep.SelfCheck(t, reconcilerSc, nil)
	rep.RunScenarios(t, list)
	rep.Note("observation (outside the property's quantifier, not a violation): Resolve of a convert transform on a Go int (not a JSON-decoded value) fails with 'not an int64' although GetConversionFunc maps int to int64")
	flushUnvalidated(rep)
	rep.Write(t)
}
