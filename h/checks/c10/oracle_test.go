package c10

// Reference meaning of every transform, written from the API documentation
// (apis/apiextensions/v1/composition_transforms.go field comments). Nothing
// in this file calls the code under test. An oracle answers "unknown" wherever
// the documentation does not pin the result down; those cases are still
// checked for totality, determinism and purity.

import (
	"crypto/sha1"
	"crypto/sha256"
	"crypto/sha512"
	"encoding/base64"
	"encoding/hex"
	"encoding/json"
	"fmt"
	"hash/adler32"
	"math"
	"math/big"
	"regexp"
	"strings"
	"unicode/utf8"
)

// exp is what the reference expects from one Resolve call.
type exp struct {
	known bool
	err   bool
	out   any
	loose bool                 // compare with JSON equality instead of typed equality
	alt   []any                // further acceptable outputs (documentation admits two readings)
	pred  func(out any) string // custom predicate; "" = ok
}

func unknown() exp        { return exp{} }
func wantErr() exp        { return exp{known: true, err: true} }
func want(v any) exp      { return exp{known: true, out: v} }
func wantLoose(v any) exp { return exp{known: true, out: v, loose: true} }

// check compares an observation with the expectation; "" = agrees.
func (e exp) check(out any, err error) string {
	if !e.known {
		return ""
	}
	if e.err {
		if err == nil {
			return fmt.Sprintf("expected an error, got %s", render(out))
		}
		return ""
	}
	if err != nil {
		if e.pred != nil {
			return fmt.Sprintf("expected success, got error %q", err)
		}
		return fmt.Sprintf("expected %s, got error %q", render(e.out), err)
	}
	if e.pred != nil {
		return e.pred(out)
	}
	eq := strictEqual
	if e.loose {
		eq = looseEqual
	}
	if eq(e.out, out) {
		return ""
	}
	for _, a := range e.alt {
		if eq(a, out) {
			return ""
		}
	}
	return fmt.Sprintf("expected %s, got %s", render(e.out), render(out))
}

// parseJSONExact decodes JSON keeping integers that fit an int64 exact.
func parseJSONExact(s string) (any, bool) {
	d := json.NewDecoder(strings.NewReader(s))
	d.UseNumber()
	var v any
	if err := d.Decode(&v); err != nil {
		return nil, false
	}
	if d.More() {
		return nil, false
	}
	return fixNumbers(v), true
}

func fixNumbers(v any) any {
	switch x := v.(type) {
	case json.Number:
		if i, ok := new(big.Int).SetString(string(x), 10); ok && i.IsInt64() {
			return i.Int64()
		}
		if r, ok := new(big.Rat).SetString(string(x)); ok {
			f, _ := r.Float64()
			return f
		}
		return string(x)
	case map[string]any:
		for k, e := range x {
			x[k] = fixNumbers(e)
		}
	case []any:
		for i, e := range x {
			x[i] = fixNumbers(e)
		}
	}
	return v
}

var (
	reCanonInt   = regexp.MustCompile(`^-?(0|[1-9][0-9]*)$`)
	reCanonFloat = regexp.MustCompile(`^-?(0|[1-9][0-9]*)(\.[0-9]+)?([eE][+-]?[0-9]+)?$`)
)

// numericLooking strings are those a lenient parser might accept as numbers;
// the documentation does not say, so the oracle stays silent on them.
func numericLooking(s string) bool {
	if s == "" {
		return false
	}
	if strings.ContainsAny(s[:1], "0123456789+-.") {
		return true
	}
	l := strings.ToLower(s)
	return strings.HasPrefix(l, "inf") || strings.HasPrefix(l, "nan")
}

func cmpFloatInt(f float64, i int64) int {
	return new(big.Float).SetPrec(128).SetFloat64(f).Cmp(new(big.Float).SetPrec(128).SetInt64(i))
}

// ---- math ------------------------------------------------------------------

func refMultiply(m int64) func(any) exp {
	return func(in any) exp {
		switch x := norm(in).(type) {
		case int64:
			p := new(big.Int).Mul(big.NewInt(x), big.NewInt(m))
			if !p.IsInt64() {
				return unknown() // overflow behaviour is not documented
			}
			return want(p.Int64())
		case float64:
			if m > two53 || m < -two53 {
				return unknown()
			}
			return want(x * float64(m))
		}
		return wantErr()
	}
}

// refClamp: "ClampMin makes sure that the value is not smaller than the given
// value", "ClampMax ... not bigger than the given value".
func refClamp(isMin bool, bound int64) func(any) exp {
	return func(in any) exp {
		switch x := norm(in).(type) {
		case int64:
			if (isMin && x < bound) || (!isMin && x > bound) {
				return want(bound)
			}
			return want(x)
		case float64:
			c := cmpFloatInt(x, bound)
			if (isMin && c < 0) || (!isMin && c > 0) {
				return wantLoose(bound)
			}
			return want(x)
		}
		return wantErr()
	}
}

// ---- convert ---------------------------------------------------------------

func ioType(v any) string {
	switch norm(v).(type) {
	case string:
		return "string"
	case int64:
		return "int64"
	case float64:
		return "float64"
	case bool:
		return "bool"
	}
	return ""
}

var quantitySuffix = map[string]float64{"1Ki": 1024, "1Mi": 1048576, "500m": 0.5, "2k": 2000}

func refConvert(to, format string) func(any) exp {
	if to == "int" {
		to = "int64"
	}
	return func(in any) exp {
		from := ioType(in)
		if from == "" {
			return unknown()
		}
		if _, goInt := in.(int); goInt {
			// A Go int is not a value JSON decoding produces; the property
			// quantifies over JSON values.
			return unknown()
		}
		switch format {
		case "none":
		case "quantity":
			if from != "string" || to != "float64" {
				return unknown()
			}
			s := in.(string)
			if f, ok := quantitySuffix[s]; ok {
				return want(f)
			}
			if reCanonInt.MatchString(s) && len(s) < 15 {
				r, _ := new(big.Rat).SetString(s)
				f, _ := r.Float64()
				return want(f)
			}
			if !numericLooking(s) {
				return wantErr()
			}
			return unknown()
		case "json":
			if from != "string" || (to != "object" && to != "array") {
				return unknown()
			}
			v, ok := parseJSONExact(in.(string))
			if !ok {
				return wantErr()
			}
			switch x := v.(type) {
			case map[string]any:
				if to == "object" {
					return wantLoose(x)
				}
				return wantErr()
			case []any:
				if to == "array" {
					return wantLoose(x)
				}
				return wantErr()
			case nil:
				return unknown()
			}
			return wantErr()
		default:
			return unknown()
		}
		if from == to {
			return want(in)
		}
		switch from + ">" + to {
		case "string>int64":
			s := in.(string)
			if reCanonInt.MatchString(s) {
				i, _ := new(big.Int).SetString(s, 10)
				if i.IsInt64() {
					return want(i.Int64())
				}
				return wantErr()
			}
			if numericLooking(s) {
				return unknown()
			}
			return wantErr()
		case "string>float64":
			s := in.(string)
			if reCanonFloat.MatchString(s) && len(s) < 40 {
				r, ok := new(big.Rat).SetString(s)
				if !ok {
					return unknown()
				}
				f, _ := r.Float64()
				if math.IsInf(f, 0) {
					return unknown()
				}
				return want(f)
			}
			if numericLooking(s) {
				return unknown()
			}
			return wantErr()
		case "string>bool":
			switch s := in.(string); {
			case s == "true":
				return want(true)
			case s == "false":
				return want(false)
			case len(s) <= 5 && strings.Contains("|1|0|t|f|true|false|", "|"+strings.ToLower(s)+"|"):
				return unknown()
			}
			return wantErr()
		case "int64>string":
			return want(big.NewInt(in.(int64)).String())
		case "int64>float64":
			return want(float64(in.(int64)))
		case "int64>bool":
			switch in.(int64) {
			case 0:
				return want(false)
			case 1:
				return want(true)
			}
			return unknown()
		case "float64>string":
			f := in.(float64)
			return exp{known: true, pred: func(out any) string {
				s, ok := out.(string)
				if !ok {
					return fmt.Sprintf("expected a string, got %s", render(out))
				}
				r, ok := new(big.Rat).SetString(s)
				if !ok || !reCanonFloat.MatchString(s) {
					return fmt.Sprintf("expected a decimal rendering of %v, got %q", f, s)
				}
				if r.Cmp(new(big.Rat).SetFloat64(f)) != 0 {
					if g, _ := r.Float64(); g != f {
						return fmt.Sprintf("expected a decimal rendering of %v, got %q", f, s)
					}
				}
				return ""
			}}
		case "float64>int64":
			f := in.(float64)
			if f == math.Trunc(f) && cmpFloatInt(f, math.MaxInt64) <= 0 && cmpFloatInt(f, math.MinInt64) >= 0 {
				i, _ := new(big.Float).SetFloat64(f).Int64()
				return want(i)
			}
			return unknown()
		case "float64>bool":
			switch in.(float64) {
			case 0:
				return want(false)
			case 1:
				return want(true)
			}
			return unknown()
		case "bool>string":
			if in.(bool) {
				return want("true")
			}
			return want("false")
		case "bool>int64":
			if in.(bool) {
				return want(int64(1))
			}
			return want(int64(0))
		case "bool>float64":
			if in.(bool) {
				return want(float64(1))
			}
			return want(float64(0))
		}
		return unknown()
	}
}

// representable reports whether converting v to type `to` and back to v's own
// type must give v again (the round-trip law of the property).
func representable(v any, to string) bool {
	v = norm(v)
	from := ioType(v)
	if from == "" || to == from {
		return from != ""
	}
	switch from + ">" + to {
	case "int64>string", "float64>string", "bool>string", "bool>int64", "bool>float64":
		return true
	case "int64>float64":
		i := v.(int64)
		return i >= -two53 && i <= two53
	case "int64>bool":
		i := v.(int64)
		return i == 0 || i == 1
	case "float64>int64":
		f := v.(float64)
		return f == math.Trunc(f) && cmpFloatInt(f, math.MaxInt64) < 0 && cmpFloatInt(f, math.MinInt64) >= 0
	case "float64>bool":
		f := v.(float64)
		return f == 0 || f == 1
	case "string>int64":
		s := v.(string)
		if !reCanonInt.MatchString(s) || s == "-0" {
			return false
		}
		i, _ := new(big.Int).SetString(s, 10)
		return i.IsInt64()
	case "string>bool":
		return v == "true" || v == "false"
	case "string>float64":
		// only canonical short integers written without exponent or fraction
		s := v.(string)
		return reCanonInt.MatchString(s) && s != "-0" && len(s) <= 15
	}
	return false
}

// ---- map / match -----------------------------------------------------------

func refMap(pairs map[string]string) func(any) exp {
	return func(in any) exp {
		s, ok := in.(string)
		if !ok {
			return unknown()
		}
		raw, ok := pairs[s]
		if !ok {
			return wantErr()
		}
		v, ok := parseJSONExact(raw)
		if !ok {
			return wantErr()
		}
		return wantLoose(v)
	}
}

// refPattern is the reference of one match pattern: a predicate written by
// hand for the regexp it stands for.
type refPattern struct {
	matches func(s string) bool
	result  string // raw JSON
}

func refMatch(ps []refPattern, fallbackRaw string, fallbackInput bool) func(any) exp {
	return func(in any) exp {
		s, ok := in.(string)
		if !ok {
			return unknown()
		}
		for _, p := range ps {
			if p.matches(s) {
				v, ok := parseJSONExact(p.result)
				if !ok {
					return wantErr()
				}
				return wantLoose(v)
			}
		}
		if fallbackInput {
			if fallbackRaw != "" {
				return unknown()
			}
			return want(s)
		}
		if fallbackRaw == "" {
			return want(nil)
		}
		v, ok := parseJSONExact(fallbackRaw)
		if !ok {
			return wantErr()
		}
		return wantLoose(v)
	}
}

// ---- string ----------------------------------------------------------------

func decimal(i int64) string { return big.NewInt(i).String() }

func refFormat(format string) func(any) exp {
	return func(in any) exp {
		in = norm(in)
		var arg string
		switch format {
		case "%s", "pre-%s-post":
			s, ok := in.(string)
			if !ok {
				return unknown()
			}
			arg = s
		case "%d":
			i, ok := in.(int64)
			if !ok {
				return unknown()
			}
			arg = decimal(i)
		case "%v":
			switch x := in.(type) {
			case string:
				arg = x
			case int64:
				arg = decimal(x)
			case bool:
				arg = "false"
				if x {
					arg = "true"
				}
			default:
				return unknown()
			}
		default:
			return unknown()
		}
		i := strings.Index(format, "%")
		return want(format[:i] + arg + format[i+2:])
	}
}

func asciiMap(s string, f func(b byte) byte) (string, bool) {
	out := make([]byte, len(s))
	for i := 0; i < len(s); i++ {
		if s[i] >= 0x80 {
			return "", false
		}
		out[i] = f(s[i])
	}
	return string(out), true
}

func scalarJSON(in any) (string, bool) {
	switch x := norm(in).(type) {
	case nil:
		return "null", true
	case bool:
		if x {
			return "true", true
		}
		return "false", true
	case int64:
		return decimal(x), true
	}
	return "", false
}

func quoteJSON(s string) (string, bool) {
	for i := 0; i < len(s); i++ {
		if s[i] < 0x20 || s[i] >= 0x7f || s[i] == '"' || s[i] == '\\' || s[i] == '<' || s[i] == '>' || s[i] == '&' {
			return "", false
		}
	}
	return `"` + s + `"`, true
}

func refStringConvert(kind string) func(any) exp {
	hash := func(in any, h func([]byte) string) exp {
		if s, ok := in.(string); ok {
			// "generate a hash value based on the input converted to JSON":
			// for a string both the raw bytes and the quoted JSON string are
			// defensible readings.
			e := want(h([]byte(s)))
			if q, ok := quoteJSON(s); ok {
				e.alt = []any{h([]byte(q))}
			} else {
				return unknown()
			}
			return e
		}
		if j, ok := scalarJSON(in); ok {
			return want(h([]byte(j)))
		}
		return unknown()
	}
	return func(in any) exp {
		s, isStr := in.(string)
		switch kind {
		case "ToUpper":
			if !isStr {
				return unknown()
			}
			u, ok := asciiMap(s, func(b byte) byte {
				if b >= 'a' && b <= 'z' {
					return b - 32
				}
				return b
			})
			if !ok {
				return unknown()
			}
			return want(u)
		case "ToLower":
			if !isStr {
				return unknown()
			}
			u, ok := asciiMap(s, func(b byte) byte {
				if b >= 'A' && b <= 'Z' {
					return b + 32
				}
				return b
			})
			if !ok {
				return unknown()
			}
			return want(u)
		case "ToBase64":
			if !isStr {
				return unknown()
			}
			return want(base64.StdEncoding.EncodeToString([]byte(s)))
		case "FromBase64":
			if !isStr {
				return unknown()
			}
			b, err := base64.StdEncoding.DecodeString(s)
			if err != nil {
				return wantErr()
			}
			return want(string(b))
		case "ToJson":
			if !validUTF8(in) {
				return unknown() // not a JSON value
			}
			cp := deepCopy(in)
			return exp{known: true, pred: func(out any) string {
				o, ok := out.(string)
				if !ok {
					return fmt.Sprintf("expected a JSON string, got %s", render(out))
				}
				v, ok := parseJSONExact(o)
				if !ok || !looseEqual(v, cp) {
					return fmt.Sprintf("expected JSON for %s, got %q", render(cp), o)
				}
				return ""
			}}
		case "ToSha1":
			return hash(in, func(b []byte) string { h := sha1.Sum(b); return hex.EncodeToString(h[:]) })
		case "ToSha256":
			return hash(in, func(b []byte) string { h := sha256.Sum256(b); return hex.EncodeToString(h[:]) })
		case "ToSha512":
			return hash(in, func(b []byte) string { h := sha512.Sum512(b); return hex.EncodeToString(h[:]) })
		case "ToAdler32":
			if !isStr {
				return unknown()
			}
			return want(new(big.Int).SetUint64(uint64(adler32.Checksum([]byte(s)))).String())
		}
		return unknown()
	}
}

func validUTF8(v any) bool {
	switch x := v.(type) {
	case string:
		return utf8.ValidString(x)
	case map[string]any:
		for k, e := range x {
			if !utf8.ValidString(k) || !validUTF8(e) {
				return false
			}
		}
	case []any:
		for _, e := range x {
			if !validUTF8(e) {
				return false
			}
		}
	}
	return true
}

func refTrim(prefix bool, cut string) func(any) exp {
	return func(in any) exp {
		s, ok := in.(string)
		if !ok {
			return unknown()
		}
		if prefix && len(s) >= len(cut) && s[:len(cut)] == cut {
			return want(s[len(cut):])
		}
		if !prefix && len(s) >= len(cut) && s[len(s)-len(cut):] == cut {
			return want(s[:len(s)-len(cut)])
		}
		return want(s)
	}
}

func isLower(b byte) bool { return b >= 'a' && b <= 'z' }
func isDigit(b byte) bool { return b >= '0' && b <= '9' }

// matchWordNum finds the leftmost match of ([a-z]+)-([0-9]+) by hand.
func matchWordNum(s string) ([]string, bool) {
	for i := 0; i < len(s); i++ {
		if !isLower(s[i]) {
			continue
		}
		j := i
		for j < len(s) && isLower(s[j]) {
			j++
		}
		if j+1 < len(s) && s[j] == '-' && isDigit(s[j+1]) {
			k := j + 1
			for k < len(s) && isDigit(s[k]) {
				k++
			}
			return []string{s[i:k], s[i:j], s[j+1 : k]}, true
		}
		// A shorter run of letters is followed by a letter, never by '-'.
		i = j
	}
	return nil, false
}

// matchXStar: x* matches the run of x at the very start (possibly empty).
func matchXStar(s string) ([]string, bool) {
	i := 0
	for i < len(s) && s[i] == 'x' {
		i++
	}
	return []string{s[:i]}, true
}

// refRegexp: "Group number to match. 0 (the default) matches the entire
// expression." A group that does not exist cannot be returned: error.
func refRegexp(find func(string) ([]string, bool), group int) func(any) exp {
	return func(in any) exp {
		s, ok := in.(string)
		if !ok {
			return unknown()
		}
		gs, ok := find(s)
		if !ok || group < 0 || group >= len(gs) {
			return wantErr()
		}
		return want(gs[group])
	}
}

func refJoin(sep string) func(any) exp {
	return func(in any) exp {
		a, ok := in.([]any)
		if !ok {
			return wantErr()
		}
		parts := make([]string, len(a))
		for i, e := range a {
			s, ok := e.(string)
			if !ok {
				return unknown()
			}
			parts[i] = s
		}
		out := ""
		for i, p := range parts {
			if i > 0 {
				out += sep
			}
			out += p
		}
		return want(out)
	}
}
