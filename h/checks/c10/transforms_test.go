package c10

import (
	"fmt"
	"reflect"
	"sort"
	"sync"

	v1 "github.com/crossplane/crossplane/apis/apiextensions/v1"
	xcomposite "github.com/crossplane/crossplane/internal/controller/apiextensions/composite"
	"github.com/crossplane/crossplane/verif/explore"
	"github.com/crossplane/crossplane/verif/report"
)

// ---- accounting ------------------------------------------------------------

// evalRec is what one execution contributes to the evidence. Bodies fill it
// and the explorer's After hook commits it, so that the confirmation replays
// of a violation and the determinism self check are not counted as cases.
type evalRec struct {
	outcome    string
	nontrivial string
	sample     any
	unvalPanic string // site of a panic on an input its own Validate() rejects
}

type acct struct {
	rep      *report.R
	scenario string
	pending  *evalRec
	failed   map[string]bool
	sampled  bool
}

var (
	unvalMu     sync.Mutex
	unvalPanics = map[string]int{}
)

func newAcct(rep *report.R, scenario string) *acct {
	return &acct{rep: rep, scenario: scenario, failed: map[string]bool{}}
}

func (a *acct) commit(rec *evalRec) {
	a.rep.Eval(a.scenario, rec.outcome, rec.nontrivial)
	if rec.unvalPanic != "" {
		unvalMu.Lock()
		unvalPanics[rec.unvalPanic]++
		unvalMu.Unlock()
	}
	// One sample per scenario, so the few samples kept show different parts
	// of the space.
	if rec.sample != nil && rec.nontrivial != "" && !a.sampled && a.rep.WantSample() {
		a.sampled = true
		a.rep.Sample(rec.sample)
	}
}

// done is called by a body that completed without violation.
func (a *acct) done(rec *evalRec) { a.pending = rec }

// after is the explorer's After hook.
func (a *acct) after(_ *explore.Run) {
	if a.pending != nil {
		a.commit(a.pending)
		a.pending = nil
	}
}

// fail counts the case once (violations are replayed for confirmation) and
// reports the violation.
func (a *acct) fail(r *explore.Run, rec *evalRec, sig, format string, args ...any) {
	k := fmt.Sprint(r.Choices)
	if !a.failed[k] {
		a.failed[k] = true
		a.commit(rec)
	}
	a.pending = nil
	r.Failf(sig, format, args...)
}

func flushUnvalidated(rep *report.R) {
	unvalMu.Lock()
	defer unvalMu.Unlock()
	n := 0
	var sites []string
	for s, c := range unvalPanics {
		n += c
		sites = append(sites, s)
	}
	sort.Strings(sites)
	rep.Extra("panics_on_inputs_rejected_by_validate", n)
	for _, s := range sites {
		rep.Note("panic on an input rejected by its own Validate() (unvalidated, not a violation): %s", s)
	}
}

// ---- running the code under test ---------------------------------------------

type result struct {
	out any
	err error
	pan any
}

func (x result) String() string {
	switch {
	case x.pan != nil:
		return fmt.Sprintf("PANIC(%v)", x.pan)
	case x.err != nil:
		return fmt.Sprintf("error(%v)", x.err)
	}
	return render(x.out)
}

func (x result) same(y result) bool {
	if (x.pan == nil) != (y.pan == nil) || fmt.Sprint(x.pan) != fmt.Sprint(y.pan) {
		return false
	}
	if errStr(x.err) != errStr(y.err) {
		return false
	}
	return x.err != nil || strictEqual(x.out, y.out)
}

func safeResolve(t v1.Transform, in any) (res result) {
	defer func() {
		if p := recover(); p != nil {
			res = result{pan: p}
		}
	}()
	out, err := xcomposite.Resolve(t, in)
	return result{out: out, err: err}
}

func safeResolveAll(p v1.Patch, in any) (res result) {
	defer func() {
		if p := recover(); p != nil {
			res = result{pan: p}
		}
	}()
	out, err := xcomposite.ResolveTransforms(p, in)
	return result{out: out, err: err}
}

// validated reports whether the transform's own Validate() accepts it, and
// whether a Composition carrying it in a patch passes Composition.Validate().
func validatedTransform(t v1.Transform) (ok bool, why string) {
	defer func() {
		if p := recover(); p != nil {
			ok, why = false, fmt.Sprintf("Validate() panicked: %v", p)
		}
	}()
	if err := t.Validate(); err != nil {
		return false, err.Error()
	}
	return true, ""
}

func validatedPatch(p v1.Patch) (ok bool, why string) {
	defer func() {
		if p := recover(); p != nil {
			ok, why = false, fmt.Sprintf("Validate() panicked: %v", p)
		}
	}()
	if err := p.Validate(); err != nil {
		return false, err.Error()
	}
	// The Composition-level logical validation (what the webhook runs without
	// schemas) must agree.
	n := "a"
	c := &v1.Composition{Spec: v1.CompositionSpec{Resources: []v1.ComposedTemplate{{Name: &n, Patches: []v1.Patch{p}}}}}
	if _, errs := c.Validate(); len(errs) > 0 {
		return false, errs.ToAggregate().Error()
	}
	return true, ""
}

func valWord(ok bool) string {
	if ok {
		return "validated"
	}
	return "unvalidated"
}

// ---- single transforms -------------------------------------------------------

func transformScenario(rep *report.R, name string, cases []tcase, vals []val) report.Scenario {
	a := newAcct(rep, name)
	return report.Scenario{Name: name, Bound: 0, After: a.after, Body: func(r *explore.Run) {
		tc := cases[r.Free(len(cases), "transform")]
		v := vals[r.Free(len(vals), "value")]
		r.Logf("Resolve(%s, %s = %s)", tc.name, v.name, render(v.mk()))
		ok, why := validatedTransform(tc.t)
		r.Logf("Validate(): %s %s", valWord(ok), why)

		in1 := v.mk()
		snap := deepCopy(in1)
		tsnap := tc.t.DeepCopy()
		r1 := safeResolve(tc.t, in1)
		r2 := safeResolve(tc.t, v.mk())
		r.Logf("result: %s", r1)

		rec := &evalRec{outcome: report.Hash(errStr(r1.err), fmt.Sprint(r1.pan), render(r1.out))}
		if ok {
			rec.nontrivial = report.Hash("t", tc.name, v.name)
		}
		if ok && r1.err == nil && r1.pan == nil {
			rec.sample = map[string]any{"scenario": name, "transform": tc.name, "value": v.name, "result": r1.String(), "choices": append([]int{}, r.Choices...)}
		}
		if r1.pan != nil {
			if ok {
				a.fail(r, rec, "panic/transform/"+tc.site, "Resolve panicked: %v; transform %s (%s: its Validate() and Composition.Validate() accept it), input %s", r1.pan, tc.name, valWord(ok), render(v.mk()))
			}
			rec.unvalPanic = "transform/" + tc.site
			r.Logf("panic on unvalidated input: %v", r1.pan)
		}
		if !r1.same(r2) {
			a.fail(r, rec, "determinism/transform/"+tc.site, "two runs of Resolve(%s, %s) differ: %s vs %s (%s)", tc.name, render(v.mk()), r1, r2, valWord(ok))
		}
		if !strictEqual(in1, snap) {
			a.fail(r, rec, "purity/transform-input/"+tc.site, "Resolve(%s) modified its input: before %s after %s (%s)", tc.name, render(snap), render(in1), valWord(ok))
		}
		if !reflect.DeepEqual(&tc.t, tsnap) {
			a.fail(r, rec, "purity/transform-config/"+tc.site, "Resolve(%s) modified the transform configuration (%s)", tc.name, valWord(ok))
		}
		if tc.ref != nil && r1.pan == nil {
			if msg := tc.ref(v.mk()).check(r1.out, r1.err); msg != "" {
				a.fail(r, rec, "oracle/transform/"+tc.site+"/"+typeClass(v.mk()), "Resolve(%s, %s): %s (%s)", tc.name, render(v.mk()), msg, valWord(ok))
			}
		}
		a.done(rec)
	}}
}

// ---- chains of two -------------------------------------------------------------

func containsNumber(v any) bool {
	switch x := v.(type) {
	case int, int64, float64:
		return true
	case map[string]any:
		for _, e := range x {
			if containsNumber(e) {
				return true
			}
		}
	case []any:
		for _, e := range x {
			if containsNumber(e) {
				return true
			}
		}
	}
	return false
}

// chainExpectation composes the two references.
func chainExpectation(t1, t2 tcase, in any) exp {
	if t1.ref == nil {
		return unknown()
	}
	if _, goInt := in.(int); goInt {
		// Not a JSON value: transforms that hand it on unchanged (clamps)
		// feed a Go int to the next one, which nothing in production does.
		return unknown()
	}
	e1 := t1.ref(in)
	if !e1.known {
		return unknown()
	}
	if e1.err {
		return wantErr()
	}
	if e1.pred != nil || len(e1.alt) > 0 || t2.ref == nil {
		return unknown()
	}
	if e1.loose && containsNumber(e1.out) {
		// The Go type of the intermediate number is not pinned down, and
		// later transforms depend on it.
		return unknown()
	}
	return t2.ref(deepCopy(e1.out))
}

func chainScenario(rep *report.R, first tcase, seconds []tcase, vals []val) report.Scenario {
	name := "chain/" + first.name
	a := newAcct(rep, name)
	from := "spec.src"
	return report.Scenario{Name: name, Bound: 0, After: a.after, Body: func(r *explore.Run) {
		t2 := seconds[r.Free(len(seconds), "second")]
		v := vals[r.Free(len(vals), "value")]
		p := v1.Patch{Type: v1.PatchTypeFromCompositeFieldPath, FromFieldPath: &from, Transforms: []v1.Transform{first.t, t2.t}}
		ok, why := validatedPatch(p)
		r.Logf("ResolveTransforms([%s, %s], %s = %s); patch %s %s", first.name, t2.name, v.name, render(v.mk()), valWord(ok), why)

		in1 := v.mk()
		snap := deepCopy(in1)
		psnap := p.DeepCopy()
		r1 := safeResolveAll(p, in1)
		r2 := safeResolveAll(p, v.mk())
		r.Logf("result: %s", r1)

		rec := &evalRec{outcome: report.Hash(errStr(r1.err), fmt.Sprint(r1.pan), render(r1.out))}
		// Non-trivial: both transforms are accepted by validation and the
		// first one succeeded, so the second really ran on its output.
		s1 := safeResolve(first.t, v.mk())
		if ok && s1.pan == nil && s1.err == nil {
			rec.nontrivial = report.Hash("c", first.name, t2.name, v.name)
		}
		if rec.nontrivial != "" && r1.err == nil && r1.pan == nil {
			rec.sample = map[string]any{"scenario": name, "second": t2.name, "value": v.name, "result": r1.String(), "choices": append([]int{}, r.Choices...)}
		}
		if r1.pan != nil {
			site, siteOK := first.site, true
			if s1.pan == nil {
				site = t2.site
				siteOK, _ = validatedTransform(t2.t)
			} else {
				siteOK, _ = validatedTransform(first.t)
			}
			if siteOK {
				a.fail(r, rec, "panic/transform/"+site, "ResolveTransforms panicked: %v; chain [%s, %s] (panicking transform is validated: its Validate() accepts it; whole patch %s), input %s", r1.pan, first.name, t2.name, valWord(ok), render(v.mk()))
			}
			rec.unvalPanic = "transform/" + site
		}
		if !r1.same(r2) {
			a.fail(r, rec, "determinism/chain/"+first.site+"+"+t2.site, "two runs of [%s, %s] on %s differ: %s vs %s (%s)", first.name, t2.name, render(v.mk()), r1, r2, valWord(ok))
		}
		if !strictEqual(in1, snap) {
			a.fail(r, rec, "purity/transform-input/"+first.site+"+"+t2.site, "[%s, %s] modified its input: before %s after %s (%s)", first.name, t2.name, render(snap), render(in1), valWord(ok))
		}
		if !reflect.DeepEqual(&p, psnap) {
			a.fail(r, rec, "purity/transform-config/"+first.site+"+"+t2.site, "[%s, %s] modified the patch (%s)", first.name, t2.name, valWord(ok))
		}
		if r1.pan == nil {
			in := v.mk()
			// Round-trip law: T -> U -> T preserves every value representable in U.
			_, goInt := in.(int)
			if !goInt && first.convTo != "" && t2.convTo != "" && t2.convTo == ioType(in) && representable(in, first.convTo) {
				if r1.err != nil || !strictEqual(r1.out, in) {
					a.fail(r, rec, "law/convert-roundtrip/"+ioType(in)+"-"+first.convTo+"-"+t2.convTo, "convert %s -> %s -> %s does not preserve %s: got %s (%s)", ioType(in), first.convTo, t2.convTo, render(in), r1, valWord(ok))
				}
			}
			if s, isStr := in.(string); isStr && first.name == "string-convert-ToBase64" && t2.name == "string-convert-FromBase64" {
				if r1.err != nil || r1.out != s {
					a.fail(r, rec, "law/base64-roundtrip", "ToBase64 then FromBase64 of %q gives %s", s, r1)
				}
			}
			if msg := chainExpectation(first, t2, in).check(r1.out, r1.err); msg != "" {
				// Blame the step that disagrees with its own reference, so one
				// defect has one signature whether it is met alone or in a chain.
				sig := "oracle/chain/" + first.site + "+" + t2.site + "/" + typeClass(in)
				minimal := ""
				if m1 := first.ref(v.mk()).check(s1.out, s1.err); m1 != "" {
					sig = "oracle/transform/" + first.site + "/" + typeClass(in)
					minimal = fmt.Sprintf("Resolve(%s, %s): %s; met in chain ", first.name, render(in), m1)
				} else if s1.err == nil {
					s2 := safeResolve(t2.t, deepCopy(s1.out))
					if m2 := t2.ref(deepCopy(s1.out)).check(s2.out, s2.err); s2.pan == nil && m2 != "" {
						sig = "oracle/transform/" + t2.site + "/" + typeClass(s1.out)
						minimal = fmt.Sprintf("Resolve(%s, %s): %s; met in chain ", t2.name, render(s1.out), m2)
					}
				}
				a.fail(r, rec, sig, "%s[%s, %s] on %s: %s (%s)", minimal, first.name, t2.name, render(in), msg, valWord(ok))
			}
		}
		a.done(rec)
	}}
}
