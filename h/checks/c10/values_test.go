package c10

import (
	"encoding/json"
	"fmt"
	"math"
	"math/big"
	"reflect"
	"sort"
	"strings"
)

// A val is one source value of the alphabet. mk returns a fresh value every
// time so that no two runs share maps or slices.
type val struct {
	name  string
	mk    func() any
	quick bool // member of the reduced alphabet used by the product scenarios of the quick tier
	// direct marks values that cannot be stored in an unstructured object
	// (Go int); they are only fed to Resolve directly.
	direct bool
}

const (
	two53 = int64(1) << 53
)

func c(v any) func() any { return func() any { return v } }

// allValues is the source value alphabet: every JSON type, nested, null, and
// the int64 / float64 boundaries named by the property.
var allValues = []val{
	// strings
	{name: "s-empty", mk: c(""), quick: true},
	{name: "s-abc", mk: c("abc"), quick: true},
	{name: "s-Abc-123", mk: c("Abc-123")},
	{name: "s-abc-123", mk: c("abc-123"), quick: true},
	{name: "s-true", mk: c("true"), quick: true},
	{name: "s-42", mk: c("42"), quick: true},
	{name: "s--1", mk: c("-1")},
	{name: "s-2p53+1", mk: c("9007199254740993")},
	{name: "s-0.1", mk: c("0.1")},
	{name: "s-1e21", mk: c("1e21")},
	{name: "s-b64", mk: c("aGVsbG8=")},
	{name: "s-json-obj", mk: c(`{"a":1}`), quick: true},
	{name: "s-json-arr", mk: c(`[1,2]`)},
	{name: "s-1Ki", mk: c("1Ki")},
	{name: "s-pct", mk: c("100%d")},
	// what is left after removing a prefix / suffix begins / ends with
	// characters of that prefix / suffix (prefix vs. character-set trimming)
	{name: "s-aab", mk: c("aab"), quick: true},
	{name: "s-abc-3123", mk: c("abc-3123"), quick: true},
	// int64
	{name: "i-0", mk: c(int64(0)), quick: true},
	{name: "i-1", mk: c(int64(1)), quick: true},
	{name: "i--1", mk: c(int64(-1)), quick: true},
	{name: "i-2p53-1", mk: c(two53 - 1)},
	{name: "i-2p53+1", mk: c(two53 + 1), quick: true},
	{name: "i-max", mk: c(int64(math.MaxInt64)), quick: true},
	{name: "i-min", mk: c(int64(math.MinInt64))},
	// float64
	{name: "f-0", mk: c(float64(0))},
	{name: "f-1", mk: c(float64(1)), quick: true},
	{name: "f--1", mk: c(float64(-1))},
	{name: "f-0.1", mk: c(0.1), quick: true},
	{name: "f-1.5", mk: c(1.5), quick: true},
	{name: "f--0.5", mk: c(-0.5)},
	{name: "f-2p53-1", mk: c(float64(two53 - 1))},
	{name: "f-2p53", mk: c(float64(two53))}, // 2^53+1 is not a float64; its nearest is 2^53
	{name: "f-maxint64", mk: c(float64(math.MaxInt64))},
	{name: "f-1e21", mk: c(1e21), quick: true},
	// bool, null
	{name: "b-true", mk: c(true), quick: true},
	{name: "b-false", mk: c(false)},
	{name: "null", mk: c(nil), quick: true},
	// nested
	{name: "o-nested", mk: func() any { return map[string]any{"a": "x", "n": map[string]any{"k": int64(1)}} }, quick: true},
	{name: "o-merge", mk: func() any { return map[string]any{"k": "new", "add": "x"} }},
	{name: "o-empty", mk: func() any { return map[string]any{} }},
	{name: "a-strings", mk: func() any { return []any{"b", "c"} }, quick: true},
	{name: "a-mixed", mk: func() any { return []any{int64(1), "a", nil, map[string]any{"k": "v"}} }},
	{name: "a-empty", mk: func() any { return []any{} }},
	// Go int: only reachable by calling Resolve directly.
	{name: "goint-7", mk: c(int(7)), direct: true},
}

func valuesFor(thorough, withDirect bool) []val {
	var out []val
	for _, v := range allValues {
		if v.direct && !withDirect {
			continue
		}
		if thorough || v.quick {
			out = append(out, v)
		}
	}
	return out
}

// typeClass of a value, used in signatures (never the value itself).
func typeClass(v any) string {
	switch v.(type) {
	case nil:
		return "null"
	case string:
		return "string"
	case int, int64:
		return "int"
	case float64:
		return "float"
	case bool:
		return "bool"
	case map[string]any:
		return "object"
	case []any:
		return "array"
	}
	return fmt.Sprintf("%T", v)
}

// deepCopy of JSON-like data (also keeps Go int).
func deepCopy(v any) any {
	switch x := v.(type) {
	case map[string]any:
		if x == nil {
			return x
		}
		m := make(map[string]any, len(x))
		for k, e := range x {
			m[k] = deepCopy(e)
		}
		return m
	case []any:
		if x == nil {
			return x
		}
		s := make([]any, len(x))
		for i, e := range x {
			s[i] = deepCopy(e)
		}
		return s
	}
	return v
}

func norm(v any) any {
	if i, ok := v.(int); ok {
		return int64(i)
	}
	return v
}

// strictEqual: same Go types (int is treated as int64) and same values.
func strictEqual(a, b any) bool {
	a, b = norm(a), norm(b)
	switch x := a.(type) {
	case map[string]any:
		y, ok := b.(map[string]any)
		if !ok || len(x) != len(y) {
			return false
		}
		for k, e := range x {
			f, ok := y[k]
			if !ok || !strictEqual(e, f) {
				return false
			}
		}
		return true
	case []any:
		y, ok := b.([]any)
		if !ok || len(x) != len(y) {
			return false
		}
		for i := range x {
			if !strictEqual(x[i], y[i]) {
				return false
			}
		}
		return true
	}
	return reflect.DeepEqual(a, b)
}

func asBig(v any) (*big.Float, bool) {
	switch x := norm(v).(type) {
	case int64:
		return new(big.Float).SetPrec(128).SetInt64(x), true
	case float64:
		if math.IsNaN(x) || math.IsInf(x, 0) {
			return nil, false
		}
		return new(big.Float).SetPrec(128).SetFloat64(x), true
	}
	return nil, false
}

// looseEqual is JSON equality: numbers compare by exact numeric value whatever
// their Go type, empty and nil containers are equal only to containers.
func looseEqual(a, b any) bool {
	if x, ok := asBig(a); ok {
		y, ok := asBig(b)
		return ok && x.Cmp(y) == 0
	}
	switch x := a.(type) {
	case map[string]any:
		y, ok := b.(map[string]any)
		if !ok || len(x) != len(y) {
			return false
		}
		for k, e := range x {
			f, ok := y[k]
			if !ok || !looseEqual(e, f) {
				return false
			}
		}
		return true
	case []any:
		y, ok := b.([]any)
		if !ok || len(x) != len(y) {
			return false
		}
		for i := range x {
			if !looseEqual(x[i], y[i]) {
				return false
			}
		}
		return true
	}
	return reflect.DeepEqual(a, b)
}

// render a value with sorted keys and Go types visible (for messages and
// outcome hashes).
func render(v any) string {
	switch x := v.(type) {
	case nil:
		return "null"
	case string:
		return fmt.Sprintf("%q", x)
	case int:
		return fmt.Sprintf("int(%d)", x)
	case int64:
		return fmt.Sprintf("int64(%d)", x)
	case float64:
		return fmt.Sprintf("float64(%v)", x)
	case bool:
		return fmt.Sprintf("%v", x)
	case map[string]any:
		ks := make([]string, 0, len(x))
		for k := range x {
			ks = append(ks, k)
		}
		sort.Strings(ks)
		var b strings.Builder
		b.WriteString("{")
		for i, k := range ks {
			if i > 0 {
				b.WriteString(",")
			}
			fmt.Fprintf(&b, "%q:%s", k, render(x[k]))
		}
		b.WriteString("}")
		return b.String()
	case []any:
		var b strings.Builder
		b.WriteString("[")
		for i, e := range x {
			if i > 0 {
				b.WriteString(",")
			}
			b.WriteString(render(e))
		}
		b.WriteString("]")
		return b.String()
	case map[string]string:
		m := map[string]any{}
		for k, e := range x {
			m[k] = e
		}
		return render(m)
	}
	return fmt.Sprintf("%T(%v)", v, v)
}

// parseJSON decodes with encoding/json (numbers become float64); used by
// oracles with loose comparison only.
func parseJSON(s string) (any, bool) {
	var v any
	if err := json.Unmarshal([]byte(s), &v); err != nil {
		return nil, false
	}
	return v, true
}

func errStr(err error) string {
	if err == nil {
		return ""
	}
	return err.Error()
}

func ptr[T any](v T) *T { return &v }
