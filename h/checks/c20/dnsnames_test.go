package c20

import (
	"context"
	"encoding/base64"
	"crypto/x509"
	"fmt"

	"github.com/crossplane/crossplane-runtime/pkg/logging"

	"github.com/crossplane/crossplane/internal/initializer"
	"github.com/crossplane/crossplane/verif/explore"
	"github.com/crossplane/crossplane/verif/report"
	"github.com/crossplane/crossplane/verif/simkube"
	"github.com/crossplane/crossplane/verif/xrh"
)

// ---- scenario: the service's DNS names, for every service and namespace ----------
//
// The other scenarios install into crossplane-system. The names a webhook
// certificate must cover are a function of the service name and the namespace
// Crossplane happens to be installed in; here every namespace and service of
// a small alphabet is used: all endings [a-z0-9] behind four stems (among
// them stems that look like the ".svc" suffix), and for a handful of them the
// real generator issues the certificate, which must verify for each name.

var dnsServices = []string{"crossplane-webhooks", "svc", "s"}

func dnsNamespaces() []string {
	var out []string
	for _, stem := range []string{"crossplane-", "svc", "x.sv", ""} {
		for _, c := range "abcdefghijklmnopqrstuvwxyz0123456789" {
			if stem == "x.sv" {
				continue // not a DNS label
			}
			out = append(out, stem+string(c))
		}
	}
	return append(out, "crossplane-system", "platform-services", "kube-public", "crossplane-dev", "svc", "vcs-svc")
}

// issued are the namespaces for which a certificate is really issued.
var dnsIssued = map[string]bool{"crossplane-system": true, "platform-services": true, "kube-public": true, "crossplane-dev": true, "svc": true, "crossplane-s": true}

func dnsBody(r *explore.Run, rep *report.R, sc string) {
	nss := dnsNamespaces()
	svc := dnsServices[r.Free(len(dnsServices), "service")]
	ns := nss[r.Free(len(nss), "namespace")]
	xrh.BeginExecution(1)
	want := []string{svc, svc + "." + ns, svc + "." + ns + ".svc"}
	got := initializer.DNSNamesForService(svc, ns)
	r.Logf("service %s in namespace %s: names %v", svc, ns, got)
	have := map[string]bool{}
	for _, g := range got {
		have[g] = true
	}
	for i, w := range want {
		if !have[w] {
			r.Failf("cert/server/dns-name-missing/"+[]string{"svc", "svc.ns", "svc.ns.svc"}[i], "service %q in namespace %q: the DNS names for the webhook certificate are %v, %q is missing", svc, ns, got, w)
		}
	}
	issued := false
	if dnsIssued[ns] && svc != "s" {
		issued = true
		s := newStore()
		gen := initializer.NewTLSCertificateGenerator(ns, caSecret,
			initializer.TLSCertificateGeneratorWithClientSecretName(clientSecret, []string{fmt.Sprintf("%s.%s", serviceAccount, ns)}),
			initializer.TLSCertificateGeneratorWithLogger(logging.NewNopLogger()),
			initializer.TLSCertificateGeneratorWithServerSecretName(serverSecret, initializer.DNSNamesForService(svc, ns)))
		for run := 1; run <= 2; run++ {
			if err := gen.Run(context.TODO(), s.Client("init")); err != nil {
				r.Failf("init/fails/tls", "certificate generation in namespace %q fails in run %d: %v", ns, run, err)
			}
		}
		sec := s.Peek(simkube.ObjKey{Kind: "Secret", Namespace: ns, Name: serverSecret})
		if sec == nil {
			r.Failf("cert/server/missing", "no secret %s/%s after certificate generation", ns, serverSecret)
		}
		data := secretBytes(sec)
		certs, err := parseCerts(data["tls.crt"])
		if err != nil || len(certs) == 0 {
			r.Failf("cert/server/unparsable", "secret %s/%s tls.crt: %v", ns, serverSecret, err)
		}
		cas, _ := parseCerts(data["ca.crt"])
		pool := x509.NewCertPool()
		for _, c := range cas {
			pool.AddCert(c)
		}
		for i, w := range want {
			if _, err := certs[0].Verify(x509.VerifyOptions{Roots: pool, DNSName: w, KeyUsages: []x509.ExtKeyUsage{x509.ExtKeyUsageServerAuth}}); err != nil {
				r.Failf("cert/server/dns-name-missing/"+[]string{"svc", "svc.ns", "svc.ns.svc"}[i], "service %q in namespace %q: the issued certificate (names %v) does not verify for %q: %v", svc, ns, certs[0].DNSNames, w, err)
			}
		}
	}
	nt := ""
	if ns != namespace {
		nt = report.Hash(sc, svc, ns)
	}
	rep.Eval(sc, report.Hash(len(got), issued, ns == namespace), nt)
}

func secretBytes(u interface{ UnstructuredContent() map[string]any }) map[string][]byte {
	out := map[string][]byte{}
	data, _ := u.UnstructuredContent()["data"].(map[string]any)
	for k, v := range data {
		s, _ := v.(string)
		b, _ := base64.StdEncoding.DecodeString(s)
		out[k] = b
	}
	return out
}
