package c20

import (
	"fmt"

	"k8s.io/apimachinery/pkg/apis/meta/v1/unstructured"
	"k8s.io/apimachinery/pkg/runtime/schema"

	"github.com/crossplane/crossplane/verif/explore"
	"github.com/crossplane/crossplane/verif/simkube"
)

// Step-list variants (flag combinations of `core init`).
var (
	cfgDefault    = initCfg{WebhookEnabled: true, ConversionCRD: true}
	cfgProduction = initCfg{WebhookEnabled: true, ESS: true}
	cfgNoWebhooks = initCfg{WebhookEnabled: false}
)

func cfgKey(c initCfg) string {
	return fmt.Sprintf("wh=%v,ess=%v,conv=%v", c.WebhookEnabled, c.ESS, c.ConversionCRD)
}

func (c initCfg) withoutPackages() initCfg {
	c.Providers, c.Configurations, c.Functions = nil, nil, nil
	return c
}

// Fully initialised stores are inputs of most cases; one is produced per
// configuration and process by a real init run and cloned. (What is checked
// about a first run from nothing is checked by the "empty" cases, which never
// use this cache.)
var (
	fullCache  = map[string]*simkube.Store{}
	freshCache = map[string]*canon{}
)

func fullStore(c initCfg) *simkube.Store {
	k := cfgKey(c)
	if s, ok := fullCache[k]; ok {
		return s.Clone()
	}
	s := newStore()
	if res := runInit(s, c.withoutPackages(), -1); !res.ok() {
		// A fault-free init of an empty cluster that fails is the code's
		// fault, not the harness'.
		panic(explore.Failure{Signature: "init/fails/" + errClass(res), Message: "a fault-free init of an empty cluster (" + c.String() + ") stops with " + res.String()})
	}
	fullCache[k] = s
	freshCache[k] = snapshot(s).canonical()
	return s.Clone()
}

// freshCanon is the symbolic canonical store of a fresh install.
func freshCanon(c initCfg) *canon {
	fullStore(c)
	return freshCache[cfgKey(c)]
}

func seedU(s *simkube.Store, apiVersion, kind, ns, name string, content map[string]any) {
	u := &unstructured.Unstructured{Object: map[string]any{}}
	for k, v := range content {
		u.Object[k] = v
	}
	u.SetAPIVersion(apiVersion)
	u.SetKind(kind)
	u.SetNamespace(ns)
	u.SetName(name)
	s.Seed(u)
}

func seedEmptySecrets(s *simkube.Store, c initCfg) {
	names := []string{caSecret, serverSecret, clientSecret}
	if c.ESS {
		names = append(names, essSecret)
	}
	for _, n := range names {
		seedU(s, "v1", "Secret", namespace, n, map[string]any{"type": "Opaque"})
	}
}

func dropSecretKey(s *simkube.Store, secret, key string) {
	s.Mutate(secretKey(secret), func(u *unstructured.Unstructured) {
		unstructured.RemoveNestedField(u.Object, "data", key)
	})
}

func emptySecret(s *simkube.Store, secret string) {
	s.Mutate(secretKey(secret), func(u *unstructured.Unstructured) {
		unstructured.RemoveNestedField(u.Object, "data")
	})
}

// staleBundles makes every CA bundle carrier hold another bundle.
func staleBundles(s *simkube.Store) {
	for _, u := range s.All(crdGK) {
		if st, _, _ := unstructured.NestedString(u.Object, "spec", "conversion", "strategy"); st != "Webhook" {
			continue
		}
		s.Mutate(simkube.KeyOf(u), func(o *unstructured.Unstructured) {
			_ = unstructured.SetNestedField(o.Object, staleBundle, "spec", "conversion", "webhook", "clientConfig", "caBundle")
		})
	}
	for _, gk := range []schema.GroupKind{vwcGK, mwcGK} {
		for _, u := range s.All(gk) {
			s.Mutate(simkube.KeyOf(u), func(o *unstructured.Unstructured) {
				whs, _, _ := unstructured.NestedSlice(o.Object, "webhooks")
				for _, w := range whs {
					_ = unstructured.SetNestedField(w.(map[string]any), staleBundle, "clientConfig", "caBundle")
				}
				_ = unstructured.SetNestedSlice(o.Object, whs, "webhooks")
			})
		}
	}
}

// userDefaults creates or edits the three default objects as a user would.
func userDefaults(s *simkube.Store) {
	lockPkgs := []any{map[string]any{"name": "acme-provider-x-0123456789ab", "type": "Provider", "source": "acme/provider-x", "version": "v1", "dependencies": []any{}}}
	if !s.Mutate(lockKey, func(u *unstructured.Unstructured) { _ = unstructured.SetNestedSlice(u.Object, lockPkgs, "packages") }) && s.Peek(lockKey) == nil {
		seedU(s, "pkg.crossplane.io/v1beta1", "Lock", "", "lock", map[string]any{"packages": lockPkgs})
	}
	drcSpec := map[string]any{"serviceAccountTemplate": map[string]any{"metadata": map[string]any{"labels": map[string]any{"edited-by": "user"}}}}
	if !s.Mutate(drcKey, func(u *unstructured.Unstructured) { _ = unstructured.SetNestedMap(u.Object, drcSpec, "spec") }) && s.Peek(drcKey) == nil {
		seedU(s, "pkg.crossplane.io/v1beta1", "DeploymentRuntimeConfig", "", "default", map[string]any{"spec": drcSpec})
	}
	scSpec := map[string]any{"defaultScope": "user-namespace"}
	if !s.Mutate(scKey, func(u *unstructured.Unstructured) { _ = unstructured.SetNestedMap(u.Object, scSpec, "spec") }) && s.Peek(scKey) == nil {
		seedU(s, "secrets.crossplane.io/v1alpha1", "StoreConfig", "", "default", map[string]any{"spec": scSpec})
	}
}

// upgrade makes an initialised store look like one left by an older release:
// the migrated CRDs still list the old version as stored and custom resources
// of those kinds exist; every bundle carrier holds another bundle.
func upgrade(s *simkube.Store) {
	staleBundles(s)
	for _, m := range migrators {
		u := s.Peek(crdKey(m.crd))
		if u == nil {
			continue
		}
		storage := ""
		vs, _, _ := unstructured.NestedSlice(u.Object, "spec", "versions")
		for _, v := range vs {
			if vm := v.(map[string]any); vm["storage"] == true {
				storage, _ = vm["name"].(string)
			}
		}
		s.Mutate(crdKey(m.crd), func(o *unstructured.Unstructured) {
			_ = unstructured.SetNestedStringSlice(o.Object, []string{m.old, storage}, "status", "storedVersions")
		})
	}
	seedU(s, "apiextensions.crossplane.io/v1", "CompositionRevision", "", "comp-abc123", map[string]any{"spec": map[string]any{"revision": int64(1)}})
	seedU(s, "apiextensions.crossplane.io/v1alpha1", "EnvironmentConfig", "", "env-1", map[string]any{"data": map[string]any{"k": "v"}})
	seedU(s, "apiextensions.crossplane.io/v1alpha1", "Usage", "", "usage-1", map[string]any{"spec": map[string]any{"reason": "kept"}})
	seedU(s, "pkg.crossplane.io/v1", "FunctionRevision", "", "function-z-0123456789ab", map[string]any{"spec": map[string]any{"image": "acme/function-z:v1", "revision": int64(1), "desiredState": "Active"}})
	seedU(s, "pkg.crossplane.io/v1", "Function", "", "acme-function-z", map[string]any{"spec": map[string]any{"package": "acme/function-z:v1"}})
}

func seedPackage(s *simkube.Store, kind, name, source string) {
	seedU(s, "pkg.crossplane.io/v1", kind, "", name, map[string]any{"spec": map[string]any{"package": source}})
}

// icase is an initial cluster content together with the init configuration
// run against it.
type icase struct {
	name  string
	cfg   initCfg
	build func() *simkube.Store
	// refusal, if not empty, is the error a fault-free init is allowed to
	// stop with from this store (the documented fail-fast when the webhook
	// TLS secret has key material but no tls.crt).
	refusal string
	trivial bool
}

const refusalNoTLSCrt = "cannot find tls.crt key in webhook tls secret"

// idempotenceCases lists the initial stores of the idempotence scenario.
func idempotenceCases(thorough bool) []icase {
	var out []icase
	add := func(c icase) { out = append(out, c) }
	base := func(c initCfg, tag string) {
		c0 := c
		add(icase{name: tag + "/empty", cfg: c0, build: newStore, trivial: true})
		add(icase{name: tag + "/helm-empty-secrets", cfg: c0, build: func() *simkube.Store { s := newStore(); seedEmptySecrets(s, c0); return s }})
		add(icase{name: tag + "/fully-initialised", cfg: c0, build: func() *simkube.Store { return fullStore(c0) }})
	}
	c := cfgDefault
	base(c, "default")
	for i := 1; i < len(steps(c)); i++ {
		i := i
		add(icase{name: fmt.Sprintf("default/after-step-%02d-%s", i, stepNames(c)[i-1]), cfg: c, build: func() *simkube.Store {
			s := newStore()
			if res := runInit(s, c, i); !res.ok() {
				panic(explore.Failure{Signature: "init/fails/" + errClass(res), Message: fmt.Sprintf("the first %d steps of a fault-free init of an empty cluster stop with %s", i, res)})
			}
			return s
		}})
	}
	for _, keep := range []string{"tls.key", "tls.crt"} {
		drop := map[string]string{"tls.key": "tls.crt", "tls.crt": "tls.key"}[keep]
		for _, tlsAbsent := range []bool{true, false} {
			tlsAbsent := tlsAbsent
			n := fmt.Sprintf("default/ca-has-only-%s/tls-secrets-%s", keep, map[bool]string{true: "absent", false: "complete"}[tlsAbsent])
			add(icase{name: n, cfg: c, build: func() *simkube.Store {
				s := fullStore(c)
				dropSecretKey(s, caSecret, drop)
				if tlsAbsent {
					s.Remove(secretKey(serverSecret))
					s.Remove(secretKey(clientSecret))
				}
				return s
			}})
		}
	}
	for _, sec := range []string{serverSecret, clientSecret} {
		for _, key := range []string{"tls.crt", "tls.key", "ca.crt"} {
			sec, key := sec, key
			ic := icase{name: fmt.Sprintf("default/%s-lacks-%s", sec, key), cfg: c, build: func() *simkube.Store {
				s := fullStore(c)
				dropSecretKey(s, sec, key)
				return s
			}}
			if sec == serverSecret && key == "tls.crt" {
				ic.refusal = refusalNoTLSCrt
			}
			add(ic)
		}
	}
	add(icase{name: "default/server-secret-emptied", cfg: c, build: func() *simkube.Store { s := fullStore(c); emptySecret(s, serverSecret); return s }})
	add(icase{name: "default/client-secret-removed", cfg: c, build: func() *simkube.Store { s := fullStore(c); s.Remove(secretKey(clientSecret)); return s }})
	add(icase{name: "default/other-ca-bundle-everywhere", cfg: c, build: func() *simkube.Store { s := fullStore(c); staleBundles(s); return s }})
	add(icase{name: "default/user-edited-defaults", cfg: c, build: func() *simkube.Store { s := fullStore(c); userDefaults(s); return s }})
	add(icase{name: "default/only-user-made-defaults", cfg: c, build: func() *simkube.Store { s := newStore(); userDefaults(s); return s }})
	add(icase{name: "default/older-release", cfg: c, build: func() *simkube.Store { s := fullStore(c); upgrade(s); return s }})
	add(icase{name: "default/crds-removed", cfg: c, build: func() *simkube.Store {
		s := fullStore(c)
		for _, u := range s.All(crdGK) {
			s.Remove(simkube.KeyOf(u))
		}
		return s
	}})

	base(cfgProduction, "production-dir+ess")
	base(cfgNoWebhooks, "webhooks-disabled")
	if thorough {
		for _, v := range []struct {
			c   initCfg
			tag string
		}{{cfgProduction, "production-dir+ess"}, {cfgNoWebhooks, "webhooks-disabled"}} {
			v := v
			add(icase{name: v.tag + "/older-release", cfg: v.c, build: func() *simkube.Store { s := fullStore(v.c); upgrade(s); return s }})
			add(icase{name: v.tag + "/user-edited-defaults", cfg: v.c, build: func() *simkube.Store { s := fullStore(v.c); userDefaults(s); return s }})
			add(icase{name: v.tag + "/ca-has-only-tls.key", cfg: v.c, build: func() *simkube.Store { s := fullStore(v.c); dropSecretKey(s, caSecret, "tls.crt"); return s }})
			for i := 1; i < len(steps(v.c)); i++ {
				i := i
				add(icase{name: fmt.Sprintf("%s/after-step-%02d-%s", v.tag, i, stepNames(v.c)[i-1]), cfg: v.c, build: func() *simkube.Store {
					s := newStore()
					if res := runInit(s, v.c, i); !res.ok() {
						panic(explore.Failure{Signature: "init/fails/" + errClass(res), Message: fmt.Sprintf("the first %d steps of a fault-free init of an empty cluster stop with %s", i, res)})
					}
					return s
				}})
			}
		}
		add(icase{name: "production-dir+ess/ess-secret-lacks-tls.key", cfg: cfgProduction, build: func() *simkube.Store {
			s := fullStore(cfgProduction)
			dropSecretKey(s, essSecret, "tls.key")
			return s
		}})
		add(icase{name: "production-dir+ess/ess-secret-emptied", cfg: cfgProduction, build: func() *simkube.Store {
			s := fullStore(cfgProduction)
			emptySecret(s, essSecret)
			return s
		}})
	}
	return out
}

// faultCases lists the initial stores of the abort-and-repeat scenario.
func faultCases(thorough bool) []icase {
	withPkgs := cfgDefault
	withPkgs.Providers = []string{"acme/provider-x:v2"}
	withPkgs.Functions = []string{"registry.example.com/acme/function-y:v1"}
	older := func(c initCfg) func() *simkube.Store {
		return func() *simkube.Store {
			s := fullStore(c)
			upgrade(s)
			emptySecret(s, serverSecret)
			seedPackage(s, "Provider", "acme-provider-x", "acme/provider-x:v1")
			return s
		}
	}
	out := []icase{
		{name: "helm-empty-secrets+packages", cfg: withPkgs, build: func() *simkube.Store { s := newStore(); seedEmptySecrets(s, withPkgs); return s }},
		{name: "older-release+server-secret-emptied+packages", cfg: withPkgs, build: older(withPkgs)},
	}
	if thorough {
		prod := cfgProduction
		prod.Configurations = []string{"acme/configuration-w:v1"}
		out = append(out,
			icase{name: "empty+packages", cfg: withPkgs, build: newStore},
			icase{name: "fully-initialised", cfg: cfgDefault, build: func() *simkube.Store { return fullStore(cfgDefault) }},
			icase{name: "ca-has-only-tls.key/tls-secrets-absent", cfg: cfgDefault, build: func() *simkube.Store {
				s := fullStore(cfgDefault)
				dropSecretKey(s, caSecret, "tls.crt")
				s.Remove(secretKey(serverSecret))
				s.Remove(secretKey(clientSecret))
				return s
			}},
			icase{name: "user-edited-defaults+crds-removed", cfg: cfgDefault, build: func() *simkube.Store {
				s := fullStore(cfgDefault)
				userDefaults(s)
				for _, u := range s.All(crdGK) {
					s.Remove(simkube.KeyOf(u))
				}
				return s
			}},
			icase{name: "production-dir+ess/helm-empty-secrets+packages", cfg: prod, build: func() *simkube.Store { s := newStore(); seedEmptySecrets(s, prod); return s }},
			icase{name: "production-dir+ess/older-release", cfg: prod, build: older(prod)},
			icase{name: "webhooks-disabled/empty", cfg: cfgNoWebhooks, build: newStore},
		)
	}
	return out
}
