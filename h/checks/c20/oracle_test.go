package c20

import (
	"crypto/tls"
	"crypto/x509"
	"encoding/base64"
	"encoding/pem"
	"fmt"
	"os"
	"path/filepath"
	"reflect"
	"sort"
	"strings"

	"k8s.io/apimachinery/pkg/apis/meta/v1/unstructured"
	"k8s.io/apimachinery/pkg/runtime/schema"

	"github.com/crossplane/crossplane/verif/explore"
	"github.com/crossplane/crossplane/verif/simkube"
)

// ---- what the statement promises about certificates ------------------------

// The DNS names under which the API server reaches the webhook service
// (cluster-domain form excluded: installation specific).
func serviceDNSNames() map[string]string {
	return map[string]string{
		"svc":        webhookService,
		"svc.ns":     webhookService + "." + namespace,
		"svc.ns.svc": webhookService + "." + namespace + ".svc",
	}
}

func parseCerts(pemBytes []byte) ([]*x509.Certificate, error) {
	var out []*x509.Certificate
	rest := pemBytes
	for {
		var b *pem.Block
		b, rest = pem.Decode(rest)
		if b == nil {
			break
		}
		if b.Type != "CERTIFICATE" {
			continue
		}
		c, err := x509.ParseCertificate(b.Bytes)
		if err != nil {
			return nil, err
		}
		out = append(out, c)
	}
	if len(out) == 0 {
		return nil, fmt.Errorf("no PEM certificate")
	}
	return out, nil
}

func pool(pemBytes []byte) (*x509.CertPool, error) {
	cs, err := parseCerts(pemBytes)
	if err != nil {
		return nil, err
	}
	p := x509.NewCertPool()
	for _, c := range cs {
		p.AddCert(c)
	}
	return p, nil
}

// checkCA: the CA secret holds a CA certificate and its key.
func checkCA(r *explore.Run, post *snap) []byte {
	d := post.secretData(caSecret)
	if d == nil || len(d["tls.crt"]) == 0 || len(d["tls.key"]) == 0 {
		r.Failf("ca/incomplete-after-init", "after a successful init the CA secret is %s", post.describeSecret(caSecret))
	}
	cs, err := parseCerts(d["tls.crt"])
	if err != nil {
		r.Failf("ca/unparsable", "CA certificate does not parse: %v", err)
	}
	if !cs[0].IsCA {
		r.Failf("ca/not-a-ca", "the stored CA certificate is not a CA (IsCA=false)")
	}
	if _, err := tls.X509KeyPair(d["tls.crt"], d["tls.key"]); err != nil {
		r.Failf("ca/key-mismatch", "CA key does not belong to the CA certificate: %v", err)
	}
	return d["tls.crt"]
}

// checkIssued verifies a certificate issued during the history: it chains to
// the stored CA, is usable for the role, covers the names, and the secret
// carries the key and the CA certificate.
func checkIssued(r *explore.Run, post *snap, role, secret string, ca []byte, usage x509.ExtKeyUsage, names map[string]string) {
	d := post.secretData(secret)
	if d == nil {
		r.Failf("cert/"+role+"/secret-missing", "secret %s does not exist after a successful init", secret)
	}
	for _, k := range []string{"tls.crt", "tls.key", "ca.crt"} {
		if len(d[k]) == 0 {
			r.Failf("cert/"+role+"/incomplete", "newly filled secret %s lacks %s (%s)", secret, k, post.describeSecret(secret))
		}
	}
	if string(d["ca.crt"]) != string(ca) {
		r.Failf("cert/"+role+"/ca-crt-is-not-the-stored-ca", "ca.crt of newly filled secret %s differs from the certificate in %s", secret, caSecret)
	}
	if _, err := tls.X509KeyPair(d["tls.crt"], d["tls.key"]); err != nil {
		r.Failf("cert/"+role+"/key-mismatch", "tls.key of %s does not belong to tls.crt: %v", secret, err)
	}
	cs, err := parseCerts(d["tls.crt"])
	if err != nil {
		r.Failf("cert/"+role+"/unparsable", "tls.crt of %s does not parse: %v", secret, err)
	}
	roots, err := pool(ca)
	if err != nil {
		r.Failf("ca/unparsable", "CA certificate does not parse: %v", err)
	}
	if _, err := cs[0].Verify(x509.VerifyOptions{Roots: roots, KeyUsages: []x509.ExtKeyUsage{usage}}); err != nil {
		r.Failf("cert/"+role+"/does-not-chain-to-stored-ca", "certificate in %s does not verify against the stored CA: %v", secret, err)
	}
	forms := make([]string, 0, len(names))
	for f := range names {
		forms = append(forms, f)
	}
	sort.Strings(forms)
	for _, f := range forms {
		if _, err := cs[0].Verify(x509.VerifyOptions{Roots: roots, KeyUsages: []x509.ExtKeyUsage{usage}, DNSName: names[f]}); err != nil {
			r.Failf("cert/"+role+"/name-not-covered/"+f, "certificate in %s is not valid for %q: %v (DNS names %v)", secret, names[f], err, cs[0].DNSNames)
		}
	}
}

// ---- CA bundles ---------------------------------------------------------------

// crdNamesOnDisk derives the core CRD names from the file names
// (<group>_<plural>.yaml), independently of the parser under test.
func crdNamesOnDisk() []string {
	ents, err := os.ReadDir(filepath.Join(repoRoot(), "cluster", "crds"))
	if err != nil {
		panic(err)
	}
	var out []string
	for _, e := range ents {
		n := strings.TrimSuffix(e.Name(), ".yaml")
		if n == e.Name() || e.IsDir() {
			continue
		}
		i := strings.Index(n, "_")
		out = append(out, n[i+1:]+"."+n[:i])
	}
	sort.Strings(out)
	return out
}

func bundleOf(v any) []byte {
	s, _ := v.(string)
	b, err := base64.StdEncoding.DecodeString(s)
	if err != nil {
		return []byte("!undecodable")
	}
	return b
}

// checkBundles: every CRD with a conversion webhook and every webhook of
// every webhook configuration carries a CA bundle that validates the current
// serving certificate (tls.crt of the webhook TLS secret; the names it covers
// are judged where it is issued); webhook configurations point at the
// configured service.
func checkBundles(r *explore.Run, post *snap, cfg initCfg) {
	serving := post.secretData(serverSecret)["tls.crt"]
	leaf, err := parseCerts(serving)
	if err != nil {
		r.Failf("bundle/serving-certificate-unparsable", "tls.crt of %s does not parse after a successful init: %v", serverSecret, err)
	}
	verify := func(kind, where string, bundle []byte) {
		if len(bundle) == 0 {
			r.Failf("bundle/"+kind+"/missing", "%s carries no CA bundle after a successful init", where)
		}
		p, err := pool(bundle)
		if err != nil {
			r.Failf("bundle/"+kind+"/stale", "%s carries a CA bundle that is not the current one (does not parse: %v)", where, err)
		}
		if _, err := leaf[0].Verify(x509.VerifyOptions{Roots: p, KeyUsages: []x509.ExtKeyUsage{x509.ExtKeyUsageServerAuth}}); err != nil {
			r.Failf("bundle/"+kind+"/stale", "%s carries a CA bundle that does not validate the current serving certificate: %v", where, err)
		}
	}
	nconv := 0
	for _, u := range post.all(crdGK) {
		st, _, _ := unstructured.NestedString(u.Object, "spec", "conversion", "strategy")
		if st != "Webhook" {
			continue
		}
		nconv++
		b, _, _ := unstructured.NestedFieldNoCopy(u.Object, "spec", "conversion", "webhook", "clientConfig", "caBundle")
		verify("crd", "CRD "+u.GetName(), bundleOf(b))
	}
	if cfg.ConversionCRD && nconv == 0 {
		r.Failf("crds/conversion-crd-missing", "the CRD with a conversion webhook was not installed")
	}
	nwh := 0
	for _, gk := range []schema.GroupKind{vwcGK, mwcGK} {
		for _, u := range post.all(gk) {
			whs, _, _ := unstructured.NestedSlice(u.Object, "webhooks")
			for _, w := range whs {
				m, _ := w.(map[string]any)
				nwh++
				where := fmt.Sprintf("%s %s webhook %v", gk.Kind, u.GetName(), m["name"])
				b, _, _ := unstructured.NestedFieldNoCopy(m, "clientConfig", "caBundle")
				verify("webhookconfig", where, bundleOf(b))
				svc, _, _ := unstructured.NestedMap(m, "clientConfig", "service")
				if svc["name"] != webhookService || svc["namespace"] != namespace || fmt.Sprint(svc["port"]) != fmt.Sprint(webhookPort) {
					r.Failf("webhookconfig/service-reference", "%s points at service %v/%v:%v, want %s/%s:%d", where, svc["namespace"], svc["name"], svc["port"], namespace, webhookService, webhookPort)
				}
			}
		}
	}
	// cluster/webhookconfigurations holds the XRD/Composition validators
	// (object "crossplane") and the usage validator ("crossplane-no-usages").
	for _, n := range []string{"crossplane", "crossplane-no-usages"} {
		if post.get(simkube.ObjKey{Group: vwcGK.Group, Kind: vwcGK.Kind, Name: n}) == nil {
			r.Failf("webhookconfig/missing", "ValidatingWebhookConfiguration %s does not exist after a successful init", n)
		}
	}
	if nwh < 3 {
		r.Failf("webhookconfig/missing", "only %d webhooks configured after a successful init", nwh)
	}
}

// ---- default objects ----------------------------------------------------------------

func checkDefaults(r *explore.Run, pre, post *snap) {
	for _, k := range []simkube.ObjKey{lockKey, scKey, drcKey} {
		after := post.get(k)
		if after == nil {
			r.Failf("defaults/missing/"+k.Kind, "%s does not exist after a successful init", k)
		}
		before := pre.get(k)
		if before == nil {
			if k == scKey {
				if sc, _, _ := unstructured.NestedString(after.Object, "spec", "defaultScope"); sc != namespace {
					r.Failf("defaults/storeconfig-scope", "newly created default StoreConfig has defaultScope %q, want %q", sc, namespace)
				}
			}
			continue
		}
		if before.GetResourceVersion() != after.GetResourceVersion() || !reflect.DeepEqual(before.Object, after.Object) {
			var paths []string
			diffAny(before.Object, after.Object, "", &paths)
			r.Failf("defaults/touched/"+k.Kind, "pre-existing %s was modified by init (resourceVersion %s -> %s): %s", k, before.GetResourceVersion(), after.GetResourceVersion(), strings.Join(paths, "; "))
		}
	}
}

// ---- packages -------------------------------------------------------------------------

const pkgGroup = "pkg.crossplane.io"

var pkgKinds = []string{"Provider", "Configuration", "Function"}

type pkgObj struct {
	Kind, Name, Source, RV string
}

func (p pkgObj) String() string { return fmt.Sprintf("%s/%s=%s", p.Kind, p.Name, p.Source) }

func packagesOf(sn *snap, kind string) []pkgObj {
	var out []pkgObj
	for _, u := range sn.all(schema.GroupKind{Group: pkgGroup, Kind: kind}) {
		src, _, _ := unstructured.NestedString(u.Object, "spec", "package")
		out = append(out, pkgObj{Kind: kind, Name: u.GetName(), Source: src, RV: u.GetResourceVersion()})
	}
	return out
}

// imageRef is an OCI reference split the way the distribution spec does.
type imageRef struct {
	Host, Repo, Ident string
	Digest            bool
}

func isLowerAlnum(b byte) bool { return (b >= 'a' && b <= 'z') || (b >= '0' && b <= '9') }

// parseRef is an independent reference parser: [host/]path(:tag|@digest). The
// first component is a registry host iff it contains '.' or ':' or is
// "localhost".
func parseRef(s string) (imageRef, bool) {
	var ref imageRef
	rest := s
	if i := strings.Index(rest, "@"); i >= 0 {
		ref.Ident, rest, ref.Digest = rest[i+1:], rest[:i], true
	} else if i := strings.LastIndex(rest, ":"); i > strings.LastIndex(rest, "/") {
		ref.Ident, rest = rest[i+1:], rest[:i]
	}
	if ref.Ident == "" {
		return ref, false
	}
	if i := strings.Index(rest, "/"); i > 0 {
		if first := rest[:i]; strings.ContainsAny(first, ".:") || first == "localhost" {
			ref.Host, rest = first, rest[i+1:]
		}
	}
	ref.Repo = rest
	if rest == "" || !isLowerAlnum(rest[0]) || !isLowerAlnum(rest[len(rest)-1]) {
		return ref, false
	}
	for i := 0; i < len(rest); i++ {
		if b := rest[i]; !isLowerAlnum(b) && b != '/' && b != '-' && b != '_' && b != '.' {
			return ref, false
		}
	}
	return ref, true
}

// The registry used by the package manager when a reference has no host
// (xpkg.DefaultRegistry, overridable with `core start --registry`).
const defaultRegistry = "xpkg.crossplane.io"

func normHost(h string) string {
	if h == "" {
		return defaultRegistry
	}
	return h
}

// derivedName is the documented default object name of an installed package:
// the repository path as a DNS label.
func derivedName(repo string) string {
	var b strings.Builder
	for i := 0; i < len(repo) && i < 63; i++ {
		c := repo[i]
		switch {
		case isLowerAlnum(c):
			b.WriteByte(c)
		case c == '/' || c == '.' || c == ':' || c == '-':
			b.WriteByte('-')
		}
	}
	return strings.Trim(b.String(), "-")
}

func refShape(q imageRef) string {
	if q.Host != "" {
		return "registry-qualified-ref"
	}
	return "registry-less-ref"
}

// checkPackages is the oracle for packages requested at install time. It
// returns classification labels of what happened (for outcome accounting).
//
// Two references name the same image repository when registry host and
// repository path are equal. Whether a reference without a host names the
// same repository as one with the default registry spelled out depends on a
// `core start` flag that init does not see; such pairs are never the basis of
// a violation (either behaviour is accepted, and reported as a class).
func checkPackages(r *explore.Run, pre, post *snap, cfg initCfg) []string {
	var classes []string
	reqs := map[string][]string{"Provider": cfg.Providers, "Configuration": cfg.Configurations, "Function": cfg.Functions}
	for _, kind := range pkgKinds {
		preK, postK := packagesOf(pre, kind), packagesOf(post, kind)
		preBy := map[string]pkgObj{}
		for _, p := range preK {
			preBy[p.Name] = p
		}
		postBy := map[string]pkgObj{}
		for _, p := range postK {
			postBy[p.Name] = p
		}
		mayChange := map[string]bool{}
		created := 0
		for _, q := range reqs[kind] {
			qr, ok := parseRef(q)
			if !ok {
				panic(explore.HarnessError{Msg: "request alphabet holds an invalid reference: " + q})
			}
			var same, alias []pkgObj
			for _, p := range preK {
				pr, ok := parseRef(p.Source)
				if !ok || pr.Repo != qr.Repo {
					continue
				}
				switch {
				case pr.Host == qr.Host:
					same = append(same, p)
				case normHost(pr.Host) == normHost(qr.Host):
					alias = append(alias, p)
				}
			}
			if len(same) > 0 {
				// Already installed: updated in place, nothing added.
				if len(postK) > len(preK) {
					r.Failf("pkg/duplicate/"+refShape(qr), "%s %q requested at install time; its repository was already installed as %v, yet a second object was created: before %v, after %v", kind, q, same, preK, postK)
				}
				for _, m := range same {
					got, ok := parseRef(postBy[m.Name].Source)
					if !ok || got != qr {
						r.Failf("pkg/not-updated/"+refShape(qr), "%s %q requested at install time; installed object %s keeps source %q", kind, q, m.Name, postBy[m.Name].Source)
					}
					mayChange[m.Name] = true
				}
				classes = append(classes, "updated-in-place")
				continue
			}
			var carriers []pkgObj
			for _, p := range postK {
				if pr, ok := parseRef(p.Source); ok && pr == qr {
					carriers = append(carriers, p)
				}
			}
			if len(carriers) != 1 {
				r.Failf("pkg/not-installed/"+refShape(qr), "%s %q requested at install time; objects with that source after init: %v (all: %v)", kind, q, carriers, postK)
			}
			c := carriers[0]
			was, existed := preBy[c.Name]
			switch {
			case !existed:
				created++
				if len(alias) > 0 {
					classes = append(classes, "installed-beside-default-registry-alias")
				} else {
					classes = append(classes, "installed-new")
				}
			case containsPkg(alias, was):
				classes = append(classes, "default-registry-alias-updated-in-place")
			case was.Name == derivedName(qr.Repo):
				// The request derives the name of an object that exists
				// for another registry: Kubernetes naming decides.
				classes = append(classes, "derived-name-taken-by-other-registry")
			default:
				r.Failf("pkg/clobbered/"+refShape(qr), "%s %q requested at install time; object %s, which installs the different repository %q under a custom name, was rewritten to %q", kind, q, was.Name, was.Source, c.Source)
			}
			mayChange[c.Name] = true
		}
		for _, p := range preK {
			if mayChange[p.Name] {
				continue
			}
			if got, ok := postBy[p.Name]; !ok || got.Source != p.Source || got.RV != p.RV {
				r.Failf("pkg/clobbered/unrelated-package", "%s %s, not requested at install time, changed from %q to %q (exists=%v)", kind, p.Name, p.Source, got.Source, ok)
			}
		}
		if len(postK) != len(preK)+created {
			r.Failf("pkg/unexpected-objects", "%s objects before %v, after %v, expected %d new", kind, preK, postK, created)
		}
		seen := map[string]string{}
		for _, p := range postK {
			pr, ok := parseRef(p.Source)
			if !ok {
				continue
			}
			id := pr.Host + "|" + pr.Repo
			if other, dup := seen[id]; dup {
				r.Failf("pkg/duplicate/"+refShape(pr), "two %s objects install the same image repository %s/%s: %s and %s", kind, pr.Host, pr.Repo, other, p.Name)
			}
			seen[id] = p.Name
		}
	}
	sort.Strings(classes)
	return classes
}

func containsPkg(l []pkgObj, p pkgObj) bool {
	for _, x := range l {
		if x.Name == p.Name {
			return true
		}
	}
	return false
}

// ---- migrated storage versions ---------------------------------------------------------------

var migrators = []struct{ crd, old string }{
	{"compositionrevisions.apiextensions.crossplane.io", "v1alpha1"},
	{"environmentconfigs.apiextensions.crossplane.io", "v1beta1"},
	{"usages.apiextensions.crossplane.io", "v1beta1"},
	{"functions.pkg.crossplane.io", "v1beta1"},
	{"functionrevisions.pkg.crossplane.io", "v1beta1"},
	{"locks.pkg.crossplane.io", "v1alpha1"},
}

// ---- everything a successful init promises ------------------------------------------------------

// checkPost evaluates the post-conditions of a history of init runs that
// started from pre and ended, with a successful run, in post. ref is the
// symbolic canonical store of a fresh install with the same configuration.
func checkPost(r *explore.Run, pre, post *snap, cfg initCfg, fresh *canon) []string {
	// Existing CA and certificates are kept.
	preCA := pre.secretData(caSecret)
	if len(preCA["tls.crt"]) > 0 && len(preCA["tls.key"]) > 0 && !sameData(preCA, post.secretData(caSecret)) {
		r.Failf("ca/regenerated", "the complete CA in %s was rewritten: %s -> %s", caSecret, pre.describeSecret(caSecret), post.describeSecret(caSecret))
	}
	ca := checkCA(r, post)
	type role struct {
		name, secret string
		usage        x509.ExtKeyUsage
		names        map[string]string
		on           bool
	}
	roles := []role{
		{"server", serverSecret, x509.ExtKeyUsageServerAuth, serviceDNSNames(), cfg.WebhookEnabled},
		{"client", clientSecret, x509.ExtKeyUsageClientAuth, map[string]string{"sa.ns": serviceAccount + "." + namespace}, true},
		{"ess-server", essSecret, x509.ExtKeyUsageServerAuth, map[string]string{"wildcard.ns": "plugin." + namespace}, cfg.ESS},
	}
	for _, ro := range roles {
		before := pre.secretData(ro.secret)
		if hasMaterial(before, "tls.crt", "tls.key", "ca.crt") {
			if !sameData(before, post.secretData(ro.secret)) {
				r.Failf("cert/"+ro.name+"/regenerated", "secret %s held certificate material and was rewritten: %s -> %s", ro.secret, pre.describeSecret(ro.secret), post.describeSecret(ro.secret))
			}
			continue
		}
		if !ro.on {
			continue
		}
		checkIssued(r, post, ro.name, ro.secret, ca, ro.usage, ro.names)
	}

	// Core CRDs exist, as a fresh install would have them.
	for _, n := range crdNamesOnDisk() {
		k := crdKey(n)
		if post.get(k) == nil {
			r.Failf("crds/missing", "core CRD %s does not exist after a successful init", n)
		}
	}
	pc := post.canonical()
	for k, want := range fresh.objs {
		if !strings.HasPrefix(k, crdGK.Kind+".") && !strings.HasPrefix(k, vwcGK.Kind+".") && !strings.HasPrefix(k, mwcGK.Kind+".") {
			continue
		}
		got, ok := pc.objs[k]
		if !ok {
			r.Failf("crds/missing", "%s does not exist after a successful init", k)
		}
		var paths []string
		diffAny(want["spec"], got["spec"], ".spec", &paths)
		diffAny(want["webhooks"], got["webhooks"], ".webhooks", &paths)
		if len(paths) > 0 {
			kind := "crd"
			if !strings.HasPrefix(k, crdGK.Kind+".") {
				kind = "webhookconfig"
			}
			if strings.Contains(strings.Join(paths, " "), "caBundle") {
				r.Failf("bundle/"+kind+"/stale", "%s does not carry the current CA bundle (fresh install != this store): %s", k, strings.Join(paths, "; "))
			}
			r.Failf("crds/differs-from-fresh-install/"+kind, "%s differs from what a fresh install applies (fresh != this store): %s", k, strings.Join(paths, "; "))
		}
	}
	if cfg.WebhookEnabled {
		checkBundles(r, post, cfg)
	}
	for _, m := range migrators {
		u := post.get(crdKey(m.crd))
		if u == nil {
			continue
		}
		sv, _, _ := unstructured.NestedStringSlice(u.Object, "status", "storedVersions")
		for _, v := range sv {
			if v == m.old {
				r.Failf("migrator/old-version-still-stored", "CRD %s still lists %s in status.storedVersions %v after a successful init", m.crd, m.old, sv)
			}
		}
	}
	checkDefaults(r, pre, post)
	return checkPackages(r, pre, post, cfg)
}
