package c20

import (
	"context"
	"fmt"
	"sort"
	"strings"

	"github.com/crossplane/crossplane-runtime/pkg/logging"

	"github.com/crossplane/crossplane/internal/initializer"
	"github.com/crossplane/crossplane/verif/explore"
	"github.com/crossplane/crossplane/verif/report"
	"github.com/crossplane/crossplane/verif/simkube"
	"github.com/crossplane/crossplane/verif/xrh"
)

// ---- scenario 3: the package installer step alone, every call a fault point ----------
//
// The installer lists the installed Providers, Configurations and Functions,
// then creates or updates one object per requested package. Every API call of
// one run of the step - the three Lists included - is answered with one of
// {ok, error-before, conflict, error-after, crash-before, crash-after}; then a
// fault-free run follows. Neither the aborted run nor the pair may leave a
// package object a single clean run would not have left (a second object for
// a package that is installed under a user-chosen name), and the pair must end
// in the clean run's store.

type instCase struct {
	name      string
	installed []pkgObj // objects present before init
}

func installerCases() []instCase {
	req := map[string]string{"Provider": "acme/provider-x:v2", "Configuration": "acme/configuration-w:v2", "Function": "registry.example.com/acme/function-y:v2"}
	var out []instCase
	out = append(out, instCase{name: "nothing-installed"})
	for _, k := range pkgKinds {
		out = append(out, instCase{name: "custom-named-" + strings.ToLower(k), installed: []pkgObj{{Kind: k, Name: "my-" + strings.ToLower(k), Source: strings.Replace(req[k], ":v2", ":v1", 1)}}})
	}
	var all []pkgObj
	for _, k := range pkgKinds {
		all = append(all, pkgObj{Kind: k, Name: "my-" + strings.ToLower(k), Source: strings.Replace(req[k], ":v2", ":v1", 1)})
	}
	out = append(out, instCase{name: "custom-named-all", installed: all})
	return out
}

func runInstaller(s *simkube.Store) (res result) {
	defer func() {
		if p := recover(); p != nil {
			if cr, ok := p.(simkube.Crash); ok {
				res.Crashed = &cr
				return
			}
			panic(p)
		}
	}()
	st := initializer.NewPackageInstaller([]string{"acme/provider-x:v2"}, []string{"acme/configuration-w:v2"}, []string{"registry.example.com/acme/function-y:v2"})
	res.Err = initializer.New(s.Client("init"), logging.NewNopLogger(), st).Init(context.TODO())
	return res
}

func pkgListing(s *simkube.Store) []string {
	var out []string
	sn := snapshot(s)
	for _, k := range pkgKinds {
		for _, p := range packagesOf(sn, k) {
			out = append(out, fmt.Sprintf("%s/%s=%s", p.Kind, p.Name, p.Source))
		}
	}
	sort.Strings(out)
	return out
}

func installerFaultBody(r *explore.Run, rep *report.R, sc string, cases []instCase) {
	ic := cases[r.Free(len(cases), "installed-packages")]
	xrh.BeginExecution(1)
	build := func() *simkube.Store {
		s := newStore()
		for _, o := range ic.installed {
			seedPackage(s, o.Kind, o.Name, o.Source)
		}
		return s
	}
	// Reference: one clean run.
	ref := build()
	if res := runInstaller(ref); !res.ok() {
		r.Failf("installer/fails", "a fault-free run of the package installer with %s stops with %s", ic.name, res)
	}
	want := pkgListing(ref)
	wantSet := map[string]bool{}
	names := map[string]bool{}
	for _, w := range want {
		wantSet[w] = true
		names[strings.SplitN(w, "=", 2)[0]] = true
	}

	s := build()
	// Direct, uncached client: no spurious 404 reads (see faultBody).
	inj := (&xrh.FaultInjector{Run: r, Reads: true}).WithErrClasses(s)
	s.Inj = inj
	inj.Armed = true
	res1 := runInstaller(s)
	inj.Armed = false
	mid := pkgListing(s)
	r.Logf("%s: run 1 %s, faults %v -> %v", ic.name, res1, inj.Taken, mid)
	if len(inj.Taken) == 0 && !res1.ok() {
		r.Failf("installer/fails", "a fault-free run stops with %s", res1)
	}
	for _, m := range mid {
		// An aborted run may have done only part of the work (an object not
		// yet updated), but must not have created an object the clean run
		// does not have.
		if !names[strings.SplitN(m, "=", 2)[0]] {
			r.Failf("installer/extra-object-after-faulted-run", "after a run with %v the cluster has package object %s; a clean run from the same store leaves exactly %v", inj.Taken, m, want)
		}
	}
	res2 := runInstaller(s)
	post := pkgListing(s)
	r.Logf("run 2 (fault-free) %s -> %v", res2, post)
	if !res2.ok() {
		r.Failf("installer/repeat-run-fails", "after run 1 ended with %q (faults %v) a fault-free run stops with %s", res1, inj.Taken, res2)
	}
	if strings.Join(post, " ") != strings.Join(want, " ") {
		r.Failf("installer/final-state-differs-from-clean-run", "faulted run (%v) + clean run leaves %v, a single clean run leaves %v", inj.Taken, post, want)
	}
	nt := ""
	if len(inj.Taken) > 0 {
		nt = report.Hash(sc, ic.name, inj.Taken)
	}
	rep.Eval(sc, report.Hash(ic.name, res1.ok(), mid), nt)
	if rep.WantSample() && len(inj.Taken) > 0 && len(ic.installed) > 0 {
		rep.Sample(map[string]any{"scenario": sc, "installed": ic.name, "faults": inj.Taken, "run1": res1.String(), "after_run1": mid, "final": post})
	}
}
