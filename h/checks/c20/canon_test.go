package c20

import (
	"encoding/base64"
	"encoding/json"
	"fmt"
	"sort"
	"strings"

	"k8s.io/apimachinery/pkg/apis/meta/v1/unstructured"
	"k8s.io/apimachinery/pkg/runtime/schema"

	"github.com/crossplane/crossplane/verif/simkube"
)

var (
	secretGK = schema.GroupKind{Kind: "Secret"}
	crdGK    = schema.GroupKind{Group: "apiextensions.k8s.io", Kind: "CustomResourceDefinition"}
	vwcGK    = schema.GroupKind{Group: "admissionregistration.k8s.io", Kind: "ValidatingWebhookConfiguration"}
	mwcGK    = schema.GroupKind{Group: "admissionregistration.k8s.io", Kind: "MutatingWebhookConfiguration"}

	lockKey = simkube.ObjKey{Group: "pkg.crossplane.io", Kind: "Lock", Name: "lock"}
	drcKey  = simkube.ObjKey{Group: "pkg.crossplane.io", Kind: "DeploymentRuntimeConfig", Name: "default"}
	scKey   = simkube.ObjKey{Group: "secrets.crossplane.io", Kind: "StoreConfig", Name: "default"}
)

func secretKey(name string) simkube.ObjKey {
	return simkube.ObjKey{Kind: "Secret", Namespace: namespace, Name: name}
}

func crdKey(name string) simkube.ObjKey {
	return simkube.ObjKey{Group: crdGK.Group, Kind: crdGK.Kind, Name: name}
}

// staleBundle is what "another CA bundle" looks like in seeded stores.
var staleBundle = base64.StdEncoding.EncodeToString([]byte("-----BEGIN CERTIFICATE-----\nc3RhbGU=\n-----END CERTIFICATE-----\n"))

// snap is an immutable copy of a store's contents.
type snap struct {
	objs  map[simkube.ObjKey]*unstructured.Unstructured
	keys  []simkube.ObjKey
	canon *canon
}

func snapshot(s *simkube.Store) *snap {
	sn := &snap{objs: map[simkube.ObjKey]*unstructured.Unstructured{}}
	for _, u := range s.Everything() {
		k := simkube.KeyOf(u)
		sn.objs[k] = u
		sn.keys = append(sn.keys, k)
	}
	return sn
}

func (sn *snap) get(k simkube.ObjKey) *unstructured.Unstructured { return sn.objs[k] }

func (sn *snap) rv(k simkube.ObjKey) string {
	if u := sn.objs[k]; u != nil {
		return u.GetResourceVersion()
	}
	return ""
}

func (sn *snap) all(gk schema.GroupKind) []*unstructured.Unstructured {
	var out []*unstructured.Unstructured
	for _, k := range sn.keys {
		if k.GK() == gk {
			out = append(out, sn.objs[k])
		}
	}
	return out
}

// secretData returns the decoded data of a secret (nil if the secret is
// absent; an empty map if it has no data).
func (sn *snap) secretData(name string) map[string][]byte {
	u := sn.objs[secretKey(name)]
	if u == nil {
		return nil
	}
	out := map[string][]byte{}
	data, _, _ := unstructured.NestedMap(u.Object, "data")
	for k, v := range data {
		s, _ := v.(string)
		b, err := base64.StdEncoding.DecodeString(s)
		if err != nil {
			b = []byte("!undecodable:" + s)
		}
		out[k] = b
	}
	return out
}

// describeSecret renders which keys of a secret hold material (never the
// material itself).
func (sn *snap) describeSecret(name string) string {
	d := sn.secretData(name)
	if d == nil {
		return name + "=absent"
	}
	var ks []string
	for k, v := range d {
		if len(v) > 0 {
			ks = append(ks, k)
		}
	}
	sort.Strings(ks)
	return fmt.Sprintf("%s={%s}", name, strings.Join(ks, ","))
}

func hasMaterial(d map[string][]byte, keys ...string) bool {
	for _, k := range keys {
		if len(d[k]) > 0 {
			return true
		}
	}
	return false
}

func sameData(a, b map[string][]byte) bool {
	if (a == nil) != (b == nil) || len(a) != len(b) {
		return false
	}
	for k, v := range a {
		w, ok := b[k]
		if !ok || string(v) != string(w) {
			return false
		}
	}
	return true
}

// symbols names every blob of key material held by a secret after the place
// it is stored at: RSA keys and certificates differ between executions, their
// roles do not. A blob stored at several places is named after the first one
// in the order CA, server, client, ESS, others.
func (sn *snap) symbols() map[string]string {
	tab := map[string]string{}
	add := func(u *unstructured.Unstructured) {
		if u == nil {
			return
		}
		data, _, _ := unstructured.NestedMap(u.Object, "data")
		ks := make([]string, 0, len(data))
		for k := range data {
			ks = append(ks, k)
		}
		sort.Strings(ks)
		for _, k := range ks {
			v, _ := data[k].(string)
			if v == "" {
				continue
			}
			if _, ok := tab[v]; !ok {
				tab[v] = "<" + u.GetName() + "/" + k + ">"
			}
		}
	}
	first := []string{caSecret, serverSecret, clientSecret, essSecret}
	done := map[string]bool{}
	for _, n := range first {
		add(sn.objs[secretKey(n)])
		done[n] = true
	}
	for _, u := range sn.all(secretGK) {
		if !done[u.GetName()] {
			add(u)
		}
	}
	return tab
}

// canon is the symbolic canonical form of a store: per object, its JSON
// without resourceVersion, uid, generation and time stamps, and with key
// material replaced by role names.
type canon struct {
	objs map[string]map[string]any
	text string
}

func (sn *snap) canonical() *canon {
	if sn.canon != nil {
		return sn.canon
	}
	tab := sn.symbols()
	c := &canon{objs: map[string]map[string]any{}}
	var b strings.Builder
	for _, k := range sn.keys {
		o := sn.objs[k].DeepCopy()
		o.SetResourceVersion("")
		o.SetUID("")
		o.SetGeneration(0)
		unstructured.RemoveNestedField(o.Object, "metadata", "creationTimestamp")
		mf := o.GetManagedFields()
		for i := range mf {
			mf[i].Time = nil
		}
		o.SetManagedFields(mf)
		m := symbolise(o.Object, "", tab).(map[string]any)
		c.objs[k.String()] = m
		j, _ := json.Marshal(m)
		b.WriteString(k.String())
		b.WriteString("=")
		b.Write(j)
		b.WriteString("\n")
	}
	c.text = b.String()
	sn.canon = c
	return c
}

func symbolise(v any, key string, tab map[string]string) any {
	switch t := v.(type) {
	case map[string]any:
		out := make(map[string]any, len(t))
		for k, vv := range t {
			out[k] = symbolise(vv, k, tab)
		}
		return out
	case []any:
		out := make([]any, len(t))
		for i, vv := range t {
			out[i] = symbolise(vv, key, tab)
		}
		return out
	case string:
		if s, ok := tab[t]; ok {
			return s
		}
		if key == "caBundle" && t != "" {
			if t == staleBundle {
				return "<stale-bundle>"
			}
			return "<bundle-held-by-no-secret>"
		}
	}
	return v
}

// diff lists what differs between two canonical stores (bounded).
func (c *canon) diff(o *canon) string {
	var out []string
	names := map[string]bool{}
	for k := range c.objs {
		names[k] = true
	}
	for k := range o.objs {
		names[k] = true
	}
	ks := make([]string, 0, len(names))
	for k := range names {
		ks = append(ks, k)
	}
	sort.Strings(ks)
	for _, k := range ks {
		a, aok := c.objs[k]
		b, bok := o.objs[k]
		switch {
		case !aok:
			out = append(out, "+"+k)
		case !bok:
			out = append(out, "-"+k)
		default:
			var paths []string
			diffAny(a, b, "", &paths)
			if len(paths) > 0 {
				if len(paths) > 4 {
					paths = append(paths[:4], "...")
				}
				out = append(out, k+": "+strings.Join(paths, "; "))
			}
		}
		if len(out) >= 8 {
			out = append(out, "...")
			break
		}
	}
	return strings.Join(out, " | ")
}

func diffAny(a, b any, path string, out *[]string) {
	if len(*out) > 6 {
		return
	}
	switch ta := a.(type) {
	case map[string]any:
		tb, ok := b.(map[string]any)
		if !ok {
			*out = append(*out, fmt.Sprintf("%s: %s != %s", path, short(a), short(b)))
			return
		}
		ks := map[string]bool{}
		for k := range ta {
			ks[k] = true
		}
		for k := range tb {
			ks[k] = true
		}
		sorted := make([]string, 0, len(ks))
		for k := range ks {
			sorted = append(sorted, k)
		}
		sort.Strings(sorted)
		for _, k := range sorted {
			va, oka := ta[k]
			vb, okb := tb[k]
			switch {
			case !oka:
				*out = append(*out, fmt.Sprintf("%s.%s: absent != %s", path, k, short(vb)))
			case !okb:
				*out = append(*out, fmt.Sprintf("%s.%s: %s != absent", path, k, short(va)))
			default:
				diffAny(va, vb, path+"."+k, out)
			}
		}
	case []any:
		tb, ok := b.([]any)
		if !ok || len(ta) != len(tb) {
			*out = append(*out, fmt.Sprintf("%s: %s != %s", path, short(a), short(b)))
			return
		}
		for i := range ta {
			diffAny(ta[i], tb[i], fmt.Sprintf("%s[%d]", path, i), out)
		}
	default:
		if fmt.Sprint(a) != fmt.Sprint(b) {
			*out = append(*out, fmt.Sprintf("%s: %s != %s", path, short(a), short(b)))
		}
	}
}

func short(v any) string {
	j, _ := json.Marshal(v)
	if len(j) > 90 {
		return string(j[:90]) + "..."
	}
	return string(j)
}

// effectiveWrites lists the effective writes logged since index from.
func effectiveWrites(s *simkube.Store, from int) []string {
	var out []string
	for _, w := range s.Log[from:] {
		if w.Effective {
			out = append(out, w.Call.String())
		}
	}
	return out
}
