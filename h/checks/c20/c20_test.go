// C20: initialisation is idempotent and never duplicates or clobbers existing
// state. The real step list of `crossplane core init` (cmd/crossplane/core/
// init.go) is run over simkube from enumerated initial cluster contents, once,
// repeatedly, and aborted by an API fault at every call and then repeated; an
// independent oracle judges the stored state (certificates with crypto/x509,
// CA bundles, default objects, packages) and a differential oracle compares
// final stores symbolically (key material replaced by role names).
package c20

import (
	"fmt"
	"os"
	"regexp"
	"sort"
	"strings"
	"testing"

	"github.com/crossplane/crossplane/verif/explore"
	"github.com/crossplane/crossplane/verif/report"
	"github.com/crossplane/crossplane/verif/simkube"
	"github.com/crossplane/crossplane/verif/xrh"
)

var nonWord = regexp.MustCompile(`[^a-z0-9]+`)

// errClass is the stable head of an init error ("cannot apply crd: ...").
func errClass(res result) string {
	s := res.String()
	if res.Crashed != nil {
		return "crashed"
	}
	s = strings.TrimPrefix(s, "error: ")
	if i := strings.Index(s, ":"); i > 0 {
		s = s[:i]
	}
	return strings.Trim(nonWord.ReplaceAllString(strings.ToLower(s), "-"), "-")
}

var roleSecrets = []struct{ role, secret string }{{"server", serverSecret}, {"client", clientSecret}, {"ess-server", essSecret}}

// checkKept: key material present in `before` is byte-identical in `after`.
func checkKept(r *explore.Run, when string, before, after *snap) {
	ca := before.secretData(caSecret)
	if len(ca["tls.crt"]) > 0 && len(ca["tls.key"]) > 0 && !sameData(ca, after.secretData(caSecret)) {
		r.Failf("ca/regenerated/"+when, "the complete CA in %s was rewritten (%s): %s -> %s", caSecret, when, before.describeSecret(caSecret), after.describeSecret(caSecret))
	}
	for _, rs := range roleSecrets {
		d := before.secretData(rs.secret)
		if hasMaterial(d, "tls.crt", "tls.key", "ca.crt") && !sameData(d, after.secretData(rs.secret)) {
			r.Failf("cert/"+rs.role+"/regenerated/"+when, "secret %s held certificate material and was rewritten (%s): %s -> %s", rs.secret, when, before.describeSecret(rs.secret), after.describeSecret(rs.secret))
		}
	}
}

func describeSecrets(sn *snap) string {
	var out []string
	for _, n := range []string{caSecret, serverSecret, clientSecret, essSecret} {
		if n == essSecret && sn.secretData(n) == nil {
			continue
		}
		out = append(out, sn.describeSecret(n))
	}
	return strings.Join(out, " ")
}

func keySet(sn *snap) string {
	ks := make([]string, 0, len(sn.keys))
	for _, k := range sn.keys {
		ks = append(ks, k.String())
	}
	sort.Strings(ks)
	return strings.Join(ks, ",")
}

func describePackages(sn *snap) string {
	var out []string
	for _, k := range pkgKinds {
		for _, p := range packagesOf(sn, k) {
			out = append(out, p.String())
		}
	}
	return "[" + strings.Join(out, " ") + "]"
}

// ---- scenario 1: repeated runs ----------------------------------------------------------

func idempotenceBody(r *explore.Run, rep *report.R, sc string, ic icase, runs int) {
	xrh.BeginExecution(1)
	s := ic.build()
	fresh := freshCanon(ic.cfg)
	pre := snapshot(s)
	r.Logf("initial store %s (%d objects; %s; packages %s); init %s", ic.name, len(pre.keys), describeSecrets(pre), describePackages(pre), ic.cfg)

	from := len(s.Log)
	res := runInit(s, ic.cfg, -1)
	post := snapshot(s)
	w1 := effectiveWrites(s, from)
	r.Logf("run 1: %s; %d effective writes %v; %s", res, len(w1), w1, describeSecrets(post))
	var classes []string
	if res.ok() {
		classes = checkPost(r, pre, post, ic.cfg, fresh)
	} else {
		if ic.refusal == "" || !strings.Contains(res.String(), ic.refusal) {
			r.Failf("init/fails/"+errClass(res), "a fault-free init from store %q stops with %s", ic.name, res)
		}
		checkKept(r, "refused-run", pre, post)
		classes = []string{"refused"}
	}
	c1 := post.canonical()
	prev := post
	rewrites := 0
	for n := 2; n <= runs; n++ {
		from = len(s.Log)
		resN := runInit(s, ic.cfg, -1)
		cur := snapshot(s)
		wn := effectiveWrites(s, from)
		rewrites += len(wn)
		r.Logf("run %d: %s; %d effective writes %v", n, resN, len(wn), wn)
		if resN.String() != res.String() {
			r.Failf("idempotence/repeat-run-result-differs/"+errClass(resN), "run 1 from store %q ended with %q, run %d with %q", ic.name, res, n, resN)
		}
		if cn := cur.canonical(); cn.text != c1.text {
			r.Failf("idempotence/state-differs-after-repeat-run", "store after run %d differs from the store after run 1 (run 1 != run %d): %s", n, n, c1.diff(cn))
		}
		for _, u := range prev.all(secretGK) {
			if !sameData(prev.secretData(u.GetName()), cur.secretData(u.GetName())) {
				r.Failf("idempotence/secret-rewritten", "run %d rewrote secret %s: %s -> %s", n, u.GetName(), prev.describeSecret(u.GetName()), cur.describeSecret(u.GetName()))
			}
		}
		for _, k := range []simkube.ObjKey{lockKey, scKey, drcKey} {
			if prev.get(k) != nil && prev.rv(k) != cur.rv(k) {
				r.Failf("idempotence/default-object-touched/"+k.Kind, "run %d modified the existing %s (resourceVersion %s -> %s)", n, k, prev.rv(k), cur.rv(k))
			}
		}
		prev = cur
	}
	nt := ""
	if !ic.trivial {
		nt = report.Hash(sc, ic.name)
	}
	rep.Eval(sc, report.Hash(res.String(), keySet(prev), describeSecrets(prev), w1, rewrites, classes), nt)
	if rep.WantSample() && !ic.trivial {
		rep.Sample(map[string]any{"scenario": sc, "initial_store": ic.name, "init": ic.cfg.String(), "run1": res.String(), "run1_effective_writes": len(w1), "repeat_run_effective_writes": rewrites, "secrets_after": describeSecrets(prev)})
	}
}

// ---- scenario 2: packages requested at install time -------------------------------------------

const pkgRepo = "acme/pkg-x"

var digest = "sha256:" + strings.Repeat("ab", 32)

type named struct{ name, v string }

func requestForms(thorough bool) []named {
	f := []named{
		{"registry-less:v1", pkgRepo + ":v1"},
		{"xpkg.upbound.io:v1", "xpkg.upbound.io/" + pkgRepo + ":v1"},
		{"default-registry:v1", defaultRegistry + "/" + pkgRepo + ":v1"},
		{"registry.example.com:v1", "registry.example.com/" + pkgRepo + ":v1"},
		{"registry.example.com@digest", "registry.example.com/" + pkgRepo + "@" + digest},
		{"registry-less:v2", pkgRepo + ":v2"},
		{"registry.example.com:v2", "registry.example.com/" + pkgRepo + ":v2"},
		// a registry host with a port: the port's colon is not a tag separator
		{"registry.local:5000@digest", "registry.local:5000/" + pkgRepo + "@" + digest},
		{"registry.local:5000:v2", "registry.local:5000/" + pkgRepo + ":v2"},
	}
	if thorough {
		f = append(f,
			named{"localhost:5000:v1", "localhost:5000/" + pkgRepo + ":v1"},
			named{"registry-less@digest", pkgRepo + "@" + digest},
			named{"xpkg.upbound.io:v2", "xpkg.upbound.io/" + pkgRepo + ":v2"},
			named{"default-registry:v2", defaultRegistry + "/" + pkgRepo + ":v2"},
			named{"registry.example.com/nested-path:v1", "registry.example.com/acme/team/pkg-x:v1"},
		)
	}
	return f
}

type installed struct {
	name string
	objs []named // object name, source
}

func installedSets(thorough bool) []installed {
	dn := derivedName(pkgRepo)
	hosts := []named{{"registry-less", ""}, {"default-registry", defaultRegistry + "/"}, {"registry.example.com", "registry.example.com/"}}
	out := []installed{{name: "none"}}
	for _, h := range hosts {
		out = append(out, installed{name: "derived-name/" + h.name, objs: []named{{dn, h.v + pkgRepo + ":v1"}}})
	}
	for _, h := range hosts {
		out = append(out, installed{name: "custom-name/" + h.name, objs: []named{{"my-pkg", h.v + pkgRepo + ":v1"}}})
	}
	out = append(out, installed{name: "different-repository", objs: []named{{"other", "registry.example.com/acme/other:v1"}}})
	out = append(out,
		installed{name: "custom-name/registry.local:5000", objs: []named{{"my-pkg", "registry.local:5000/" + pkgRepo + ":v1"}}},
		installed{name: "different-repository/registry.local:5000@digest", objs: []named{{"other", "registry.local:5000/acme/other@sha256:" + strings.Repeat("cd", 32)}}},
		// A package preloaded into the cache (its source is a file name, not
		// an image reference) is listed before the custom-named one.
		// Kubernetes object names are DNS subdomains: dots, and up to 253
		// characters - not what a derived (DNS label) name looks like.
		installed{name: "custom-dotted-name/registry.example.com", objs: []named{{"aws.prod", "registry.example.com/" + pkgRepo + ":v1"}}},
		installed{name: "custom-long-name/registry-less", objs: []named{{"my-" + strings.Repeat("very-", 13) + "long-pkg", pkgRepo + ":v1"}}},
		installed{name: "preloaded-file-name+custom-name/registry.example.com", objs: []named{{"a-preloaded", "Preloaded_Package.xpkg"}, {"my-pkg", "registry.example.com/" + pkgRepo + ":v1"}}},
	)
	if thorough {
		out = append(out,
			installed{name: "custom-name/xpkg.upbound.io", objs: []named{{"my-pkg", "xpkg.upbound.io/" + pkgRepo + ":v1"}}},
			installed{name: "custom-name/localhost:5000", objs: []named{{"my-pkg", "localhost:5000/" + pkgRepo + ":v1"}}},
			installed{name: "custom-name/registry.example.com@digest", objs: []named{{"my-pkg", "registry.example.com/" + pkgRepo + "@sha256:" + strings.Repeat("cd", 32)}}},
			installed{name: "custom-name/registry.example.com+different-repository", objs: []named{{"my-pkg", "registry.example.com/" + pkgRepo + ":v1"}, {"other", "registry.example.com/acme/other:v1"}}},
			installed{name: "custom-name/registry-less+custom-name/registry.example.com", objs: []named{{"my-pkg", pkgRepo + ":v1"}, {"their-pkg", "registry.example.com/" + pkgRepo + ":v1"}}},
			installed{name: "custom-name/not-a-reference", objs: []named{{"preloaded", "Preloaded_Package"}}},
			installed{name: "derived-name/different-repository-same-last-element", objs: []named{{dn, "registry.example.com/other-org/pkg-x:v1"}}},
		)
	}
	return out
}

type pkgCase struct {
	kind string
	req  named
	inst installed
}

func packageCases(thorough bool) []pkgCase {
	var out []pkgCase
	for _, in := range installedSets(thorough) {
		for _, f := range requestForms(thorough) {
			for _, k := range pkgKinds {
				out = append(out, pkgCase{kind: k, req: f, inst: in})
			}
		}
	}
	return out
}

func packagesBody(r *explore.Run, rep *report.R, sc string, pc pkgCase) {
	xrh.BeginExecution(1)
	cfg := cfgDefault
	switch pc.kind {
	case "Provider":
		cfg.Providers = []string{pc.req.v}
	case "Configuration":
		cfg.Configurations = []string{pc.req.v}
	case "Function":
		cfg.Functions = []string{pc.req.v}
	}
	s := fullStore(cfg)
	for _, o := range pc.inst.objs {
		seedPackage(s, pc.kind, o.name, o.v)
	}
	// A package of another kind with the same repository is never a match.
	otherKind := pkgKinds[(indexOf(pkgKinds, pc.kind)+1)%len(pkgKinds)]
	seedPackage(s, otherKind, "same-repo-other-kind", "registry.example.com/"+pkgRepo+":v0")
	fresh := freshCanon(cfg)
	pre := snapshot(s)
	r.Logf("%s requested as %q (%s); installed: %s %s", pc.kind, pc.req.v, pc.req.name, pc.inst.name, describePackages(pre))

	from := len(s.Log)
	res := runInit(s, cfg, -1)
	post := snapshot(s)
	r.Logf("run 1: %s; effective writes %v; packages %s", res, effectiveWrites(s, from), describePackages(post))
	if !res.ok() {
		r.Failf("init/fails/"+errClass(res), "a fault-free init of an initialised cluster with %s %q requested stops with %s", pc.kind, pc.req.v, res)
	}
	classes := checkPost(r, pre, post, cfg, fresh)
	r.Logf("classes %v", classes)

	from = len(s.Log)
	res2 := runInit(s, cfg, -1)
	post2 := snapshot(s)
	w2 := effectiveWrites(s, from)
	r.Logf("run 2: %s; effective writes %v; packages %s", res2, w2, describePackages(post2))
	if !res2.ok() {
		r.Failf("idempotence/repeat-run-result-differs/"+errClass(res2), "run 2 with %s %q requested stops with %s", pc.kind, pc.req.v, res2)
	}
	checkPackages(r, post, post2, cfg)
	if c1, c2 := post.canonical(), post2.canonical(); c1.text != c2.text {
		r.Failf("idempotence/state-differs-after-repeat-run", "store after run 2 differs from the store after run 1 (run 1 != run 2): %s", c1.diff(c2))
	}
	rep.Eval(sc, report.Hash(classes, describePackages(post2), len(w2)), report.Hash(sc, pc.kind, pc.req.name, pc.inst.name))
	if rep.WantSample() && len(pc.inst.objs) > 0 {
		rep.Sample(map[string]any{"scenario": sc, "kind": pc.kind, "requested": pc.req.v, "installed_before": describePackages(pre), "installed_after": describePackages(post2), "classes": classes})
	}
}

func indexOf(l []string, s string) int {
	for i, x := range l {
		if x == s {
			return i
		}
	}
	return -1
}

// ---- scenario 3: a run aborted by an API fault, then repeated -----------------------------------------

var cleanRefs = map[string]*canon{}

// cleanRef is the symbolic canonical store a single fault-free run reaches
// from the case's initial store.
func cleanRef(ic icase) *canon {
	if c, ok := cleanRefs[ic.name]; ok {
		return c
	}
	s := ic.build()
	if res := runInit(s, ic.cfg, -1); !res.ok() {
		panic(explore.Failure{Signature: "init/fails/" + errClass(res), Message: "a fault-free init from store \"" + ic.name + "\" stops with " + res.String()})
	}
	c := snapshot(s).canonical()
	cleanRefs[ic.name] = c
	return c
}

func faultBody(r *explore.Run, rep *report.R, sc string, cases []icase, reads bool) {
	ic := cases[r.Free(len(cases), "initial-store")]
	xrh.BeginExecution(1)
	ref := cleanRef(ic)
	fresh := freshCanon(ic.cfg)
	s := ic.build()
	pre := snapshot(s)
	r.Logf("initial store %s (%d objects; %s; packages %s); init %s", ic.name, len(pre.keys), describeSecrets(pre), describePackages(pre), ic.cfg)

	// The initializer talks to the API server through a direct, uncached
	// client (cmd/crossplane/core/init.go): a read never answers 404 for an
	// object that exists, so that fault is not offered here.
	inj := (&xrh.FaultInjector{Run: r, Reads: reads}).WithErrClasses(s)
	if !reads {
		// Quick tier: of the 17 CRD applies (identical code path, one call
		// pair each) only the first, a middle one and the conversion-webhook
		// CRD are fault points. The thorough tier faults every call.
		inj.Filter = func(c simkube.Call) bool {
			if c.Key.Kind != crdGK.Kind || c.Sub != "" {
				return true
			}
			switch c.Key.Name {
			case "compositeresourcedefinitions.apiextensions.crossplane.io", "functions.pkg.crossplane.io", "widgets.verif.crossplane.io":
				return true
			}
			return false
		}
	}
	s.Inj = inj
	inj.Armed = true
	res1 := runInit(s, ic.cfg, -1)
	inj.Armed = false
	mid := snapshot(s)
	r.Logf("run 1: %s; faults %v; %d effective writes; %s", res1, inj.Taken, len(effectiveWrites(s, 0)), describeSecrets(mid))
	if len(inj.Taken) == 0 && !res1.ok() {
		r.Failf("init/fails/"+errClass(res1), "a fault-free init from store %q stops with %s", ic.name, res1)
	}
	if res1.ok() {
		// error-after on the very last call still completes every step.
		checkPost(r, pre, mid, ic.cfg, fresh)
	}

	from := len(s.Log)
	res2 := runInit(s, ic.cfg, -1)
	post := snapshot(s)
	r.Logf("run 2 (fault-free): %s; effective writes %v; %s", res2, effectiveWrites(s, from), describeSecrets(post))
	if !res2.ok() {
		r.Failf("recovery/repeat-run-fails/"+errClass(res2), "after run 1 ended with %q (faults %v) a fault-free run stops with %s", res1, inj.Taken, res2)
	}
	checkKept(r, "by-run-after-abort", mid, post)
	classes := checkPost(r, pre, post, ic.cfg, fresh)
	if pc := post.canonical(); pc.text != ref.text {
		r.Failf("recovery/final-state-differs-from-clean-run", "aborted run (faults %v) + complete run ends in a store that differs from the one a single clean run reaches (clean != this): %s", inj.Taken, ref.diff(pc))
	}
	rep.Eval(sc, report.Hash(ic.name, res1.String(), keySet(mid), describeSecrets(mid), classes), report.Hash(sc, ic.name, inj.Taken))
	if rep.WantSample() && len(inj.Taken) > 0 && len(mid.keys) > len(pre.keys) {
		rep.Sample(map[string]any{"scenario": sc, "initial_store": ic.name, "faults": inj.Taken, "run1": res1.String(), "objects_after_aborted_run": len(mid.keys), "objects_final": len(post.keys), "secrets_after_aborted_run": describeSecrets(mid)})
	}
}

func TestCheck(t *testing.T) {
	rep := report.New("C20", "fault_enumeration")
	th := report.Thorough()
	icases, pcases, fcases := idempotenceCases(th), packageCases(th), faultCases(th)
	runs := 3
	rep.Meta(
		"Every case drives the real step list of `crossplane core init` (same constructors/options/order as cmd/crossplane/core/init.go; real RSA/x509, CRDs and webhook configurations parsed from <repo>/cluster) over simkube. "+
			"idempotence: initial store enumerated over {empty, Helm's empty secrets, fully initialised, after step i for every i, CA with only key / only cert x TLS secrets absent/complete, server/client secret lacking tls.crt|tls.key|ca.crt, server secret emptied, client secret removed, another CA bundle on every carrier, user-edited / user-made default objects, older release (old stored versions + custom resources + other bundles), CRDs removed} x step-list variants {webhooks + synthetic conversion-webhook CRD, production directory + ESS, webhooks disabled}; 3 runs each, post-conditions after run 1 and symbolic store equality / byte-identical secrets / unchanged resourceVersions after runs 2 and 3. "+
			"packages: kind x requested reference form x installed set, run twice on an initialised cluster. "+
			"abort-and-repeat: every API call of run 1 (thorough: reads too; quick: writes, with 3 of the 17 identical CRD applies) is a fault point {error-before, conflict, error-after, crash-before, crash-after} (<= 1 fault), then a fault-free run; final store must equal (symbolically) the store one clean run reaches from the same initial store, material present after the aborted run is kept, all post-conditions hold. "+
			"Non-trivial: initial store not empty, or a package list given, or a fault injected (distinct = distinct case identity incl. fault).",
		[]string{
			"simkube models the API server (create/update/merge-patch/status, optimistic concurrency, AlreadyExists)",
			"stores are compared symbolically: resourceVersion, uid, generation, time stamps dropped and every blob of key material replaced by the name of the secret key that holds it (RSA key bytes are never compared across runs; 'kept' means byte-identical within one history)",
			"'the current CA bundle' of a CRD / webhook configuration is judged operationally: the bundle must validate (crypto/x509 Verify, server auth) the serving certificate currently stored in the webhook TLS secret, and equal what a fresh install injects; the code injects that secret's tls.crt, not the root CA certificate",
			"no CRD in cluster/crds uses webhook conversion at this revision; a synthetic conversion-webhook CRD is added to an in-memory copy of the directory (CoreCRDs WithFs option) in the 'default' variant so that the injection branch runs",
			"image repository identity = registry host + repository path. A reference without host and one spelling out the default registry (xpkg.crossplane.io, a `core start` flag init does not see) are treated as possibly-same: neither updating in place nor installing beside is a violation for such pairs (reported as classes)",
			"a request may rewrite an object of another registry only when that object already has the name the request derives (Kubernetes naming); a custom-named object of a different repository must stay untouched",
			"a webhook TLS secret that has key material but no tls.crt makes init stop with 'cannot find tls.crt key' on every run (documented fail-fast; certificates are only generated into secrets without material): accepted as outcome 'refused', state must still be stable",
			"init.go contains no CRDWaiter step at this revision, so nothing polls or sleeps; CRDs are never 'established' in simkube and nothing depends on it",
			"fault points are API calls; a crash equals an abort of the one-shot init process; at most one fault per history",
		},
		[]string{"simkube", "crypto/x509 and crypto/tls (oracle)", "evanphx/json-patch (real)", "crossplane-runtime parser and APIPatchingApplicator (real, part of the code under test)"},
	)
	rep.Bound("runs_per_history", runs)
	rep.Bound("max_faults_per_history", 1)
	rep.Bound("initial_stores_idempotence", len(icases))
	rep.Bound("package_cases", len(pcases))
	rep.Bound("package_request_forms", len(requestForms(th)))
	rep.Bound("package_installed_sets", len(installedSets(th)))
	rep.Bound("initial_stores_abort_and_repeat", len(fcases))
	rep.Bound("read_calls_are_fault_points", th)
	if th {
		rep.Bound("fault_points", "every API call of run 1")
	} else {
		rep.Bound("fault_points", "every write call of run 1, except that only 3 of the 17 identical CRD applies are fault points")
	}
	rep.Note("RSA-2048 generation is real but does not dominate (about 0.1 s per key); parsing and applying the 16 core CRDs (0.5 s per run) does. Fully initialised input stores are produced once per process and cloned.")

	wrap := report.Bubble(t)
	// Scenario names carry the tier: case lists and fault points differ per
	// tier, and a violation artifact is replayed by scenario name + choices.
	scenarios := func(th bool) []report.Scenario {
		tier := map[bool]string{false: "quick", true: "thorough"}[th]
		icases, pcases, fcases := idempotenceCases(th), packageCases(th), faultCases(th)
		return []report.Scenario{
			// One flat, high-arity first choice over both input families, so
			// that the explorer's shards split the cases instead of
			// replaying them.
			{Name: "repeated-runs/" + tier, Bound: 0, Wrap: wrap, Body: func(r *explore.Run) {
				i := r.Free(len(icases)+len(pcases), "initial-store | kind*request*installed")
				if i < len(icases) {
					idempotenceBody(r, rep, "idempotence", icases[i], runs)
					return
				}
				packagesBody(r, rep, "packages", pcases[i-len(icases)])
			}},
			{Name: "abort-and-repeat/" + tier, Bound: 1, Wrap: wrap, Body: func(r *explore.Run) { faultBody(r, rep, "abort-and-repeat", fcases, th) }},
			{Name: "installer-faults/" + tier, Bound: 1, Wrap: wrap, Body: func(r *explore.Run) { installerFaultBody(r, rep, "installer-faults", installerCases()) }},
			{Name: "service-names/" + tier, Bound: 0, Wrap: wrap, Body: func(r *explore.Run) { dnsBody(r, rep, "service-names") }},
		}
	}
	scs := scenarios(th)
	if *report.ReplayF != "" {
		scs = append(scenarios(false), scenarios(true)...)
	}
	// Debugging aid: VERIF_C20_ONLY=<scenario name> runs one scenario.
	if only := os.Getenv("VERIF_C20_ONLY"); only != "" {
		var keep []report.Scenario
		for _, sc := range scs {
			if strings.HasPrefix(sc.Name, only+"/") {
				keep = append(keep, sc)
			}
		}
		scs = keep
		rep.Note("VERIF_C20_ONLY=%s: partial run", only)
	}
	if *report.ReplayF == "" {
		rep.SelfCheck(t, scs[0], nil)
	}
	rep.RunScenarios(t, scs)
	rep.Write(t)
	_ = fmt.Sprint
}
