package c20

import (
	"context"
	"fmt"
	"os"
	"path/filepath"
	"sync"

	"github.com/spf13/afero"
	admv1 "k8s.io/api/admissionregistration/v1"
	appsv1 "k8s.io/api/apps/v1"
	coordinationv1 "k8s.io/api/coordination/v1"
	corev1 "k8s.io/api/core/v1"
	rbacv1 "k8s.io/api/rbac/v1"
	extv1 "k8s.io/apiextensions-apiserver/pkg/apis/apiextensions/v1"
	extv1beta1 "k8s.io/apiextensions-apiserver/pkg/apis/apiextensions/v1beta1"
	"k8s.io/apimachinery/pkg/runtime"
	"k8s.io/apimachinery/pkg/runtime/schema"
	"k8s.io/apimachinery/pkg/types"

	"github.com/crossplane/crossplane-runtime/pkg/logging"

	"github.com/crossplane/crossplane/apis"
	"github.com/crossplane/crossplane/internal/initializer"
	"github.com/crossplane/crossplane/verif/simkube"
)

// The values the Helm chart (cluster/charts/crossplane/templates/deployment.yaml)
// passes to `crossplane core init`.
const (
	namespace      = "crossplane-system"
	serviceAccount = "crossplane"
	webhookService = "crossplane-webhooks"
	webhookPort    = int32(9443)
	caSecret       = "crossplane-root-ca"
	serverSecret   = "crossplane-tls-server"
	clientSecret   = "crossplane-tls-client"
	essSecret      = "ess-server-certs"
)

// scheme is the scheme cmd/crossplane/main.go builds for every subcommand.
var scheme = func() *runtime.Scheme {
	s := runtime.NewScheme()
	for _, add := range []func(*runtime.Scheme) error{
		corev1.AddToScheme, appsv1.AddToScheme, rbacv1.AddToScheme, coordinationv1.AddToScheme,
		extv1.AddToScheme, extv1beta1.AddToScheme, admv1.AddToScheme, apis.AddToScheme,
	} {
		if err := add(s); err != nil {
			panic(err)
		}
	}
	return s
}()

func repoRoot() string {
	if r := os.Getenv("VERIF_REPO"); r != "" {
		return r
	}
	return "/repo"
}

// conversionCRD is a synthetic core CRD with a conversion webhook. None of
// the CRDs in cluster/crds uses webhook conversion at the pinned revision, so
// the CA injection branch of CoreCRDs.Run would otherwise never run.
const conversionCRD = `---
apiVersion: apiextensions.k8s.io/v1
kind: CustomResourceDefinition
metadata:
  name: widgets.verif.crossplane.io
spec:
  group: verif.crossplane.io
  names:
    kind: Widget
    listKind: WidgetList
    plural: widgets
    singular: widget
  scope: Cluster
  conversion:
    strategy: Webhook
    webhook:
      conversionReviewVersions: ["v1"]
      clientConfig:
        service:
          name: webhook-service
          namespace: system
          path: /convert
  versions:
  - name: v1
    served: true
    storage: true
    schema:
      openAPIV3Schema:
        type: object
        x-kubernetes-preserve-unknown-fields: true
  - name: v1beta1
    served: true
    storage: false
    schema:
      openAPIV3Schema:
        type: object
        x-kubernetes-preserve-unknown-fields: true
`

var (
	memCRDsOnce sync.Once
	memCRDs     afero.Fs
)

// crdsWithConversion returns an in-memory copy of <repo>/cluster/crds plus the
// synthetic conversion-webhook CRD, mounted at /crds.
func crdsWithConversion() afero.Fs {
	memCRDsOnce.Do(func() {
		fs := afero.NewMemMapFs()
		dir := filepath.Join(repoRoot(), "cluster", "crds")
		ents, err := os.ReadDir(dir)
		if err != nil {
			panic(err)
		}
		for _, e := range ents {
			if e.IsDir() {
				continue
			}
			b, err := os.ReadFile(filepath.Join(dir, e.Name()))
			if err != nil {
				panic(err)
			}
			if err := afero.WriteFile(fs, "/crds/"+e.Name(), b, 0o644); err != nil {
				panic(err)
			}
		}
		if err := afero.WriteFile(fs, "/crds/verif.crossplane.io_widgets.yaml", []byte(conversionCRD), 0o644); err != nil {
			panic(err)
		}
		memCRDs = afero.NewReadOnlyFs(fs)
	})
	return memCRDs
}

// initCfg are the flags of `crossplane core init` (initCommand in
// cmd/crossplane/core/init.go) plus the choice of CRD directory.
type initCfg struct {
	Providers, Configurations, Functions []string
	WebhookEnabled                       bool
	ESS                                  bool
	// ConversionCRD adds the synthetic conversion-webhook CRD to the CRD
	// directory (read through CoreCRDs' WithFs option). Otherwise the step
	// reads <repo>/cluster/crds from the OS filesystem as in production.
	ConversionCRD bool
}

func (c initCfg) String() string {
	return fmt.Sprintf("webhooks=%v ess=%v conversionCRD=%v providers=%v configurations=%v functions=%v", c.WebhookEnabled, c.ESS, c.ConversionCRD, c.Providers, c.Configurations, c.Functions)
}

// steps reproduces the step list of initCommand.Run line by line: same
// constructors, same options, same order. Only the two directories differ
// (the container image has them at /crds and /webhookconfigurations).
func steps(c initCfg) []initializer.Step {
	log := logging.NewNopLogger()
	s := scheme
	crdPath := filepath.Join(repoRoot(), "cluster", "crds")
	whPath := filepath.Join(repoRoot(), "cluster", "webhookconfigurations")
	var crdOpts []initializer.CoreCRDsOption
	if c.ConversionCRD {
		crdPath = "/crds"
		crdOpts = append(crdOpts, initializer.WithFs(crdsWithConversion()))
	}
	essName := ""
	if c.ESS {
		essName = essSecret
	}
	port := webhookPort

	var steps []initializer.Step
	tlsGeneratorOpts := []initializer.TLSCertificateGeneratorOption{
		initializer.TLSCertificateGeneratorWithClientSecretName(clientSecret, []string{fmt.Sprintf("%s.%s", serviceAccount, namespace)}),
		initializer.TLSCertificateGeneratorWithLogger(log.WithValues("Step", "TLSCertificateGenerator")),
	}
	if c.WebhookEnabled {
		tlsGeneratorOpts = append(tlsGeneratorOpts,
			initializer.TLSCertificateGeneratorWithServerSecretName(serverSecret, initializer.DNSNamesForService(webhookService, namespace)))
	}
	steps = append(steps,
		initializer.NewTLSCertificateGenerator(namespace, caSecret, tlsGeneratorOpts...),
	)
	if c.WebhookEnabled {
		nn := types.NamespacedName{
			Name:      serverSecret,
			Namespace: namespace,
		}
		svc := admv1.ServiceReference{
			Name:      webhookService,
			Namespace: namespace,
			Port:      &port,
		}
		steps = append(steps,
			initializer.NewCoreCRDs(crdPath, s, append(crdOpts, initializer.WithWebhookTLSSecretRef(nn))...),
			initializer.NewWebhookConfigurations(whPath, s, nn, svc))
	} else {
		steps = append(steps,
			initializer.NewCoreCRDs(crdPath, s, crdOpts...),
		)
	}

	steps = append(steps,
		initializer.NewCoreCRDsMigrator("compositionrevisions.apiextensions.crossplane.io", "v1alpha1"),
		initializer.NewCoreCRDsMigrator("environmentconfigs.apiextensions.crossplane.io", "v1beta1"),
		initializer.NewCoreCRDsMigrator("usages.apiextensions.crossplane.io", "v1beta1"),
		initializer.NewCoreCRDsMigrator("functions.pkg.crossplane.io", "v1beta1"),
		initializer.NewCoreCRDsMigrator("functionrevisions.pkg.crossplane.io", "v1beta1"),
		initializer.NewCoreCRDsMigrator("locks.pkg.crossplane.io", "v1alpha1"),
	)

	if essName != "" {
		steps = append(steps, initializer.NewTLSCertificateGenerator(namespace, caSecret,
			initializer.TLSCertificateGeneratorWithServerSecretName(essName, []string{fmt.Sprintf("*.%s", namespace)}),
			initializer.TLSCertificateGeneratorWithLogger(log.WithValues("Step", "ESSCertificateGenerator")),
		))
	}

	steps = append(steps, initializer.NewLockObject(),
		initializer.NewPackageInstaller(c.Providers, c.Configurations, c.Functions),
		initializer.NewStoreConfigObject(namespace),
		initializer.StepFunc(initializer.DefaultDeploymentRuntimeConfig),
	)
	return steps
}

// stepNames labels the entries of steps(c) (for traces).
func stepNames(c initCfg) []string {
	n := []string{"TLSCertificateGenerator", "CoreCRDs"}
	if c.WebhookEnabled {
		n = append(n, "WebhookConfigurations")
	}
	n = append(n, "Migrator(compositionrevisions)", "Migrator(environmentconfigs)", "Migrator(usages)", "Migrator(functions)", "Migrator(functionrevisions)", "Migrator(locks)")
	if c.ESS {
		n = append(n, "ESSCertificateGenerator")
	}
	return append(n, "LockObject", "PackageInstaller", "StoreConfigObject", "DefaultDeploymentRuntimeConfig")
}

// result of one run of the initializer.
type result struct {
	Err     error
	Crashed *simkube.Crash
}

func (r result) String() string {
	switch {
	case r.Crashed != nil:
		return "crashed at " + r.Crashed.Call.String()
	case r.Err != nil:
		return "error: " + r.Err.Error()
	}
	return "ok"
}

func (r result) ok() bool { return r.Err == nil && r.Crashed == nil }

// runInit runs the first n steps (all when n < 0) of the real initializer
// against the store, as one process would.
func runInit(s *simkube.Store, c initCfg, n int) (res result) {
	st := steps(c)
	if n >= 0 {
		st = st[:n]
	}
	defer func() {
		if p := recover(); p != nil {
			if cr, ok := p.(simkube.Crash); ok {
				res.Crashed = &cr
				return
			}
			panic(p)
		}
	}()
	res.Err = initializer.New(s.Client("init"), logging.NewNopLogger(), st...).Init(context.TODO())
	return res
}

func newStore() *simkube.Store {
	s := simkube.New(scheme)
	for _, k := range []string{"Secret"} {
		s.NamespacedKinds[schema.GroupKind{Kind: k}] = true
	}
	return s
}
