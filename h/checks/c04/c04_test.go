// C04: every pipeline step sees exactly the state the function contract
// promises.
//
// Part A: all pipelines of 1..N steps over an alphabet of function programs
// (deterministic functions of their request) x observed states are run
// through the real XR reconciler (FunctionComposer + FetchingFunctionRunner +
// ExistingExtraResourcesFetcher, wired as in production) over simkube. A
// scripted FunctionRunner records a deep copy of every RunFunctionRequest and
// the function name it was addressed to; the recorded sequence, the events,
// the conditions and the applied objects are compared with a reference
// interpreter of the function contract (fn_test.go).
//
// Part B (runner_test.go): operation sequences against the real
// PackagedFunctionRunner talking to in-process gRPC servers on unix sockets.
package c04

import (
	"context"
	"encoding/json"
	"fmt"
	"sort"
	"strings"
	"testing"

	"google.golang.org/protobuf/proto"
	"google.golang.org/protobuf/types/known/structpb"
	corev1 "k8s.io/api/core/v1"
	metav1 "k8s.io/apimachinery/pkg/apis/meta/v1"
	"k8s.io/apimachinery/pkg/apis/meta/v1/unstructured"
	"k8s.io/apimachinery/pkg/runtime"
	"k8s.io/apimachinery/pkg/runtime/schema"
	"k8s.io/apimachinery/pkg/types"

	xpv1 "github.com/crossplane/crossplane-runtime/apis/common/v1"
	"github.com/crossplane/crossplane-runtime/pkg/event"
	"github.com/crossplane/crossplane-runtime/pkg/resource/unstructured/reference"

	fnv1 "github.com/crossplane/crossplane/apis/apiextensions/fn/proto/v1"
	v1 "github.com/crossplane/crossplane/apis/apiextensions/v1"
	xcomposite "github.com/crossplane/crossplane/internal/controller/apiextensions/composite"
	"github.com/crossplane/crossplane/verif/explore"
	"github.com/crossplane/crossplane/verif/report"
	"github.com/crossplane/crossplane/verif/simkube"
	"github.com/crossplane/crossplane/verif/xrh"
)

// maxIter is read from the code under test.
const maxIter = int(xcomposite.MaxRequirementsIterations)

// Observed states, prepared by real reconciles.
//
//	fresh    : the XR was never reconciled (no finalizer, no revision selected)
//	none     : reconciled XR without composed resources
//	composed : one composed resource "a" whose connection secret exists; XR bound to a claim
//	xrsecret : composed "a" (with secret) and "b"; the XR writes its own connection secret, which exists; bound to a claim
var observedStates = []string{"none", "composed", "xrsecret", "fresh"}

var secretGK = schema.GroupKind{Kind: "Secret"}
var configMapGK = schema.GroupKind{Kind: "ConfigMap"}

func configMap(name string, labels map[string]string) *unstructured.Unstructured {
	u := &unstructured.Unstructured{Object: map[string]any{"apiVersion": "v1", "kind": "ConfigMap", "data": map[string]any{"who": name}}}
	u.SetName(name)
	if labels != nil {
		u.SetLabels(labels)
	}
	return u
}

func secret(name string, data map[string][]byte) *corev1.Secret {
	return &corev1.Secret{TypeMeta: metav1.TypeMeta{APIVersion: "v1", Kind: "Secret"}, ObjectMeta: metav1.ObjectMeta{Namespace: secretNS, Name: name}, Data: data}
}

func pipelineComposition(prims []string) *v1.Composition {
	comp := xrh.PipelineComposition("comp")
	for i, p := range prims {
		st := v1.PipelineStep{Step: stepName(i), FunctionRef: v1.FunctionReference{Name: fnName(i, p)}}
		if in := stepInput(i, p); in != nil {
			raw, err := json.Marshal(in)
			if err != nil {
				panic(err)
			}
			st.Input = &runtime.RawExtension{Raw: raw}
		}
		creds := stepCreds(i, p)
		var cns []string
		for cn := range creds {
			cns = append(cns, cn)
		}
		sort.Strings(cns)
		for _, cn := range cns {
			st.Credentials = append(st.Credentials, v1.FunctionCredentials{Name: cn, Source: v1.FunctionCredentialsSourceSecret, SecretRef: &xpv1.SecretReference{Namespace: secretNS, Name: creds[cn]}})
		}
		comp.Spec.Pipeline = append(comp.Spec.Pipeline, st)
	}
	return comp
}

func setComposition(s *simkube.Store, prims []string) {
	s.Remove(simkube.ObjKey{Group: "apiextensions.crossplane.io", Kind: "Composition", Name: "comp"})
	for _, r := range s.All(v1.CompositionRevisionGroupVersionKind.GroupKind()) {
		s.Remove(simkube.KeyOf(r))
	}
	xrh.SeedComposition(s, pipelineComposition(prims))
	s.Mutate(xrh.XRKey("xr1"), func(u *unstructured.Unstructured) {
		unstructured.RemoveNestedField(u.Object, "spec", "compositionRevisionRef")
	})
}

func plainRunner() xrh.FunctionRunner {
	return func(_ context.Context, name string, req *fnv1.RunFunctionRequest) (*fnv1.RunFunctionResponse, error) {
		return behave(name, req, maxIter), nil
	}
}

var prepared = map[string]*simkube.Store{}

// samplesA limits the samples of Part A so that Part B gets some too.
var samplesA int

func prepare(state string) *simkube.Store {
	if p, ok := prepared[state]; ok {
		return p.Clone()
	}
	xrh.BeginExecution(3)
	s := xrh.NewStore()
	xrd := xrh.XRD()
	s.Seed(xrd)
	// What the selectors may match.
	s.Seed(configMap("cm-present", map[string]string{"set": "one"}))
	s.Seed(configMap("cm-two-a", map[string]string{"set": "two", "other": "x"}))
	s.Seed(configMap("cm-two-b", map[string]string{"set": "two"}))
	s.Seed(configMap("cm-other-only", map[string]string{"other": "x"}))
	s.Seed(configMap("cm-unlabelled", nil))
	s.Seed(configMap("cm-chain-0", nil))
	s.Seed(configMap("cm-chain-2", map[string]string{"set": "chain"}))
	s.Seed(configMap("cm-flip-1", nil))
	for i := 0; i < 6; i++ {
		s.Seed(secret(fmt.Sprintf("%s-%d", credSecret, i), map[string][]byte{"token": []byte(fmt.Sprintf("t0ken-%d", i)), "user": []byte("fn")}))
	}

	xr := xrh.XR("xr1", "comp")
	var prep []string
	switch state {
	case "fresh":
	case "none":
		prep = []string{"pass"}
	case "composed":
		prep = []string{"add-a"}
	case "xrsecret":
		prep = []string{"add-a", "add-b", "xr-status"}
		xr.SetWriteConnectionSecretToReference(&xpv1.SecretReference{Namespace: secretNS, Name: "xr-conn"})
	}
	if state == "composed" || state == "xrsecret" {
		xr.SetClaimReference(&reference.Claim{APIVersion: xrh.ClaimGVK.GroupVersion().String(), Kind: xrh.ClaimGVK.Kind, Namespace: "default", Name: "claim1"})
		s.Seed(xrh.Claim("default", "claim1"))
		s.Seed(secret("a-conn", map[string][]byte{"user": []byte("u1"), "pass": []byte("p1")}))
	}
	s.Seed(xr)
	if prep != nil {
		setComposition(s, prep)
		rec := xrh.NewXRReconciler(xrd, xrh.XROptions{Cached: s.Client("xr"), Runner: plainRunner()})
		if !xrh.ToQuiescence(s, rec, types.NamespacedName{Name: "xr1"}, 10, nil) {
			panic(explore.HarnessError{Msg: "preparation of state " + state + " did not quiesce"})
		}
	}
	prepared[state] = s.Clone()
	return s
}

// ---- observation ------------------------------------------------------------

type call struct {
	fname string
	req   *fnv1.RunFunctionRequest
}

type recEvent struct {
	kind string
	e    event.Event
}

type recorder struct{ events *[]recEvent }

func (r recorder) Event(o runtime.Object, e event.Event) {
	*r.events = append(*r.events, recEvent{kind: o.GetObjectKind().GroupVersionKind().Kind, e: e})
}
func (r recorder) WithAnnotations(...string) event.Recorder { return r }

func asStruct(u *unstructured.Unstructured) *structpb.Struct {
	s, err := structpb.NewStruct(u.Object)
	if err != nil {
		panic(explore.HarnessError{Msg: "stored object is not a struct: " + err.Error()})
	}
	return s
}

func secretData(s *simkube.Store, ns, name string) (map[string][]byte, bool) {
	sec := &corev1.Secret{}
	if !s.PeekInto(simkube.ObjKey{Kind: "Secret", Namespace: ns, Name: name}, sec) {
		return nil, false
	}
	return sec.Data, true
}

// connOf returns the connection details of an object as stored: the data of
// the secret its spec.writeConnectionSecretToRef names, if any.
func connOf(s *simkube.Store, u *unstructured.Unstructured) map[string][]byte {
	name, _, _ := unstructured.NestedString(u.Object, "spec", "writeConnectionSecretToRef", "name")
	ns, _, _ := unstructured.NestedString(u.Object, "spec", "writeConnectionSecretToRef", "namespace")
	if name == "" {
		return nil
	}
	d, _ := secretData(s, ns, name)
	return d
}

// snapshot builds, from the stored objects only, what the contract says the
// functions observe.
func snapshot(s *simkube.Store) *cluster {
	c := &cluster{secrets: map[string]map[string][]byte{}}
	xr := s.Peek(xrh.XRKey("xr1"))
	obs := &fnv1.State{Composite: &fnv1.Resource{Resource: asStruct(xr), ConnectionDetails: connOf(s, xr)}, Resources: map[string]*fnv1.Resource{}}
	refs, _, _ := unstructured.NestedSlice(xr.Object, "spec", "resourceRefs")
	for _, r := range refs {
		m, _ := r.(map[string]any)
		gv, _ := schema.ParseGroupVersion(fmt.Sprint(m["apiVersion"]))
		ns, _ := m["namespace"].(string)
		o := s.Peek(simkube.ObjKey{Group: gv.Group, Kind: fmt.Sprint(m["kind"]), Namespace: ns, Name: fmt.Sprint(m["name"])})
		if o == nil {
			continue
		}
		if ctl := metav1.GetControllerOf(o); ctl != nil && ctl.UID != xr.GetUID() {
			continue
		}
		obs.Resources[xrh.ResourceNameOf(o)] = &fnv1.Resource{Resource: asStruct(o), ConnectionDetails: connOf(s, o)}
	}
	c.observed = obs
	for _, cm := range s.All(configMapGK) {
		c.extras = append(c.extras, asStruct(cm))
	}
	for _, sec := range s.All(secretGK) {
		if sec.GetNamespace() == secretNS {
			d, _ := secretData(s, secretNS, sec.GetName())
			c.secrets[sec.GetName()] = d
		}
	}
	if ref, ok, _ := unstructured.NestedMap(xr.Object, "spec", "claimRef"); ok {
		c.hasClaim = s.Peek(xrh.ClaimKey(fmt.Sprint(ref["namespace"]), fmt.Sprint(ref["name"]))) != nil
	}
	return c
}

// ---- comparison -------------------------------------------------------------

func stateDiff(want, got *fnv1.State) string {
	if !proto.Equal(want.GetComposite().GetResource(), got.GetComposite().GetResource()) {
		return "composite.resource"
	}
	if !proto.Equal(want.GetComposite(), got.GetComposite()) {
		return "composite.connection_details"
	}
	for k, w := range want.GetResources() {
		g, ok := got.GetResources()[k]
		if !ok {
			return "resources[" + k + "] missing"
		}
		if !proto.Equal(w.GetResource(), g.GetResource()) {
			return "resources[" + k + "].resource"
		}
		if !proto.Equal(w, g) {
			return "resources[" + k + "].connection_details"
		}
	}
	for k := range got.GetResources() {
		if _, ok := want.GetResources()[k]; !ok {
			return "resources[" + k + "] unexpected"
		}
	}
	if !proto.Equal(want, got) {
		return "state"
	}
	return ""
}

// sortedItems orders supplied extra resources by name: the contract does not
// define the order of a label selector's matches.
func sortedItems(r *fnv1.Resources) []*fnv1.Resource {
	out := append([]*fnv1.Resource{}, r.GetItems()...)
	sort.SliceStable(out, func(i, j int) bool { return metaName(out[i].GetResource()) < metaName(out[j].GetResource()) })
	return out
}

func itemNames(rs []*fnv1.Resource) []string {
	var out []string
	for _, r := range rs {
		out = append(out, metaName(r.GetResource()))
	}
	return out
}

// extraDiff compares the extra resources of a request with the expected
// ones; it returns a signature and a description, or "".
func extraDiff(want, got map[string]*fnv1.Resources, round int) (string, string) {
	for k, g := range got {
		if _, ok := want[k]; !ok {
			if round == 0 {
				return "extra/supplied-before-required", fmt.Sprintf("extra resources %q (%v) supplied in the first call of a step, before the function required anything", k, itemNames(g.GetItems()))
			}
			return "extra/stale-resource-supplied", fmt.Sprintf("extra resources %q (%v) supplied although the latest requirements do not name %q", k, itemNames(g.GetItems()), k)
		}
	}
	for k, w := range want {
		g, ok := got[k]
		if !ok {
			return "extra/missing-resource", fmt.Sprintf("the latest requirements name %q (matching %v) but the request has no entry %q", k, itemNames(w.GetItems()), k)
		}
		wi, gi := sortedItems(w), sortedItems(g)
		wn, gn := itemNames(wi), itemNames(gi)
		if fmt.Sprint(wn) != fmt.Sprint(gn) {
			have := map[string]bool{}
			for _, n := range wn {
				have[n] = true
			}
			for _, n := range gn {
				if !have[n] {
					return "extra/wrong-resource-supplied", fmt.Sprintf("entry %q supplies %v, but the selector matches exactly %v", k, gn, wn)
				}
			}
			return "extra/missing-resource", fmt.Sprintf("entry %q supplies %v, but the selector matches exactly %v", k, gn, wn)
		}
		for i := range wi {
			if !proto.Equal(wi[i], gi[i]) {
				return "extra/resource-content", fmt.Sprintf("entry %q item %s differs from the stored object", k, wn[i])
			}
		}
	}
	return "", ""
}

// brief renders the parts of a request that vary between calls.
func brief(req *fnv1.RunFunctionRequest) string {
	var obs []string
	for k, v := range req.GetObserved().GetResources() {
		obs = append(obs, fmt.Sprintf("%s(conn:%d)", k, len(v.GetConnectionDetails())))
	}
	sort.Strings(obs)
	var des []string
	for k, v := range req.GetDesired().GetResources() {
		des = append(des, k+":"+specParam(v.GetResource()))
	}
	sort.Strings(des)
	var ex []string
	for k, v := range req.GetExtraResources() {
		ex = append(ex, fmt.Sprintf("%s=%v", k, itemNames(sortedItems(v))))
	}
	sort.Strings(ex)
	var cr []string
	for k := range req.GetCredentials() {
		cr = append(cr, k)
	}
	cj, _ := json.Marshal(req.GetContext().AsMap())
	ij, _ := json.Marshal(req.GetInput().AsMap())
	return fmt.Sprintf("observed{xrconn:%d res:%v} desired{xr:%v res:%v} context=%s(nil=%v) extra=%v input=%s creds=%v", len(req.GetObserved().GetComposite().GetConnectionDetails()), obs, req.GetDesired().GetComposite() != nil, des, cj, req.GetContext() == nil, ex, ij, cr)
}

func short(m proto.Message) string {
	s := fmt.Sprint(m)
	if len(s) > 600 {
		s = s[:600] + "..."
	}
	return s
}

func countByStep(n int, fn func(i int) string) map[string]int {
	out := map[string]int{}
	for i := 0; i < n; i++ {
		out[fn(i)]++
	}
	return out
}

// compareCalls checks the recorded request sequence against the expected one,
// sequence for sequence.
func compareCalls(r *explore.Run, prims []string, exp *expectation, got []call, failure string, faulted bool) {
	n := len(got)
	if len(exp.calls) < n {
		n = len(exp.calls)
	}
	for i := 0; i < n; i++ {
		w, g := exp.calls[i], got[i]
		where := fmt.Sprintf("pipeline %v, call %d (step %d %q, round %d)", prims, i, w.step, w.fname, w.round)
		if g.fname != w.fname {
			// A different number of rounds of the previous step shows up here.
			break
		}
		if d := stateDiff(w.req.GetObserved(), g.req.GetObserved()); d != "" {
			if i > 0 && stateDiff(got[0].req.GetObserved(), g.req.GetObserved()) != "" {
				r.Failf("observed/differs-between-steps", "%s: observed state differs from the one the first call of this reconcile got (%s)", where, d)
			}
			r.Failf("observed/not-stored-state", "%s: observed %s differs from the stored state at the start of Compose: want %s got %s", where, d, short(w.req.GetObserved()), short(g.req.GetObserved()))
		}
		if !proto.Equal(w.req.GetDesired(), g.req.GetDesired()) || (w.req.GetDesired() == nil) != (g.req.GetDesired() == nil) {
			if w.round == 0 {
				r.Failf("desired/not-threaded", "%s: desired state is not the one returned by the previous step (empty for the first): want %s got %s", where, short(w.req.GetDesired()), short(g.req.GetDesired()))
			}
			r.Failf("desired/changed-between-rounds", "%s: desired state changed between requirement rounds: want %s got %s", where, short(w.req.GetDesired()), short(g.req.GetDesired()))
		}
		if !proto.Equal(w.req.GetContext(), g.req.GetContext()) || (w.req.GetContext() == nil) != (g.req.GetContext() == nil) {
			if w.round == 0 {
				r.Failf("context/not-threaded", "%s: context is not the one returned by the previous step (empty for the first): want %s got %s", where, short(w.req.GetContext()), short(g.req.GetContext()))
			}
			r.Failf("context/not-refreshed-between-rounds", "%s: context is not the one the previous round returned: want %s got %s", where, short(w.req.GetContext()), short(g.req.GetContext()))
		}
		if sig, msg := extraDiff(w.req.GetExtraResources(), g.req.GetExtraResources(), w.round); sig != "" {
			r.Failf(sig, "%s: %s", where, msg)
		}
		if !proto.Equal(w.req.GetInput(), g.req.GetInput()) || (w.req.GetInput() == nil) != (g.req.GetInput() == nil) {
			r.Failf("input/wrong-step", "%s: input is not the step's own: want %s got %s", where, short(w.req.GetInput()), short(g.req.GetInput()))
		}
		if !proto.Equal(&fnv1.RunFunctionRequest{Credentials: w.req.GetCredentials()}, &fnv1.RunFunctionRequest{Credentials: g.req.GetCredentials()}) {
			r.Failf("credentials/wrong-step", "%s: credentials are not the step's own: want %v got %v", where, w.req.GetCredentials(), g.req.GetCredentials())
		}
		// Everything else (meta, fields a future proto adds), extra resources
		// compared above up to list order.
		wc, gc := proto.Clone(w.req).(*fnv1.RunFunctionRequest), proto.Clone(g.req).(*fnv1.RunFunctionRequest)
		wc.ExtraResources, gc.ExtraResources = nil, nil
		if !proto.Equal(wc, gc) {
			r.Failf("request/differs", "%s: request differs: want %s got %s", where, short(wc), short(gc))
		}
	}
	if faulted {
		// A failed read may end the pipeline early; the number of calls is
		// then not determined by the contract.
		return
	}
	// The sequences agree on their common prefix (or diverge in the function
	// addressed): compare the number of calls per function.
	wn := countByStep(len(exp.calls), func(i int) string { return exp.calls[i].fname })
	gn := countByStep(len(got), func(i int) string { return got[i].fname })
	for i, p := range prims {
		f := fnName(i, p)
		if gn[f] > maxIter+1 {
			r.Failf("rounds/exceeded", "pipeline %v: function %q was called %d times, more than MaxRequirementsIterations+1 = %d", prims, f, gn[f], maxIter+1)
		}
		if gn[f] > wn[f] {
			r.Failf("rounds/extra-call", "pipeline %v: function %q was called %d times, the contract needs %d (requirements of the last two rounds were equal, or the pipeline had already failed)", prims, f, gn[f], wn[f])
		}
		if gn[f] < wn[f] && gn[f] > 0 && strings.Contains(failure, "stabilize") && !(exp.fail == "unstable" && exp.failStep == i) {
			r.Failf("rounds/stable-step-failed", "pipeline %v: the requirements of function %q stabilise with call %d (<= MaxRequirementsIterations+1 = %d), yet after %d calls the reconcile failed: %s", prims, f, wn[f], maxIter+1, gn[f], failure)
		}
		if gn[f] < wn[f] {
			r.Failf("rounds/missing-call", "pipeline %v: function %q was called %d times, the contract needs %d (its requirements had not stabilised / the step was not reached)", prims, f, gn[f], wn[f])
		}
		delete(gn, f)
	}
	for f, k := range gn {
		r.Failf("route/unknown-function", "pipeline %v: %d call(s) addressed to %q, which no step names", prims, k, f)
	}
	for i := range exp.calls {
		if got[i].fname != exp.calls[i].fname {
			r.Failf("route/order", "pipeline %v: call %d addressed to %q, expected %q", prims, i, got[i].fname, exp.calls[i].fname)
		}
	}
}

func condsOf(u *unstructured.Unstructured) map[string]map[string]any {
	out := map[string]map[string]any{}
	cs, _, _ := unstructured.NestedSlice(u.Object, "status", "conditions")
	for _, c := range cs {
		m, _ := c.(map[string]any)
		out[fmt.Sprint(m["type"])] = m
	}
	return out
}

func str(v any) string {
	if v == nil {
		return ""
	}
	return fmt.Sprint(v)
}

func compareSurfaced(r *explore.Run, prims []string, exp *expectation, events []recEvent, xr *unstructured.Unstructured) {
	// Results -> events.
	var got []expEvent
	fatalSeen := false
	for _, ev := range events {
		if exp.fatalMsg != "" && ev.kind == "XThing" && ev.e.Type == event.TypeWarning && strings.Contains(ev.e.Message, exp.fatalMsg) {
			fatalSeen = true
		}
		if !strings.Contains(ev.e.Message, resultMarker) {
			continue
		}
		got = append(got, expEvent{onClaim: ev.kind == "Thing", warning: ev.e.Type == event.TypeWarning, reason: string(ev.e.Reason), message: ev.e.Message})
	}
	ws, gs := fmt.Sprint(exp.events), fmt.Sprint(got)
	if ws != gs {
		wm, gm := map[string]int{}, map[string]int{}
		for _, e := range exp.events {
			wm[e.String()]++
		}
		for _, e := range got {
			gm[e.String()]++
		}
		for k, n := range wm {
			if gm[k] < n {
				r.Failf("results/dropped", "pipeline %v: result event %s was not surfaced; expected %v, got %v", prims, k, exp.events, got)
			}
		}
		for k, n := range gm {
			if wm[k] < n {
				r.Failf("results/unexpected", "pipeline %v: event %s is not a result of the last response of a step that ran; expected %v, got %v", prims, k, exp.events, got)
			}
		}
		r.Failf("results/order", "pipeline %v: results are not surfaced in pipeline order; expected %v, got %v", prims, exp.events, got)
	}
	if exp.fatalMsg != "" && !fatalSeen {
		r.Failf("results/fatal-dropped", "pipeline %v: the fatal result %q was not surfaced as a warning event of the XR", prims, exp.fatalMsg)
	}
	// Conditions: last one of a type (in pipeline order) wins, none is dropped.
	have := condsOf(xr)
	last := map[string]expCond{}
	claimTypes := map[string]bool{}
	for _, c := range exp.conds {
		last[c.ctype] = c
		if c.claim {
			claimTypes[c.ctype] = true
		}
	}
	for t, c := range last {
		h, ok := have[t]
		if !ok {
			r.Failf("conditions/dropped", "pipeline %v: condition %s returned by a function is not on the XR", prims, t)
		}
		if str(h["status"]) != c.status || str(h["reason"]) != c.reason || str(h["message"]) != c.message {
			for _, o := range exp.conds {
				if o.ctype == t && str(h["status"]) == o.status && str(h["reason"]) == o.reason && str(h["message"]) == o.message {
					r.Failf("conditions/order", "pipeline %v: condition %s shows %v, the value of an earlier step; the last step to set it returned %+v", prims, t, h, c)
				}
			}
			r.Failf("conditions/wrong", "pipeline %v: condition %s shows %v, want %+v", prims, t, h, c)
		}
	}
	cts, _, _ := unstructured.NestedStringSlice(xr.Object, "status", "claimConditionTypes")
	for t := range claimTypes {
		found := false
		for _, x := range cts {
			found = found || x == t
		}
		if !found {
			r.Failf("conditions/claim-target-dropped", "pipeline %v: condition %s targets the claim but is not in status.claimConditionTypes %v", prims, t, cts)
		}
	}
}

// compareClaim: conditions that target the claim reach the claim - whatever
// their status - when the real claim reconciler runs next.
func compareClaim(r *explore.Run, prims []string, exp *expectation, s *simkube.Store, xrd *v1.CompositeResourceDefinition) {
	ck := xrh.ClaimKey("default", "claim1")
	if s.Peek(ck) == nil {
		return
	}
	last := map[string]expCond{}
	for _, c := range exp.conds {
		if c.claim {
			last[c.ctype] = c
		} else {
			delete(last, c.ctype)
		}
	}
	if len(last) == 0 {
		return
	}
	s.Mutate(ck, func(u *unstructured.Unstructured) {
		_ = unstructured.SetNestedMap(u.Object, map[string]any{"apiVersion": xrh.XRGVK.GroupVersion().String(), "kind": xrh.XRGVK.Kind, "name": "xr1"}, "spec", "resourceRef")
	})
	crec := xrh.NewClaimReconciler(xrd, s.Client("claim"), false)
	out := xrh.Reconcile(crec, types.NamespacedName{Namespace: "default", Name: "claim1"})
	have := condsOf(s.Peek(ck))
	for t, c := range last {
		h, ok := have[t]
		if !ok {
			r.Failf("conditions/claim/dropped", "pipeline %v: condition %s (status %s) targets the claim, but after the claim reconcile (err %v) the claim does not carry it; claim conditions %v", prims, t, c.status, out.Err, have)
		}
		if str(h["status"]) != c.status || str(h["reason"]) != c.reason || str(h["message"]) != c.message {
			r.Failf("conditions/claim/wrong", "pipeline %v: the claim shows condition %s as %v, the XR was given %+v", prims, t, h, c)
		}
	}
}

func specParam(s *structpb.Struct) string {
	return s.GetFields()["spec"].GetStructValue().GetFields()["param"].GetStringValue()
}

func compareFinal(r *explore.Run, prims []string, state string, exp *expectation, s *simkube.Store, xr *unstructured.Unstructured) {
	want := map[string]string{}
	for k, v := range exp.final.GetResources() {
		want[k] = specParam(v.GetResource())
	}
	got := map[string]string{}
	for _, o := range xrh.ComposedOf(s, xr.GetUID(), xrh.ComposedKinds...) {
		if o.GetDeletionTimestamp() != nil {
			continue
		}
		p, _, _ := unstructured.NestedString(o.Object, "spec", "param")
		got[xrh.ResourceNameOf(o)] = p
	}
	if fmt.Sprint(want) != fmt.Sprint(got) {
		r.Failf("final/desired-not-last-output", "pipeline %v (observed state %s): composed resources after the reconcile are %v (name:spec.param), the last step's last response desires %v", prims, state, got, want)
	}
	wantOut := exp.final.GetComposite().GetResource().GetFields()["status"].GetStructValue().GetFields()["out"].GetStringValue()
	gotOut, _, _ := unstructured.NestedString(xr.Object, "status", "out")
	if wantOut != gotOut {
		r.Failf("final/xr-status-not-last-output", "pipeline %v (observed state %s): XR status.out is %q, the last step's last response desires %q", prims, state, gotOut, wantOut)
	}
	if name, _, _ := unstructured.NestedString(xr.Object, "spec", "writeConnectionSecretToRef", "name"); name != "" {
		data, _ := secretData(s, secretNS, name)
		for k, v := range exp.final.GetComposite().GetConnectionDetails() {
			if string(data[k]) != string(v) {
				r.Failf("final/connection-details-not-last-output", "pipeline %v (observed state %s): XR connection secret has %s=%q, the last step's last response desires %q", prims, state, k, data[k], v)
			}
		}
	}
}

// ---- the scenario body --------------------------------------------------------

func pipelineBody(r *explore.Run, rep *report.R, scName string, nsteps int, alphabet []string) {
	pipelineBodyFaults(r, rep, scName, nsteps, alphabet, false)
}

// pipelineBodyFaults: with readFaults one read of the reconcile (a Get or List
// of the composer: XR secret, composed resources through the cache or - on a
// cache miss - the API server, extra resources, credential secrets) fails.
// Then the reconcile may stop early, but every request it did send must still
// be the promised one: in particular the observed state may not silently lack
// a composed resource that exists.
func pipelineBodyFaults(r *explore.Run, rep *report.R, scName string, nsteps int, alphabet []string, readFaults bool) {
	// High-arity choices first: the explorer shards on the first points.
	prims := make([]string, nsteps)
	for i := range prims {
		prims[i] = alphabet[r.Free(len(alphabet), fmt.Sprintf("step%d", i))]
	}
	state := observedStates[r.Free(len(observedStates), "observed")]

	s := prepare(state)
	xrh.BeginExecution(11)
	xrh.MapOrder(0)
	setComposition(s, prims)
	xrd := xrh.XRD()

	var calls []call
	var events []recEvent
	var atStart *cluster
	runner := xrh.FunctionRunner(func(_ context.Context, name string, req *fnv1.RunFunctionRequest) (*fnv1.RunFunctionResponse, error) {
		if len(calls) == 0 {
			// No write happens between the start of Compose and the first
			// function call: this is the state Compose started from.
			atStart = snapshot(s)
		}
		calls = append(calls, call{fname: name, req: proto.Clone(req).(*fnv1.RunFunctionRequest)})
		// The response is built from the copy and handed over untouched.
		return behave(name, calls[len(calls)-1].req, maxIter), nil
	})
	opts := xrh.XROptions{Cached: s.Client("xr"), Runner: runner, Recorder: recorder{&events}}
	inj := &xrh.FaultInjector{Run: r, Reads: true, NoCrash: true, Filter: func(c simkube.Call) bool { return !c.Write }}
	if readFaults {
		if r.Bool("composed-kinds-miss-the-cache") {
			opts.Cached = &xrh.MissingCache{Client: s.Client("xr"), Kinds: map[string]bool{xrh.ResA.Kind: true, xrh.ResB.Kind: true}}
			opts.Uncached = s.Client("xr-uncached")
		}
		s.Inj = inj
		// A failed read answers with any of the API server's error classes.
		inj.ErrClasses = xrh.ErrClassNames
		s.ErrBeforeFn = inj.ErrBefore
		inj.Armed = true
	}
	rec := xrh.NewXRReconciler(xrd, opts)
	out := xrh.Reconcile(rec, types.NamespacedName{Name: "xr1"})
	inj.Armed = false
	if out.Crashed != nil {
		panic(explore.HarnessError{Msg: "crash without fault injection"})
	}
	faulted := len(inj.Taken) > 0
	xrAfter := s.Peek(xrh.XRKey("xr1"))
	synced := condsOf(xrAfter)["Synced"]
	failed := out.Err != nil || str(synced["status"]) != "True"

	if atStart == nil {
		// No function was called; the world did not change in a way that
		// matters to the reference (it only decides that nothing runs).
		atStart = snapshot(s)
	}
	exp := interpret(prims, atStart, maxIter)

	perStep := make([]int, nsteps)
	for _, c := range calls {
		var i int
		if _, err := fmt.Sscanf(c.fname, "f%d-", &i); err == nil && i < nsteps {
			perStep[i]++
		}
	}
	r.Logf("state=%s pipeline=%v -> calls=%v err=%v synced=%v/%v reference: calls=%d fail=%q", state, prims, perStep, out.Err, synced["status"], synced["message"], len(exp.calls), exp.fail)

	if debugDump {
		for i, c := range calls {
			r.Logf("CALL %d %s: %s", i, c.fname, brief(c.req))
		}
		for i, c := range exp.calls {
			r.Logf("WANT %d %s: %s", i, c.fname, brief(c.req))
		}
		for _, e := range events {
			r.Logf("EVENT %s %s %s %q", e.kind, e.e.Type, e.e.Reason, e.e.Message)
		}
		r.Logf("XR after: status %v", xrAfter.Object["status"])
		r.Logf("expected events %v conds %+v final %v", exp.events, exp.conds, exp.final)
	}
	compareCalls(r, prims, exp, calls, str(synced["message"]), faulted)
	if faulted {
		r.Logf("read fault %v", inj.Taken)
		rep.Eval(scName, report.Hash(perStep, failed), report.Hash(state, prims, inj.Taken))
		return
	}

	switch exp.fail {
	case "":
		if failed {
			sig := "reconcile/unexpected-failure"
			if strings.Contains(str(synced["message"]), "stabilize") {
				sig = "rounds/stable-step-failed"
			}
			r.Failf(sig, "pipeline %v (observed state %s): every step's requirements stabilise within MaxRequirementsIterations+1 calls and nothing fails, yet the reconcile failed: err=%v Synced=%v", prims, state, out.Err, synced)
		}
		compareSurfaced(r, prims, exp, events, xrAfter)
		compareFinal(r, prims, state, exp, s, xrAfter)
		compareClaim(r, prims, exp, s, xrd)
	case "fatal":
		if !failed {
			r.Failf("fatal/not-failed", "pipeline %v: step %d returned a fatal result, yet the XR is Synced=True", prims, exp.failStep)
		}
		compareSurfaced(r, prims, exp, events, xrAfter)
	case "unstable":
		if !failed {
			r.Failf("rounds/unstable-not-failed", "pipeline %v: the requirements of step %d never stabilise, yet the XR is Synced=True", prims, exp.failStep)
		}
	case "cred":
		if !failed {
			r.Failf("credentials/missing-secret-not-failed", "pipeline %v: the credentials secret of step %d does not exist, yet the XR is Synced=True", prims, exp.failStep)
		}
	}

	var finalNames []string
	for k := range exp.final.GetResources() {
		finalNames = append(finalNames, k)
	}
	sort.Strings(finalNames)
	outcome := report.Hash(perStep, exp.fail, failed, finalNames, len(exp.events), len(exp.conds))
	nt := ""
	multi := nsteps >= 2
	for _, p := range prims {
		multi = multi || isReq(p)
	}
	if multi {
		nt = report.Hash(state, prims)
	}
	rep.Eval(scName, outcome, nt)
	if nt != "" && samplesA < 1 && rep.WantSample() && len(calls) > nsteps && nsteps > 1 && (len(finalNames) > 0 || exp.fail != "") {
		samplesA++
		rep.Sample(map[string]any{"scenario": scName, "observed_state": state, "pipeline": prims, "calls_per_step": perStep, "reference_failure": exp.fail, "final_desired": finalNames, "result_events": len(exp.events), "conditions": len(exp.conds)})
	}
}

func TestCheck(t *testing.T) {
	rep := report.New("C04", "exploration")
	rep.Meta(
		"Part A: every pipeline of 1..N steps over the primitive alphabet (function programs that are deterministic functions of their request) x every prepared observed state is run once through the real XR reconciler (FunctionComposer + FetchingFunctionRunner + ExistingExtraResourcesFetcher wired as in production) over simkube; a scripted FunctionRunner records a deep copy of every RunFunctionRequest with the function name addressed; the recorded sequence is compared request by request (proto.Equal) with a reference interpreter of the function contract, as are the result events (recording event.Recorder), the stored conditions and the applied objects. A case is non-trivial when the pipeline has >= 2 steps or contains a requirements step; distinct by (observed state, pipeline). Part B: every operation sequence of the stated depth over {run f, run g, switch f's active revision, change the active revision's endpoint, uninstall f, reinstall f, GC connections} against the real PackagedFunctionRunner and in-process gRPC servers on unix sockets, compared after every operation with a model of which server must receive the call.",
		[]string{
			"simkube models the API server",
			"function programs are deterministic functions of (their name, their request) and never alias request memory, like gRPC functions",
			"MaxRequirementsIterations is read from the composite package; a step is called once and then for at most that many further rounds (the reading of the loop bound the code implements)",
			"the order of the matches of a label selector is not part of the contract (compared as a set by name); a by-name selector that matches nothing supplies an entry without items (nil and empty entries are the same protobuf message)",
			"only the results and conditions of a step's last response (the one the requirements loop returns) are expected to be surfaced",
			"Part B uses real unix sockets and the real gRPC stack outside the synctest bubble; a 60 s context deadline is a watchdog only (a hit is a harness error, never a verdict)",
		},
		[]string{"simkube", "google.golang.org/protobuf (proto.Equal, proto.Clone, structpb)", "google.golang.org/grpc (client and server, Part B)", "structured-merge-diff (real)"},
	)
	n := 2
	if report.Thorough() {
		n = 3
	}
	rep.Bound("max_pipeline_steps", n)
	rep.Bound("primitives", primitives)
	rep.Bound("observed_states", observedStates)
	rep.Bound("max_requirements_iterations", maxIter)
	var scs []report.Scenario
	for k := 1; k <= n; k++ {
		k := k
		name := fmt.Sprintf("pipeline/steps%d", k)
		scs = append(scs, report.Scenario{Name: name, Bound: 0, Wrap: report.Bubble(t), Body: func(r *explore.Run) { pipelineBody(r, rep, name, k, primitives) }})
	}
	fa := []string{"pass", "add-a", "drop-a", "req-name", "req-labels2", "req-then", "cred", "xr-status"}
	scs = append(scs, report.Scenario{Name: "pipeline-read-faults/steps1", Bound: 1, Wrap: report.Bubble(t), Body: func(r *explore.Run) { pipelineBodyFaults(r, rep, "pipeline-read-faults/steps1", 1, fa, true) }})
	if report.Thorough() {
		scs = append(scs, report.Scenario{Name: "pipeline-read-faults/steps2", Bound: 1, Wrap: report.Bubble(t), Body: func(r *explore.Run) { pipelineBodyFaults(r, rep, "pipeline-read-faults/steps2", 2, fa, true) }})
	}
	rep.SelfCheck(t, scs[0], func() { prepared = map[string]*simkube.Store{} })
	// Part B first: it is small, and its samples then make it into the merged evidence.
	scs = append(runnerScenarios(t, rep), scs...)
	defer stopServers()
	rep.RunScenarios(t, scs)
	rep.Write(t)
}
