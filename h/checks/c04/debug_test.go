package c04

import (
	"fmt"
	"os"
	"strconv"
	"strings"
	"testing"

	"github.com/crossplane/crossplane/verif/explore"
	"github.com/crossplane/crossplane/verif/report"
)

var debugDump = false

// TestDebug replays one pipeline (C04_DEBUG="state:prim,prim,...") and dumps
// what was recorded. Skipped unless the variable is set.
func TestDebug(t *testing.T) {
	if o := os.Getenv("C04_DEBUG_OPS"); o != "" {
		var choices []int
		names := strings.Split(o, ",")
		for _, n := range names {
			for i, q := range runnerOps {
				if q == n {
					choices = append(choices, i)
				}
			}
		}
		rep := report.New("C04", "exploration")
		e := &explore.Explorer{Scenario: "debug", Bound: 0, Body: func(r *explore.Run) { runnerBody(r, rep, "debug", len(names)) }}
		run, fail := e.Replay(choices)
		for _, l := range run.Trace {
			fmt.Println(l)
		}
		if fail != nil {
			fmt.Printf("VIOLATION %s: %s\n", fail.Signature, fail.Message)
		}
		stopServers()
		return
	}
	spec := os.Getenv("C04_DEBUG")
	if spec == "" {
		t.Skip("C04_DEBUG not set")
	}
	parts := strings.SplitN(spec, ":", 2)
	ps := strings.Split(parts[1], ",")
	var choices []int
	for _, p := range ps {
		found := false
		for i, q := range primitives {
			if q == p {
				choices = append(choices, i)
				found = true
			}
		}
		if !found {
			t.Fatalf("unknown primitive %q", p)
		}
	}
	si := -1
	for i, s := range observedStates {
		if s == parts[0] {
			si = i
		}
	}
	if si < 0 {
		si, _ = strconv.Atoi(parts[0])
	}
	choices = append(choices, si)
	debugDump = true
	rep := report.New("C04", "exploration")
	e := &explore.Explorer{Scenario: "debug", Bound: 0, Wrap: report.Bubble(t), Body: func(r *explore.Run) { pipelineBody(r, rep, "debug", len(ps), primitives) }}
	run, fail := e.Replay(choices)
	for _, l := range run.Trace {
		fmt.Println(l)
	}
	if fail != nil {
		fmt.Printf("VIOLATION %s: %s\n", fail.Signature, fail.Message)
	}
	if st := e.LastStack(); st != "" {
		fmt.Println(st)
	}
}
