package c04

// The function programs of Part A (each a deterministic function of its own
// name and its request) and the reference interpreter of the function
// contract. Nothing in this file calls FunctionComposer or
// FetchingFunctionRunner code.

import (
	"fmt"
	"sort"
	"strings"

	"google.golang.org/protobuf/proto"
	"google.golang.org/protobuf/types/known/structpb"

	fnv1 "github.com/crossplane/crossplane/apis/apiextensions/fn/proto/v1"
)

// Primitive behaviours. A pipeline step running primitive p at index i calls
// the function named "f<i>-<p>" from the step named "s<i>".
var primitives = []string{
	"pass",
	"add-a", "add-b", "drop-a", "reorder", "mutate-a",
	"ctx-set", "ctx-over", "ctx-clear", "ctx-nil",
	"res-nc", "res-wc", "fatal",
	"cond-x", "cond-y",
	"xr-status",
	"req-name", "req-name-absent",
	"req-labels0", "req-labels1", "req-labels2", "req-labels-multi",
	"req-then", "req-drop", "req-chain", "req-flip",
	"input",
	"cred", "cred-absent",
}

const (
	resultMarker = "fnmsg:"
	fatalMarker  = "fatalmsg:"
	secretNS     = "default"
	credSecret   = "fn-creds"
	credMissing  = "fn-creds-missing"
)

func primOf(fname string) string { return fname[strings.Index(fname, "-")+1:] }

func fnName(i int, p string) string { return fmt.Sprintf("f%d-%s", i, p) }
func stepName(i int) string         { return fmt.Sprintf("s%d", i) }

// isReq: the primitive uses requirements (several rounds).
func isReq(p string) bool { return strings.HasPrefix(p, "req-") }

func mustStruct(m map[string]any) *structpb.Struct {
	s, err := structpb.NewStruct(m)
	if err != nil {
		panic(err)
	}
	return s
}

func desiredA(param string) *fnv1.Resource {
	return &fnv1.Resource{Ready: fnv1.Ready_READY_TRUE, Resource: mustStruct(map[string]any{
		"apiVersion": "res.example.org/v1", "kind": "ResA",
		"spec": map[string]any{"param": param, "for": "a", "writeConnectionSecretToRef": map[string]any{"name": "a-conn", "namespace": secretNS}},
	})}
}

func desiredB() *fnv1.Resource {
	return &fnv1.Resource{Ready: fnv1.Ready_READY_TRUE, Resource: mustStruct(map[string]any{
		"apiVersion": "res.example.org/v1", "kind": "ResB",
		"spec": map[string]any{"param": "p", "for": "b"},
	})}
}

func byName(name string) *fnv1.ResourceSelector {
	return &fnv1.ResourceSelector{ApiVersion: "v1", Kind: "ConfigMap", Match: &fnv1.ResourceSelector_MatchName{MatchName: name}}
}

func byLabels(set string) *fnv1.ResourceSelector {
	return &fnv1.ResourceSelector{ApiVersion: "v1", Kind: "ConfigMap", Match: &fnv1.ResourceSelector_MatchLabels{MatchLabels: &fnv1.MatchLabels{Labels: map[string]string{"set": set}}}}
}

func reqs(kv ...any) *fnv1.Requirements {
	r := &fnv1.Requirements{ExtraResources: map[string]*fnv1.ResourceSelector{}}
	for i := 0; i < len(kv); i += 2 {
		r.ExtraResources[kv[i].(string)] = kv[i+1].(*fnv1.ResourceSelector)
	}
	return r
}

func ctxNumber(c *structpb.Struct, key string) int {
	if v, ok := c.GetFields()[key]; ok {
		return int(v.GetNumberValue())
	}
	return 0
}

func items(req *fnv1.RunFunctionRequest, key string) int {
	return len(req.GetExtraResources()[key].GetItems())
}

func hasExtra(req *fnv1.RunFunctionRequest, key string) bool {
	_, ok := req.GetExtraResources()[key]
	return ok
}

// behave is the program of the function named fname. It works on a private
// copy of the request (as a gRPC function would) and never returns memory of
// the request.
func behave(fname string, in *fnv1.RunFunctionRequest, maxIter int) *fnv1.RunFunctionResponse {
	req := proto.Clone(in).(*fnv1.RunFunctionRequest)
	p := primOf(fname)
	rsp := &fnv1.RunFunctionResponse{Desired: req.GetDesired(), Context: req.GetContext()}
	des := func() *fnv1.State {
		if rsp.Desired == nil {
			rsp.Desired = &fnv1.State{}
		}
		if rsp.Desired.Resources == nil {
			rsp.Desired.Resources = map[string]*fnv1.Resource{}
		}
		return rsp.Desired
	}
	ctx := func() *structpb.Struct {
		if rsp.Context == nil {
			rsp.Context = &structpb.Struct{}
		}
		if rsp.Context.Fields == nil {
			rsp.Context.Fields = map[string]*structpb.Value{}
		}
		return rsp.Context
	}
	switch p {
	case "pass":
	case "add-a":
		des().Resources["a"] = desiredA("p")
	case "add-b":
		des().Resources["b"] = desiredB()
	case "drop-a":
		delete(des().Resources, "a")
	case "reorder":
		old := des().Resources
		var ks []string
		for k := range old {
			ks = append(ks, k)
		}
		sort.Sort(sort.Reverse(sort.StringSlice(ks)))
		n := map[string]*fnv1.Resource{}
		for _, k := range ks {
			n[k] = old[k]
		}
		rsp.Desired.Resources = n
	case "mutate-a":
		if _, ok := des().Resources["a"]; ok {
			des().Resources["a"] = desiredA("m")
		}
	case "ctx-set":
		ctx().Fields["k"] = structpb.NewStringValue("v1")
	case "ctx-over":
		saw := "<none>"
		if v, ok := ctx().Fields["k"]; ok {
			saw = v.GetStringValue()
		}
		ctx().Fields["k2"] = structpb.NewStringValue("saw:" + saw)
		ctx().Fields["k"] = structpb.NewStringValue("v2")
	case "ctx-clear":
		delete(ctx().Fields, "k")
	case "ctx-nil":
		rsp.Context = nil
	case "res-nc":
		rsp.Results = []*fnv1.Result{
			{Severity: fnv1.Severity_SEVERITY_NORMAL, Message: resultMarker + fname + ":1", Reason: proto.String("ReasonOne"), Target: fnv1.Target_TARGET_COMPOSITE.Enum()},
			{Severity: fnv1.Severity_SEVERITY_WARNING, Message: resultMarker + fname + ":2", Target: fnv1.Target_TARGET_COMPOSITE_AND_CLAIM.Enum()},
		}
	case "res-wc":
		rsp.Results = []*fnv1.Result{
			{Severity: fnv1.Severity_SEVERITY_WARNING, Message: resultMarker + fname + ":1"},
			{Severity: fnv1.Severity_SEVERITY_NORMAL, Message: resultMarker + fname + ":2", Reason: proto.String("ReasonTwo"), Target: fnv1.Target_TARGET_COMPOSITE_AND_CLAIM.Enum()},
		}
	case "fatal":
		rsp.Conditions = []*fnv1.Condition{{Type: "CustomF", Status: fnv1.Status_STATUS_CONDITION_TRUE, Reason: "Rf", Message: proto.String(fname)}}
		rsp.Results = []*fnv1.Result{
			{Severity: fnv1.Severity_SEVERITY_NORMAL, Message: resultMarker + fname + ":before"},
			{Severity: fnv1.Severity_SEVERITY_FATAL, Message: fatalMarker + fname},
		}
	case "cond-x":
		rsp.Conditions = []*fnv1.Condition{{Type: "CustomX", Status: fnv1.Status_STATUS_CONDITION_TRUE, Reason: "Rx", Message: proto.String(fname), Target: fnv1.Target_TARGET_COMPOSITE.Enum()}}
	case "cond-y":
		rsp.Conditions = []*fnv1.Condition{
			{Type: "CustomX", Status: fnv1.Status_STATUS_CONDITION_FALSE, Reason: "Ry", Message: proto.String(fname), Target: fnv1.Target_TARGET_COMPOSITE_AND_CLAIM.Enum()},
			{Type: "CustomY", Status: fnv1.Status_STATUS_CONDITION_UNKNOWN, Reason: "Ry2", Message: proto.String(fname)},
			{Type: "CustomZ", Status: fnv1.Status_STATUS_CONDITION_UNKNOWN, Reason: "Rz", Message: proto.String(fname), Target: fnv1.Target_TARGET_COMPOSITE_AND_CLAIM.Enum()},
		}
	case "xr-status":
		des().Composite = &fnv1.Resource{
			Resource:          mustStruct(map[string]any{"apiVersion": "example.org/v1", "kind": "XThing", "status": map[string]any{"out": fname}}),
			ConnectionDetails: map[string][]byte{"ck": []byte(fname)},
		}
	case "req-name":
		rsp.Requirements = reqs("cm", byName("cm-present"))
		ctx().Fields["seen-"+fname] = structpb.NewNumberValue(float64(items(req, "cm")))
	case "req-name-absent":
		rsp.Requirements = reqs("cm", byName("cm-absent"))
		ctx().Fields["seen-"+fname] = structpb.NewNumberValue(float64(items(req, "cm")))
	case "req-labels0", "req-labels1", "req-labels2":
		set := map[string]string{"req-labels0": "zero", "req-labels1": "one", "req-labels2": "two"}[p]
		rsp.Requirements = reqs("byl", byLabels(set), "also", byName("cm-present"))
		ctx().Fields["seen-"+fname] = structpb.NewNumberValue(float64(items(req, "byl")))
	case "req-labels-multi":
		// A selector with two labels: only resources carrying both match.
		sel := byLabels("two")
		sel.GetMatchLabels().Labels["other"] = "x"
		rsp.Requirements = reqs("byl", sel)
		ctx().Fields["seen-"+fname] = structpb.NewNumberValue(float64(items(req, "byl")))
	case "req-then":
		// Require x; once x was supplied require y instead (and no longer x).
		if hasExtra(req, "y") || items(req, "x") > 0 {
			rsp.Requirements = reqs("y", byLabels("two"))
		} else {
			rsp.Requirements = reqs("x", byName("cm-present"))
		}
		ctx().Fields["n-"+fname] = structpb.NewNumberValue(float64(ctxNumber(req.GetContext(), "n-"+fname) + 1))
	case "req-drop":
		// Require x in the first call only; afterwards require nothing.
		c := ctxNumber(req.GetContext(), "n-"+fname)
		if c == 0 {
			rsp.Requirements = reqs("x", byName("cm-present"))
		}
		ctx().Fields["n-"+fname] = structpb.NewNumberValue(float64(c + 1))
		ctx().Fields["seen-"+fname] = structpb.NewNumberValue(float64(items(req, "x")))
	case "req-chain":
		// Requirements change on every call until the last permitted one.
		c := ctxNumber(req.GetContext(), "n-"+fname)
		k := c
		if k > maxIter-1 {
			k = maxIter - 1
		}
		rsp.Requirements = reqs("cm", byName(fmt.Sprintf("cm-chain-%d", k)))
		ctx().Fields["n-"+fname] = structpb.NewNumberValue(float64(c + 1))
	case "req-flip":
		c := ctxNumber(req.GetContext(), "n-"+fname)
		rsp.Requirements = reqs("cm", byName(fmt.Sprintf("cm-flip-%d", c%2)))
		ctx().Fields["n-"+fname] = structpb.NewNumberValue(float64(c + 1))
	case "input":
		if req.GetInput() != nil {
			ctx().Fields["input-"+fname] = structpb.NewStructValue(req.GetInput())
		} else {
			ctx().Fields["input-"+fname] = structpb.NewStringValue("<nil>")
		}
	case "cred", "cred-absent":
		var ns []string
		for n, c := range req.GetCredentials() {
			ns = append(ns, n+"="+string(c.GetCredentialData().GetData()["token"]))
		}
		sort.Strings(ns)
		ctx().Fields["cred-"+fname] = structpb.NewStringValue(strings.Join(ns, ","))
	default:
		panic("unknown primitive " + p)
	}
	return rsp
}

// ---- the step configuration (what the Composition says) ---------------------

func stepInput(i int, p string) map[string]any {
	if p != "input" {
		return nil
	}
	return map[string]any{"apiVersion": "fn.example.org/v1", "kind": "Input", "step": stepName(i), "obj": map[string]any{"n": float64(i + 1), "list": []any{"x", true}}}
}

// stepCreds returns credential name -> secret name.
func stepCreds(i int, p string) map[string]string {
	switch p {
	// Every step calls its credentials "creds" (names are local to a step);
	// each step's reference points at its own secret with its own data.
	case "cred":
		return map[string]string{"creds": fmt.Sprintf("%s-%d", credSecret, i)}
	case "cred-absent":
		return map[string]string{"creds": credMissing}
	}
	return nil
}

// ---- the reference interpreter ----------------------------------------------

// cluster is what the reference knows about the API server at the start of
// Compose.
type cluster struct {
	observed *fnv1.State                  // built by the harness from the stored objects
	extras   []*structpb.Struct           // every stored ConfigMap
	secrets  map[string]map[string][]byte // secret name (in secretNS) -> data
	hasClaim bool
}

type expCall struct {
	fname       string
	step, round int
	req         *fnv1.RunFunctionRequest
}

type expEvent struct {
	onClaim bool
	warning bool
	reason  string
	message string
}

func (e expEvent) String() string {
	o, t := "XR", "Normal"
	if e.onClaim {
		o = "claim"
	}
	if e.warning {
		t = "Warning"
	}
	return fmt.Sprintf("%s/%s/%s/%q", o, t, e.reason, e.message)
}

type expCond struct {
	ctype, status, reason, message string
	claim                          bool
}

type expectation struct {
	calls    []expCall
	fail     string // "" | "fatal" | "unstable" | "cred"
	failStep int
	fatalMsg string
	final    *fnv1.State
	events   []expEvent
	conds    []expCond
}

func metaName(s *structpb.Struct) string {
	return s.GetFields()["metadata"].GetStructValue().GetFields()["name"].GetStringValue()
}

func metaLabels(s *structpb.Struct) map[string]string {
	out := map[string]string{}
	for k, v := range s.GetFields()["metadata"].GetStructValue().GetFields()["labels"].GetStructValue().GetFields() {
		out[k] = v.GetStringValue()
	}
	return out
}

// fetch returns the extra resources matching one selector: by name the one
// object or an entry without items; by labels every object carrying all the
// labels.
func (c *cluster) fetch(sel *fnv1.ResourceSelector) *fnv1.Resources {
	out := &fnv1.Resources{}
	for _, o := range c.extras {
		if o.GetFields()["kind"].GetStringValue() != sel.GetKind() || o.GetFields()["apiVersion"].GetStringValue() != sel.GetApiVersion() {
			continue
		}
		switch m := sel.GetMatch().(type) {
		case *fnv1.ResourceSelector_MatchName:
			if metaName(o) == m.MatchName {
				out.Items = append(out.Items, &fnv1.Resource{Resource: o})
			}
		case *fnv1.ResourceSelector_MatchLabels:
			ok := true
			ls := metaLabels(o)
			for k, v := range m.MatchLabels.GetLabels() {
				if ls[k] != v {
					ok = false
				}
			}
			if ok {
				out.Items = append(out.Items, &fnv1.Resource{Resource: o})
			}
		}
	}
	return out
}

func hasFatal(rsp *fnv1.RunFunctionResponse) bool {
	for _, r := range rsp.GetResults() {
		if r.GetSeverity() == fnv1.Severity_SEVERITY_FATAL {
			return true
		}
	}
	return false
}

func sameRequirements(a, b *fnv1.Requirements) bool {
	if a == nil || b == nil {
		return a == nil && b == nil
	}
	return proto.Equal(a, b)
}

// interpret runs the pipeline the way the function contract describes it.
func interpret(prims []string, c *cluster, maxIter int) *expectation {
	e := &expectation{}
	desired := &fnv1.State{}
	fctx := &structpb.Struct{Fields: map[string]*structpb.Value{}}
	for i, p := range prims {
		fname := fnName(i, p)
		req := &fnv1.RunFunctionRequest{Observed: c.observed, Desired: desired, Context: fctx, Credentials: map[string]*fnv1.Credentials{}}
		if in := stepInput(i, p); in != nil {
			req.Input = mustStruct(in)
		}
		for cn, sn := range stepCreds(i, p) {
			data, ok := c.secrets[sn]
			if !ok {
				e.fail, e.failStep = "cred", i
				return e
			}
			req.Credentials[cn] = &fnv1.Credentials{Source: &fnv1.Credentials_CredentialData{CredentialData: &fnv1.CredentialData{Data: data}}}
		}
		var rsp *fnv1.RunFunctionResponse
		var prev *fnv1.Requirements
		// One call, then at most maxIter further rounds.
		for round := 0; ; round++ {
			e.calls = append(e.calls, expCall{fname: fname, step: i, round: round, req: proto.Clone(req).(*fnv1.RunFunctionRequest)})
			rsp = behave(fname, req, maxIter)
			if hasFatal(rsp) {
				break
			}
			if sameRequirements(rsp.GetRequirements(), prev) {
				break
			}
			if round == maxIter {
				e.fail, e.failStep = "unstable", i
				return e
			}
			prev = rsp.GetRequirements()
			next := proto.Clone(req).(*fnv1.RunFunctionRequest)
			next.ExtraResources = map[string]*fnv1.Resources{}
			for name, sel := range prev.GetExtraResources() {
				next.ExtraResources[name] = c.fetch(sel)
			}
			next.Context = rsp.GetContext()
			req = next
		}
		for _, cd := range rsp.GetConditions() {
			st := "Unknown"
			switch cd.GetStatus() {
			case fnv1.Status_STATUS_CONDITION_TRUE:
				st = "True"
			case fnv1.Status_STATUS_CONDITION_FALSE:
				st = "False"
			}
			e.conds = append(e.conds, expCond{ctype: cd.GetType(), status: st, reason: cd.GetReason(), message: cd.GetMessage(), claim: cd.GetTarget() == fnv1.Target_TARGET_COMPOSITE_AND_CLAIM})
		}
		for _, rs := range rsp.GetResults() {
			if rs.GetSeverity() == fnv1.Severity_SEVERITY_FATAL {
				e.fail, e.failStep, e.fatalMsg = "fatal", i, rs.GetMessage()
				return e
			}
			reason := rs.GetReason()
			if reason == "" {
				reason = "ComposeResources"
			}
			ev := expEvent{warning: rs.GetSeverity() == fnv1.Severity_SEVERITY_WARNING, reason: reason, message: fmt.Sprintf("Pipeline step %q: %s", stepName(i), rs.GetMessage())}
			e.events = append(e.events, ev)
			if rs.GetTarget() == fnv1.Target_TARGET_COMPOSITE_AND_CLAIM && c.hasClaim {
				ev.onClaim, ev.message = true, rs.GetMessage()
				e.events = append(e.events, ev)
			}
		}
		desired, fctx = rsp.GetDesired(), rsp.GetContext()
	}
	e.final = desired
	return e
}
