package c04

import (
	"testing"

	"github.com/crossplane/crossplane/verif/report"
)

func runnerScenarios(t *testing.T, rep *report.R) []report.Scenario { return nil }
func stopServers()                                                  {}
