package c04

// Part B: operation sequences against the real PackagedFunctionRunner. The
// functions are in-process gRPC servers on unix sockets (real sockets, real
// gRPC stack), so these scenarios run outside the synctest bubble. The oracle
// never looks at the clock: it only compares which server recorded which
// request with a model of the installed functions and their revisions.

import (
	"context"
	"errors"
	"fmt"
	"net"
	"os"
	"path/filepath"
	"strings"
	"sync"
	"testing"
	"time"

	"google.golang.org/grpc"
	"google.golang.org/protobuf/proto"
	"google.golang.org/protobuf/types/known/durationpb"
	"google.golang.org/protobuf/types/known/structpb"
	metav1 "k8s.io/apimachinery/pkg/apis/meta/v1"
	"k8s.io/apimachinery/pkg/apis/meta/v1/unstructured"

	fnv1 "github.com/crossplane/crossplane/apis/apiextensions/fn/proto/v1"
	fnv1beta1 "github.com/crossplane/crossplane/apis/apiextensions/fn/proto/v1beta1"
	pkgv1 "github.com/crossplane/crossplane/apis/pkg/v1"
	"github.com/crossplane/crossplane/internal/xfn"
	"github.com/crossplane/crossplane/verif/explore"
	"github.com/crossplane/crossplane/verif/report"
	"github.com/crossplane/crossplane/verif/simkube"
	"github.com/crossplane/crossplane/verif/xrh"
)

// delivery is one request received by one server, and what it answered.
type delivery struct {
	server string
	req    proto.Message // *fnv1.RunFunctionRequest or *fnv1beta1.RunFunctionRequest
	rsp    proto.Message
}

type fnEnv struct {
	dir       string
	endpoints map[string]string // server id -> gRPC target
	grpcs     []*grpc.Server

	mu  sync.Mutex
	log []delivery
}

func (e *fnEnv) record(d delivery) {
	e.mu.Lock()
	defer e.mu.Unlock()
	e.log = append(e.log, d)
}

func (e *fnEnv) take() []delivery {
	e.mu.Lock()
	defer e.mu.Unlock()
	out := e.log
	e.log = nil
	return out
}

// v1Server answers the v1 RPC.
type v1Server struct {
	fnv1.UnimplementedFunctionRunnerServiceServer
	id  string
	env *fnEnv
}

func richResponseFields(id, tag string) (*structpb.Struct, *structpb.Struct) {
	ctx := mustStruct(map[string]any{"server": id, "tag": tag, "nested": map[string]any{"n": 1.5, "l": []any{nil, false, "s"}}})
	res := mustStruct(map[string]any{"apiVersion": "res.example.org/v1", "kind": "ResA", "spec": map[string]any{"from": id}})
	return ctx, res
}

func (s *v1Server) RunFunction(_ context.Context, req *fnv1.RunFunctionRequest) (*fnv1.RunFunctionResponse, error) {
	ctx, res := richResponseFields(s.id, req.GetMeta().GetTag())
	rsp := &fnv1.RunFunctionResponse{
		Meta:    &fnv1.ResponseMeta{Tag: req.GetMeta().GetTag(), Ttl: durationpb.New(90 * time.Second)},
		Desired: &fnv1.State{Composite: &fnv1.Resource{Resource: res, ConnectionDetails: map[string][]byte{"k": {0, 1, 255}}, Ready: fnv1.Ready_READY_FALSE}, Resources: map[string]*fnv1.Resource{"a": {Resource: res, Ready: fnv1.Ready_READY_TRUE}}},
		Context: ctx,
		Results: []*fnv1.Result{{Severity: fnv1.Severity_SEVERITY_WARNING, Message: "from " + s.id, Reason: proto.String("Why"), Target: fnv1.Target_TARGET_COMPOSITE_AND_CLAIM.Enum()}},
		Requirements: &fnv1.Requirements{ExtraResources: map[string]*fnv1.ResourceSelector{
			"n": {ApiVersion: "v1", Kind: "ConfigMap", Match: &fnv1.ResourceSelector_MatchName{MatchName: "x"}},
			"l": {ApiVersion: "v1", Kind: "ConfigMap", Match: &fnv1.ResourceSelector_MatchLabels{MatchLabels: &fnv1.MatchLabels{Labels: map[string]string{"a": "b"}}}},
		}},
		Conditions: []*fnv1.Condition{{Type: "Custom", Status: fnv1.Status_STATUS_CONDITION_FALSE, Reason: "R", Message: proto.String("m"), Target: fnv1.Target_TARGET_COMPOSITE.Enum()}},
	}
	s.env.record(delivery{server: s.id, req: proto.Clone(req), rsp: proto.Clone(rsp)})
	return rsp, nil
}

// betaServer answers the v1beta1 RPC only; its gRPC server does not register
// the v1 service at all.
type betaServer struct {
	fnv1beta1.UnimplementedFunctionRunnerServiceServer
	id  string
	env *fnEnv
}

func (s *betaServer) RunFunction(_ context.Context, req *fnv1beta1.RunFunctionRequest) (*fnv1beta1.RunFunctionResponse, error) {
	ctx, res := richResponseFields(s.id, req.GetMeta().GetTag())
	rsp := &fnv1beta1.RunFunctionResponse{
		Meta:    &fnv1beta1.ResponseMeta{Tag: req.GetMeta().GetTag(), Ttl: durationpb.New(30 * time.Second)},
		Desired: &fnv1beta1.State{Composite: &fnv1beta1.Resource{Resource: res, ConnectionDetails: map[string][]byte{"k": {0, 1, 255}}, Ready: fnv1beta1.Ready_READY_TRUE}, Resources: map[string]*fnv1beta1.Resource{"a": {Resource: res, Ready: fnv1beta1.Ready_READY_FALSE}}},
		Context: ctx,
		Results: []*fnv1beta1.Result{{Severity: fnv1beta1.Severity_SEVERITY_NORMAL, Message: "from " + s.id, Reason: proto.String("Why"), Target: fnv1beta1.Target_TARGET_COMPOSITE.Enum()}},
		Requirements: &fnv1beta1.Requirements{ExtraResources: map[string]*fnv1beta1.ResourceSelector{
			"n": {ApiVersion: "v1", Kind: "ConfigMap", Match: &fnv1beta1.ResourceSelector_MatchName{MatchName: "x"}},
			"l": {ApiVersion: "v1", Kind: "ConfigMap", Match: &fnv1beta1.ResourceSelector_MatchLabels{MatchLabels: &fnv1beta1.MatchLabels{Labels: map[string]string{"a": "b"}}}},
		}},
		Conditions: []*fnv1beta1.Condition{{Type: "Custom", Status: fnv1beta1.Status_STATUS_CONDITION_TRUE, Reason: "R", Message: proto.String("m"), Target: fnv1beta1.Target_TARGET_COMPOSITE_AND_CLAIM.Enum()}},
	}
	s.env.record(delivery{server: s.id, req: proto.Clone(req), rsp: proto.Clone(rsp)})
	return rsp, nil
}

var (
	theEnv    *fnEnv
	theEnvErr error
)

// servers starts (once per process) the function servers: A, B, C speak v1, G
// speaks only v1beta1.
func servers() (*fnEnv, error) {
	if theEnv != nil || theEnvErr != nil {
		return theEnv, theEnvErr
	}
	dir, err := os.MkdirTemp("", "c04-")
	if err != nil {
		theEnvErr = err
		return nil, err
	}
	e := &fnEnv{dir: dir, endpoints: map[string]string{}}
	for _, id := range []string{"A", "B", "C", "G"} {
		path := filepath.Join(dir, id+".sock")
		lis, err := net.Listen("unix", path)
		if err != nil {
			theEnvErr = err
			e.stop()
			return nil, err
		}
		g := grpc.NewServer()
		if id == "G" {
			fnv1beta1.RegisterFunctionRunnerServiceServer(g, &betaServer{id: id, env: e})
		} else {
			fnv1.RegisterFunctionRunnerServiceServer(g, &v1Server{id: id, env: e})
		}
		go func() { _ = g.Serve(lis) }()
		e.grpcs = append(e.grpcs, g)
		e.endpoints[id] = "unix://" + path
	}
	theEnv = e
	return e, nil
}

func (e *fnEnv) stop() {
	for _, g := range e.grpcs {
		g.Stop()
	}
	_ = os.RemoveAll(e.dir)
}

func stopServers() {
	if theEnv != nil {
		theEnv.stop()
		theEnv = nil
	}
}

// richRequest exercises every field of a RunFunctionRequest.
func richRequest(tag string) *fnv1.RunFunctionRequest {
	xr := mustStruct(map[string]any{"apiVersion": "example.org/v1", "kind": "XThing", "metadata": map[string]any{"name": "xr1", "generation": 3.0}, "spec": map[string]any{"param": "p", "list": []any{1.0, "two", nil, map[string]any{"k": true}}}})
	res := mustStruct(map[string]any{"apiVersion": "res.example.org/v1", "kind": "ResA", "metadata": map[string]any{"name": "a-1"}})
	return &fnv1.RunFunctionRequest{
		Meta:     &fnv1.RequestMeta{Tag: tag},
		Observed: &fnv1.State{Composite: &fnv1.Resource{Resource: xr, ConnectionDetails: map[string][]byte{"xr-key": []byte("v"), "empty": {}}}, Resources: map[string]*fnv1.Resource{"a": {Resource: res, ConnectionDetails: map[string][]byte{"user": []byte("u")}}}},
		Desired:  &fnv1.State{Composite: &fnv1.Resource{Resource: xr, Ready: fnv1.Ready_READY_TRUE}, Resources: map[string]*fnv1.Resource{"a": {Resource: res, Ready: fnv1.Ready_READY_FALSE}, "b": {Resource: res}}},
		Input:    mustStruct(map[string]any{"apiVersion": "fn.example.org/v1", "kind": "Input", "n": 1.0}),
		Context:  mustStruct(map[string]any{"k": "v", "deep": map[string]any{"x": []any{}}}),
		ExtraResources: map[string]*fnv1.Resources{
			"x":    {Items: []*fnv1.Resource{{Resource: res}, {Resource: xr}}},
			"none": {},
		},
		Credentials: map[string]*fnv1.Credentials{"c": {Source: &fnv1.Credentials_CredentialData{CredentialData: &fnv1.CredentialData{Data: map[string][]byte{"token": []byte("t")}}}}},
	}
}

var samplesB int

var runnerOps = []string{"run-f", "run-g", "switch-f", "endpoint-f", "uninstall-f", "reinstall-f", "gc"}

var (
	fnGK  = simkube.ObjKey{Group: "pkg.crossplane.io", Kind: "Function"}
	revGK = simkube.ObjKey{Group: "pkg.crossplane.io", Kind: "FunctionRevision"}
)

func fnKey(name string) simkube.ObjKey  { k := fnGK; k.Name = name; return k }
func revKey(name string) simkube.ObjKey { k := revGK; k.Name = name; return k }

func function(name string) *pkgv1.Function {
	return &pkgv1.Function{TypeMeta: metav1.TypeMeta{APIVersion: "pkg.crossplane.io/v1", Kind: "Function"}, ObjectMeta: metav1.ObjectMeta{Name: name},
		Spec: pkgv1.FunctionSpec{PackageSpec: pkgv1.PackageSpec{Package: "example.org/" + name + ":v1"}}}
}

func revision(fn, name string, active bool, endpoint string) *pkgv1.FunctionRevision {
	ds := pkgv1.PackageRevisionInactive
	if active {
		ds = pkgv1.PackageRevisionActive
	}
	return &pkgv1.FunctionRevision{TypeMeta: metav1.TypeMeta{APIVersion: "pkg.crossplane.io/v1", Kind: "FunctionRevision"},
		ObjectMeta: metav1.ObjectMeta{Name: name, Labels: map[string]string{pkgv1.LabelParentPackage: fn}},
		Spec:       pkgv1.FunctionRevisionSpec{PackageRevisionSpec: pkgv1.PackageRevisionSpec{DesiredState: ds, Package: "example.org/" + fn + ":v1", Revision: 1}},
		Status:     pkgv1.FunctionRevisionStatus{Endpoint: endpoint}}
}

// fModel is the reference model of function f.
type fModel struct {
	installed bool
	active    int       // 0 none, 1 rev1, 2 rev2
	ep        [3]string // ep[1], ep[2]: server id of the revision's endpoint, "" = empty endpoint
	cached    bool      // the runner has (should have) a cached connection for f
}

func nextEndpoint(rev int, cur string) string {
	primary := map[int]string{1: "A", 2: "B"}[rev]
	switch cur {
	case primary:
		return "C"
	case "C":
		return ""
	}
	return primary
}

func toV1Request(m proto.Message) (*fnv1.RunFunctionRequest, error) {
	if v, ok := m.(*fnv1.RunFunctionRequest); ok {
		return v, nil
	}
	b, err := proto.Marshal(m)
	if err != nil {
		return nil, err
	}
	out := &fnv1.RunFunctionRequest{}
	return out, proto.Unmarshal(b, out)
}

func toV1Response(m proto.Message) (*fnv1.RunFunctionResponse, error) {
	if v, ok := m.(*fnv1.RunFunctionResponse); ok {
		return v, nil
	}
	b, err := proto.Marshal(m)
	if err != nil {
		return nil, err
	}
	out := &fnv1.RunFunctionResponse{}
	return out, proto.Unmarshal(b, out)
}

func runnerBody(r *explore.Run, rep *report.R, scName string, depth int) {
	ops := make([]string, depth)
	for i := range ops {
		ops[i] = runnerOps[r.Free(len(runnerOps), fmt.Sprintf("op%d", i))]
	}
	env, err := servers()
	if err != nil {
		panic(explore.HarnessError{Msg: "cannot start function servers: " + err.Error()})
	}
	env.take()
	s := xrh.NewStore()
	setEndpoint := func(rev int, id string) {
		target := ""
		if id != "" {
			target = env.endpoints[id]
		}
		s.Mutate(revKey(fmt.Sprintf("f-rev%d", rev)), func(u *unstructured.Unstructured) {
			if target == "" {
				unstructured.RemoveNestedField(u.Object, "status", "endpoint")
				return
			}
			_ = unstructured.SetNestedField(u.Object, target, "status", "endpoint")
		})
	}
	setActive := func(active int) {
		for rev := 1; rev <= 2; rev++ {
			ds := string(pkgv1.PackageRevisionInactive)
			if rev == active {
				ds = string(pkgv1.PackageRevisionActive)
			}
			s.Mutate(revKey(fmt.Sprintf("f-rev%d", rev)), func(u *unstructured.Unstructured) {
				_ = unstructured.SetNestedField(u.Object, ds, "spec", "desiredState")
			})
		}
	}
	install := func(m *fModel, ep1 string) {
		s.Seed(function("f"))
		// The inactive revision sorts first when rev2 is the active one.
		s.Seed(revision("f", "f-rev1", true, env.endpoints[ep1]))
		s.Seed(revision("f", "f-rev2", false, env.endpoints["B"]))
		m.installed, m.active, m.ep = true, 1, [3]string{"", ep1, "B"}
	}
	m := &fModel{}
	install(m, "A")
	s.Seed(function("g"))
	s.Seed(revision("g", "g-rev0", false, env.endpoints["A"])) // an old, inactive revision
	s.Seed(revision("g", "g-rev1", true, env.endpoints["G"]))
	gCached := false

	runner := xfn.NewPackagedFunctionRunner(s.Client("xfn"))
	defer func() {
		// Close every connection of this execution.
		for _, k := range []simkube.ObjKey{fnKey("f"), fnKey("g")} {
			s.Remove(k)
		}
		_, _ = runner.GarbageCollectConnectionsNow(context.Background())
	}()
	ctx, cancel := context.WithTimeout(context.Background(), 60*time.Second)
	defer cancel()

	run := func(i int, fn string) (rsp *fnv1.RunFunctionResponse, err error) {
		defer func() {
			if p := recover(); p != nil {
				if he, ok := p.(explore.HarnessError); ok {
					panic(he)
				}
				r.Failf("panic/run-function", "ops %v: RunFunction(%q) panicked at op %d: %v", ops, fn, i, p)
			}
		}()
		rsp, err = runner.RunFunction(ctx, fn, richRequest(fmt.Sprintf("op%d", i)))
		if err != nil && (errors.Is(err, context.DeadlineExceeded) || strings.Contains(err.Error(), "DeadlineExceeded")) {
			panic(explore.HarnessError{Msg: fmt.Sprintf("watchdog: RunFunction(%q) did not return (ops %v, op %d): %v", fn, ops, i, err)})
		}
		return rsp, err
	}

	var outcome []string
	interesting := false
	changed := false
	for i, op := range ops {
		where := fmt.Sprintf("ops %v, op %d (%s)", ops, i, op)
		switch op {
		case "run-f", "run-g":
			fn := op[len("run-"):]
			want := "G" // server that must receive the call; "" = the call must fail
			if fn == "f" {
				want = ""
				if m.installed && m.active != 0 {
					want = m.ep[m.active]
				}
			}
			orig := richRequest(fmt.Sprintf("op%d", i))
			rsp, err := run(i, fn)
			got := env.take()
			r.Logf("%s: model installed=%v active=%d endpoints=%v -> want server %q; err=%v deliveries=%d", where, m.installed, m.active, m.ep[1:], want, err, len(got))
			if want == "" {
				if len(got) > 0 {
					r.Failf("route/stale-call", "%s: function f has no active revision with an endpoint (installed=%v active=%d endpoints=%v), yet server %s received the request", where, m.installed, m.active, m.ep[1:], got[0].server)
				}
				if err == nil {
					r.Failf("route/no-endpoint-not-an-error", "%s: function f has no active revision with an endpoint, yet RunFunction succeeded", where)
				}
				outcome = append(outcome, op+":error")
				break
			}
			if err != nil {
				r.Failf("route/unexpected-error", "%s: the active revision's endpoint is served by %s, yet RunFunction failed: %v", where, want, err)
			}
			if len(got) != 1 || got[0].server != want {
				var ss []string
				for _, d := range got {
					ss = append(ss, d.server)
				}
				r.Failf("route/wrong-server", "%s: the request must reach exactly the server at the active revision's current endpoint (%s); it reached %v", where, want, ss)
			}
			dreq, e1 := toV1Request(got[0].req)
			drsp, e2 := toV1Response(got[0].rsp)
			if e1 != nil || e2 != nil {
				r.Failf("beta/not-decodable", "%s: cannot re-encode the delivered v1beta1 messages as v1: %v %v", where, e1, e2)
			}
			sig := "delivery"
			if want == "G" {
				sig = "beta"
			}
			if !proto.Equal(dreq, orig) {
				r.Failf(sig+"/request-differs", "%s: server %s received a request that is not proto-equal to the one sent: sent %s got %s", where, want, short(orig), short(dreq))
			}
			if !proto.Equal(drsp, rsp) {
				r.Failf(sig+"/response-differs", "%s: RunFunction returned a response that is not proto-equal to the one server %s produced: produced %s returned %s", where, want, short(drsp), short(rsp))
			}
			if fn == "f" {
				m.cached = true
				if changed {
					interesting = true
				}
			} else {
				gCached = true
			}
			outcome = append(outcome, op+":"+want)
		case "switch-f":
			if m.installed {
				m.active = (m.active + 1) % 3
				setActive(m.active)
				changed = true
			}
			outcome = append(outcome, fmt.Sprintf("%s:%d", op, m.active))
		case "endpoint-f":
			if m.installed && m.active != 0 {
				m.ep[m.active] = nextEndpoint(m.active, m.ep[m.active])
				setEndpoint(m.active, m.ep[m.active])
				changed = true
			}
			outcome = append(outcome, op+":"+m.ep[m.active])
		case "uninstall-f":
			s.Remove(fnKey("f"))
			s.Remove(revKey("f-rev1"))
			s.Remove(revKey("f-rev2"))
			m.installed, m.active = false, 0
			changed = true
			outcome = append(outcome, op)
		case "reinstall-f":
			if !m.installed {
				install(m, "C")
				changed = true
			}
			outcome = append(outcome, op)
		case "gc":
			want := 0
			if m.cached && !m.installed {
				want = 1
			}
			var n int
			var err error
			func() {
				defer func() {
					if p := recover(); p != nil {
						r.Failf("panic/gc", "%s: GarbageCollectConnectionsNow panicked: %v", where, p)
					}
				}()
				n, err = runner.GarbageCollectConnectionsNow(ctx)
			}()
			r.Logf("%s: cached f=%v g=%v installed=%v -> closed %d (want %d) err=%v", where, m.cached, gCached, m.installed, n, want, err)
			if err != nil {
				r.Failf("gc/error", "%s: GarbageCollectConnectionsNow failed: %v", where, err)
			}
			if n != want {
				r.Failf("gc/count", "%s: GarbageCollectConnectionsNow closed %d connection(s); exactly the connections of functions that are no longer installed must be closed (%d): cached f=%v g=%v, f installed=%v", where, n, want, m.cached, gCached, m.installed)
			}
			if want == 1 {
				m.cached = false
				interesting = true
			}
			outcome = append(outcome, fmt.Sprintf("gc:%d", n))
		}
		if extra := env.take(); len(extra) > 0 {
			r.Failf("route/unsolicited-call", "%s: server %s received a request although no function was run", where, extra[0].server)
		}
	}
	nt := ""
	if interesting {
		nt = report.Hash(ops)
	}
	rep.Eval(scName, report.Hash(outcome), nt)
	if nt != "" && samplesB < 1 && rep.WantSample() {
		samplesB++
		rep.Sample(map[string]any{"scenario": scName, "ops": ops, "observed": outcome})
	}
}

// runnerScenarios returns the Part B scenarios, or none (with a note) when the
// sandbox does not allow unix sockets.
func runnerScenarios(t *testing.T, rep *report.R) []report.Scenario {
	if _, err := servers(); err != nil {
		rep.Note("Part B (PackagedFunctionRunner over real unix sockets) dropped: cannot listen on a unix socket in this sandbox: %v", err)
		return nil
	}
	rep.Note("Part B ran against in-process gRPC servers on real unix sockets (unix:// targets, insecure transport credentials), outside the synctest bubble")
	depth := 3
	if report.Thorough() {
		depth = 4
	}
	rep.Bound("runner_ops", runnerOps)
	rep.Bound("runner_op_sequence_depth", depth)
	name := fmt.Sprintf("runner/ops%d", depth)
	return []report.Scenario{{Name: name, Bound: 0, Body: func(r *explore.Run) { runnerBody(r, rep, name, depth) }}}
}
