// C02: Crossplane never modifies, adopts or deletes what another owner
// controls. Exhaustive table of write sites x pre-states of the target object
// {absent, uncontrolled, controlled by the owner, controlled by a foreign UID}:
// the real reconciler of each site runs to quiescence over simkube; a
// foreign-controlled target must stay byte-identical, receive no successful
// write, and the conflict must surface.
package c02

import (
	extv1 "k8s.io/apiextensions-apiserver/pkg/apis/apiextensions/v1"
	"context"
	"fmt"
	"strings"
	"testing"

	regv1 "github.com/google/go-containerregistry/pkg/v1"
	"google.golang.org/protobuf/types/known/structpb"
	appsv1 "k8s.io/api/apps/v1"
	corev1 "k8s.io/api/core/v1"
	rbacv1 "k8s.io/api/rbac/v1"
	metav1 "k8s.io/apimachinery/pkg/apis/meta/v1"
	"k8s.io/apimachinery/pkg/apis/meta/v1/unstructured"
	"k8s.io/apimachinery/pkg/runtime"
	"k8s.io/apimachinery/pkg/runtime/schema"
	"k8s.io/apimachinery/pkg/types"
	"k8s.io/utils/ptr"
	"sigs.k8s.io/controller-runtime/pkg/client"
	"sigs.k8s.io/controller-runtime/pkg/reconcile"

	xpv1 "github.com/crossplane/crossplane-runtime/apis/common/v1"
	"github.com/crossplane/crossplane-runtime/pkg/controller"
	"github.com/crossplane/crossplane-runtime/pkg/event"
	"github.com/crossplane/crossplane-runtime/pkg/feature"
	"github.com/crossplane/crossplane-runtime/pkg/logging"
	"github.com/crossplane/crossplane-runtime/pkg/resource"
	ucomposite "github.com/crossplane/crossplane-runtime/pkg/resource/unstructured/composite"
	"github.com/crossplane/crossplane-runtime/pkg/resource/unstructured/reference"

	fnv1 "github.com/crossplane/crossplane/apis/apiextensions/fn/proto/v1"
	v1 "github.com/crossplane/crossplane/apis/apiextensions/v1"
	pkgv1 "github.com/crossplane/crossplane/apis/pkg/v1"
	apiextensionscontroller "github.com/crossplane/crossplane/internal/controller/apiextensions/controller"
	"github.com/crossplane/crossplane/internal/controller/apiextensions/definition"
	"github.com/crossplane/crossplane/internal/controller/apiextensions/offered"
	"github.com/crossplane/crossplane/internal/controller/rbac/provider/binding"
	"github.com/crossplane/crossplane/internal/controller/rbac/provider/roles"
	rbacdef "github.com/crossplane/crossplane/internal/controller/rbac/definition"
	"github.com/crossplane/crossplane/internal/xpkg"
	"github.com/crossplane/crossplane/verif/explore"
	"github.com/crossplane/crossplane/verif/pkgh"
	"github.com/crossplane/crossplane/verif/report"
	"github.com/crossplane/crossplane/verif/simkube"
	"github.com/crossplane/crossplane/verif/xrh"
)

// recorder records warning events.
type recorder struct{ warnings *[]string }

func (r recorder) Event(_ runtime.Object, e event.Event) {
	if e.Type == event.TypeWarning {
		*r.warnings = append(*r.warnings, e.Message)
	}
}
func (r recorder) WithAnnotations(...string) event.Recorder { return r }

var foreign = metav1.OwnerReference{APIVersion: "example.org/v1", Kind: "Somebody", Name: "else", UID: "foreign-uid", Controller: ptr.To(true)}

const (
	preAbsent = iota
	preUncontrolled
	preOwned
	preForeign
	// The target was the owner's (or uncontrolled) and has since been adopted
	// by a foreign controller, but the controller's informer cache still
	// serves the version from before the adoption (sites with stale == true).
	preStaleOwned
	preStaleUncontrolled
	// The target is controlled by a foreign UID and the controller's cache has
	// not seen it at all: cached reads answer 404, the uncached fallback
	// finds it.
	preForeignCacheMiss
)

var preNames = []string{"absent", "uncontrolled", "owned", "foreign", "foreign-behind-stale-cache(owned)", "foreign-behind-stale-cache(uncontrolled)", "foreign-missing-from-cache"}

// staleClient is a controller's cached client whose informer has not yet
// seen the last write of one object: Gets of that object return the version
// before it. Lists and all writes go to the API server.
type staleClient struct {
	*simkube.Client
	key   simkube.ObjKey
	fresh bool // the cache has caught up
}

func (c *staleClient) Get(ctx context.Context, key client.ObjectKey, obj client.Object, opts ...client.GetOption) error {
	rd := c.S.Lagging(c.Name, func(k simkube.ObjKey, _ int) int {
		if k == c.key && !c.fresh {
			return 1
		}
		return 0
	})
	return rd.Get(ctx, key, obj, opts...)
}

// site is one place where Crossplane writes an object on behalf of an owner.
type site struct {
	name string
	// silent sites never address a foreign-controlled object at all (they
	// skip it and work on another object), so there is no conflict to
	// surface; they must still leave it untouched.
	silent bool
	// fixedName is false when the site names a new target itself (generated
	// name), so the "absent" control cannot look the target up by name.
	generatedName bool
	// build prepares the world; it returns the target key, a function running
	// one round of the site's reconciler(s), and a function reporting whether
	// the owner shows an unsynced / error condition.
	build func(w *world, pre int) (target simkube.ObjKey, round func() []error, unsynced func() bool)
	// adoptsUncontrolled documents whether the site may adopt an uncontrolled
	// target (only used for the vacuity guard).
	skipPre map[int]bool
	// stale sites also run the two stale-cache pre-states.
	stale bool
	// noMidAdoption: the site's write is not conditional on the version it
	// checked (a Delete following an Update, or a merge patch without a
	// resourceVersion), so a third party adopting the target between the
	// site's check and its write is not noticed in the pinned tree. That is
	// an interleaving with a concurrent writer, which the property does not
	// quantify over; such sites skip the mid-reconcile adoption dimension
	// (DESIGN.md 7.5). All other sites write with optimistic concurrency and
	// must keep refusing the write.
	noMidAdoption bool
}

type world struct {
	s        *simkube.Store
	warnings []string
	xrd      *v1.CompositeResourceDefinition
	// catchUp lets a stale cache catch up with the API server.
	catchUp func()
}

// errRequeue is reported by a round whose reconcile asked to be requeued
// immediately without returning an error (how a write conflict is handled).
var errRequeue = fmt.Errorf("requeue requested")

func (w *world) rec() event.Recorder { return recorder{&w.warnings} }

func condFalse(u *unstructured.Unstructured, t string) bool {
	if u == nil {
		return false
	}
	cs, _, _ := unstructured.NestedSlice(u.Object, "status", "conditions")
	for _, c := range cs {
		m, _ := c.(map[string]any)
		if m["type"] == t && m["status"] == "False" {
			return true
		}
	}
	return false
}

// setOwner puts the target object into the pre-state.
// namesake selects the flavour of the foreign controller of the preForeign
// pre-state: false = an unrelated object; true = an object with the kind and
// name of the legitimate owner but another UID (an earlier incarnation of the
// owner, deleted and re-created since).
var namesake bool

func setPre(o metav1.Object, pre int, owner metav1.OwnerReference) bool {
	switch pre {
	case preAbsent:
		return false
	case preOwned:
		owner.Controller = ptr.To(true)
		o.SetOwnerReferences([]metav1.OwnerReference{owner})
	case preForeign:
		f := foreign
		if namesake {
			f = owner
			f.UID += "-earlier-incarnation"
			f.Controller = ptr.To(true)
		}
		o.SetOwnerReferences([]metav1.OwnerReference{f})
	}
	return true
}

// ---- XR composer sites ----------------------------------------------------------

func composedObj(gvkName, name, resName string) *unstructured.Unstructured {
	gvk := xrh.KindFor(gvkName)
	u := &unstructured.Unstructured{}
	u.SetGroupVersionKind(gvk)
	u.SetName(name)
	u.SetAnnotations(map[string]string{"crossplane.io/composition-resource-name": resName})
	_ = unstructured.SetNestedField(u.Object, "theirs", "spec", "data")
	// A stored object always has managed fields; this one was written with
	// plain updates (as by a P&T XR or kubectl), not by server-side apply.
	now := metav1.Now()
	u.SetManagedFields([]metav1.ManagedFieldsEntry{{
		Manager: "crossplane", Operation: metav1.ManagedFieldsOperationUpdate, APIVersion: gvk.GroupVersion().String(), Time: &now,
		FieldsType: "FieldsV1", FieldsV1: &metav1.FieldsV1{Raw: []byte(`{"f:metadata":{"f:annotations":{"f:crossplane.io/composition-resource-name":{}}},"f:spec":{"f:data":{}}}`)},
	}})
	return u
}

func xrSite(name string, pipeline bool, mode string) site {
	return site{name: name, stale: true, noMidAdoption: mode == "gc", silent: pipeline && mode != "name-collision", generatedName: mode != "name-collision", build: func(w *world, pre int) (simkube.ObjKey, func() []error, func() bool) {
		s := w.s
		xr := xrh.XR("xr1", "comp")
		xr.SetUID("xr-uid")
		xr.SetLabels(map[string]string{"crossplane.io/composite": "xr1"})
		_ = unstructured.SetNestedField(xr.Object, "taken", "spec", "targetName")
		owner := metav1.OwnerReference{APIVersion: xrh.XRGVK.GroupVersion().String(), Kind: xrh.XRGVK.Kind, Name: "xr1", UID: "xr-uid"}
		// The target: a composed-kind object.
		desiredNames := []string{"a", "b"}
		targetRes := "a"
		if mode == "gc" {
			targetRes = "x" // referenced, annotated for a resource that is no longer desired / templated
		}
		t := composedObj(targetRes, "taken", targetRes)
		basePre := pre
		switch pre {
		case preStaleOwned:
			basePre = preOwned
		case preStaleUncontrolled:
			basePre = preUncontrolled
		case preForeignCacheMiss:
			basePre = preForeign
		}
		exists := setPre(t, basePre, owner)
		if exists {
			s.Seed(t)
		}
		if mode != "name-collision" && exists {
			xr.SetResourceReferences([]corev1.ObjectReference{{APIVersion: t.GetAPIVersion(), Kind: t.GetKind(), Name: "taken"}})
		}
		s.Seed(xr)
		fn := func(_ context.Context, _ string, req *fnv1.RunFunctionRequest) (*fnv1.RunFunctionResponse, error) {
			d := map[string]*fnv1.Resource{}
			for _, n := range desiredNames {
				dr := xrh.DesiredResource(n, "p", true)
				if mode == "name-collision" && n == "a" {
					dr.Resource.Fields["metadata"] = structpb.NewStructValue(&structpb.Struct{Fields: map[string]*structpb.Value{"name": structpb.NewStringValue("taken")}})
				}
				d[n] = dr
			}
			return &fnv1.RunFunctionResponse{Desired: &fnv1.State{Resources: d}, Context: req.GetContext()}, nil
		}
		if pipeline {
			xrh.SeedComposition(s, xrh.PipelineComposition("comp", "step"))
		} else {
			ta := xrh.Template{Name: "a", GVK: xrh.ResA}
			if mode == "name-collision" {
				// The template fixes the composed resource's name.
				from, to := "spec.targetName", "metadata.name"
				ta.Patches = []v1.Patch{{Type: v1.PatchTypeFromCompositeFieldPath, FromFieldPath: &from, ToFieldPath: &to}}
			}
			xrh.SeedComposition(s, xrh.ResourcesComposition("comp", ta, xrh.Template{Name: "b", GVK: xrh.ResB}))
		}
		c := s.Client("xr")
		var cached client.Client = c
		if pre == preForeignCacheMiss {
			cached = &xrh.MissingCache{Client: c, Kinds: map[string]bool{t.GetKind(): true}}
		} else if pre >= preStaleOwned {
			// Adopted by the foreign controller after the cache last saw it.
			s.Mutate(simkube.KeyOf(t), func(u *unstructured.Unstructured) { u.SetOwnerReferences([]metav1.OwnerReference{foreign}) })
			sc := &staleClient{Client: c, key: simkube.KeyOf(t)}
			w.catchUp = func() { sc.fresh = true }
			cached = sc
		}
		rec := xrh.NewXRReconciler(w.xrd, xrh.XROptions{Cached: cached, Uncached: c, Runner: xrh.FunctionRunner(fn), Recorder: w.rec()})
		round := func() []error {
			out := xrh.Reconcile(rec, types.NamespacedName{Name: "xr1"})
			if out.Err == nil && out.Result.Requeue {
				return []error{errRequeue}
			}
			return []error{out.Err}
		}
		unsynced := func() bool { return condFalse(s.Peek(xrh.XRKey("xr1")), "Synced") }
		return simkube.KeyOf(t), round, unsynced
	}}
}

// namesakeXRSite: the object carrying the name a desired resource asks for was
// composed - through the real function composer, by server-side apply - by an
// XR of the same kind and name in another API group. Only the API group tells
// the two XRs (and their apply field managers) apart.
func namesakeXRSite() site {
	base := xrSite("function-composer/desired-name-collision-with-namesake-xr", true, "name-collision")
	inner := base.build
	base.stale = false
	base.build = func(w *world, pre int) (simkube.ObjKey, func() []error, func() bool) {
		if pre != preForeign {
			return inner(w, pre)
		}
		s := w.s
		xrd2 := xrh.XRD()
		xrd2.SetName("xthings.other.example.org")
		xrd2.SetUID("xrd2-uid")
		xrd2.Spec.Group = "other.example.org"
		xrd2.Spec.ClaimNames = nil
		xrh.UseXRDSchemas(xrd2)
		s.Seed(xrd2)
		gvk2 := schema.GroupVersionKind{Group: "other.example.org", Version: "v1", Kind: xrh.XRGVK.Kind}
		comp2 := xrh.PipelineComposition("comp2", "step")
		comp2.Spec.CompositeTypeRef = v1.TypeReference{APIVersion: gvk2.GroupVersion().String(), Kind: gvk2.Kind}
		xrh.SeedComposition(s, comp2)
		xr2 := ucomposite.New(ucomposite.WithGroupVersionKind(gvk2))
		xr2.SetName("xr1")
		xr2.SetUID("xr2-uid")
		xr2.SetCompositionReference(&corev1.ObjectReference{Name: "comp2"})
		_ = unstructured.SetNestedField(xr2.Object, "theirs", "spec", "param")
		s.Seed(xr2)
		fn2 := func(_ context.Context, _ string, req *fnv1.RunFunctionRequest) (*fnv1.RunFunctionResponse, error) {
			dr := xrh.DesiredResource("a", "theirs", true)
			dr.Resource.Fields["metadata"] = structpb.NewStructValue(&structpb.Struct{Fields: map[string]*structpb.Value{"name": structpb.NewStringValue("taken")}})
			return &fnv1.RunFunctionResponse{Desired: &fnv1.State{Resources: map[string]*fnv1.Resource{"a": dr}}, Context: req.GetContext()}, nil
		}
		rec2 := xrh.NewXRReconciler(xrd2, xrh.XROptions{Cached: s.Client("xr-other-group"), Runner: xrh.FunctionRunner(fn2)})
		for i := 0; i < 3; i++ {
			xrh.Reconcile(rec2, types.NamespacedName{Name: "xr1"})
		}
		tk := simkube.ObjKey{Group: xrh.ResA.Group, Kind: xrh.ResA.Kind, Name: "taken"}
		if t := s.Peek(tk); t == nil || metav1.GetControllerOf(t) == nil || metav1.GetControllerOf(t).UID != "xr2-uid" {
			panic(explore.HarnessError{Msg: "preparation: the namesake XR did not compose 'taken'"})
		}
		// Our XR (absent pre-state of the inner site: nothing else seeded).
		_, round, unsynced := inner(w, preAbsent)
		return tk, round, unsynced
	}
	return base
}

// ---- secrets --------------------------------------------------------------------

func xrSecretSite() site {
	return site{name: "xr-connection-secret", noMidAdoption: true, skipPre: map[int]bool{preUncontrolled: true}, build: func(w *world, pre int) (simkube.ObjKey, func() []error, func() bool) {
		s := w.s
		xr := xrh.XR("xr1", "comp")
		xr.SetUID("xr-uid")
		xr.SetWriteConnectionSecretToReference(&xpv1.SecretReference{Namespace: "ns", Name: "conn"})
		s.Seed(xr)
		sec := &corev1.Secret{TypeMeta: metav1.TypeMeta{APIVersion: "v1", Kind: "Secret"}, ObjectMeta: metav1.ObjectMeta{Namespace: "ns", Name: "conn"}, Type: resource.SecretTypeConnection, Data: map[string][]byte{"theirs": []byte("x")}}
		if setPre(sec, pre, metav1.OwnerReference{APIVersion: xrh.XRGVK.GroupVersion().String(), Kind: xrh.XRGVK.Kind, Name: "xr1", UID: "xr-uid"}) {
			s.Seed(sec)
		}
		fn := func(_ context.Context, _ string, req *fnv1.RunFunctionRequest) (*fnv1.RunFunctionResponse, error) {
			return &fnv1.RunFunctionResponse{Desired: &fnv1.State{Composite: &fnv1.Resource{ConnectionDetails: map[string][]byte{"k": []byte("v")}}}, Context: req.GetContext()}, nil
		}
		xrh.SeedComposition(s, xrh.PipelineComposition("comp", "step"))
		rec := xrh.NewXRReconciler(w.xrd, xrh.XROptions{Cached: s.Client("xr"), Runner: xrh.FunctionRunner(fn), Recorder: w.rec()})
		round := func() []error { return []error{xrh.Reconcile(rec, types.NamespacedName{Name: "xr1"}).Err} }
		return simkube.ObjKey{Kind: "Secret", Namespace: "ns", Name: "conn"}, round, func() bool { return condFalse(s.Peek(xrh.XRKey("xr1")), "Synced") }
	}}
}

func claimSecretSite(ssa bool) site {
	return site{name: fmt.Sprintf("claim-connection-secret/ssa=%v", ssa), skipPre: map[int]bool{preUncontrolled: true}, build: func(w *world, pre int) (simkube.ObjKey, func() []error, func() bool) {
		s := w.s
		xr := xrh.XR("xr1", "comp")
		xr.SetUID("xr-uid")
		xr.SetWriteConnectionSecretToReference(&xpv1.SecretReference{Namespace: "sys", Name: "xr-conn"})
		xr.SetClaimReference(&reference.Claim{APIVersion: xrh.ClaimGVK.GroupVersion().String(), Kind: xrh.ClaimGVK.Kind, Namespace: "ns", Name: "cm"})
		xr.SetConditions(xpv1.Available())
		s.Seed(xr)
		s.Seed(&corev1.Secret{TypeMeta: metav1.TypeMeta{APIVersion: "v1", Kind: "Secret"}, ObjectMeta: metav1.ObjectMeta{Namespace: "sys", Name: "xr-conn", OwnerReferences: []metav1.OwnerReference{{APIVersion: xrh.XRGVK.GroupVersion().String(), Kind: xrh.XRGVK.Kind, Name: "xr1", UID: "xr-uid", Controller: ptr.To(true)}}}, Type: resource.SecretTypeConnection, Data: map[string][]byte{"k": []byte("v")}})
		cm := xrh.Claim("ns", "cm")
		cm.SetUID("claim-uid")
		cm.SetResourceReference(&reference.Composite{APIVersion: xrh.XRGVK.GroupVersion().String(), Kind: xrh.XRGVK.Kind, Name: "xr1"})
		cm.SetWriteConnectionSecretToReference(&xpv1.LocalSecretReference{Name: "cm-conn"})
		s.Seed(cm)
		sec := &corev1.Secret{TypeMeta: metav1.TypeMeta{APIVersion: "v1", Kind: "Secret"}, ObjectMeta: metav1.ObjectMeta{Namespace: "ns", Name: "cm-conn"}, Type: resource.SecretTypeConnection, Data: map[string][]byte{"theirs": []byte("x")}}
		if setPre(sec, pre, metav1.OwnerReference{APIVersion: xrh.ClaimGVK.GroupVersion().String(), Kind: xrh.ClaimGVK.Kind, Name: "cm", UID: "claim-uid"}) {
			s.Seed(sec)
		}
		rec := xrh.NewClaimReconciler(w.xrd, s.Client("claim"), ssa)
		round := func() []error { return []error{xrh.Reconcile(rec, types.NamespacedName{Namespace: "ns", Name: "cm"}).Err} }
		return simkube.ObjKey{Kind: "Secret", Namespace: "ns", Name: "cm-conn"}, round, func() bool { return condFalse(s.Peek(xrh.ClaimKey("ns", "cm")), "Synced") }
	}}
}

// ---- XRD -> CRD -------------------------------------------------------------------

type engine struct{ definition.NopEngine }

func (engine) IsRunning(string) bool { return false }

func crdSite(claim bool) site {
	n := "xrd-composite-crd"
	if claim {
		n = "xrd-claim-crd"
	}
	return site{name: n, build: func(w *world, pre int) (simkube.ObjKey, func() []error, func() bool) {
		s := w.s
		xrd := w.xrd.DeepCopy()
		s.Seed(xrd)
		xc, cc := xrh.CRDs(xrd)
		crd := xc
		if claim {
			crd = cc
		}
		t := crd.DeepCopy()
		t.TypeMeta = metav1.TypeMeta{APIVersion: "apiextensions.k8s.io/v1", Kind: "CustomResourceDefinition"}
		t.OwnerReferences = nil
		t.Spec.Names.ShortNames = []string{"theirs"}
		// The API server establishes a CRD soon after it is created; the
		// XRD controllers only go on (start the controller, record it in the
		// XRD's status) once it is.
		established := extv1.CustomResourceDefinitionCondition{Type: extv1.Established, Status: extv1.ConditionTrue, Reason: "InitialNamesAccepted"}
		t.Status.Conditions = []extv1.CustomResourceDefinitionCondition{established}
		if setPre(t, pre, metav1.OwnerReference{APIVersion: v1.SchemeGroupVersion.String(), Kind: v1.CompositeResourceDefinitionKind, Name: xrd.GetName(), UID: xrd.GetUID()}) {
			s.Seed(t)
		}
		c := s.Client("xrd")
		ca := resource.ClientApplicator{Client: c, Applicator: resource.NewAPIUpdatingApplicator(c)}
		o := apiextensionscontroller.Options{Options: controller.Options{Logger: logging.NewNopLogger(), Features: &feature.Flags{}}}
		var rec reconcile.Reconciler
		if claim {
			rec = offered.NewReconciler(ca, offered.WithRecorder(w.rec()), offered.WithControllerEngine(&offeredEngine{}), offered.WithOptions(o))
		} else {
			rec = definition.NewReconciler(ca, definition.WithRecorder(w.rec()), definition.WithControllerEngine(&engine{}), definition.WithOptions(o))
		}
		key := simkube.ObjKey{Group: "apiextensions.k8s.io", Kind: "CustomResourceDefinition", Name: t.GetName()}
		round := func() []error {
			errs := []error{xrh.Reconcile(rec, types.NamespacedName{Name: xrd.GetName()}).Err}
			if u := s.Peek(key); u != nil {
				if conds, _, _ := unstructured.NestedSlice(u.Object, "status", "conditions"); len(conds) == 0 {
					s.Mutate(key, func(u *unstructured.Unstructured) {
						_ = unstructured.SetNestedSlice(u.Object, []any{map[string]any{"type": "Established", "status": "True", "reason": "InitialNamesAccepted"}}, "status", "conditions")
					})
				}
			}
			return errs
		}
		return key, round, func() bool { return false }
	}}
}

type offeredEngine struct{ offered.NopEngine }

func (offeredEngine) IsRunning(string) bool { return false }

// ---- packages -------------------------------------------------------------------

func pkgRevisionSite() site {
	return site{name: "package-revision", noMidAdoption: true, skipPre: map[int]bool{preUncontrolled: true}, build: func(w *world, pre int) (simkube.ObjKey, func() []error, func() bool) {
		s := w.s
		p := &pkgv1.Provider{TypeMeta: metav1.TypeMeta{APIVersion: pkgv1.SchemeGroupVersion.String(), Kind: pkgv1.ProviderKind}, ObjectMeta: metav1.ObjectMeta{Name: "p", UID: "pkg-uid"}, Spec: pkgv1.ProviderSpec{PackageSpec: pkgv1.PackageSpec{Package: "acme/p:v1"}}}
		s.Seed(p)
		reg := &pkgh.Registry{Table: map[string]string{"acme/p:v1": "A"}}
		name := xpkg.FriendlyID("p", pkgh.Digest("A"))
		rev := &pkgv1.ProviderRevision{TypeMeta: metav1.TypeMeta{APIVersion: pkgv1.SchemeGroupVersion.String(), Kind: pkgv1.ProviderRevisionKind}, ObjectMeta: metav1.ObjectMeta{Name: name, Labels: map[string]string{pkgv1.LabelParentPackage: "other"}}}
		rev.Spec.Package = "acme/other:v9"
		rev.Spec.DesiredState = pkgv1.PackageRevisionInactive
		rev.Spec.Revision = 7
		if setPre(rev, pre, metav1.OwnerReference{APIVersion: pkgv1.SchemeGroupVersion.String(), Kind: pkgv1.ProviderKind, Name: "p", UID: "pkg-uid"}) {
			if pre == preOwned {
				rev.Labels[pkgv1.LabelParentPackage] = "p"
			}
			s.Seed(rev)
		}
		rec := pkgh.NewProviderManager(s.Client("mgr"), reg)
		round := func() []error { return []error{xrh.Reconcile(rec, types.NamespacedName{Name: "p"}).Err} }
		return simkube.ObjKey{Group: "pkg.crossplane.io", Kind: "ProviderRevision", Name: name}, round, func() bool { return false }
	}}
}

func establisherSite() site {
	return site{name: "active-revision-establishes-object", build: func(w *world, pre int) (simkube.ObjKey, func() []error, func() bool) {
		s := w.s
		img := pkgh.BuildImage(pkgh.Stream(pkgh.MetaYAML("Configuration", "pkg", ""), pkgh.XRDYAML("ex.org", "XA")), pkgh.AnnotatedBase, nil)
		reg := &pkgh.Registry{Table: map[string]string{"acme/c:v1": "A"}, Images: map[string]regv1.Image{"A": img}}
		rev := &pkgv1.ConfigurationRevision{TypeMeta: metav1.TypeMeta{APIVersion: pkgv1.SchemeGroupVersion.String(), Kind: pkgv1.ConfigurationRevisionKind}, ObjectMeta: metav1.ObjectMeta{Name: "c-rev1", UID: "rev-uid", Labels: map[string]string{pkgv1.LabelParentPackage: "c"}, OwnerReferences: []metav1.OwnerReference{{APIVersion: pkgv1.SchemeGroupVersion.String(), Kind: pkgv1.ConfigurationKind, Name: "c", UID: "cfg-uid", Controller: ptr.To(true)}}}}
		rev.Spec.Package = "acme/c:v1"
		rev.Spec.DesiredState = pkgv1.PackageRevisionActive
		rev.Spec.Revision = 1
		s.Seed(rev)
		t := &v1.CompositeResourceDefinition{TypeMeta: metav1.TypeMeta{APIVersion: v1.SchemeGroupVersion.String(), Kind: v1.CompositeResourceDefinitionKind}, ObjectMeta: metav1.ObjectMeta{Name: "xas.ex.org"}}
		t.Spec.Group = "theirs.org"
		if setPre(t, pre, metav1.OwnerReference{APIVersion: pkgv1.SchemeGroupVersion.String(), Kind: pkgv1.ConfigurationRevisionKind, Name: "c-rev1", UID: "rev-uid"}) {
			s.Seed(t)
		}
		rec := pkgh.NewRevisionReconciler(pkgh.RevisionOptions{Kind: "Configuration", Client: s.Client("rev"), Registry: reg, Extra: nil})
		round := func() []error { return []error{xrh.Reconcile(rec, types.NamespacedName{Name: "c-rev1"}).Err} }
		unsynced := func() bool {
			return condFalse(s.Peek(simkube.ObjKey{Group: "pkg.crossplane.io", Kind: "ConfigurationRevision", Name: "c-rev1"}), "Healthy")
		}
		return simkube.ObjKey{Group: "apiextensions.crossplane.io", Kind: "CompositeResourceDefinition", Name: "xas.ex.org"}, round, unsynced
	}}
}

// ---- RBAC -----------------------------------------------------------------------

func providerRevision() *pkgv1.ProviderRevision {
	pr := &pkgv1.ProviderRevision{TypeMeta: metav1.TypeMeta{APIVersion: pkgv1.SchemeGroupVersion.String(), Kind: pkgv1.ProviderRevisionKind}, ObjectMeta: metav1.ObjectMeta{Name: "prov-rev1", UID: "prov-uid"}}
	pr.Spec.Package = "xpkg.upbound.io/acme/prov:v1"
	pr.Spec.DesiredState = pkgv1.PackageRevisionActive
	pr.Status.ObjectRefs = []xpv1.TypedReference{{APIVersion: "apiextensions.k8s.io/v1", Kind: "CustomResourceDefinition", Name: "widgets.acme.org"}}
	return pr
}

func rbacRoleSite(which string) site {
	return site{name: "rbac-provider-role/" + which, build: func(w *world, pre int) (simkube.ObjKey, func() []error, func() bool) {
		s := w.s
		pr := providerRevision()
		s.Seed(pr)
		name := roles.SystemClusterRoleName("prov-rev1")
		if which != "system" {
			name = "crossplane:provider:prov-rev1:" + which
		}
		t := &rbacv1.ClusterRole{TypeMeta: metav1.TypeMeta{APIVersion: "rbac.authorization.k8s.io/v1", Kind: "ClusterRole"}, ObjectMeta: metav1.ObjectMeta{Name: name}, Rules: []rbacv1.PolicyRule{{APIGroups: []string{"theirs"}, Resources: []string{"things"}, Verbs: []string{"get"}}}}
		if setPre(t, pre, metav1.OwnerReference{APIVersion: pkgv1.SchemeGroupVersion.String(), Kind: pkgv1.ProviderRevisionKind, Name: "prov-rev1", UID: "prov-uid"}) {
			s.Seed(t)
		}
		rec := roles.NewReconciler(&pkgh.Mgr{C: s.Client("rbac")}, roles.WithRecorder(w.rec()))
		round := func() []error { return []error{xrh.Reconcile(rec, types.NamespacedName{Name: "prov-rev1"}).Err} }
		return simkube.ObjKey{Group: "rbac.authorization.k8s.io", Kind: "ClusterRole", Name: name}, round, func() bool { return false }
	}}
}

func rbacBindingSite() site {
	return site{name: "rbac-provider-binding", build: func(w *world, pre int) (simkube.ObjKey, func() []error, func() bool) {
		s := w.s
		pr := providerRevision()
		s.Seed(pr)
		s.Seed(&appsv1.Deployment{TypeMeta: metav1.TypeMeta{APIVersion: "apps/v1", Kind: "Deployment"}, ObjectMeta: metav1.ObjectMeta{Namespace: "crossplane-system", Name: "prov", OwnerReferences: []metav1.OwnerReference{{APIVersion: pkgv1.SchemeGroupVersion.String(), Kind: pkgv1.ProviderRevisionKind, Name: "prov-rev1", UID: "prov-uid", Controller: ptr.To(true)}}},
			Spec: appsv1.DeploymentSpec{Template: corev1.PodTemplateSpec{Spec: corev1.PodSpec{ServiceAccountName: "prov-sa"}}}})
		name := roles.SystemClusterRoleName("prov-rev1")
		t := &rbacv1.ClusterRoleBinding{TypeMeta: metav1.TypeMeta{APIVersion: "rbac.authorization.k8s.io/v1", Kind: "ClusterRoleBinding"}, ObjectMeta: metav1.ObjectMeta{Name: name}, RoleRef: rbacv1.RoleRef{APIGroup: "rbac.authorization.k8s.io", Kind: "ClusterRole", Name: "theirs"}}
		if setPre(t, pre, metav1.OwnerReference{APIVersion: pkgv1.SchemeGroupVersion.String(), Kind: pkgv1.ProviderRevisionKind, Name: "prov-rev1", UID: "prov-uid"}) {
			s.Seed(t)
		}
		rec := binding.NewReconciler(&pkgh.Mgr{C: s.Client("rbac")}, binding.WithRecorder(w.rec()))
		round := func() []error { return []error{xrh.Reconcile(rec, types.NamespacedName{Name: "prov-rev1"}).Err} }
		return simkube.ObjKey{Group: "rbac.authorization.k8s.io", Kind: "ClusterRoleBinding", Name: name}, round, func() bool { return false }
	}}
}

func rbacXRDSite(suffix string) site {
	return site{name: "rbac-xrd-role/" + suffix, build: func(w *world, pre int) (simkube.ObjKey, func() []error, func() bool) {
		s := w.s
		xrd := w.xrd.DeepCopy()
		s.Seed(xrd)
		name := "crossplane:composite:" + xrd.GetName() + ":" + suffix
		t := &rbacv1.ClusterRole{TypeMeta: metav1.TypeMeta{APIVersion: "rbac.authorization.k8s.io/v1", Kind: "ClusterRole"}, ObjectMeta: metav1.ObjectMeta{Name: name}, Rules: []rbacv1.PolicyRule{{APIGroups: []string{"theirs"}, Resources: []string{"things"}, Verbs: []string{"get"}}}}
		if setPre(t, pre, metav1.OwnerReference{APIVersion: v1.SchemeGroupVersion.String(), Kind: v1.CompositeResourceDefinitionKind, Name: xrd.GetName(), UID: xrd.GetUID()}) {
			s.Seed(t)
		}
		rec := rbacdef.NewReconciler(&pkgh.Mgr{C: s.Client("rbac")}, rbacdef.WithRecorder(w.rec()))
		round := func() []error { return []error{xrh.Reconcile(rec, types.NamespacedName{Name: xrd.GetName()}).Err} }
		return simkube.ObjKey{Group: "rbac.authorization.k8s.io", Kind: "ClusterRole", Name: name}, round, func() bool { return false }
	}}
}

func sites() []site {
	return []site{
		xrSite("function-composer/referenced-object", true, "ref"),
		xrSite("function-composer/desired-name-collision", true, "name-collision"),
		xrSite("function-composer/garbage-collection", true, "gc"),
		namesakeXRSite(),
		xrSite("pt-composer/referenced-object", false, "ref"),
		xrSite("pt-composer/template-name-collision", false, "name-collision"),
		xrSite("pt-composer/garbage-collection-of-removed-template", false, "gc"),
		xrSecretSite(),
		claimSecretSite(false),
		claimSecretSite(true),
		crdSite(false),
		crdSite(true),
		pkgRevisionSite(),
		establisherSite(),
		rbacRoleSite("system"),
		rbacRoleSite("aggregate-to-edit"),
		rbacBindingSite(),
		rbacXRDSite("aggregate-to-edit"),
		rbacXRDSite("aggregate-to-view"),
	}
}

func body(r *explore.Run, rep *report.R, st site) {
	npre := 4
	if st.stale {
		npre = 7
	}
	pre := r.Free(npre, "pre-state")
	rounds := 1 + r.Free(3, "rounds")
	namesake = pre == preForeign && r.Bool("foreign-controller-is-a-namesake-of-the-owner")
	xrh.BeginExecution(1)
	w := &world{s: xrh.NewStore(), xrd: xrh.XRD()}
	w.s.Seed(w.xrd.DeepCopy())
	target, round, unsynced := st.build(w, pre)
	before := w.s.Peek(target)
	logStart := len(w.s.Log)
	// A foreign controller may adopt the target in the middle of a reconcile:
	// just before the k-th API call (reads and dry runs included) that
	// addresses it. From then on it is a foreign-controlled object.
	adoptAt, adopted := 0, false
	if (pre == preUncontrolled || pre == preOwned) && !st.noMidAdoption {
		adoptAt = r.Free(7, "foreign-adoption-before-call")
	}
	if adoptAt > 0 {
		n := 0
		w.s.Inj = simkube.InjectorFn(func(c simkube.Call) simkube.Outcome {
			if c.Key == target && !adopted {
				n++
				if n == adoptAt && w.s.Peek(target) != nil {
					w.s.Mutate(target, func(u *unstructured.Unstructured) { u.SetOwnerReferences([]metav1.OwnerReference{foreign}) })
					adopted = true
					before = w.s.Peek(target)
					logStart = len(w.s.Log)
					r.Logf("  foreign controller adopts %s before %s", target, c)
				}
			}
			return simkube.OK
		})
	}
	// The dual for a target that does not exist yet: a foreign controller
	// creates it (its own content, its own controller reference) just before
	// the k-th API call (reads and dry runs included) that addresses the
	// target's key. From then on it is a foreign-controlled object. Creating
	// on top of an existing object is refused by every API server, so this is
	// no unconditioned-write race and all sites with a known target name take
	// part. (The namesake site's absent row is the desired-name-collision
	// site's.)
	createAt, created := 0, false
	if pre == preAbsent && !st.generatedName && !strings.Contains(st.name, "namesake") {
		createAt = r.Free(7, "foreign-creation-before-call")
	}
	if createAt > 0 {
		// What the foreigner creates: the site's own foreign-placement fixture.
		w2 := &world{s: xrh.NewStore(), xrd: xrh.XRD()}
		w2.s.Seed(w2.xrd.DeepCopy())
		t2, _, _ := st.build(w2, preForeign)
		theirs := w2.s.Peek(t2)
		if t2 != target || theirs == nil || metav1.GetControllerOf(theirs) == nil || metav1.GetControllerOf(theirs).UID != foreign.UID {
			panic(explore.HarnessError{Msg: "preparation: no foreign-controlled fixture for " + st.name})
		}
		theirs.SetUID("")
		theirs.SetResourceVersion("")
		n := 0
		w.s.Inj = simkube.InjectorFn(func(c simkube.Call) simkube.Outcome {
			if c.Key == target && !created {
				n++
				if n == createAt && w.s.Peek(target) == nil {
					w.s.Seed(theirs.DeepCopy())
					created = true
					before = w.s.Peek(target)
					logStart = len(w.s.Log)
					r.Logf("  foreign controller creates %s before %s", target, c)
				}
			}
			return simkube.OK
		})
	}
	var errs []string
	requeued := false
	stale := pre == preStaleOwned || pre == preStaleUncontrolled
	// The owner's reconciler may have run to completion before (recording in
	// the owner's status, its caches or its memory that the target is its
	// own) when the target changes hands between two reconciles.
	handedOver := pre == preOwned && adoptAt == 0 && r.Bool("target-changes-hands-after-the-owner-completed-reconciles")
	run := func(n int) {
		for i := 0; i < n; i++ {
			for _, e := range round() {
				if e == errRequeue {
					requeued = true
				} else if e != nil {
					errs = append(errs, e.Error())
				}
			}
		}
	}
	if handedOver {
		run(2)
		if w.s.Peek(target) == nil {
			handedOver = false // (a garbage-collection site: nothing left to hand over)
		} else {
			w.s.Mutate(target, func(u *unstructured.Unstructured) {
				u.SetOwnerReferences([]metav1.OwnerReference{foreign})
				l := u.GetLabels()
				if l == nil {
					l = map[string]string{}
				}
				l["example.org/managed-by"] = "somebody-else"
				u.SetLabels(l)
			})
			before = w.s.Peek(target)
			logStart = len(w.s.Log)
			errs, requeued, w.warnings = nil, false, nil
			r.Logf("  after two completed rounds a foreign controller takes over %s", target)
		}
	}
	run(rounds)
	// check is the foreign-target oracle; sfx distinguishes the stale-cache
	// histories from the plain placement.
	check := func(sfx string, needSurfaced bool) {
		after := w.s.Peek(target)
		var writes []string
		effective := false
		for _, wr := range w.s.Log[logStart:] {
			if wr.Call.Key != target {
				continue
			}
			r.Logf("  call on target: %s effective=%v err=%q", wr.Call, wr.Effective, wr.Err)
			if !wr.Call.DryRun && wr.Err == "" && wr.Call.Verb != "get" {
				writes = append(writes, wr.Call.Verb+fmt.Sprintf("(effective=%v)", wr.Effective))
			}
			if !wr.Call.DryRun && wr.Effective {
				effective = true
			}
		}
		if after == nil || canonical(before) != canonical(after) {
			r.Failf("foreign-modified/"+st.name+sfx, "the target %s, controlled by a foreign UID, was changed or deleted by the %s site (pre-state %s)", target, st.name, preNames[pre])
		}
		if effective {
			r.Failf("foreign-written/"+st.name+sfx, "a write on %s took effect although a foreign UID controls it: %v", target, writes)
		}
		if needSurfaced && !st.silent && len(errs) == 0 && len(w.warnings) == 0 && !unsynced() {
			r.Failf("conflict-not-surfaced/"+st.name+sfx, "the %s site found its target %s controlled by a foreign UID but surfaced neither an error, a warning event nor an unsynced condition", st.name, target)
		}
	}
	r.Logf("%s pre=%s rounds=%d: errs=%v requeued=%v warnings=%v unsynced=%v", st.name, preNames[pre], rounds, errs, requeued, w.warnings, unsynced())
	switch {
	case pre == preForeign:
		check("", true)
	case pre == preForeignCacheMiss:
		check("/missing-from-cache", true)
	case handedOver:
		check("/handed-over-after-owner-completed", true)
	case adopted:
		// The write that was in flight when the object was adopted must not
		// land; later rounds see the plain foreign placement.
		kind := preNames[pre]
		check("/adopted-mid-reconcile-was-"+kind, false)
		run(2)
		check("/after-adoption-mid-reconcile-was-"+kind, true)
	case created:
		// The create / apply that was in flight when the foreigner created the
		// object must not land on it; later rounds see the plain foreign
		// placement.
		check("/created-mid-reconcile", false)
		run(2)
		check("/after-creation-mid-reconcile", true)
	case stale:
		// While the cache is behind, the target must stay untouched; a write
		// refused with a conflict may be answered by an immediate requeue
		// instead of an error. Once the cache has caught up the situation is
		// the plain foreign placement and the conflict has to surface.
		kind := map[int]string{preStaleOwned: "owned", preStaleUncontrolled: "uncontrolled"}[pre]
		check("/stale-cache-saw-"+kind, false)
		if len(errs) == 0 && len(w.warnings) == 0 && !unsynced() && !requeued && !st.silent {
			r.Logf("  nothing surfaced and no requeue while the cache was stale")
		}
		w.catchUp()
		run(2)
		r.Logf("after the cache caught up: errs=%v warnings=%v unsynced=%v", errs, w.warnings, unsynced())
		check("/after-stale-cache-saw-"+kind, true)
	}
	// A creation point the reconcile never reached (or reached after the site
	// had created the target itself) is the plain absent row again.
	createdAt := 0
	if created {
		createdAt = createAt
	}
	after := w.s.Peek(target)
	var writes []string
	for _, wr := range w.s.Log[logStart:] {
		if wr.Call.Key == target && !wr.Call.DryRun && wr.Err == "" && wr.Call.Verb != "get" {
			writes = append(writes, wr.Call.Verb+fmt.Sprintf("(effective=%v)", wr.Effective))
		}
	}
	// Vacuity guard: when the target is absent or already ours the site does
	// write / keep it (so the foreign case above is not passing because the
	// site never runs).
	if !adopted && !handedOver && !created && (pre == preOwned || (pre == preAbsent && !st.generatedName)) && !strings.Contains(st.name, "garbage-collection") {
		if after == nil {
			r.Failf("harness/site-not-exercised/"+st.name, "with the target %s the %s site did not create / keep %s (errs %v, warnings %v)", preNames[pre], st.name, target, errs, w.warnings)
		}
	}
	if !adopted && !handedOver && strings.Contains(st.name, "garbage-collection") && (pre == preOwned || pre == preUncontrolled) && after != nil && after.GetDeletionTimestamp() == nil {
		r.Failf("harness/site-not-exercised/"+st.name, "the %s site did not garbage collect its own / an uncontrolled object (errs %v)", st.name, errs)
	}
	rep.Eval(st.name, report.Hash(st.name, pre, after != nil, len(errs) > 0, len(w.warnings) > 0), report.Hash(st.name, pre, rounds, adoptAt, namesake, handedOver, createdAt))
	if rep.WantSample() && (pre == preForeign || pre >= preStaleOwned) {
		rep.Sample(map[string]any{"site": st.name, "pre_state": preNames[pre], "rounds": rounds, "errors": errs, "warnings": w.warnings, "writes_on_target": writes})
	}
}

func canonical(u *unstructured.Unstructured) string {
	if u == nil {
		return "<nil>"
	}
	return fmt.Sprint(u.Object)
}

func TestCheck(t *testing.T) {
	rep := report.New("C02", "exploration")
	rep.Meta(
		"Table: 19 write sites (function composer: referenced object / desired-name collision / the same with the object composed by an XR of the same kind and name in another API group / garbage collection; P&T composer: referenced object / name fixed by the template / removed template; XR connection secret; claim connection secret with both syncers; XRD->composite CRD and claim CRD; package->revision; active revision establishing an object; RBAC provider system and edit roles, binding; XRD roles) x target pre-state {absent, uncontrolled, controlled by the owner, controlled by a foreign UID (an unrelated object, or a namesake of the owner with another UID); for the composer sites also: adopted by a foreign UID while the controller's cache still serves the version it owned / that was uncontrolled} x 1..3 reconcile rounds; for an absent target with a known name also: a foreign controller creates it (the foreign-placement fixture) just before the k-th API call addressing its key, k = 1..6; each run on the real reconciler over simkube. Foreign: target byte-identical, no effective non-dry-run write in the write log, conflict surfaced (returned error, warning event or unsynced condition). Absent / owned rows are controls showing the site does write. Non-trivial: every row (distinct by site, pre-state, rounds).",
		[]string{"simkube models the API server and enforces 'at most one controller reference' with the real ValidateOwnerReferences (the server-side-apply composer relies on that refusal)", "claim->XR binding (a claim reference, not a controller reference) is covered by C06; establishing into objects of other package revisions by C16"},
		[]string{"simkube", "structured-merge-diff (real)"},
	)
	var scs []report.Scenario
	for _, st := range sites() {
		st := st
		scs = append(scs, report.Scenario{Name: st.name, Bound: 0, Wrap: report.Bubble(t), Body: func(r *explore.Run) { body(r, rep, st) }})
	}
	rep.Bound("sites", len(scs))
	rep.SelfCheck(t, scs[0], nil)
	rep.RunScenarios(t, scs)
	rep.Write(t)
}
