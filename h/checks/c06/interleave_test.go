package c06

import (
	"context"
	"fmt"
	"strings"

	"k8s.io/apimachinery/pkg/apis/meta/v1/unstructured"
	"k8s.io/apimachinery/pkg/types"

	"github.com/crossplane/crossplane/verif/explore"
	"github.com/crossplane/crossplane/verif/report"
	"github.com/crossplane/crossplane/verif/sched"
	"github.com/crossplane/crossplane/verif/simkube"
	"github.com/crossplane/crossplane/verif/xrh"
)

// interleaveBody runs the claim reconciler, the XR reconciler and (optionally)
// the user's deletion of the claim as three threads whose API calls are the
// scheduling points; all interleavings within the preemption bound are
// explored, and J1-J4 are evaluated after every effective write.
func interleaveBody(r *explore.Run, rep *report.R, name string, ssa bool, initial string, userDeletes bool, claimRounds int) {
	xrh.BeginExecution(9)
	s := xrh.NewStore()
	xrd := xrh.XRD()
	s.Seed(xrd)
	xrh.SeedComposition(s, xrh.PipelineComposition("comp", "noop"))
	sc := scenario{ssa: ssa, initial: initial}
	w := &world{r: r, s: s, sc: sc}
	c1 := xrh.Claim("ns", "c1")
	_ = unstructured.SetNestedField(c1.Object, "comp", "spec", "compositionRef", "name")
	s.Seed(c1)
	crec := xrh.NewClaimReconciler(xrd, s.Client("claim"), ssa)
	xrec := xrh.NewXRReconciler(xrd, xrh.XROptions{Cached: s.Client("xr"), Runner: xrh.FunctionRunner(noResources)})
	nn := types.NamespacedName{Namespace: "ns", Name: "c1"}
	if initial == "bound" {
		for i := 0; i < 5; i++ {
			xrh.Reconcile(crec, nn)
			for _, x := range s.All(xrh.XRGVK.GroupKind()) {
				xrh.Reconcile(xrec, types.NamespacedName{Name: x.GetName()})
			}
		}
	} else {
		// One claim reconcile so that an XR exists for the XR thread.
		xrh.Reconcile(crec, nn)
	}
	w.firstRef = resourceRefOf(s.Peek(xrh.ClaimKey("ns", "c1")))
	s.OnWrite = append(s.OnWrite, func(rec *simkube.WriteRecord) {
		// Hooks run on thread goroutines: record, do not unwind.
		defer func() {
			if p := recover(); p != nil {
				if f, ok := p.(explore.Failure); ok {
					r.FailLater(f.Signature, "%s", f.Message)
					return
				}
				panic(p)
			}
		}()
		w.onWrite(rec)
	})
	sch := sched.New(r)
	// Every API call of the three actors is a scheduling point.
	s.Inj = simkube.InjectorFn(func(c simkube.Call) simkube.Outcome {
		if c.Client == "claim" || c.Client == "xr" || c.Client == "user" {
			sch.Point(c.String())
		}
		return simkube.OK
	})
	xrName := ""
	if xs := s.All(xrh.XRGVK.GroupKind()); len(xs) > 0 {
		xrName = xs[0].GetName()
	}
	sch.Spawn("claim", func() {
		for i := 0; i < claimRounds; i++ {
			xrh.Reconcile(crec, nn)
		}
	})
	if xrName != "" {
		sch.Spawn("xr", func() { xrh.Reconcile(xrec, types.NamespacedName{Name: xrName}) })
	}
	if userDeletes {
		sch.Spawn("user", func() { _ = s.Client("user").Delete(context.Background(), xrh.Claim("ns", "c1")) })
	}
	func() {
		defer func() { sch.Abort(); sch.Close(); s.Inj = nil }()
		sch.Run()
	}()
	if len(sch.Panics) > 0 {
		r.Failf("panic/interleaving", "thread panicked: %v", sch.Panics)
	}
	r.Raise()
	// Quiesce sequentially and evaluate the final state.
	quiet := false
	for i := 0; i < 12 && !quiet; i++ {
		before := s.Versions()
		xrh.Reconcile(crec, nn)
		for _, x := range s.All(xrh.XRGVK.GroupKind()) {
			xrh.Reconcile(xrec, types.NamespacedName{Name: x.GetName()})
		}
		quiet = xrh.SameVersions(before, s.Versions())
	}
	r.Raise()
	xs := w.xrsNaming("ns/c1")
	cm := s.Peek(xrh.ClaimKey("ns", "c1"))
	if !quiet {
		r.Failf("no-quiescence/interleaving", "claim and XR reconcilers did not quiesce; last writes: %s", xrh.DescribeWrites(s, len(s.Log)-8))
	}
	if cm == nil && len(xs) > 0 {
		r.Failf("orphan/xr-for-deleted-claim/"+fmt.Sprintf("ssa=%v", ssa), "claim ns/c1 no longer exists but XR(s) %v name it", xs)
	}
	if cm != nil && cm.GetDeletionTimestamp() == nil && len(xs) != 1 {
		r.Failf("final/not-bound/"+fmt.Sprintf("ssa=%v", ssa), "claim exists but %d XRs name it: %v", len(xs), xs)
	}
	var seq []string
	for _, wr := range s.Log {
		if wr.Effective {
			seq = append(seq, wr.Call.Client+":"+wr.Call.Verb+wr.Call.Sub+":"+wr.Call.Key.Kind)
		}
	}
	nt := ""
	if r.Deviations() > 0 {
		nt = report.Hash(name, r.Choices)
	}
	rep.Eval(name, report.Hash(strings.Join(seq, ";"), len(xs), cm == nil), nt)
	if rep.WantSample() && r.Deviations() > 1 {
		rep.Sample(map[string]any{"scenario": name, "schedule_choices": append([]int{}, r.Choices...), "effective_writes": seq})
	}
}
