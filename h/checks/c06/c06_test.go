// C06: a claim binds exactly one XR and never hijacks another claim's XR.
// Fault / crash-point / cache-lag enumeration over the real claim reconciler
// (client-side and server-side-apply syncers), interleaved with full XR
// reconciles and claim deletion, to quiescence.
package c06

import (
	"context"
	"fmt"
	"sort"
	"strings"
	"testing"

	kerrors "k8s.io/apimachinery/pkg/api/errors"
	"k8s.io/apimachinery/pkg/apis/meta/v1/unstructured"
	"k8s.io/apimachinery/pkg/types"
	"sigs.k8s.io/controller-runtime/pkg/client"
	"sigs.k8s.io/controller-runtime/pkg/reconcile"

	"github.com/crossplane/crossplane-runtime/pkg/resource/unstructured/reference"

	fnv1 "github.com/crossplane/crossplane/apis/apiextensions/fn/proto/v1"
	"github.com/crossplane/crossplane/verif/explore"
	"github.com/crossplane/crossplane/verif/report"
	"github.com/crossplane/crossplane/verif/simkube"
	"github.com/crossplane/crossplane/verif/xrh"
)

// lagClient serves Gets of the claim and XR kinds from the store's recent
// history, as a lagging informer cache would. Each lagging answer is a
// costed deviation.
type lagClient struct {
	*simkube.Client
	r     *explore.Run
	armed *bool
	taken *[]string
}

func (l *lagClient) Get(ctx context.Context, key client.ObjectKey, obj client.Object, opts ...client.GetOption) error {
	gvk := obj.GetObjectKind().GroupVersionKind()
	if !*l.armed || (gvk.Kind != xrh.ClaimGVK.Kind && gvk.Kind != xrh.XRGVK.Kind) {
		return l.Client.Get(ctx, key, obj, opts...)
	}
	picked := 0
	rd := l.S.Lagging(l.Name, func(k simkube.ObjKey, available int) int {
		n := available
		if n > 3 {
			n = 3
		}
		picked = l.r.Choose(n+1, "lag:"+k.String())
		// The oldest retained version may predate the object's creation.
		return picked
	})
	err := rd.Get(ctx, key, obj, opts...)
	if picked != 0 {
		*l.taken = append(*l.taken, fmt.Sprintf("stale read of %s/%s (%d writes behind)", gvk.Kind, key.Name, picked))
		l.r.Logf("LAG %s %s lag=%d err=%v", gvk.Kind, key.Name, picked, err)
	}
	return err
}

func noResources(_ context.Context, _ string, req *fnv1.RunFunctionRequest) (*fnv1.RunFunctionResponse, error) {
	return &fnv1.RunFunctionResponse{Desired: &fnv1.State{}, Context: req.GetContext()}, nil
}

type scenario struct {
	ssa     bool
	initial string // fresh | bound | hijack | bindable | ref-missing
	window  int
	bound   int
	reads   bool
}

func (sc scenario) name() string {
	return fmt.Sprintf("ssa=%v/%s/w%d/f%d/reads=%v", sc.ssa, sc.initial, sc.window, sc.bound, sc.reads)
}

func claimRefOf(u *unstructured.Unstructured) string {
	m, found, _ := unstructured.NestedMap(u.Object, "spec", "claimRef")
	if !found {
		return ""
	}
	return fmt.Sprintf("%v/%v", m["namespace"], m["name"])
}

func resourceRefOf(u *unstructured.Unstructured) string {
	if u == nil {
		return ""
	}
	m, found, _ := unstructured.NestedMap(u.Object, "spec", "resourceRef")
	if !found {
		return ""
	}
	return fmt.Sprint(m["name"])
}

type world struct {
	r        *explore.Run
	s        *simkube.Store
	sc       scenario
	firstRef string // first XR name ever recorded on claim c1
}

func (w *world) xrsNaming(claim string) []string {
	var out []string
	for _, x := range w.s.All(xrh.XRGVK.GroupKind()) {
		byRef := claimRefOf(x) == claim
		byLabel := x.GetLabels()["crossplane.io/claim-namespace"]+"/"+x.GetLabels()["crossplane.io/claim-name"] == claim
		if byRef || byLabel {
			out = append(out, x.GetName())
		}
	}
	sort.Strings(out)
	return out
}

// onWrite evaluates the invariants right after an effective write.
func (w *world) onWrite(rec *simkube.WriteRecord) {
	k := rec.Call.Key
	sig := fmt.Sprintf("ssa=%v", w.sc.ssa)
	if k.Kind == xrh.XRGVK.Kind && rec.Call.Client == "claim" {
		// J4: never write an XR that (before the write) names another claim.
		if rec.Before != nil {
			if cr := claimRefOf(rec.Before); cr != "" && cr != "ns/c1" {
				w.r.Failf("J4/hijack/"+rec.Call.Verb+"/"+sig, "claim ns/c1 performed %s on XR %s whose claimRef names %s", rec.Call, k.Name, cr)
			}
		}
		// J2: at the instant an XR is created for c1 the stored claim already
		// references it.
		if rec.Before == nil && rec.After != nil {
			cm := w.s.Peek(xrh.ClaimKey("ns", "c1"))
			if got := resourceRefOf(cm); got != k.Name {
				w.r.Failf("J2/xr-created-before-ref/"+sig, "XR %s was created on behalf of ns/c1 while the stored claim's resourceRef is %q", k.Name, got)
			}
		}
	}
	// J1: at most one XR names c1.
	if xs := w.xrsNaming("ns/c1"); len(xs) > 1 {
		w.r.Failf("J1/two-xrs/"+sig, "after %s: %d XRs exist for claim ns/c1: %v", rec.Call, len(xs), xs)
	}
	// J3: once recorded, the claim's XR name never changes.
	if k.Kind == xrh.ClaimGVK.Kind && k.Name == "c1" && rec.After != nil {
		ref := resourceRefOf(rec.After)
		if w.firstRef == "" {
			w.firstRef = ref
		} else if ref != w.firstRef {
			w.r.Failf("J3/ref-changed/"+sig, "claim ns/c1 first recorded XR %q, now %s set resourceRef to %q", w.firstRef, rec.Call, ref)
		}
	}
}

func body(r *explore.Run, sc scenario, rep *report.R) {
	xrh.BeginExecution(9)
	s := xrh.NewStore()
	s.HistoryDepth = 4
	xrd := xrh.XRD()
	s.Seed(xrd)
	xrh.SeedComposition(s, xrh.PipelineComposition("comp", "noop"))
	w := &world{r: r, s: s, sc: sc}
	c1 := xrh.Claim("ns", "c1")
	_ = unstructured.SetNestedField(c1.Object, "comp", "spec", "compositionRef", "name")
	switch sc.initial {
	case "hijack", "hijack-ns", "bindable":
		c1.SetResourceReference(&reference.Composite{APIVersion: xrh.XRGVK.GroupVersion().String(), Kind: xrh.XRGVK.Kind, Name: "x2"})
	case "hijack-kind":
		// The reference names another claim's XR under a foreign kind (the
		// claim CRD only demands that the three strings are present).
		c1.SetResourceReference(&reference.Composite{APIVersion: "other.example.org/v1", Kind: "XOther", Name: "x2"})
	case "ref-missing":
		c1.SetResourceReference(&reference.Composite{APIVersion: xrh.XRGVK.GroupVersion().String(), Kind: xrh.XRGVK.Kind, Name: "c1-pending"})
	}
	s.Seed(c1)
	w.firstRef = resourceRefOf(s.Peek(xrh.ClaimKey("ns", "c1")))
	armed := false
	deletedAtStart := false
	var lagTaken []string
	inj := &xrh.FaultInjector{Run: r, Reads: sc.reads, NotFoundReads: true,
		// The property quantifies over stale reads of the *claim*: a cache
		// that has not seen the claim yet answers 404.
		// For the XR the pinned tree is only safe on the deletion path (see
		// DESIGN.md 7.5); there a 404 must not lead to touching an XR that
		// was never read.
		NotFoundFilter: func(c simkube.Call) bool {
			if c.Key.Kind == xrh.ClaimGVK.Kind {
				return true
			}
			cm := s.Peek(xrh.ClaimKey("ns", "c1"))
			return c.Key.Kind == xrh.XRGVK.Kind && cm != nil && cm.GetDeletionTimestamp() != nil
		},
		Filter:         func(c simkube.Call) bool { return c.Client == "claim" }}
	inj.WithErrClasses(s)
	s.Inj = inj
	cc := &lagClient{Client: s.Client("claim"), r: r, armed: &armed, taken: &lagTaken}
	mkClaim := func() *claimRec { return &claimRec{xrh.NewClaimReconciler(xrd, cc, sc.ssa)} }
	crec := mkClaim()
	xrec := xrh.NewXRReconciler(xrd, xrh.XROptions{Cached: s.Client("xr"), Runner: xrh.FunctionRunner(noResources)})
	nn := types.NamespacedName{Namespace: "ns", Name: "c1"}

	switch sc.initial {
	case "bound":
		for i := 0; i < 6; i++ {
			xrh.Reconcile(crec.r, nn)
			for _, x := range s.All(xrh.XRGVK.GroupKind()) {
				xrh.Reconcile(xrec, types.NamespacedName{Name: x.GetName()})
			}
		}
		w.firstRef = resourceRefOf(s.Peek(xrh.ClaimKey("ns", "c1")))
		if w.firstRef == "" {
			panic(explore.HarnessError{Msg: "preparation: claim not bound"})
		}
	case "hijack-after-bound":
		// The claim was bound (it carries the controller's finalizer); then
		// its resourceRef was edited to name another claim's XR.
		for i := 0; i < 4; i++ {
			xrh.Reconcile(crec.r, nn)
			for _, x := range s.All(xrh.XRGVK.GroupKind()) {
				xrh.Reconcile(xrec, types.NamespacedName{Name: x.GetName()})
			}
		}
		s.Mutate(xrh.ClaimKey("ns", "c1"), func(u *unstructured.Unstructured) {
			_ = unstructured.SetNestedField(u.Object, "x2", "spec", "resourceRef", "name")
		})
		w.firstRef = "x2"
		fallthrough
	case "hijack", "hijack-ns", "hijack-kind":
		// The XR belongs to another claim: a different name, or the same
		// name in another namespace.
		ons, oname := "ns", "c2"
		if sc.initial == "hijack-ns" {
			ons, oname = "other", "c1"
		}
		x2 := xrh.XR("x2", "comp")
		x2.SetClaimReference(&reference.Claim{APIVersion: xrh.ClaimGVK.GroupVersion().String(), Kind: xrh.ClaimGVK.Kind, Namespace: ons, Name: oname})
		x2.SetLabels(map[string]string{"crossplane.io/claim-name": oname, "crossplane.io/claim-namespace": ons})
		s.Seed(x2)
		c2 := xrh.Claim(ons, oname)
		c2.SetResourceReference(&reference.Composite{APIVersion: xrh.XRGVK.GroupVersion().String(), Kind: xrh.XRGVK.Kind, Name: "x2"})
		s.Seed(c2)
	case "bindable":
		s.Seed(xrh.XR("x2", "comp"))
	case "deleted":
		// The claim was bound, then deleted and fully finalized; a lagging
		// cache may still serve it.
		for i := 0; i < 6; i++ {
			xrh.Reconcile(crec.r, nn)
			for _, x := range s.All(xrh.XRGVK.GroupKind()) {
				xrh.Reconcile(xrec, types.NamespacedName{Name: x.GetName()})
			}
		}
		_ = s.Client("user").Delete(context.Background(), xrh.Claim("ns", "c1"))
		for i := 0; i < 6; i++ {
			xrh.Reconcile(crec.r, nn)
			for _, x := range s.All(xrh.XRGVK.GroupKind()) {
				xrh.Reconcile(xrec, types.NamespacedName{Name: x.GetName()})
			}
		}
		if s.Peek(xrh.ClaimKey("ns", "c1")) != nil || len(s.All(xrh.XRGVK.GroupKind())) != 0 {
			panic(explore.HarnessError{Msg: "preparation: claim and XR not fully deleted"})
		}
		deletedAtStart = true
	}
	x2Before := s.Peek(xrh.XRKey("x2"))

	s.OnWrite = append(s.OnWrite, w.onWrite)
	logStart := len(s.Log)

	deleted := deletedAtStart
	for i := 0; i < sc.window; i++ {
		// Between claim reconciles the environment may act: nothing, a full
		// XR reconcile of every XR, or the user deleting the claim.
		switch r.Free(3, fmt.Sprintf("env%d", i)) {
		case 1:
			for _, x := range s.All(xrh.XRGVK.GroupKind()) {
				xrh.Reconcile(xrec, types.NamespacedName{Name: x.GetName()})
			}
			r.Logf("env: XR reconciles")
		case 2:
			if cm := s.Peek(xrh.ClaimKey("ns", "c1")); cm != nil && !deleted {
				cl := xrh.Claim("ns", "c1")
				_ = s.Client("user").Delete(context.Background(), cl)
				deleted = true
				r.Logf("env: user deletes claim")
			}
		}
		r.Seen(report.Hash("w", i, s.Canonical(), w.firstRef, deleted))
		armed, inj.Armed = true, true
		out := xrh.Reconcile(crec.r, nn)
		armed, inj.Armed = false, false
		if out.Crashed != nil {
			r.Logf("claim reconcile %d: CRASH at %s", i, out.Crashed.Call)
			crec = mkClaim()
		} else {
			r.Logf("claim reconcile %d: err=%v", i, out.Err)
		}
	}

	// Fault-free continuation: alternate claim and XR reconciles to quiescence.
	quiet := false
	for i := 0; i < 12 && !quiet; i++ {
		before := s.Versions()
		xrh.Reconcile(crec.r, nn)
		for _, x := range s.All(xrh.XRGVK.GroupKind()) {
			xrh.Reconcile(xrec, types.NamespacedName{Name: x.GetName()})
		}
		quiet = xrh.SameVersions(before, s.Versions())
	}
	if !quiet {
		r.Failf("no-quiescence/"+fmt.Sprintf("ssa=%v", sc.ssa), "claim and XR reconcilers did not quiesce in 12 rounds; last writes: %s", xrh.DescribeWrites(s, len(s.Log)-8))
	}
	xs := w.xrsNaming("ns/c1")
	cm := s.Peek(xrh.ClaimKey("ns", "c1"))
	switch {
	case strings.HasPrefix(sc.initial, "hijack"):
		x2 := s.Peek(xrh.XRKey("x2"))
		if x2 == nil || x2.GetResourceVersion() != x2Before.GetResourceVersion() && claimRefOf(x2) != claimRefOf(x2Before) {
			r.Failf("J4/hijack/final", "XR x2 bound to %s was changed or removed on behalf of ns/c1", claimRefOf(x2Before))
		}
		if len(xs) != 0 && sc.initial != "hijack-after-bound" {
			r.Failf("J4/hijack/bound", "an XR names ns/c1 although its resourceRef pointed at another claim's XR: %v", xs)
		}
	case cm != nil && cm.GetDeletionTimestamp() == nil && !deleted:
		if len(xs) != 1 {
			r.Failf("final/not-bound/"+fmt.Sprintf("ssa=%v", sc.ssa), "at quiescence claim ns/c1 exists but %d XRs name it: %v", len(xs), xs)
		}
		if resourceRefOf(cm) != xs[0] {
			r.Failf("final/ref-mismatch", "claim references %q but XR %q names the claim", resourceRefOf(cm), xs[0])
		}
	}

	// A claim that is gone must not leave an XR behind that names it: nobody
	// would ever delete it.
	xr404 := false
	for _, t := range inj.Taken {
		if strings.HasPrefix(t, "get "+xrh.XRGVK.Kind) && strings.HasSuffix(t, "not-found") {
			xr404 = true // the deleted claim's cache had not seen its XR: the known gap of DESIGN.md 7.5
		}
	}
	if cm == nil && !strings.HasPrefix(sc.initial, "hijack") && len(xs) > 0 && !xr404 {
		r.Failf("orphan/xr-for-deleted-claim/"+fmt.Sprintf("ssa=%v", sc.ssa), "claim ns/c1 no longer exists but XR(s) %v name it (created on its behalf from a stale read: %v)", xs, lagTaken)
	}

	var seq []string
	for _, wr := range s.Log[logStart:] {
		if wr.Effective {
			seq = append(seq, wr.Call.Verb+wr.Call.Sub+":"+wr.Call.Key.Kind)
		}
	}
	taken := append(append([]string{}, inj.Taken...), lagTaken...)
	nt := ""
	if len(taken) > 0 {
		nt = report.Hash(sc.name(), taken, strings.Join(seq, ";"))
	}
	rep.Eval(sc.name(), report.Hash(strings.Join(seq, ";"), len(xs), deleted), nt)
	if len(taken) > 0 && rep.WantSample() {
		rep.Sample(map[string]any{"scenario": sc.name(), "deviations": taken, "effective_writes": seq, "xrs_for_claim": xs})
	}
	_ = kerrors.IsConflict
}

type claimRec struct {
	r reconcile.Reconciler
}

func TestCheck(t *testing.T) {
	rep := report.New("C06", "fault_enumeration")
	rep.Meta(
		"Histories of W real claim reconciles in which every API call of the claim reconciler is a fault point {error-before, conflict, error-after, crash-before, crash-after} and every cached Get of the claim / XR may return a version up to 3 writes old (each a deviation, <= F per history), interleaved with environment events chosen exhaustively before each reconcile {nothing, full XR reconciles, user deletes the claim}, continued fault-free to quiescence; invariants J1-J4 evaluated after every effective write. Non-trivial: at least one fault or stale read; distinct by (scenario, deviations, write sequence).",
		[]string{"simkube models the API server; the lagging reader serves earlier stored versions of an object (informer cache lag)", "XR reconciles run atomically between claim reconciles (API-call-level interleaving with the XR reconciler is not explored in this tier)"},
		[]string{"simkube", "structured-merge-diff (real)"},
	)
	var scs []scenario
	initials := []string{"fresh", "bound", "hijack", "hijack-ns", "hijack-kind", "hijack-after-bound", "bindable", "ref-missing", "deleted"}
	for _, ssa := range []bool{false, true} {
		for _, in := range initials {
			if report.Thorough() {
				scs = append(scs, scenario{ssa: ssa, initial: in, window: 3, bound: 2, reads: true})
			} else {
				scs = append(scs, scenario{ssa: ssa, initial: in, window: 2, bound: 2, reads: false})
				scs = append(scs, scenario{ssa: ssa, initial: in, window: 2, bound: 1, reads: true})
			}
		}
	}
	rep.Bound("window", scs[0].window)
	rep.Bound("max_deviations", 2)
	rep.Bound("max_lag_writes", 3)
	var list []report.Scenario
	for _, sc := range scs {
		sc := sc
		list = append(list, report.Scenario{Name: sc.name(), Bound: sc.bound, Prune: true, Wrap: report.Bubble(t), Body: func(r *explore.Run) { body(r, sc, rep) }})
	}
	// API-call-level interleavings of the claim reconciler, the XR reconciler
	// and the user's deletion of the claim (thread mode, preemption bounded).
	pre := 2
	if report.Thorough() {
		pre = 3
	}
	rep.Bound("interleaving_preemptions", pre)
	for _, ssa := range []bool{false, true} {
		for _, in := range []string{"fresh", "bound"} {
			for _, del := range []bool{false, true} {
				ssa, in, del := ssa, in, del
				name := fmt.Sprintf("interleave/ssa=%v/%s/user-deletes=%v", ssa, in, del)
				list = append(list, report.Scenario{Name: name, Bound: pre, Wrap: report.Bubble(t), Body: func(r *explore.Run) { interleaveBody(r, rep, name, ssa, in, del, 2) }})
			}
		}
	}
	rep.SelfCheck(t, list[0], nil)
	rep.RunScenarios(t, list)
	rep.Write(t)
}
