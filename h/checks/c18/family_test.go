package c18

// Reference oracle for "which resources may a provider revision's system role
// name": written from the property statement and the OCI reference
// convention, never calling the code under test.

import (
	"regexp"
	"strings"

	rbacv1 "k8s.io/api/rbac/v1"

	xpv1 "github.com/crossplane/crossplane-runtime/apis/common/v1"
)

type crd struct{ group, plural string }

// ownedCRDs lists the resources defined by the CRD references of a revision:
// references to kind CustomResourceDefinition of API group
// apiextensions.k8s.io, whose name is <plural>.<group>.
func ownedCRDs(refs []xpv1.TypedReference) []crd {
	var out []crd
	for _, ref := range refs {
		group := ""
		if g, _, ok := strings.Cut(ref.APIVersion, "/"); ok {
			group = g
		}
		if group != "apiextensions.k8s.io" || ref.Kind != "CustomResourceDefinition" {
			continue
		}
		plural, g, ok := strings.Cut(ref.Name, ".")
		if !ok {
			continue
		}
		out = append(out, crd{group: g, plural: plural})
	}
	return out
}

var (
	repoComponent = regexp.MustCompile(`^[a-z0-9]+(?:(?:[._]|__|[-]+)[a-z0-9]+)*$`)
	tagRe         = regexp.MustCompile(`^[A-Za-z0-9_][A-Za-z0-9_.-]{0,127}$`)
	digestRe      = regexp.MustCompile(`^sha256:[a-f0-9]{64}$`)
)

// parseSource splits an OCI reference into registry and organisation.
func parseSource(s, defaultRegistry string) (registry, org string, ok bool) {
	if defaultRegistry == "" {
		defaultRegistry = "index.docker.io"
	}
	if at := strings.Index(s, "@"); at >= 0 {
		if !digestRe.MatchString(s[at+1:]) {
			return "", "", false
		}
		s = s[:at]
	}
	// A tag follows the last ':' that comes after the last '/'.
	if c := strings.LastIndex(s, ":"); c >= 0 && c > strings.LastIndex(s, "/") {
		if !tagRe.MatchString(s[c+1:]) {
			return "", "", false
		}
		s = s[:c]
	}
	registry = defaultRegistry
	repo := s
	if first, rest, has := strings.Cut(s, "/"); has && (strings.ContainsAny(first, ".:") || first == "localhost") {
		registry, repo = first, rest
	}
	parts := strings.Split(repo, "/")
	if len(parts) < 2 {
		return "", "", false // no organisation segment (not enumerated)
	}
	for _, p := range parts {
		if !repoComponent.MatchString(p) {
			return "", "", false
		}
	}
	return registry, parts[0], true
}

// whyNotSameOrg returns "" if both sources are in the same registry and
// organisation, else the reason.
func whyNotSameOrg(a, b, defaultRegistry string) string {
	ra, oa, ok := parseSource(a, defaultRegistry)
	if !ok {
		return "unparsable-source"
	}
	rb, ob, ok := parseSource(b, defaultRegistry)
	if !ok {
		return "unparsable-source"
	}
	if ra != rb {
		return "registry-differs"
	}
	if oa != ob {
		return "org-differs"
	}
	return ""
}

type revision struct {
	name    string
	family  string // "" = no label
	source  string
	refs    []xpv1.TypedReference
	present bool
}

// whyNotFamily returns "" if member's CRDs count as owned by self.
func whyNotFamily(self, member revision, defaultRegistry string) string {
	if self.family == "" {
		return "no-family-label-on-self"
	}
	if member.family != self.family {
		return "family-label-differs"
	}
	return whyNotSameOrg(self.source, member.source, defaultRegistry)
}

// Baseline granted to every provider (the code's constant rulesSystemExtra).
var baseline = rbacv1.PolicyRule{
	APIGroups: []string{"", "coordination.k8s.io"},
	Resources: []string{"secrets", "configmaps", "events", "leases"},
	Verbs:     []string{"*"},
}

// crdRules: the resources and their status, any verb.
func crdRules(crds []crd) []rbacv1.PolicyRule {
	var out []rbacv1.PolicyRule
	for _, c := range crds {
		out = append(out, rbacv1.PolicyRule{APIGroups: []string{c.group}, Resources: []string{c.plural, c.plural + "/status"}, Verbs: []string{"*"}})
	}
	return out
}

// allowedSystemRules is the upper bound of the statement for the system role.
func allowedSystemRules(crds []crd, requests []rbacv1.PolicyRule) []rbacv1.PolicyRule {
	out := crdRules(crds)
	seen := map[string]bool{}
	for _, c := range crds {
		if !seen[c.group] {
			seen[c.group] = true
			out = append(out, rbacv1.PolicyRule{APIGroups: []string{c.group}, Resources: []string{"*/finalizers"}, Verbs: []string{"*"}})
		}
	}
	out = append(out, baseline)
	return append(out, requests...)
}
