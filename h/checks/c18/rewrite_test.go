package c18

import (
	"context"
	"fmt"
	"testing"

	rbacv1 "k8s.io/api/rbac/v1"
	metav1 "k8s.io/apimachinery/pkg/apis/meta/v1"
	"k8s.io/apimachinery/pkg/types"

	xpv1 "github.com/crossplane/crossplane-runtime/apis/common/v1"

	pkgv1 "github.com/crossplane/crossplane/apis/pkg/v1"
	"github.com/crossplane/crossplane/internal/controller/rbac/provider/roles"
	"github.com/crossplane/crossplane/verif/explore"
	"github.com/crossplane/crossplane/verif/report"
	"github.com/crossplane/crossplane/verif/simkube"
	"github.com/crossplane/crossplane/verif/xrh"
)

// ---- layer 2b: the permission requests are rewritten while a reconcile runs --------
//
// The reconcile scenarios hold the revision still. The revision's
// status.permissionRequests is written by another controller (the package
// manager), which may do so at any moment. Here that third party rewrites the
// requests just before the k-th API call of a reconcile of the real roles
// reconciler, for every k, and the revision is then reconciled until a
// reconcile writes nothing any more.
//
// Oracle (only what the statement says):
//   (1) after every completed reconcile and at quiescence the system role
//       grants nothing beyond {CRDs of the revision and of its family,
//       finalizers in those groups, baseline} + what the allow-list role
//       covers: a request may only be granted when it is covered. A role that
//       still holds the (covered) requests of an older snapshot, or lags
//       behind a removal, satisfies this.
//   (2) a reconcile that started when the stored requests already held an
//       uncovered rule writes no ClusterRole at all.

// rewriteMaxK bounds k: a reconcile of a revision with a family label issues
// get revision, list revisions, get allow-list role, 3 x (get role, create or
// update role) = 9 calls; one to spare. A k beyond the calls actually issued
// means the rewrite happens between the first and the second reconcile.
const rewriteMaxK = 10

var (
	rewriteCovered   = resRule([]string{"g"}, []string{"r"}, nil, []string{"get"})         // the allow-list itself
	rewriteCovered2  = resRule([]string{"g"}, []string{"r"}, []string{"n"}, []string{"get"}) // narrower, covered
	rewriteUncovered = []rbacv1.PolicyRule{
		resRule([]string{"*"}, []string{"*"}, nil, []string{"*"}),
		resRule([]string{"g"}, []string{"r"}, nil, []string{"*"}),
	}
	rewriteEdits = []string{"append-uncovered", "replace-covered-by-uncovered", "remove-request", "append-covered"}
)

func rewriteScenario(t *testing.T, rep *report.R) report.Scenario {
	name := "reconcile/requests-rewritten"
	rep.Bound("requests_rewritten_alphabet", fmt.Sprintf("allow-list {g r get}, requests [{g r get}]; a third party rewrites status.permissionRequests (%d edits: append an uncovered rule {2 rules}, replace the covered rule by an uncovered one {2 rules}, remove the rule, append a covered rule) just before the k-th API call of the reconcile, k in 1..%d (beyond the last call = between two reconciles) x roles already settled y/n x family member present y/n; then reconciled until a reconcile writes nothing (at most 6)", len(rewriteEdits), rewriteMaxK))
	return report.Scenario{Name: name, Wrap: report.Bubble(t), Body: func(r *explore.Run) { rewriteBody(r, rep, name) }}
}

func rewriteBody(r *explore.Run, rep *report.R, scenario string) {
	xrh.BeginExecution(7)
	s := xrh.NewStore()
	ctx := context.Background()

	settled := r.Bool("roles-settled-before")
	withFamily := r.Bool("family-member")
	edit := rewriteEdits[r.Free(len(rewriteEdits), "edit")]
	bad := rewriteUncovered[0]
	if edit == "append-uncovered" || edit == "replace-covered-by-uncovered" {
		bad = rewriteUncovered[r.Free(len(rewriteUncovered), "uncovered-rule")]
	}
	k := 1 + r.Free(rewriteMaxK, "before-call")

	self := revision{name: "provider-a-rev1", source: selfSources[0], refs: []xpv1.TypedReference{crdRef("things.a.org")}, present: true}
	crds := ownedCRDs(self.refs)
	if withFamily {
		self.family = "fam"
		m := revision{name: "provider-b-rev1", family: "fam", source: "xpkg.upbound.io/acme/provider-b:v1", refs: []xpv1.TypedReference{crdRef("widgets.b.org")}, present: true}
		s.Seed(providerRevision(m, "uid-member-1", nil))
		crds = append(crds, ownedCRDs(m.refs)...)
	}
	s.Seed(providerRevision(self, "uid-self", []rbacv1.PolicyRule{rewriteCovered}))
	allowRules := []rbacv1.PolicyRule{rewriteCovered}
	s.Seed(&rbacv1.ClusterRole{ObjectMeta: metav1.ObjectMeta{Name: allowRoleName}, Rules: allowRules})
	sysName := "crossplane:provider:" + self.name + ":system"
	prKey := simkube.ObjKey{Group: pkgv1.ProviderRevisionGroupVersionKind.Group, Kind: pkgv1.ProviderRevisionKind, Name: self.name}

	c := s.Client("rbac-manager")
	rec := roles.NewReconciler(fakeMgr{c: c},
		roles.WithPermissionRequestsValidator(roles.NewClusterRoleBackedValidator(c, allowRoleName)),
		roles.WithOrgDiffer(roles.OrgDiffer{DefaultRegistry: defRegs[0]}))
	nn := types.NamespacedName{Name: self.name}

	if settled {
		xrh.Reconcile(rec, nn)
		if storedRole(s, sysName) == nil {
			panic(explore.HarnessError{Msg: "preparation: the settled revision has no system role"})
		}
	}

	// The upper bound of the statement: whatever is granted as a request must
	// be covered by the allow-list.
	upper := allowedSystemRules(crds, allowRules)
	storedRequests := func() []rbacv1.PolicyRule {
		pr := &pkgv1.ProviderRevision{}
		if !s.PeekInto(prKey, pr) {
			panic(explore.HarnessError{Msg: "the revision disappeared"})
		}
		return pr.Status.PermissionRequests
	}

	// The third party.
	pm := s.Client("package-manager")
	rewrite := func() {
		pr := &pkgv1.ProviderRevision{}
		if !s.PeekInto(prKey, pr) {
			panic(explore.HarnessError{Msg: "the revision disappeared"})
		}
		switch edit {
		case "append-uncovered":
			pr.Status.PermissionRequests = append(pr.Status.PermissionRequests, bad)
		case "replace-covered-by-uncovered":
			pr.Status.PermissionRequests = []rbacv1.PolicyRule{bad}
		case "remove-request":
			pr.Status.PermissionRequests = nil
		case "append-covered":
			pr.Status.PermissionRequests = append(pr.Status.PermissionRequests, rewriteCovered2)
		}
		if err := pm.Status().Update(ctx, pr); err != nil {
			panic(explore.HarnessError{Msg: "the third party's status update failed: " + err.Error()})
		}
		if got := storedRequests(); rulesString(got) != rulesString(pr.Status.PermissionRequests) {
			panic(explore.HarnessError{Msg: "the third party's status update did not take effect"})
		}
	}

	calls, fired, firedAt := 0, false, ""
	s.Inj = simkube.InjectorFn(func(call simkube.Call) simkube.Outcome {
		if call.Client != "rbac-manager" {
			return simkube.OK
		}
		calls++
		if !fired && calls == k {
			fired, firedAt = true, call.String()
			rewrite()
			r.Logf("   before call %d (%s): the package manager rewrites the requests: %s -> %s", calls, call, edit, rulesString(storedRequests()))
		}
		return simkube.OK
	})

	v := &verdict{}
	roleWrites := func(from int) []string {
		var out []string
		for _, w := range s.Log[from:] {
			if w.Call.Key.Kind == "ClusterRole" && w.Call.Key.Group == rbacv1.GroupName && w.Effective && !w.Call.DryRun {
				out = append(out, w.Call.Verb+" "+w.Call.Key.Name)
			}
		}
		return out
	}
	during := false // the rewrite happened between two API calls of a reconcile
	quiescent := false
	var trail []string
	for n := 0; n < 6 && v.sig == ""; n++ {
		if n == 1 && !fired {
			// The first reconcile issued fewer than k calls: the rewrite
			// happens between the two reconciles.
			fired, firedAt = true, "between two reconciles"
			rewrite()
			r.Logf("   between reconciles: the package manager rewrites the requests: %s -> %s", edit, rulesString(storedRequests()))
		}
		mark := len(s.Log)
		firedAtStart := fired
		out := xrh.Reconcile(rec, nn)
		// The rewrite happens once, so a reconcile whose first read came
		// after it (it was done before the reconcile, or just before its
		// first call) started on what is stored now.
		startedAfter := firedAtStart || (fired && k == 1)
		if fired && !startedAfter {
			during = true
		}
		startReqs := storedRequests()
		w := roleWrites(mark)
		r.Logf("reconcile %d: err=%v requeue=%v ClusterRole writes %v", n, out.Err, out.Result.Requeue, w)
		trail = append(trail, fmt.Sprint(len(w)))

		// (2) started on uncovered requests: nothing may be written.
		if startedAfter {
			if q := excessOf(startReqs, allowRules); q != nil && len(w) > 0 {
				v.failf("requests-rewritten/role-written/uncovered-request/"+edit, "the revision's requests %s grant %s which the allow-list %s does not cover, yet a reconcile that started after they were stored wrote ClusterRoles: %v", rulesString(startReqs), *q, rulesString(allowRules), w)
			}
		}
		// (1) after every completed reconcile.
		if sys := storedRole(s, sysName); sys != nil {
			if q := excessOf(sys.Rules, upper); q != nil {
				v.failf("requests-rewritten/system-role/grants-uncovered-request/"+edit, "after reconcile %d (requests rewritten %s, %s) the system role %s with rules %s grants %s; the allow-list %s does not cover that and the revision's family owns only %v (stored requests now %s)", n, edit, firedAt, sysName, rulesString(sys.Rules), *q, rulesString(allowRules), crds, rulesString(storedRequests()))
			}
		}
		if fired && n >= 1 && len(w) == 0 && out.Err == nil && !out.Result.Requeue {
			quiescent = true
			break
		}
	}
	s.Inj = nil

	sysRules := "<none>"
	if sys := storedRole(s, sysName); sys != nil {
		sysRules = rulesString(sys.Rules)
	}
	if during {
		count("requests_rewritten_during_reconcile")
	} else {
		count("requests_rewritten_between_reconciles")
	}
	if !quiescent && v.sig == "" {
		count("requests_rewritten_not_quiescent_within_bound")
	}
	nt := ""
	if during {
		nt = report.Hash(scenario, r.Choices)
	}
	eval(rep, r, scenario, report.Hash(edit, during, quiescent, trail, sysRules), nt)
	v.raise(r)
}
