package c18

import (
	"context"
	"fmt"
	"sort"
	"strings"

	rbacv1 "k8s.io/api/rbac/v1"
	metav1 "k8s.io/apimachinery/pkg/apis/meta/v1"
	"k8s.io/apimachinery/pkg/apis/meta/v1/unstructured"
	"k8s.io/apimachinery/pkg/types"
	"k8s.io/client-go/util/workqueue"
	"sigs.k8s.io/controller-runtime/pkg/event"
	"sigs.k8s.io/controller-runtime/pkg/reconcile"

	xpv1 "github.com/crossplane/crossplane-runtime/apis/common/v1"

	pkgv1 "github.com/crossplane/crossplane/apis/pkg/v1"
	"github.com/crossplane/crossplane/internal/controller/rbac/provider/roles"
	"github.com/crossplane/crossplane/verif/explore"
	"github.com/crossplane/crossplane/verif/report"
	"github.com/crossplane/crossplane/verif/simkube"
	"github.com/crossplane/crossplane/verif/xrh"
)

// ---- layer 3: the roles controller driven by its own event handlers ---------------
//
// The reconcile scenarios reconcile the revision they look at. Which
// revisions get reconciled after a change is decided by the event handlers
// roles.Setup registers; a role is only as current as the last reconcile its
// revision got. Here three same-organisation revisions of one family settle,
// then one of them is edited (it leaves the family, moves to another one,
// changes what it owns, is deleted), every write is dispatched as a watch
// event to the real handlers (built as Setup builds them), the queue is
// drained with the real reconciler, and at quiescence every revision's system
// role must grant exactly the CRDs its family owns now.

type revQueue struct {
	workqueue.TypedRateLimitingInterface[reconcile.Request]
	items []string
}

func (q *revQueue) Add(r reconcile.Request) {
	for _, i := range q.items {
		if i == r.Name {
			return
		}
	}
	q.items = append(q.items, r.Name)
}

var eventEdits = []string{"leaves-the-family", "moves-to-another-family", "owns-another-crd", "is-deleted", "joins-back"}

func eventsBody(r *explore.Run, rep *report.R, sc string) {
	xrh.BeginExecution(7)
	s := xrh.NewStore()
	names := []string{"provider-aws-s3-rev1", "provider-aws-ec2-rev1", "provider-aws-kms-rev1"}
	owns := map[string]string{names[0]: "buckets.s3.aws.example.org", names[1]: "instances.ec2.aws.example.org", names[2]: "keys.kms.aws.example.org"}
	for i, n := range names {
		rv := revision{name: n, family: "aws", source: "xpkg.example.org/acme/" + strings.TrimSuffix(n, "-rev1") + ":v1", refs: []xpv1.TypedReference{crdRef(owns[n])}, present: true}
		s.Seed(providerRevision(rv, fmt.Sprintf("uid-%d", i), []rbacv1.PolicyRule{{APIGroups: []string{""}, Resources: []string{"secrets"}, Verbs: []string{"get"}}}))
	}
	s.Seed(&rbacv1.ClusterRole{ObjectMeta: metav1.ObjectMeta{Name: allowRoleName}, Rules: []rbacv1.PolicyRule{{APIGroups: []string{"*"}, Resources: []string{"*"}, Verbs: []string{"*"}}}})
	c := s.Client("rbac-manager")
	rec := roles.NewReconciler(fakeMgr{c: c},
		roles.WithPermissionRequestsValidator(roles.NewClusterRoleBackedValidator(c, allowRoleName)),
		roles.WithOrgDiffer(roles.OrgDiffer{DefaultRegistry: "xpkg.example.org"}))
	family := roles.VerifFamilyHandler(c)
	allow := roles.VerifAllowRoleHandler(c, allowRoleName)
	q := &revQueue{}
	ctx := context.Background()
	// Every effective write becomes a watch event (the For() handler enqueues
	// the revision itself; Owns() enqueues the owner of a written role).
	revGK := pkgv1.ProviderRevisionGroupVersionKind.GroupKind()
	typed := func(u *unstructured.Unstructured) *pkgv1.ProviderRevision {
		if u == nil {
			return nil
		}
		pr := &pkgv1.ProviderRevision{}
		if !s.PeekIntoU(u, pr) {
			return nil
		}
		return pr
	}
	s.OnWrite = append(s.OnWrite, func(w *simkube.WriteRecord) {
		switch {
		case w.Call.Key.GK() == revGK:
			before, after := typed(w.Before), typed(w.After)
			switch {
			case before == nil && after != nil:
				q.Add(reconcile.Request{NamespacedName: types.NamespacedName{Name: after.GetName()}})
				family.Create(ctx, event.CreateEvent{Object: after}, q)
			case before != nil && (after == nil || w.Deleted):
				family.Delete(ctx, event.DeleteEvent{Object: before}, q)
			case before != nil && after != nil:
				q.Add(reconcile.Request{NamespacedName: types.NamespacedName{Name: after.GetName()}})
				family.Update(ctx, event.UpdateEvent{ObjectOld: before, ObjectNew: after}, q)
			}
		case w.Call.Key.Kind == "ClusterRole":
			cr := &rbacv1.ClusterRole{}
			if w.After != nil && s.PeekIntoU(w.After, cr) {
				allow.Update(ctx, event.UpdateEvent{ObjectOld: cr, ObjectNew: cr}, q)
				if o := metav1.GetControllerOf(cr); o != nil && o.Kind == pkgv1.ProviderRevisionKind {
					q.Add(reconcile.Request{NamespacedName: types.NamespacedName{Name: o.Name}})
				}
			}
		}
	})
	drain := func(what string) {
		for n := 0; len(q.items) > 0; n++ {
			if n > 60 {
				r.Failf("events/never-quiescent", "%s: the work queue does not drain (still %v)", what, q.items)
			}
			name := q.items[0]
			q.items = q.items[1:]
			out := xrh.Reconcile(rec, types.NamespacedName{Name: name})
			if out.Result.Requeue || out.Err != nil {
				q.Add(reconcile.Request{NamespacedName: types.NamespacedName{Name: name}})
			}
		}
	}
	for _, n := range names {
		q.Add(reconcile.Request{NamespacedName: types.NamespacedName{Name: n}})
	}
	drain("initial settle")
	check := func(stage string) {
		// What each present revision's family owns now.
		fam := map[string][]string{}
		label := map[string]string{}
		for _, u := range s.All(revGK) {
			pr := typed(u)
			label[pr.GetName()] = pr.GetLabels()[pkgv1.LabelProviderFamily]
		}
		for _, u := range s.All(revGK) {
			pr := typed(u)
			for _, o := range s.All(revGK) {
				m := typed(o)
				if m.GetName() == pr.GetName() || (label[pr.GetName()] != "" && label[m.GetName()] == label[pr.GetName()]) {
					for _, ref := range m.Status.ObjectRefs {
						fam[pr.GetName()] = append(fam[pr.GetName()], ref.Name)
					}
				}
			}
		}
		for name, want := range fam {
			cr := storedRole(s, "crossplane:provider:"+name+":system")
			if cr == nil {
				r.Failf("events/system-role-missing", "%s: revision %s has no system role", stage, name)
			}
			granted := map[string]bool{}
			for _, rule := range cr.Rules {
				for _, g := range rule.APIGroups {
					for _, res := range rule.Resources {
						if strings.HasSuffix(g, ".aws.example.org") && !strings.Contains(res, "/") && res != "*" {
							granted[res+"."+g] = true
						}
					}
				}
			}
			wantSet := map[string]bool{}
			for _, w := range want {
				wantSet[w] = true
			}
			var extra, missing []string
			for g := range granted {
				if !wantSet[g] {
					extra = append(extra, g)
				}
			}
			for w := range wantSet {
				if !granted[w] {
					missing = append(missing, w)
				}
			}
			sort.Strings(extra)
			sort.Strings(missing)
			if len(extra) > 0 {
				r.Failf("events/system-role/stale-grant-after-family-change", "%s: with an empty work queue the system role of %s (family %q) still grants %v, which no revision of its family owns now (family owns %v)", stage, name, label[name], extra, want)
			}
			if len(missing) > 0 {
				r.Failf("events/system-role/grant-missing-after-family-change", "%s: with an empty work queue the system role of %s (family %q) lacks %v, which its family owns now", stage, name, label[name], missing)
			}
		}
	}
	check("after the initial settle")
	user := s.Client("user")
	var trail []string
	for step := 0; step < 2; step++ {
		who := names[r.Free(len(names), fmt.Sprintf("who%d", step))]
		edit := eventEdits[r.Free(len(eventEdits), fmt.Sprintf("edit%d", step))]
		key := simkube.ObjKey{Group: revGK.Group, Kind: revGK.Kind, Name: who}
		pr := &pkgv1.ProviderRevision{}
		if !s.PeekInto(key, pr) {
			continue
		}
		switch edit {
		case "leaves-the-family":
			delete(pr.Labels, pkgv1.LabelProviderFamily)
			_ = user.Update(ctx, pr)
		case "moves-to-another-family":
			pr.Labels = map[string]string{pkgv1.LabelProviderFamily: "gcp"}
			_ = user.Update(ctx, pr)
		case "joins-back":
			pr.Labels = map[string]string{pkgv1.LabelProviderFamily: "aws"}
			_ = user.Update(ctx, pr)
		case "owns-another-crd":
			pr.Status.ObjectRefs = []xpv1.TypedReference{crdRef("others." + strings.SplitN(owns[who], ".", 2)[1])}
			_ = user.Status().Update(ctx, pr)
		case "is-deleted":
			_ = user.Delete(ctx, pr)
		}
		trail = append(trail, who+" "+edit)
		drain(who + " " + edit)
		r.Logf("step %d: %s %s", step, who, edit)
		check("after " + strings.Join(trail, ", then "))
	}
	rep.Eval(sc, report.Hash(len(s.All(revGK)), trail), report.Hash(sc, trail))
}

func eventScenarios(rep *report.R, wrap func(func())) []report.Scenario {
	return []report.Scenario{{Name: "events/family-changes", Wrap: wrap, Body: func(r *explore.Run) { eventsBody(r, rep, "events/family-changes") }}}
}
