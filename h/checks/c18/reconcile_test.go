package c18

import (
	"context"
	"fmt"
	"sort"
	"strings"
	"testing"

	appsv1 "k8s.io/api/apps/v1"
	corev1 "k8s.io/api/core/v1"
	rbacv1 "k8s.io/api/rbac/v1"
	extv1 "k8s.io/apiextensions-apiserver/pkg/apis/apiextensions/v1"
	metav1 "k8s.io/apimachinery/pkg/apis/meta/v1"
	"k8s.io/apimachinery/pkg/types"
	"sigs.k8s.io/controller-runtime/pkg/client"
	"sigs.k8s.io/controller-runtime/pkg/manager"

	xpv1 "github.com/crossplane/crossplane-runtime/apis/common/v1"

	apiextv1 "github.com/crossplane/crossplane/apis/apiextensions/v1"
	pkgv1 "github.com/crossplane/crossplane/apis/pkg/v1"
	"github.com/crossplane/crossplane/internal/controller/rbac/definition"
	"github.com/crossplane/crossplane/internal/controller/rbac/provider/binding"
	"github.com/crossplane/crossplane/internal/controller/rbac/provider/roles"
	"github.com/crossplane/crossplane/verif/explore"
	"github.com/crossplane/crossplane/verif/report"
	"github.com/crossplane/crossplane/verif/simkube"
	"github.com/crossplane/crossplane/verif/xrh"
)

// fakeMgr is the manager handed to NewReconciler: only GetClient is used.
type fakeMgr struct {
	manager.Manager
	c client.Client
}

func (m fakeMgr) GetClient() client.Client { return m.c }

// ---- alphabets -------------------------------------------------------------------

type allowOpt struct {
	name       string
	configured bool // an allow-list ClusterRole name was given to the RBAC manager
	exists     bool // ... and the ClusterRole exists
	rules      []rbacv1.PolicyRule
}

var allowOpts = []allowOpt{
	{"specific", true, true, []rbacv1.PolicyRule{resRule([]string{"g"}, []string{"r"}, nil, []string{"get"})}},
	{"all", true, true, []rbacv1.PolicyRule{resRule([]string{"*"}, []string{"*"}, nil, []string{"*"})}},
	{"named", true, true, []rbacv1.PolicyRule{resRule([]string{"g"}, []string{"r"}, []string{"n"}, []string{"get"})}},
	{"norules", true, true, nil},
	{"missing", true, false, nil},
	{"unconfigured", false, false, nil},
}

type reqOpt struct {
	name  string
	rules []rbacv1.PolicyRule
}

var reqOpts = []reqOpt{
	{"none", nil},
	{"plain", []rbacv1.PolicyRule{resRule([]string{"g"}, []string{"r"}, nil, []string{"get"})}},
	{"wild", []rbacv1.PolicyRule{resRule([]string{"g"}, []string{"*"}, nil, []string{"get"})}},
	{"ok+bad", []rbacv1.PolicyRule{resRule([]string{"g"}, []string{"r"}, nil, []string{"get"}), resRule([]string{"g"}, []string{"r"}, nil, []string{"*"})}},
	{"bad+ok", []rbacv1.PolicyRule{resRule([]string{"g"}, []string{"r"}, nil, []string{"*"}), resRule([]string{"g"}, []string{"r"}, nil, []string{"get"})}},
	{"named", []rbacv1.PolicyRule{resRule([]string{"g"}, []string{"r"}, []string{"n"}, []string{"get"})}},
}

const (
	crdAPIVersion = "apiextensions.k8s.io/v1"
	crdKind       = "CustomResourceDefinition"
	digest        = "sha256:0123456789abcdef0123456789abcdef0123456789abcdef0123456789abcdef"
)

func crdRef(name string) xpv1.TypedReference {
	return xpv1.TypedReference{APIVersion: crdAPIVersion, Kind: crdKind, Name: name}
}

var selfOwnsOpts = [][]xpv1.TypedReference{
	{crdRef("things.a.org")},
	{},
	{
		crdRef("things.a.org"),
		{APIVersion: "apps/v1", Kind: "Deployment", Name: "sneaky.c.org"},
		{APIVersion: crdAPIVersion, Kind: "NotACRD", Name: "sneaky2.c.org"},
		{APIVersion: "other.io/v1", Kind: crdKind, Name: "sneaky3.c.org"},
		{APIVersion: "apiextensions.k8s.io/v1beta1", Kind: crdKind, Name: "olds.a.org"},
		crdRef("nodot"),
	},
}

var memberOwnsOpts = [][]xpv1.TypedReference{
	{crdRef("widgets.b.org")},
	{crdRef("widgets.b.org"), crdRef("gadgets.a.org")},
}

var (
	selfSources = []string{"xpkg.upbound.io/acme/provider-a:v1", "acme/provider-a:v1"}
	defRegs     = []string{"xpkg.upbound.io", "registry.example.com"}
	labels      = []string{"fam", "other-fam", ""}
)

// m2Sources: one representative per class for the second member.
var m2Sources = []string{
	"xpkg.upbound.io/acme/provider-c:v1",
	"other.io/acme/provider-c:v1",
	"xpkg.upbound.io/evil/provider-c:v1",
	"acme/provider-c:v1",
	"xpkg.upbound.io/acme-evil/provider-c:v1",
	"xpkg.upbound.io/Acme/provider-c:v1",
}

func memberSources() []string {
	out := []string{
		"xpkg.upbound.io/acme/provider-b:v1",      // same registry and org
		"other.io/acme/provider-b:v1",             // different registry
		"xpkg.upbound.io/evil/provider-c:v1",      // same registry, different org
		"acme/provider-b:v1",                      // no registry host
		"evil/provider-c:v1",                      // no registry host, different org
		"xpkg.upbound.io/acme-evil/provider-c:v1", // org with our org as prefix
		"xpkg.upbound.io/acme/provider-b@" + digest,
		"xpkg.upbound.io/Acme/provider-b:v1", // not a valid reference
	}
	if report.Thorough() {
		out = append(out,
			"xpkg.upbound.io.evil.com/acme/provider-b:v1", // registry with our registry as prefix
			"xpkg.upbound.io/acme/team/provider-b:v1",     // nested repository, same org
		)
	}
	return out
}

// staleRoles models the roles an earlier reconcile of the same revision left
// behind, when (a) a then-present member of the same family, registry and
// organisation owned widgets.b.org (only if the revision carries the family
// label; that member has since been replaced by the one enumerated) and (b)
// the allow-list then covered a request {g r *}. A revision for which that
// earlier reconcile had no resources at all has no roles.
func staleRoles(self revision) (system, aggregate []rbacv1.PolicyRule) {
	crds := ownedCRDs(self.refs)
	if self.family != "" {
		crds = append(crds, crd{group: "b.org", plural: "widgets"})
	}
	if len(crds) == 0 {
		return nil, nil
	}
	var groups []string
	seen := map[string]bool{}
	for _, c := range crds {
		system = append(system, resRule([]string{c.group}, []string{c.plural, c.plural + "/status"}, nil, []string{"get", "list", "watch", "update", "patch", "create"}))
		aggregate = append(aggregate, resRule([]string{c.group}, []string{c.plural, c.plural + "/status"}, nil, []string{"*"}))
		if !seen[c.group] {
			seen[c.group] = true
			groups = append(groups, c.group)
		}
	}
	system = append(system,
		resRule(groups, []string{"*/finalizers"}, nil, []string{"update"}),
		resRule([]string{"", "coordination.k8s.io"}, []string{"secrets", "configmaps", "events", "leases"}, nil, []string{"*"}),
		resRule([]string{"g"}, []string{"r"}, nil, []string{"*"}),
	)
	return system, aggregate
}

// ---- concrete universe for role checks ------------------------------------------------

var roleUniverse = func() []creq {
	ub := newUniverse()
	for _, o := range allowOpts {
		ub.mention(o.rules...)
	}
	for _, o := range reqOpts {
		ub.mention(o.rules...)
	}
	ub.mention(baseline)
	for _, refs := range append(append([][]xpv1.TypedReference{}, selfOwnsOpts...), memberOwnsOpts...) {
		for _, ref := range refs {
			if p, g, ok := strings.Cut(ref.Name, "."); ok {
				ub.mention(resRule([]string{g}, []string{p, p + "/status", p + "/finalizers"}, nil, nil))
			}
		}
	}
	for _, n := range []string{"gizmos.b.org", "doodads.d.org"} { // member 2 (thorough)
		p, g, _ := strings.Cut(n, ".")
		ub.mention(resRule([]string{g}, []string{p, p + "/status", p + "/finalizers"}, nil, nil))
	}
	ub.mention(resRule(nil, []string{"nodot"}, nil, []string{"get", "list", "watch", "update", "patch", "create", "delete"}))
	return ub.build()
}()

var subsetMemo = map[string]*creq{}

// excessOf memoises firstExcess over roleUniverse (a pure function of both
// rule sets).
func excessOf(sub, super []rbacv1.PolicyRule) *creq {
	k := rulesString(sub) + "<=" + rulesString(super)
	if q, ok := subsetMemo[k]; ok {
		return q
	}
	q := firstExcess(roleUniverse, sub, super)
	subsetMemo[k] = q
	return q
}

// ---- fixtures ---------------------------------------------------------------------------

func providerRevision(rv revision, uid string, reqs []rbacv1.PolicyRule) *pkgv1.ProviderRevision {
	pr := &pkgv1.ProviderRevision{
		ObjectMeta: metav1.ObjectMeta{Name: rv.name, UID: types.UID(uid)},
		Spec:       pkgv1.ProviderRevisionSpec{PackageRevisionSpec: pkgv1.PackageRevisionSpec{DesiredState: pkgv1.PackageRevisionActive, Package: rv.source, Revision: 1}},
	}
	if rv.family != "" {
		pr.SetLabels(map[string]string{"pkg.crossplane.io/provider-family": rv.family})
	}
	pr.Status.ObjectRefs = rv.refs
	pr.Status.PermissionRequests = reqs
	return pr
}

func controllerRef(apiVersion, kind, name, uid string) metav1.OwnerReference {
	t := true
	return metav1.OwnerReference{APIVersion: apiVersion, Kind: kind, Name: name, UID: types.UID(uid), Controller: &t, BlockOwnerDeletion: &t}
}

var clusterRoleGK = struct{ Group, Kind string }{rbacv1.GroupName, "ClusterRole"}

func roleKey(name string) simkube.ObjKey {
	return simkube.ObjKey{Group: clusterRoleGK.Group, Kind: clusterRoleGK.Kind, Name: name}
}

// effectiveWrites lists the successful non-dry-run writes of a kind.
func effectiveWrites(s *simkube.Store, kind string) []string {
	var out []string
	for _, w := range s.Log {
		if w.Call.Key.Kind == kind && w.Call.Key.Group == rbacv1.GroupName && w.Effective && !w.Call.DryRun {
			out = append(out, w.Call.Verb+" "+w.Call.Key.Name)
		}
	}
	return out
}

func storedRole(s *simkube.Store, name string) *rbacv1.ClusterRole {
	cr := &rbacv1.ClusterRole{}
	if !s.PeekInto(roleKey(name), cr) {
		return nil
	}
	return cr
}

// ---- layer 2: roles reconciler --------------------------------------------------------------

func reconcileScenarios(t *testing.T, rep *report.R) []report.Scenario {
	var out []report.Scenario
	srcs := memberSources()
	rep.Bound("reconcile_alphabet", fmt.Sprintf("allow-list options %d x request options %d (one scenario each) x self {family label y/n, 2 sources, 2 default registries, 3 owned-reference lists, stale roles y/n} x member1 {3 labels x %d sources x 2 owned lists}%s", len(allowOpts), len(reqOpts), len(srcs), map[bool]string{true: " x member2 {absent | 2 labels x 6 sources x 2 owned lists}", false: ""}[report.Thorough()]))
	for _, ao := range allowOpts {
		for _, ro := range reqOpts {
			ao, ro := ao, ro
			name := "reconcile/allow=" + ao.name + "/req=" + ro.name
			out = append(out, report.Scenario{Name: name, Wrap: report.Bubble(t), Body: func(r *explore.Run) {
				reconcileBody(r, rep, name, ao, ro, srcs)
			}})
		}
	}
	return out
}

func reconcileBody(r *explore.Run, rep *report.R, scenario string, ao allowOpt, ro reqOpt, srcs []string) {
	xrh.BeginExecution(7)
	s := xrh.NewStore()

	self := revision{name: "provider-a-rev1", present: true}
	self.family = "fam"
	if r.Bool("self.no-family-label") {
		self.family = ""
	}
	self.source = selfSources[r.Free(len(selfSources), "self.source")]
	defReg := ""
	if ao.configured {
		defReg = defRegs[r.Free(len(defRegs), "default-registry")]
	}
	self.refs = selfOwnsOpts[r.Free(len(selfOwnsOpts), "self.owns")]
	stale := r.Bool("stale-roles")

	members := []revision{{name: "provider-b-rev1", present: true}}
	members[0].family = labels[r.Free(len(labels), "m1.label")]
	members[0].source = srcs[r.Free(len(srcs), "m1.source")]
	members[0].refs = memberOwnsOpts[r.Free(len(memberOwnsOpts), "m1.owns")]
	if report.Thorough() && r.Bool("m2.present") {
		m2 := revision{name: "provider-c-rev1", present: true}
		m2.family = labels[r.Free(2, "m2.label")]
		m2.source = m2Sources[r.Free(len(m2Sources), "m2.source")]
		// Member 2 owns other CRDs than member 1 so that both are observable.
		if r.Bool("m2.owns") {
			m2.refs = []xpv1.TypedReference{crdRef("gizmos.b.org"), crdRef("doodads.d.org")}
		} else {
			m2.refs = []xpv1.TypedReference{crdRef("doodads.d.org")}
		}
		members = append(members, m2)
	}

	selfUID := "uid-self"
	s.Seed(providerRevision(self, selfUID, ro.rules))
	for i, m := range members {
		s.Seed(providerRevision(m, fmt.Sprintf("uid-member-%d", i+1), nil))
	}
	if ao.exists {
		s.Seed(&rbacv1.ClusterRole{ObjectMeta: metav1.ObjectMeta{Name: allowRoleName}, Rules: ao.rules})
	}
	sysName := "crossplane:provider:" + self.name + ":system"
	editName := "crossplane:provider:" + self.name + ":aggregate-to-edit"
	viewName := "crossplane:provider:" + self.name + ":aggregate-to-view"
	if staleSystemRules, staleAggregateRules := staleRoles(self); stale && staleSystemRules != nil {
		ref := controllerRef("pkg.crossplane.io/v1", "ProviderRevision", self.name, selfUID)
		s.Seed(
			&rbacv1.ClusterRole{ObjectMeta: metav1.ObjectMeta{Name: sysName, OwnerReferences: []metav1.OwnerReference{ref}, Labels: map[string]string{"rbac.crossplane.io/system": self.name}}, Rules: staleSystemRules},
			&rbacv1.ClusterRole{ObjectMeta: metav1.ObjectMeta{Name: editName, OwnerReferences: []metav1.OwnerReference{ref}}, Rules: staleAggregateRules},
			&rbacv1.ClusterRole{ObjectMeta: metav1.ObjectMeta{Name: viewName, OwnerReferences: []metav1.OwnerReference{ref}}, Rules: staleAggregateRules},
		)
	}

	// The reconciler exactly as roles.Setup wires it.
	c := s.Client("rbac-manager")
	var rec *roles.Reconciler
	if ao.configured {
		rec = roles.NewReconciler(fakeMgr{c: c},
			roles.WithPermissionRequestsValidator(roles.NewClusterRoleBackedValidator(c, allowRoleName)),
			roles.WithOrgDiffer(roles.OrgDiffer{DefaultRegistry: defReg}))
	} else {
		rec = roles.NewReconciler(fakeMgr{c: c})
	}
	out := xrh.Reconcile(rec, types.NamespacedName{Name: self.name})
	r.Logf("reconcile: err=%v", out.Err)
	writes := effectiveWrites(s, "ClusterRole")
	r.Logf("ClusterRole writes: %v", writes)

	// ---- oracle ----
	var allowRules []rbacv1.PolicyRule
	if ao.exists {
		allowRules = ao.rules
	}
	uncovered := excessOf(ro.rules, allowRules)
	// What the configured validator itself says about these requests.
	var direct []roles.Rule
	switch {
	case ao.exists:
		direct = validate(ao.rules, ro.rules)
	case !ao.configured:
		direct, _ = roles.VerySecureValidator(context.Background(), ro.rules...)
	}

	v := &verdict{}
	class := "accepted"
	switch {
	case ao.configured && !ao.exists:
		class = "allow-list-missing"
		if len(writes) > 0 {
			v.failf("reconcile/role-written/allow-list-missing", "the allow-list ClusterRole does not exist, yet the reconcile wrote ClusterRoles: %v", writes)
		}
	case len(direct) > 0:
		class = "rejected"
		if len(writes) > 0 {
			v.failf("reconcile/role-written/after-rejection", "the validator rejects %v of requests %s (allow-list %s), yet the reconcile wrote ClusterRoles: %v", direct, rulesString(ro.rules), rulesString(allowRules), writes)
		}
	case uncovered != nil:
		class = "uncovered"
		if len(writes) > 0 {
			v.failf("reconcile/role-written/uncovered-request/"+excessDimension(allowRules, *uncovered), "requests %s grant %s which allow-list %s does not, yet the reconcile wrote ClusterRoles: %v", rulesString(ro.rules), *uncovered, rulesString(allowRules), writes)
		}
	}

	sys := storedRole(s, sysName)
	admitted, refused := 0, 0
	if class == "accepted" {
		allowed := ownedCRDs(self.refs)
		why := map[string]string{} // group -> why a member owning CRDs in it is not family
		for _, m := range members {
			w := whyNotFamily(self, m, defReg)
			if w == "" {
				allowed = append(allowed, ownedCRDs(m.refs)...)
				admitted++
				continue
			}
			refused++
			for _, c := range ownedCRDs(m.refs) {
				why[c.group+"/"+c.plural] = w
				if _, ok := why[c.group]; !ok {
					why[c.group] = w
				}
			}
		}
		classify := func(q creq) string {
			if w, ok := why[q.group+"/"+q.res]; ok {
				return "member-crd/" + w
			}
			if w, ok := why[q.group]; ok {
				return "member-group/" + w
			}
			if q.group == "c.org" || q.res == "nodot" {
				return "non-crd-reference"
			}
			return "other"
		}
		check := func(kind, name string, upper []rbacv1.PolicyRule) {
			cr := storedRole(s, name)
			if cr == nil {
				return
			}
			q := excessOf(cr.Rules, upper)
			if q == nil {
				return
			}
			if stale && len(writes) == 0 {
				reason := "other"
				if len(allowed) == 0 {
					reason = "no-resources"
				}
				class = "accepted/stale-grant-kept"
				v.failf(kind+"/stale-grant-kept/"+reason, "role %s, left by an earlier reconcile when a same-org family member owned widgets.b.org, grants %s; no present revision that counts as family owns that now (self owns %v, family label %q, members %s) and this reconcile wrote nothing, so the grant is never withdrawn", name, *q, ownedCRDs(self.refs), self.family, describeMembers(members))
			}
			v.failf(kind+"/exceeds/"+classify(*q), "role %s with rules %s grants %s; allowed is only %s (self %s label %q owns %v; default registry %q; members %s)", name, rulesString(cr.Rules), *q, rulesString(upper), self.source, self.family, ownedCRDs(self.refs), defReg, describeMembers(members))
		}
		check("system-role", sysName, allowedSystemRules(allowed, ro.rules))
		check("aggregate-role", editName, crdRules(allowed))
		check("aggregate-role", viewName, crdRules(allowed))
	}

	// ---- accounting ----
	if len(writes) > 0 {
		count("reconcile_roles_written")
	} else {
		count("reconcile_nothing_written")
	}
	countN("reconcile_family_member_admitted", admitted)
	countN("reconcile_family_member_refused", refused)
	sysRules := "<none>"
	if sys != nil {
		sysRules = rulesString(sys.Rules)
	}
	outcome := report.Hash(class, len(writes), sysRules)
	nt := ""
	consulted := false
	for _, m := range members {
		if self.family != "" && m.family == self.family {
			consulted = true
		}
	}
	if consulted || len(ro.rules) > 0 {
		nt = report.Hash(scenario, r.Choices)
	}
	eval(rep, r, scenario, outcome, nt)
	if consulted && refused > 0 && len(writes) > 0 {
		sample(rep, scenario, func() map[string]any {
			return map[string]any{"scenario": scenario, "self": self.source, "default_registry": defReg, "members": describeMembers(members), "class": class, "writes": writes, "system_role": sysRules, "choices": append([]int{}, r.Choices...)}
		})
	}
	v.raise(r)
}

func describeMembers(ms []revision) string {
	var p []string
	for _, m := range ms {
		p = append(p, fmt.Sprintf("{%s label %q owns %v}", m.source, m.family, ownedCRDs(m.refs)))
	}
	return strings.Join(p, " ")
}

// ---- binding reconciler ------------------------------------------------------------------------

func bindingScenario(t *testing.T, rep *report.R) report.Scenario {
	name := "binding"
	rep.Bound("binding_alphabet", "revision {normal, paused, deleting} x presence of 4 deployments {controlled by the revision, owned (not controlled) by it, controlled by another revision, unowned} x an existing binding {none, only a stale subject, stale + current subjects}")
	return report.Scenario{Name: name, Wrap: report.Bubble(t), Body: func(r *explore.Run) {
		xrh.BeginExecution(7)
		s := xrh.NewStore()
		s.NamespacedKinds[appsv1.SchemeGroupVersion.WithKind("Deployment").GroupKind()] = true
		self := revision{name: "provider-a-rev1", source: selfSources[0]}
		pr := providerRevision(self, "uid-self", nil)
		state := r.Free(3, "revision.state")
		switch state {
		case 1:
			pr.SetAnnotations(map[string]string{"crossplane.io/paused": "true"})
		case 2:
			now := metav1.Now()
			pr.SetDeletionTimestamp(&now)
			pr.SetFinalizers([]string{"example.org/hold"})
		}
		s.Seed(pr)
		f := false
		owners := [][]metav1.OwnerReference{
			{controllerRef("pkg.crossplane.io/v1", "ProviderRevision", self.name, "uid-self")},
			{{APIVersion: "pkg.crossplane.io/v1", Kind: "ProviderRevision", Name: self.name, UID: "uid-self", Controller: &f}},
			{controllerRef("pkg.crossplane.io/v1", "ProviderRevision", "provider-b-rev1", "uid-other")},
			nil,
		}
		ownedSA := map[string]bool{}
		for i, o := range owners {
			if !r.Bool(fmt.Sprintf("deployment%d.present", i)) {
				continue
			}
			sa := fmt.Sprintf("sa-%d", i)
			d := &appsv1.Deployment{ObjectMeta: metav1.ObjectMeta{Name: fmt.Sprintf("d%d", i), Namespace: "crossplane-system", OwnerReferences: o},
				Spec: appsv1.DeploymentSpec{Template: corev1.PodTemplateSpec{Spec: corev1.PodSpec{ServiceAccountName: sa}}}}
			s.Seed(d)
			if i < 2 {
				ownedSA["crossplane-system/"+sa] = true
			}
		}
		sysName := "crossplane:provider:" + self.name + ":system"
		// A binding written by an earlier reconcile, when the revision ran
		// another deployment: its service account is no longer the
		// revision's and must lose the role.
		existing := 0
		if state == 0 {
			existing = r.Free(3, "existing-binding(none, stale subject only, stale + every current subject)")
		}
		if existing > 0 {
			subs := []rbacv1.Subject{{Kind: "ServiceAccount", Namespace: "crossplane-system", Name: "sa-of-an-earlier-deployment"}}
			if existing == 2 {
				var ids []string
				for id := range ownedSA {
					ids = append(ids, id)
				}
				sort.Strings(ids)
				for _, id := range ids {
					subs = append(subs, rbacv1.Subject{Kind: "ServiceAccount", Namespace: "crossplane-system", Name: strings.TrimPrefix(id, "crossplane-system/")})
				}
			}
			s.Seed(&rbacv1.ClusterRoleBinding{
				ObjectMeta: metav1.ObjectMeta{Name: sysName, OwnerReferences: []metav1.OwnerReference{controllerRef("pkg.crossplane.io/v1", "ProviderRevision", self.name, "uid-self")}},
				RoleRef:    rbacv1.RoleRef{APIGroup: rbacv1.GroupName, Kind: "ClusterRole", Name: sysName},
				Subjects:   subs,
			})
		}
		c := s.Client("rbac-manager")
		out := xrh.Reconcile(binding.NewReconciler(fakeMgr{c: c}), types.NamespacedName{Name: self.name})
		r.Logf("reconcile: err=%v", out.Err)
		v := &verdict{}
		var seen []string
		for _, u := range s.All(rbacv1.SchemeGroupVersion.WithKind("ClusterRoleBinding").GroupKind()) {
			crb := &rbacv1.ClusterRoleBinding{}
			s.PeekInto(simkube.KeyOf(u), crb)
			if crb.RoleRef.Kind != "ClusterRole" || crb.RoleRef.APIGroup != rbacv1.GroupName || crb.RoleRef.Name != sysName {
				v.failf("binding/wrong-role", "ClusterRoleBinding %s binds role %+v, expected only the revision's own system role %s", crb.GetName(), crb.RoleRef, sysName)
			}
			for _, sub := range crb.Subjects {
				id := sub.Namespace + "/" + sub.Name
				seen = append(seen, id)
				if sub.Kind != "ServiceAccount" || !ownedSA[id] {
					v.failf("binding/foreign-subject", "ClusterRoleBinding %s binds subject %+v which is not the service account of a deployment owned by the revision (owned: %v)", crb.GetName(), sub, sortedKeys(ownedSA))
				}
			}
		}
		count("binding_cases")
		nt := ""
		if len(ownedSA) > 0 && state == 0 {
			nt = report.Hash(name, r.Choices)
		}
		eval(rep, r, name, report.Hash(state, seen, len(effectiveWrites(s, "ClusterRoleBinding"))), nt)
		if nt != "" {
			sample(rep, name, func() map[string]any {
				return map[string]any{"scenario": name, "owned_service_accounts": sortedKeys(ownedSA), "bound_subjects": seen, "choices": append([]int{}, r.Choices...)}
			})
		}
		v.raise(r)
	}}
}

// ---- layer 3: XRD roles -----------------------------------------------------------------------------

var (
	xrdGroups  = []string{"example.org", "a.example.org"}
	xrdPlurals = []string{"xthings", "xwidgets"}
	xrdClaims  = []string{"", "things", "widgets"}
)

var xrdUniverse = func() []creq {
	ub := newUniverse()
	for _, g := range xrdGroups {
		for _, p := range append(append([]string{}, xrdPlurals...), xrdClaims[1:]...) {
			ub.mention(resRule([]string{g}, []string{p, p + "/status", p + "/finalizers"}, nil, []string{"get", "list", "watch", "update", "patch", "create", "delete"}))
		}
	}
	ub.mention(resRule([]string{""}, nil, []string{"n"}, nil))
	return ub.build()
}()

func xrdScenario(t *testing.T, rep *report.R) report.Scenario {
	name := "xrd"
	rep.Bound("xrd_alphabet", "XRD group {2} x composite plural {2} x claim names {none, 2} x stale over-broad roles y/n x XRD being deleted y/n")
	return report.Scenario{Name: name, Wrap: report.Bubble(t), Body: func(r *explore.Run) {
		xrh.BeginExecution(7)
		s := xrh.NewStore()
		group := xrdGroups[r.Free(len(xrdGroups), "xrd.group")]
		plural := xrdPlurals[r.Free(len(xrdPlurals), "xrd.plural")]
		claim := xrdClaims[r.Free(len(xrdClaims), "xrd.claim")]
		stale := r.Bool("stale-roles")
		deleting := r.Bool("xrd.deleting")
		xrd := &apiextv1.CompositeResourceDefinition{
			ObjectMeta: metav1.ObjectMeta{Name: plural + "." + group, UID: "uid-xrd"},
			Spec: apiextv1.CompositeResourceDefinitionSpec{
				Group: group,
				Names: extv1.CustomResourceDefinitionNames{Kind: "XKind", Plural: plural},
			},
		}
		if claim != "" {
			xrd.Spec.ClaimNames = &extv1.CustomResourceDefinitionNames{Kind: "ClaimKind", Plural: claim}
		}
		if deleting {
			now := metav1.Now()
			xrd.SetDeletionTimestamp(&now)
			xrd.SetFinalizers([]string{"example.org/hold"})
		}
		s.Seed(xrd)
		names := []string{}
		for _, suf := range []string{"aggregate-to-crossplane", "aggregate-to-edit", "aggregate-to-view", "aggregate-to-browse"} {
			names = append(names, "crossplane:composite:"+xrd.GetName()+":"+suf)
		}
		if stale {
			ref := controllerRef("apiextensions.crossplane.io/v1", "CompositeResourceDefinition", xrd.GetName(), "uid-xrd")
			for _, n := range names {
				s.Seed(&rbacv1.ClusterRole{ObjectMeta: metav1.ObjectMeta{Name: n, OwnerReferences: []metav1.OwnerReference{ref}}, Rules: []rbacv1.PolicyRule{resRule([]string{"*"}, []string{"*"}, nil, []string{"*"})}})
			}
		}
		c := s.Client("rbac-manager")
		out := xrh.Reconcile(definition.NewReconciler(fakeMgr{c: c}), types.NamespacedName{Name: xrd.GetName()})
		r.Logf("reconcile: err=%v", out.Err)
		writes := effectiveWrites(s, "ClusterRole")

		allowedRes := []string{plural, plural + "/status", plural + "/finalizers"}
		if claim != "" {
			allowedRes = append(allowedRes, claim, claim+"/status", claim+"/finalizers")
		}
		upper := []rbacv1.PolicyRule{resRule([]string{group}, allowedRes, nil, []string{"*"})}
		v := &verdict{}
		var all []string
		if !deleting {
			for i, n := range names {
				cr := storedRole(s, n)
				if cr == nil {
					v.failf("xrd-role/missing", "role %s was not created for XRD %s (err %v)", n, xrd.GetName(), out.Err)
					continue
				}
				all = append(all, rulesString(cr.Rules))
				if q := firstExcess(xrdUniverse, cr.Rules, upper); q != nil {
					what := "other-resource"
					switch {
					case q.group != group:
						what = "other-group"
					case q.res == plural || (claim != "" && q.res == claim):
						what = "other-subresource"
					}
					v.failf("xrd-role/exceeds/"+what, "role %s with rules %s grants %s; an XRD's roles may name only %v in group %s", n, rulesString(cr.Rules), *q, allowedRes, group)
				}
				need := []creq{{group: group, res: plural, verb: "get", name: "x"}}
				if claim != "" && i < 3 { // the browse role is documented to cover composites only
					need = append(need, creq{group: group, res: claim, verb: "get", name: "x"})
				}
				for _, q := range need {
					if !grants(cr.Rules, q) {
						v.failf("xrd-role/missing-grant", "role %s with rules %s does not grant %s", n, rulesString(cr.Rules), q)
					}
				}
			}
		}
		count("xrd_cases")
		nt := ""
		if !deleting {
			nt = report.Hash(name, r.Choices)
		}
		eval(rep, r, name, report.Hash(deleting, len(writes), all), nt)
		if nt != "" && claim != "" {
			sample(rep, name, func() map[string]any {
				return map[string]any{"scenario": name, "xrd": xrd.GetName(), "claim": claim, "roles": all, "choices": append([]int{}, r.Choices...)}
			})
		}
		v.raise(r)
	}}
}
