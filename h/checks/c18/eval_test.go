package c18

// Reference evaluator of Kubernetes RBAC semantics over CONCRETE requests,
// written from the Kubernetes RBAC documentation ("Using RBAC Authorization",
// sections "Referring to resources" and "ClusterRole example"), never from
// the code under test:
//
//   - a resource rule grants (group, resource[/subresource], name, verb) iff
//     one of its apiGroups is "*" or equals the group, AND one of its
//     resources is "*", or equals "resource[/subresource]", or is "*/sub" with
//     sub the request's subresource, AND resourceNames is empty or contains
//     the request's name (no wildcard for names; a request without a name,
//     e.g. list or create, is only granted by a rule without resourceNames),
//     AND one of its verbs is "*" or equals the verb;
//   - a non-resource rule grants (path, verb) iff one of its nonResourceURLs
//     is "*", equals the path, or ends in "*" and the path starts with what
//     precedes that "*", AND the verb matches as above.
//
// A rule set grants a request iff one of its rules does.

import (
	"fmt"
	"sort"
	"strings"

	rbacv1 "k8s.io/api/rbac/v1"
)

// creq is a concrete request.
type creq struct {
	url   bool
	group string
	res   string // resource without subresource
	sub   string // subresource or ""
	name  string // "" = request without an object name
	path  string // non-resource path
	verb  string
}

func (q creq) String() string {
	if q.url {
		return fmt.Sprintf("{%s %s}", q.verb, q.path)
	}
	r := q.res
	if q.sub != "" {
		r += "/" + q.sub
	}
	n := q.name
	if n == "" {
		n = "<no name>"
	}
	return fmt.Sprintf("{verb %s group %q resource %s name %s}", q.verb, q.group, r, n)
}

func verbGranted(verbs []string, v string) bool {
	for _, x := range verbs {
		if x == "*" || x == v {
			return true
		}
	}
	return false
}

func groupGranted(groups []string, g string) bool {
	for _, x := range groups {
		if x == "*" || x == g {
			return true
		}
	}
	return false
}

func resourceGranted(resources []string, res, sub string) bool {
	full := res
	if sub != "" {
		full = res + "/" + sub
	}
	for _, x := range resources {
		if x == "*" || x == full {
			return true
		}
		if sub != "" && x == "*/"+sub {
			return true
		}
	}
	return false
}

func nameGranted(names []string, n string) bool {
	if len(names) == 0 {
		return true
	}
	for _, x := range names {
		if x == n {
			return true
		}
	}
	return false
}

func urlGranted(urls []string, p string) bool {
	for _, x := range urls {
		if x == "*" || x == p {
			return true
		}
		if strings.HasSuffix(x, "*") && strings.HasPrefix(p, strings.TrimSuffix(x, "*")) {
			return true
		}
	}
	return false
}

// dims of a resource request, in the order used for signatures.
var dimNames = []string{"name", "resource", "group", "verb"}

// ruleDims reports per dimension whether the rule matches the request.
func ruleDims(r rbacv1.PolicyRule, q creq) (name, resource, group, verb bool) {
	return nameGranted(r.ResourceNames, q.name), resourceGranted(r.Resources, q.res, q.sub), groupGranted(r.APIGroups, q.group), verbGranted(r.Verbs, q.verb)
}

func ruleGrants(r rbacv1.PolicyRule, q creq) bool {
	if q.url {
		return verbGranted(r.Verbs, q.verb) && urlGranted(r.NonResourceURLs, q.path)
	}
	n, rs, g, v := ruleDims(r, q)
	return n && rs && g && v
}

func grants(rs []rbacv1.PolicyRule, q creq) bool {
	for _, r := range rs {
		if ruleGrants(r, q) {
			return true
		}
	}
	return false
}

// firstExcess returns the first request of the universe granted by sub but
// not by super (nil if granted-by(sub) is a subset of granted-by(super)).
func firstExcess(universe []creq, sub, super []rbacv1.PolicyRule) *creq {
	for i := range universe {
		q := universe[i]
		if grants(sub, q) && !grants(super, q) {
			return &q
		}
	}
	return nil
}

// excessDimension names the dimension in which the super rule set fails to
// cover q: the first dimension d such that some super rule matches q in every
// dimension but d; "url" / "url-verb" for non-resource requests; "several"
// if no single dimension explains it.
func excessDimension(super []rbacv1.PolicyRule, q creq) string {
	if q.url {
		for _, r := range super {
			if urlGranted(r.NonResourceURLs, q.path) {
				return "url-verb"
			}
		}
		return "url"
	}
	for d := range dimNames {
		for _, r := range super {
			n, rs, g, v := ruleDims(r, q)
			m := []bool{n, rs, g, v}
			ok := true
			for i := range m {
				if i != d && !m[i] {
					ok = false
				}
			}
			if ok && !m[d] {
				return dimNames[d]
			}
		}
	}
	return "several"
}

// universeBuilder collects the constants mentioned by rules and produces the
// concrete-request universe: mentioned constants plus one fresh symbol per
// dimension.
type universeBuilder struct {
	groups, res, subs, names, verbs, paths map[string]bool
}

func newUniverse() *universeBuilder {
	return &universeBuilder{groups: map[string]bool{}, res: map[string]bool{}, subs: map[string]bool{}, names: map[string]bool{}, verbs: map[string]bool{}, paths: map[string]bool{}}
}

func (u *universeBuilder) mention(rules ...rbacv1.PolicyRule) {
	for _, r := range rules {
		for _, g := range r.APIGroups {
			if g != "*" {
				u.groups[g] = true
			}
		}
		for _, x := range r.Resources {
			base, sub, has := strings.Cut(x, "/")
			if base != "*" && base != "" {
				u.res[base] = true
			}
			if has && sub != "" {
				u.subs[sub] = true
			}
		}
		for _, n := range r.ResourceNames {
			u.names[n] = true // "*" is a literal name for Kubernetes
		}
		for _, v := range r.Verbs {
			if v != "*" {
				u.verbs[v] = true
			}
		}
		for _, p := range r.NonResourceURLs {
			if p == "*" {
				continue
			}
			u.paths[p] = true // the literal path, wildcard suffix included
			if strings.HasSuffix(p, "*") {
				u.paths[strings.TrimSuffix(p, "*")+"zp"] = true // a fresh path below the prefix
				u.paths[strings.TrimSuffix(p, "*")] = true
			}
		}
	}
}

func sortedKeys(m map[string]bool) []string {
	ks := make([]string, 0, len(m))
	for k := range m {
		ks = append(ks, k)
	}
	sort.Strings(ks)
	return ks
}

// Fresh symbols.
const (
	freshGroup = "zz"
	freshRes   = "zr"
	freshSub   = "zs"
	freshName  = "zn"
	freshVerb  = "zv"
	freshPath  = "/zu"
)

func (u *universeBuilder) build() []creq {
	groups := append(sortedKeys(u.groups), freshGroup)
	res := append(sortedKeys(u.res), freshRes)
	subs := append(append([]string{""}, sortedKeys(u.subs)...), freshSub)
	names := append(append([]string{""}, sortedKeys(u.names)...), freshName)
	verbs := append(sortedKeys(u.verbs), freshVerb)
	paths := append(sortedKeys(u.paths), freshPath)
	var out []creq
	// Plain resources first, so that counterexamples are the simplest ones.
	for _, s := range subs {
		for _, g := range groups {
			for _, r := range res {
				for _, n := range names {
					for _, v := range verbs {
						out = append(out, creq{group: g, res: r, sub: s, name: n, verb: v})
					}
				}
			}
		}
	}
	for _, p := range paths {
		for _, v := range verbs {
			out = append(out, creq{url: true, path: p, verb: v})
		}
	}
	return out
}

// ruleString renders a rule compactly for messages.
func ruleString(r rbacv1.PolicyRule) string {
	if len(r.NonResourceURLs) > 0 || (r.APIGroups == nil && r.Resources == nil && r.NonResourceURLs != nil) {
		return fmt.Sprintf("{urls %q verbs %q}", r.NonResourceURLs, r.Verbs)
	}
	if len(r.ResourceNames) > 0 {
		return fmt.Sprintf("{groups %q resources %q names %q verbs %q}", r.APIGroups, r.Resources, r.ResourceNames, r.Verbs)
	}
	return fmt.Sprintf("{groups %q resources %q verbs %q}", r.APIGroups, r.Resources, r.Verbs)
}

func rulesString(rs []rbacv1.PolicyRule) string {
	var p []string
	for _, r := range rs {
		p = append(p, ruleString(r))
	}
	return "[" + strings.Join(p, " ") + "]"
}
