// C18: the RBAC manager grants a provider no permission beyond what is
// allowed.
//
// Three layers, all bounded exhaustive enumeration against the real code:
//
//  1. cover/*, url, mixed: every pair (allow-list rule set, permission request
//     rule set) over a small rule universe is given to the real
//     roles.ClusterRoleBackedValidator; whenever it accepts, every concrete
//     request granted by the requested rules must be granted by the allow-list
//     rules according to the reference evaluator of eval_test.go.
//  2. reconcile/*: the real roles.Reconciler (wired as roles.Setup does) over
//     simkube, for every combination of allow-list, permission requests, owned
//     object references, family label and package sources of up to two other
//     revisions; binding: the real binding.Reconciler.
//  3. xrd: the real rbac/definition Reconciler for XRDs with/without claims.
package c18

import (
	"context"
	"fmt"
	"reflect"
	"sort"
	"strings"
	"testing"

	rbacv1 "k8s.io/api/rbac/v1"
	kerrors "k8s.io/apimachinery/pkg/api/errors"
	metav1 "k8s.io/apimachinery/pkg/apis/meta/v1"
	"k8s.io/apimachinery/pkg/runtime/schema"
	"sigs.k8s.io/controller-runtime/pkg/client"

	"github.com/crossplane/crossplane/internal/controller/rbac/provider/roles"
	"github.com/crossplane/crossplane/verif/explore"
	"github.com/crossplane/crossplane/verif/report"
)

// ---- evidence counters ------------------------------------------------------

var (
	counters = map[string]int{}
	pending  = map[string]int{} // counts of the case being evaluated
	lastCase string
	replayed bool
)

// accounting is off while the determinism self check replays an execution, so
// that evidence counts only the enumeration itself.
var accounting = true

func count(k string) { pending[k]++ }

func countN(k string, n int) { pending[k] += n }

// eval accounts for one evaluated case. The explorer re-executes a violating
// execution (twice, right after it) to confirm it is deterministic; such
// immediate re-executions of the same case are not counted again.
func eval(rep *report.R, r *explore.Run, scenario, outcome, nontrivial string) {
	key := scenario + fmt.Sprint(r.Choices)
	replayed = key == lastCase
	lastCase = key
	if accounting && !replayed {
		for k, n := range pending {
			counters[k] += n
		}
		rep.Eval(scenario, outcome, nontrivial)
	}
	pending = map[string]int{}
}

var sampled = map[string]bool{}

// sample records at most one example per shard (vcheck
// keeps the first six over all shards; the scenario order makes them diverse).
func sample(rep *report.R, scenario string, mk func() map[string]any) {
	if !accounting || replayed || sampled[scenario] || len(sampled) >= 1 || !rep.WantSample() {
		return
	}
	sampled[scenario] = true
	rep.Sample(mk())
}

// verdict holds the first violation of a case; it is raised after the case
// was accounted for.
type verdict struct{ sig, msg string }

func (v *verdict) failf(sig, format string, a ...any) {
	if v.sig == "" {
		v.sig, v.msg = sig, fmt.Sprintf(format, a...)
	}
}

func (v *verdict) raise(r *explore.Run) {
	if v.sig != "" {
		r.Failf(v.sig, "%s", v.msg)
	}
}

// ---- rule universes ----------------------------------------------------------

func resRule(groups, resources, names, verbs []string) rbacv1.PolicyRule {
	return rbacv1.PolicyRule{APIGroups: groups, Resources: resources, ResourceNames: names, Verbs: verbs}
}

// coreRules is the universe of the property: one value per dimension.
// Alternatives are ordered simplest first.
func coreRules() []rbacv1.PolicyRule {
	var out []rbacv1.PolicyRule
	for _, names := range [][]string{nil, {"n"}} {
		for _, verbs := range [][]string{{"get"}, {"*"}} {
			for _, g := range []string{"g", "", "*"} {
				for _, r := range []string{"r", "r/status", "*", "*/status"} {
					out = append(out, resRule([]string{g}, []string{r}, names, verbs))
				}
			}
		}
	}
	return out
}

// extendedRules adds: resourceNames ["*"] (a literal name for Kubernetes, the
// quantifier of the property lists wildcards in names), rules with one empty
// list (they grant nothing), and two multi-valued rules (cross product
// expansion).
func extendedRules() []rbacv1.PolicyRule {
	out := coreRules()
	for _, verbs := range [][]string{{"get"}, {"*"}} {
		for _, g := range []string{"g", "", "*"} {
			for _, r := range []string{"r", "r/status", "*", "*/status"} {
				out = append(out, resRule([]string{g}, []string{r}, []string{"*"}, verbs))
			}
		}
	}
	out = append(out,
		resRule([]string{}, []string{"*"}, nil, []string{"*"}),
		resRule([]string{"*"}, []string{}, nil, []string{"*"}),
		resRule([]string{"*"}, []string{"*"}, nil, []string{}),
		resRule([]string{"", "g"}, []string{"r", "*/status"}, nil, []string{"get"}),
		resRule([]string{"g", "*"}, []string{"r/status", "*"}, []string{"n"}, []string{"get", "*"}),
	)
	return out
}

func urlRules() []rbacv1.PolicyRule {
	var out []rbacv1.PolicyRule
	for _, verbs := range [][]string{{"get"}, {"*"}} {
		for _, u := range [][]string{{"/u"}, {"/u/*"}, {"*"}, {}} {
			out = append(out, rbacv1.PolicyRule{NonResourceURLs: u, Verbs: verbs})
		}
	}
	return out
}

// ---- the real validator ---------------------------------------------------------

const allowRoleName = "crossplane:allowed-provider-permissions"

// roleGetter is the minimal client the validator needs: Get of the allow-list
// ClusterRole.
type roleGetter struct {
	client.Client
	cr *rbacv1.ClusterRole
}

func (g roleGetter) Get(_ context.Context, key client.ObjectKey, obj client.Object, _ ...client.GetOption) error {
	cr, ok := obj.(*rbacv1.ClusterRole)
	if !ok || g.cr == nil || key.Name != g.cr.GetName() {
		return kerrors.NewNotFound(schema.GroupResource{Group: rbacv1.GroupName, Resource: "clusterroles"}, key.Name)
	}
	g.cr.DeepCopyInto(cr)
	return nil
}

func validate(allow, req []rbacv1.PolicyRule) []roles.Rule {
	// One validator instance serves every reconcile of the RBAC manager. It is
	// first asked while the administrator's role still allows everything; the
	// administrator then edits the role to the case's allow-list (an edit of
	// rules changes the resourceVersion, never metadata.generation), and the
	// same instance is asked again. Only the second answer is judged.
	cr := &rbacv1.ClusterRole{ObjectMeta: metav1.ObjectMeta{Name: allowRoleName, ResourceVersion: "1"}, Rules: []rbacv1.PolicyRule{
		{APIGroups: []string{"*"}, Resources: []string{"*"}, Verbs: []string{"*"}},
		{NonResourceURLs: []string{"*"}, Verbs: []string{"*"}},
	}}
	v := roles.NewClusterRoleBackedValidator(roleGetter{cr: cr}, allowRoleName)
	if _, err := v.ValidatePermissionRequests(context.Background(), req...); err != nil {
		panic(explore.HarnessError{Msg: "validator returned an error: " + err.Error()})
	}
	cr.Rules, cr.ResourceVersion = allow, "2"
	rejected, err := v.ValidatePermissionRequests(context.Background(), req...)
	if err != nil {
		panic(explore.HarnessError{Msg: "validator returned an error: " + err.Error()})
	}
	return rejected
}

// rejectionClass describes a rejected granular rule by where it has
// wildcards (reason class for the outcome hash).
func rejectionClass(r roles.Rule) string {
	if r.NonResourceURL != "" {
		return fmt.Sprintf("url:%v/%v", strings.HasSuffix(r.NonResourceURL, "*"), r.Verb == "*")
	}
	return fmt.Sprintf("res:%v/%v/%v/%v", r.APIGroup == "*", strings.Contains(r.Resource, "*"), r.ResourceName == "*", r.Verb == "*")
}

// ---- non-triviality ---------------------------------------------------------------

// listCovered: does the allow rule cover the request rule in one dimension
// (every value of the request's list is matched by the allow list)?
func dimCovered(a, q rbacv1.PolicyRule) (n int, total int) {
	all := func(vals []string, ok func(string) bool) bool {
		for _, v := range vals {
			if !ok(v) {
				return false
			}
		}
		return true
	}
	has := func(l []string, v string) bool {
		for _, x := range l {
			if x == v {
				return true
			}
		}
		return false
	}
	var d []bool
	if len(a.NonResourceURLs) > 0 || len(q.NonResourceURLs) > 0 {
		d = append(d, all(q.NonResourceURLs, func(v string) bool {
			for _, x := range a.NonResourceURLs {
				if x == "*" || x == v || (strings.HasSuffix(x, "*") && strings.HasPrefix(v, strings.TrimSuffix(x, "*"))) {
					return true
				}
			}
			return false
		}))
	} else {
		d = append(d,
			all(q.APIGroups, func(v string) bool { return has(a.APIGroups, "*") || has(a.APIGroups, v) }),
			all(q.Resources, func(v string) bool {
				if has(a.Resources, "*") || has(a.Resources, v) {
					return true
				}
				_, sub, ok := strings.Cut(v, "/")
				return ok && has(a.Resources, "*/"+sub)
			}),
			len(a.ResourceNames) == 0 || (len(q.ResourceNames) > 0 && all(q.ResourceNames, func(v string) bool { return has(a.ResourceNames, v) })),
		)
	}
	d = append(d, all(q.Verbs, func(v string) bool { return has(a.Verbs, "*") || has(a.Verbs, v) }))
	for _, b := range d {
		if b {
			n++
		}
	}
	return n, len(d)
}

// partialOverlap: some (allow rule, request rule) pair agrees in at least one
// dimension, and either not in all or the two rules are not the same rule
// (coverage through a wildcard or a list).
func partialOverlap(allow, req []rbacv1.PolicyRule) bool {
	for _, a := range allow {
		for _, q := range req {
			n, total := dimCovered(a, q)
			if n >= 1 && (n < total || !reflect.DeepEqual(a, q)) {
				return true
			}
		}
	}
	return false
}

// ---- layer 1: coverage --------------------------------------------------------------

type coverTable struct {
	rules    []rbacv1.PolicyRule
	universe []creq
	bits     [][]uint64 // per rule: set of granted concrete requests
}

func newCoverTable(rules []rbacv1.PolicyRule) *coverTable {
	ub := newUniverse()
	ub.mention(rules...)
	t := &coverTable{rules: rules, universe: ub.build()}
	words := (len(t.universe) + 63) / 64
	for _, r := range rules {
		b := make([]uint64, words)
		for i, q := range t.universe {
			if ruleGrants(r, q) {
				b[i/64] |= 1 << (i % 64)
			}
		}
		t.bits = append(t.bits, b)
	}
	return t
}

func (t *coverTable) union(idx []int) []uint64 {
	out := make([]uint64, (len(t.universe)+63)/64)
	for _, i := range idx {
		for w := range out {
			out[w] |= t.bits[i][w]
		}
	}
	return out
}

// pick chooses an unordered set of k distinct rule indexes out of n.
func pick(r *explore.Run, label string, k, n int) []int {
	switch k {
	case 0:
		return nil
	case 1:
		return []int{r.Free(n, label+"[0]")}
	case 2:
		i := r.Free(n-1, label+"[0]")
		j := i + 1 + r.Free(n-1-i, label+"[1]")
		return []int{i, j}
	}
	panic("pick: unsupported size")
}

func rulesAt(t *coverTable, idx []int) []rbacv1.PolicyRule {
	out := make([]rbacv1.PolicyRule, 0, len(idx))
	for _, i := range idx {
		out = append(out, t.rules[i])
	}
	return out
}

// judge runs the real validator on (allow, req) and compares with the oracle.
func judge(r *explore.Run, rep *report.R, scenario string, t *coverTable, ai, qi []int) {
	allow, req := rulesAt(t, ai), rulesAt(t, qi)
	rejected := validate(allow, req)
	accepted := len(rejected) == 0

	ab, qb := t.union(ai), t.union(qi)
	excess := -1
	for w := range qb {
		if x := qb[w] &^ ab[w]; x != 0 {
			for b := 0; b < 64; b++ {
				if x&(1<<b) != 0 {
					excess = w*64 + b
					break
				}
			}
			break
		}
	}
	covered := excess < 0

	v := &verdict{}
	switch {
	case accepted && !covered:
		q := t.universe[excess]
		dim := excessDimension(allow, q)
		if dim == "name" {
			for _, a := range allow {
				for _, n := range a.ResourceNames {
					if n == "*" {
						dim = "name-literal-star"
					}
				}
			}
		}
		v.failf("allow/covers-more/"+dim, "Crossplane accepts permission requests %s against allow-list rules %s, but the requests grant %s which the allow-list ClusterRole does not grant under Kubernetes RBAC semantics", rulesString(req), rulesString(allow), q)
	case accepted:
		count("accepted")
	case covered:
		count("stricter") // Crossplane rejects something Kubernetes RBAC considers covered: allowed
		count("rejected")
	default:
		count("rejected")
	}

	classes := map[string]bool{}
	for _, rr := range rejected {
		classes[rejectionClass(rr)] = true
	}
	outcome := report.Hash(accepted, covered, sortedKeys(classes))
	nt := ""
	if partialOverlap(allow, req) {
		nt = report.Hash(scenario, ai, qi)
	}
	eval(rep, r, scenario, outcome, nt)
	if nt != "" && !accepted && covered {
		sample(rep, scenario, func() map[string]any {
			return map[string]any{"scenario": scenario, "allow": rulesString(allow), "requests": rulesString(req), "crossplane": "rejects " + fmt.Sprint(rejected), "kubernetes": "covered (stricter, not a violation)", "choices": append([]int{}, r.Choices...)}
		})
	}
	v.raise(r)
}

func coverScenario(rep *report.R, t *coverTable, name string, nAllow, nReq int) report.Scenario {
	return report.Scenario{Name: name, Body: func(r *explore.Run) {
		ai := pick(r, "allow", nAllow, len(t.rules))
		qi := pick(r, "request", nReq, len(t.rules))
		judge(r, rep, name, t, ai, qi)
	}}
}

// sizesScenario enumerates set sizes 0..2 too (tiny universes).
func sizesScenario(rep *report.R, t *coverTable, name string, sizes [][2]int) report.Scenario {
	return report.Scenario{Name: name, Body: func(r *explore.Run) {
		s := sizes[r.Free(len(sizes), "sizes")]
		ai := pick(r, "allow", s[0], len(t.rules))
		qi := pick(r, "request", s[1], len(t.rules))
		judge(r, rep, name, t, ai, qi)
	}}
}

// mixedScenario: allow-list = one resource rule + one URL rule; request = one
// resource rule or one URL rule.
func mixedScenario(rep *report.R, t *coverTable, nRes, nURL int) report.Scenario {
	name := "mixed/res+url"
	return report.Scenario{Name: name, Body: func(r *explore.Run) {
		ai := []int{r.Free(nRes, "allow.res"), nRes + r.Free(nURL, "allow.url")}
		qi := []int{r.Free(nRes+nURL, "request")}
		judge(r, rep, name, t, ai, qi)
	}}
}

// ---- TestCheck --------------------------------------------------------------------------

func TestCheck(t *testing.T) {
	rep := report.New("C18", "exploration")
	rep.Meta(
		"Layer 1 (cover/*, url, mixed): every pair (allow-list ClusterRole rule set, permission-request rule set) of the stated sizes over the rule universe is built from Free choices and given to the real ClusterRoleBackedValidator; if it accepts, every concrete request (universe = constants mentioned + one fresh symbol per dimension) granted by the requests must be granted by the allow-list according to an independent evaluator of Kubernetes RBAC semantics (soundness only; 'stricter' is counted, not failed). A pair is non-trivial when some allow rule and some request rule agree in at least one dimension (group/resource/name/verb or url/verb) and either disagree in another or are different rules (coverage through a wildcard or list, not identity). "+
			"Layer 2 (reconcile/*): the real roles.Reconciler wired as roles.Setup over simkube for every allow-list option x request option x family label x package sources x owned references x stale roles: oracle-uncovered or validator-rejected requests => no effective ClusterRole write; otherwise the stored system role grants only what an independently computed allowed rule set grants (own CRDs, CRDs of same-family same-registry-and-org revisions, */finalizers in those groups, baseline, requests), edit/view roles only CRD resources. Non-trivial when the OrgDiffer is consulted (a member carries the same family label) or the validator has a non-empty request. binding: subjects and roleRef of the ClusterRoleBinding. reconcile/requests-rewritten: a third party rewrites the revision's status.permissionRequests just before the k-th API call of a reconcile (every k, every edit of the menu), then the revision is reconciled until a reconcile writes nothing; after every reconcile the system role grants nothing beyond family CRDs + baseline + what the allow-list covers, and a reconcile that started on uncovered requests writes no ClusterRole; non-trivial when the rewrite falls between two calls of a reconcile. "+
			"Layer 3 (xrd): real definition.Reconciler; every role grants only {composite, claim} x {'', status, finalizers} in the XRD group and grants at least read of the composite (and claim).",
		[]string{
			"Kubernetes RBAC semantics as documented (no wildcard for resourceNames; '*/sub' matches a subresource of any resource; nonResourceURLs exact or trailing '*')",
			"OCI reference convention for the family oracle: the part before the first '/' is a registry host iff it contains '.' or ':' or is 'localhost', otherwise the configured default registry applies; organisation = first repository path segment; sources without an organisation segment are not enumerated",
			"the baseline is the cross product written in the code's constant rulesSystemExtra (groups {'', coordination.k8s.io} x {secrets, configmaps, events, leases})",
			"one reconcile per case (reconcile/requests-rewritten and events/*: reconciled to quiescence), no API faults (exploration level)",
		},
		[]string{"simkube (API server model)", "h/explore", "reference evaluator eval_test.go", "reference family oracle (family_test.go)"},
	)

	core := newCoverTable(coreRules())
	ext := newCoverTable(extendedRules())
	urls := newCoverTable(urlRules())
	nCore, nURL := len(coreRules()), len(urlRules())
	mixed := newCoverTable(append(coreRules(), urlRules()...))

	rep.Bound("rule_universe_core", fmt.Sprintf("%d rules: groups {'',g,*} x resources {r,r/status,*,*/status} x names {none,[n]} x verbs {[get],[*]}", len(core.rules)))
	rep.Bound("rule_universe_extended", fmt.Sprintf("%d rules: core + names ['*'] + 3 rules with an empty list + 2 multi-valued rules", len(ext.rules)))
	rep.Bound("url_rule_universe", fmt.Sprintf("%d rules: urls {[/u],[/u/*],[*],[]} x verbs {[get],[*]}", len(urls.rules)))
	rep.Bound("concrete_requests", fmt.Sprintf("core %d, extended %d, url %d, mixed %d", len(core.universe), len(ext.universe), len(urls.universe), len(mixed.universe)))

	var scs []report.Scenario
	// Reconciler level first (scenario 0 is used for the determinism self check).
	recon := reconcileScenarios(t, rep)
	// The first scenarios are of different kinds (one sample each is kept).
	scs = append(scs, recon[0], xrdScenario(t, rep),
		coverScenario(rep, ext, "cover/ext/1x1", 1, 1),
		sizesScenario(rep, urls, "url/sizes0-2", [][2]int{{1, 1}, {0, 0}, {0, 1}, {1, 0}, {2, 1}, {1, 2}, {2, 2}, {0, 2}, {2, 0}}),
		mixedScenario(rep, mixed, nCore, nURL),
		bindingScenario(t, rep),
		sizesScenario(rep, ext, "cover/ext/with-empty-set", [][2]int{{0, 0}, {0, 1}, {1, 0}, {0, 2}, {2, 0}}),
		coverScenario(rep, ext, "cover/ext/2x1", 2, 1),
		coverScenario(rep, ext, "cover/ext/1x2", 1, 2),
	)
	scs = append(scs, recon[1:]...)
	scs = append(scs, eventScenarios(rep, report.Bubble(t))...)
	scs = append(scs, rewriteScenario(t, rep))
	if report.Thorough() {
		// Split by the first allow rule so that the scenarios spread over shards.
		for i := 0; i < len(core.rules)-1; i++ {
			i := i
			name := fmt.Sprintf("cover/core/2x2/allow0=%02d", i)
			scs = append(scs, report.Scenario{Name: name, Body: func(r *explore.Run) {
				j := i + 1 + r.Free(len(core.rules)-1-i, "allow[1]")
				qi := pick(r, "request", 2, len(core.rules))
				judge(r, rep, name, core, []int{i, j}, qi)
			}})
		}
		rep.Bound("rule_set_sizes", "allow x request in {0,1,2}x{0,1,2} over the extended universe except 2x2; 2x2 over the core universe; url rules all sizes 0..2; mixed allow {res,url} x 1 request")
	} else {
		rep.Bound("rule_set_sizes", "allow x request in {0,1,2}x{0,1,2} except 2x2 over the extended universe; url rules all sizes 0..2; mixed allow {res,url} x 1 request")
	}

	accounting = false
	rep.SelfCheck(t, recon[0], nil)
	accounting = true
	rep.RunScenarios(t, scs)

	keys := make([]string, 0, len(counters))
	for k := range counters {
		keys = append(keys, k)
	}
	sort.Strings(keys)
	for _, k := range []string{"accepted", "rejected", "stricter", "reconcile_roles_written", "reconcile_nothing_written", "reconcile_family_member_admitted", "reconcile_family_member_refused", "xrd_cases", "binding_cases"} {
		rep.Extra("count_"+k, counters[k])
	}
	for _, k := range keys {
		rep.Extra("count_"+k, counters[k])
	}
	rep.Write(t)
}
