// C12: composition revisions form a faithful, monotonic history.
//
// Depth-bounded exhaustive search over sequences of Composition edits (five
// contents incl. label-only / annotation-only edits and reverts), real
// revision-controller reconciles (every API call a fault / crash point),
// owner reference stripping (backup/restore), user deletion of the oldest
// revision and real XR reconciles under the Manual / Automatic (+ revision
// selector) update policies, with state-hash pruning. The oracle
// (oracle_test.go) is evaluated on every effective write and after every
// reconcile. Transitions are memoised per (state, event, fault decisions)
// (memo_test.go): the real code computes each distinct transition once.
package c12

import (
	"context"
	"fmt"
	"os"
	"sort"
	"strings"
	"testing"

	"google.golang.org/protobuf/types/known/structpb"
	metav1 "k8s.io/apimachinery/pkg/apis/meta/v1"
	"k8s.io/apimachinery/pkg/apis/meta/v1/unstructured"
	"k8s.io/apimachinery/pkg/runtime"
	"k8s.io/apimachinery/pkg/runtime/schema"
	"k8s.io/apimachinery/pkg/types"
	"sigs.k8s.io/controller-runtime/pkg/reconcile"

	xpv1 "github.com/crossplane/crossplane-runtime/apis/common/v1"

	fnv1 "github.com/crossplane/crossplane/apis/apiextensions/fn/proto/v1"
	v1 "github.com/crossplane/crossplane/apis/apiextensions/v1"
	"github.com/crossplane/crossplane/internal/controller/apiextensions/composition"
	"github.com/crossplane/crossplane/verif/explore"
	"github.com/crossplane/crossplane/verif/pkgh"
	"github.com/crossplane/crossplane/verif/report"
	"github.com/crossplane/crossplane/verif/simkube"
	"github.com/crossplane/crossplane/verif/xrh"
)

const (
	compName    = "comp"
	selLabel    = "channel"
	selValue    = "stable"
	revClient   = "revctl"
	xrClient    = "xr"
	xrManual    = "xr-manual"
	xrAuto      = "xr-auto"
	xrAutoSel   = "xr-auto-sel"
	nameLabel   = "crossplane.io/composition-name" // written out: the oracle does not import the constants under test
	hashLabel   = "crossplane.io/composition-hash"
	ctxStripped = "after-ownerref-strip"
	ctxPlain    = "controlled"
)

var (
	compKey = simkube.ObjKey{Group: "apiextensions.crossplane.io", Kind: "Composition", Name: compName}
	revGK   = schema.GroupKind{Group: "apiextensions.crossplane.io", Kind: "CompositionRevision"}
	nnComp  = types.NamespacedName{Name: compName}
)

// ---- contents ---------------------------------------------------------------

// A content is everything a user can give a Composition: labels, annotations
// and spec. marker is what the (scripted) function sees when an XR is
// composed from a revision of this content: the pipeline step input.
type content struct {
	id          string
	labels      map[string]string
	annotations map[string]string
	steps       []string
	marker      string
}

var contents = []content{
	{id: "A", steps: []string{"step1"}, marker: "A"},
	{id: "B", steps: []string{"step1", "step2"}, marker: "B", labels: map[string]string{selLabel: selValue}},
	{id: "C", steps: []string{"step1"}, marker: "A", labels: map[string]string{selLabel: selValue}},           // A + a label only
	{id: "D", steps: []string{"step1"}, marker: "A", annotations: map[string]string{"example.org/note": "d"}}, // A + an annotation only
	{id: "E", steps: []string{"step1"}, marker: "E"},                                                          // A with a different step input
}

func contentByID(id string) content {
	for _, c := range contents {
		if c.id == id {
			return c
		}
	}
	panic(explore.HarnessError{Msg: "unknown content " + id})
}

func (c content) composition() *v1.Composition {
	comp := xrh.PipelineComposition(compName, c.steps...)
	comp.Spec.Pipeline[0].Input = &runtime.RawExtension{Raw: []byte(fmt.Sprintf(`{"apiVersion":"fn.example.org/v1","kind":"Input","content":%q}`, c.marker))}
	comp.SetLabels(c.labels)
	comp.SetAnnotations(c.annotations)
	return comp
}

// ---- world ------------------------------------------------------------------

// world is one execution. Between steps it stands on a memoised state
// (cur); the store is materialised (s != nil) only while transitions are
// computed by the real code.
type world struct {
	r   *explore.Run
	cur *state
	s   *simkube.Store
	o   *oracle
	xrd *v1.CompositeResourceDefinition

	revC, xrC *simkube.Client
	rec, xrec reconcile.Reconciler
	inj       *prefixInjector
	// liveInstance: keep one revision-controller instance for the whole
	// execution (see realRevReconcile).
	liveInstance bool

	current  string // content id the Composition has now
	stripped bool   // owner references were stripped at some point of this history
	skip     map[string]bool

	fnMarkers []string // what the scripted function saw in the XR reconcile in progress

	step    int      // step in progress (for log lines)
	steplog []string // log lines of the transition being computed
	quiet   bool     // preparation: no log lines
}

func (w *world) fn(_ context.Context, _ string, req *fnv1.RunFunctionRequest) (*fnv1.RunFunctionResponse, error) {
	if in := req.GetInput(); in != nil {
		if f := in.GetFields()["content"]; f != nil {
			w.fnMarkers = append(w.fnMarkers, f.GetStringValue())
		}
	}
	xr, _ := structpb.NewStruct(map[string]any{})
	return &fnv1.RunFunctionResponse{
		Desired: &fnv1.State{Composite: &fnv1.Resource{Resource: xr}},
		Context: req.GetContext(),
	}, nil
}

func (w *world) ctx() string {
	if w.stripped {
		return ctxStripped
	}
	return ctxPlain
}

// setContent is the user editing the Composition: labels, annotations and
// spec are replaced, identity (name, uid) stays.
func (w *world) setContent(id string) {
	u := w.s.MustU(contentByID(id).composition())
	w.s.Mutate(compKey, func(o *unstructured.Unstructured) {
		o.Object["spec"] = runtime.DeepCopyJSONValue(u.Object["spec"])
		o.SetLabels(u.GetLabels())
		o.SetAnnotations(u.GetAnnotations())
	})
	w.current = id
}

func (w *world) stripOwners() int {
	n := 0
	for _, rv := range w.s.All(revGK) {
		if w.s.Mutate(simkube.KeyOf(rv), func(o *unstructured.Unstructured) { o.SetOwnerReferences(nil) }) {
			n++
		}
	}
	if n > 0 {
		w.stripped = true
	}
	return n
}

// deleteOldest is a user cleaning up: the lowest-numbered revision goes,
// provided another one remains.
func (w *world) deleteOldest() string {
	rs := w.revisions()
	if len(rs) < 2 {
		return ""
	}
	sort.SliceStable(rs, func(i, j int) bool { return rs[i].num < rs[j].num })
	w.s.Remove(simkube.ObjKey{Group: revGK.Group, Kind: revGK.Kind, Name: rs[0].name})
	w.o.forget(rs[0].uid)
	return rs[0].name
}

type event struct {
	name string
	kind string // reconcile | edit | strip | xr | delete
	arg  string
}

func menu() []event {
	return []event{
		{"rev-reconcile", "reconcile", ""},
		{"edit=B", "edit", "B"},
		{"edit=A", "edit", "A"},
		{"edit=C(A+label)", "edit", "C"},
		{"edit=D(A+annotation)", "edit", "D"},
		{"edit=E(A,other-input)", "edit", "E"},
		{"strip-ownerrefs", "strip", ""},
		{"xr-reconcile/automatic", "xr", xrAuto},
		{"xr-reconcile/manual", "xr", xrManual},
		{"xr-reconcile/automatic+selector", "xr", xrAutoSel},
		{"delete-oldest-revision", "delete", ""},
	}
}

func seedXR(s *simkube.Store, name string, pol xpv1.UpdatePolicy, selector bool) {
	xr := xrh.XR(name, compName)
	xr.SetCompositionUpdatePolicy(&pol)
	if selector {
		xr.SetCompositionRevisionSelector(&metav1.LabelSelector{MatchLabels: map[string]string{selLabel: selValue}})
	}
	s.Seed(xr)
}

func newWorld(r *explore.Run, skip map[string]bool) *world {
	return newWorldLive(r, skip, false)
}

func newWorldLive(r *explore.Run, skip map[string]bool, live bool) *world {
	w := &world{r: r, xrd: xrh.XRD(), skip: skip, current: "A", liveInstance: live}
	w.revC = &simkube.Client{Name: revClient}
	w.xrC = &simkube.Client{Name: xrClient}
	w.inj = &prefixInjector{fi: &xrh.FaultInjector{Run: r, Reads: true, NotFoundReads: true,
		// (Not for the Composition itself: the reconcile request comes from
		// the cache that serves it; a 404 there means it was deleted.)
		NotFoundFilter: func(c simkube.Call) bool { return c.Key.Kind != "Composition" }}}
	return w
}

// initialState: XRD, Composition with content A, no revision, three XRs.
func (w *world) initialState() *state {
	if memo.initial == nil {
		s := xrh.NewStore()
		s.Seed(w.xrd)
		s.Seed(contentByID("A").composition())
		seedXR(s, xrManual, xpv1.UpdateManual, false)
		seedXR(s, xrAuto, xpv1.UpdateAutomatic, false)
		seedXR(s, xrAutoSel, xpv1.UpdateAutomatic, true)
		w.attach(s, newOracle(w))
		memo.initial = w.snapshot()
	}
	return memo.initial
}

// historyState: prepared (fault-free, not explored) contents A, B, C
// reconciled in turn and every XR reconciled after each: A#1 B#2 C#3.
func (w *world) historyState() *state {
	if memo.history == nil {
		w.adopt(w.initialState())
		w.materialize()
		w.quiet = true
		for _, id := range []string{"A", "B", "C"} {
			w.setContent(id)
			w.realRevReconcile(false, nil)
			for _, x := range []string{xrManual, xrAuto, xrAutoSel} {
				w.realXRReconcile(x)
			}
		}
		if got := describe(w.revisions()); got != "A#1 B#2 C#3" {
			panic(explore.HarnessError{Msg: "history preparation: " + got})
		}
		w.quiet = false
		memo.history = w.snapshot()
	}
	return memo.history
}

func body(r *explore.Run, rep *report.R, sc string, depth int, history bool, skip map[string]bool) {
	w := newWorld(r, skip)
	if history {
		w.adopt(w.historyState())
	} else {
		w.adopt(w.initialState())
	}
	evs := menu()

	var trail []string
	edits, reconciles, faulted := 0, 0, 0
	for step := 0; step < depth; step++ {
		w.step = step
		r.SeenRank(w.cur.key, depth-step)
		ei := r.Free(len(evs), fmt.Sprintf("ev%d", step))
		e := evs[ei]
		trail = append(trail, e.name)
		switch e.kind {
		case "edit":
			if e.arg != w.current {
				edits++
			}
		case "reconcile":
			reconciles++
			if w.revReconcileStep() {
				faulted++
			}
			continue
		}
		w.plainStep(e)
	}
	nt := ""
	if edits >= 2 && reconciles >= 2 {
		nt = report.Hash(sc, trail, w.inj.fi.Taken)
	}
	rep.Eval(sc, report.Hash(w.cur.table), nt)
	if rep.WantSample() && nt != "" && faulted > 0 && w.cur.nrevs >= 2 {
		rep.Sample(map[string]any{"scenario": sc, "events": trail, "faults": w.inj.fi.Taken, "final_revisions": w.cur.table, "composition_content": w.current})
	}
}

// doEvent executes a non-reconcile event with the real code / on the real store.
func (w *world) doEvent(e event) {
	switch e.kind {
	case "edit":
		w.setContent(e.arg)
		w.logf("%s", e.name)
	case "strip":
		n := w.stripOwners()
		w.logf("owner references stripped from %d revisions", n)
	case "delete":
		w.logf("user deletes the oldest revision %q -> [%s]", w.deleteOldest(), describe(w.revisions()))
	case "xr":
		w.realXRReconcile(e.arg)
	}
}

// realRevReconcile runs one real revision-controller reconcile; every API
// call is a fault point (armed == false: preparation, fault free). pre holds fault
// decisions already taken for this reconcile (see memo_test.go).
func (w *world) realRevReconcile(armed bool, pre []int) (xrh.Outcome, []decision) {
	// The memoised scenarios compute each transition once, as a function of
	// the stored state: they use a new controller instance every time, so
	// that what an instance may remember between calls cannot make a replay
	// differ from the first computation. (live-instance-retry keeps one.)
	if w.rec == nil || !w.liveInstance {
		w.rec = composition.NewReconciler(&pkgh.Mgr{C: w.revC})
	}
	before := w.revisions()
	w.o.ctx = w.ctx()
	w.inj.begin(pre, armed)
	out := xrh.Reconcile(w.rec, nnComp)
	ds := w.inj.end()
	var faults []string
	for _, d := range ds {
		if d.choice != 0 {
			faults = append(faults, d.call+" -> "+d.outcome)
		}
	}
	if out.Crashed != nil {
		w.rec, w.xrec = nil, nil // process restart: fresh reconcilers
	}
	after := w.revisions()
	w.logf("rev-reconcile content=%s [%s] err=%v requeue=%v crashed=%v faults=%v -> [%s]", w.current, describe(before), out.Err, out.Result.Requeue, out.Crashed != nil, faults, describe(after))
	w.o.afterRevReconcile(out, len(faults) > 0, before, after)
	return out, ds
}

// realXRReconcile runs one real, fault-free XR reconcile.
func (w *world) realXRReconcile(name string) {
	s := w.s
	if w.xrec == nil {
		w.xrec = xrh.NewXRReconciler(w.xrd, xrh.XROptions{Cached: w.xrC, Uncached: w.xrC, Runner: xrh.FunctionRunner(w.fn)})
	}
	before := xrRef(s, name)
	w.fnMarkers = nil
	w.o.ctx = w.ctx()
	out := xrh.Reconcile(w.xrec, types.NamespacedName{Name: name})
	if out.Crashed != nil {
		panic(explore.HarnessError{Msg: "crash in fault-free XR reconcile"})
	}
	after := xrRef(s, name)
	w.logf("xr-reconcile %s ref %q -> %q err=%v fn-saw=%v revisions=[%s]", name, before, after, out.Err, w.fnMarkers, describe(w.revisions()))
	w.o.afterXRReconcile(name, before, after, out)
}

func xrRef(s *simkube.Store, name string) string {
	return refOf(s.Peek(xrh.XRKey(name)))
}

func parseSkip() map[string]bool {
	m := map[string]bool{}
	for _, k := range strings.Split(os.Getenv("C12_SKIP"), ",") {
		if k != "" {
			m[k] = true
		}
	}
	return m
}

func TestCheck(t *testing.T) {
	rep := report.New("C12", "fault_enumeration")
	rep.Meta(
		"Executions are event sequences of bounded depth over the menu {revision-controller reconcile (real composition.Reconciler; every API call, reads included, is a fault point with outcomes error-before / conflict / error-after / crash-before / crash-after, <= F deviations per sequence, fresh reconciler after a crash), edit the Composition 'comp' to content A / B (other spec + label) / C (A + a label only) / D (A + an annotation only) / E (A with another pipeline step input), strip the owner references of all revisions (backup/restore), real fault-free XR reconcile (production option list, scripted function) of an XR with policy Manual / Automatic / Automatic + compositionRevisionSelector on a label only B and C carry, user deletes the lowest-numbered revision}. All sequences are enumerated by DFS; a state (store + oracle memory) reached again with no more steps and fault budget left is pruned; each distinct transition (state, event, fault decisions) is computed once by the real code and memoised. Scenario 'history' starts from prepared revisions A#1 B#2 C#3. Scenarios 'live-instance-retry' run two rounds of {edit or strip, a reconcile with <= 1 fault, two fault-free retries} on one live controller instance without the memo (state a controller keeps between calls must not make a retry skip its work). Oracle R1-R5 on every effective write and after every reconcile. Non-trivial: >= 2 effective edits and >= 2 revision-controller reconciles (distinct by event trail + faults). Outcome = final revision table.",
		[]string{
			"simkube models the API server",
			"one reconcile at a time (controller-runtime never runs two reconciles of one object concurrently); edits happen between reconciles",
			"a 'content' is (labels, annotations, spec), as the doc of v1.LatestRevision says; label-only and annotation-only edits are distinct contents",
			"UIDs are opaque: states that differ only in the API server's uid/resourceVersion counters are identified",
			"the reconcilers are deterministic functions of the store and the fault decisions (transitions are memoised)",
			"a fault-free reconcile of an existing Composition has to succeed (an error there counts against R4)",
		},
		[]string{"simkube", "pkgh.Mgr (manager that only hands out the client)", "xrh.NewXRReconciler wiring (same option list as the XRD controller)", "transition memoisation (memo_test.go)"},
	)
	depth, bound := 6, 1
	if report.Thorough() || *report.ReplayF != "" {
		// A replayed artifact may come from either tier: give it the deeper
		// horizon (extra steps after the recorded choices are default ones).
		depth, bound = 8, 2
	}
	skip := parseSkip()
	if len(skip) > 0 {
		rep.Note("TRIAGE RUN: oracles skipped via C12_SKIP=%s", os.Getenv("C12_SKIP"))
	}
	rep.Bound("depth", depth)
	rep.Bound("depth_history_scenario", depth-1)
	rep.Bound("max_faults", bound)
	rep.Bound("events_per_step", len(menu()))
	rep.Bound("contents", len(contents))
	scs := []report.Scenario{
		{Name: "fresh", Bound: bound, Prune: true, Wrap: report.Bubble(t), Body: func(r *explore.Run) { body(r, rep, "fresh", depth, false, skip) }},
		{Name: "history", Bound: bound, Prune: true, Wrap: report.Bubble(t), Body: func(r *explore.Run) { body(r, rep, "history", depth-1, true, skip) }},
		// One live controller instance, no memo: a faulted reconcile and its retries.
		{Name: "live-instance-retry/fresh", Bound: 1, Wrap: report.Bubble(t), Body: func(r *explore.Run) { retryBody(r, rep, "live-instance-retry/fresh", false) }},
		{Name: "live-instances-sequence", Bound: 0, Wrap: report.Bubble(t), Body: func(r *explore.Run) { liveSequenceBody(r, rep, "live-instances-sequence", 5) }},
		{Name: "faithful-capture", Bound: 0, Wrap: report.Bubble(t), Body: func(r *explore.Run) { captureBody(r, rep, "faithful-capture") }},
		{Name: "live-instance-retry/history", Bound: 1, Wrap: report.Bubble(t), Body: func(r *explore.Run) { retryBody(r, rep, "live-instance-retry/history", true) }},
	}
	rep.SelfCheck(t, scs[0], func() { memo = newMemo() })
	rep.RunScenarios(t, scs)
	rep.Extra("real_transitions", memo.real)
	rep.Extra("memoised_transitions_replayed", memo.hits)
	rep.Write(t)
}
