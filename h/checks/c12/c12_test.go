// C12: composition revisions form a faithful, monotonic history.
//
// Depth-bounded exhaustive search over sequences of Composition edits (five
// contents incl. label-only / annotation-only edits and reverts), real
// revision-controller reconciles (every API call a fault / crash point),
// owner reference stripping (backup/restore), user deletion of the oldest
// revision and real XR reconciles under the Manual / Automatic (+ revision
// selector) update policies, with state-hash pruning. The oracle (oracle_test.go)
// is evaluated on every effective write and after every reconcile.
package c12

import (
	"context"
	"fmt"
	"os"
	"sort"
	"strings"
	"testing"

	"google.golang.org/protobuf/types/known/structpb"
	metav1 "k8s.io/apimachinery/pkg/apis/meta/v1"
	"k8s.io/apimachinery/pkg/apis/meta/v1/unstructured"
	"k8s.io/apimachinery/pkg/runtime"
	"k8s.io/apimachinery/pkg/runtime/schema"
	"k8s.io/apimachinery/pkg/types"
	"sigs.k8s.io/controller-runtime/pkg/reconcile"

	xpv1 "github.com/crossplane/crossplane-runtime/apis/common/v1"

	fnv1 "github.com/crossplane/crossplane/apis/apiextensions/fn/proto/v1"
	v1 "github.com/crossplane/crossplane/apis/apiextensions/v1"
	"github.com/crossplane/crossplane/internal/controller/apiextensions/composition"
	"github.com/crossplane/crossplane/verif/explore"
	"github.com/crossplane/crossplane/verif/pkgh"
	"github.com/crossplane/crossplane/verif/report"
	"github.com/crossplane/crossplane/verif/simkube"
	"github.com/crossplane/crossplane/verif/xrh"
)

const (
	compName    = "comp"
	selLabel    = "channel"
	selValue    = "stable"
	revClient   = "revctl"
	xrClient    = "xr"
	xrManual    = "xr-manual"
	xrAuto      = "xr-auto"
	xrAutoSel   = "xr-auto-sel"
	nameLabel   = "crossplane.io/composition-name" // written out: the oracle does not import the constants under test
	hashLabel   = "crossplane.io/composition-hash"
	ctxStripped = "after-ownerref-strip"
	ctxPlain    = "controlled"
)

var (
	compKey = simkube.ObjKey{Group: "apiextensions.crossplane.io", Kind: "Composition", Name: compName}
	revGK   = schema.GroupKind{Group: "apiextensions.crossplane.io", Kind: "CompositionRevision"}
)

// ---- contents ---------------------------------------------------------------

// A content is everything a user can give a Composition: labels, annotations
// and spec. marker is what the (scripted) function sees when an XR is
// composed from a revision of this content: the pipeline step input.
type content struct {
	id          string
	labels      map[string]string
	annotations map[string]string
	steps       []string
	marker      string
}

var contents = []content{
	{id: "A", steps: []string{"step1"}, marker: "A"},
	{id: "B", steps: []string{"step1", "step2"}, marker: "B", labels: map[string]string{selLabel: selValue}},
	{id: "C", steps: []string{"step1"}, marker: "A", labels: map[string]string{selLabel: selValue}}, // A + a label only
	{id: "D", steps: []string{"step1"}, marker: "A", annotations: map[string]string{"example.org/note": "d"}}, // A + an annotation only
	{id: "E", steps: []string{"step1"}, marker: "E"}, // A with a different step input
}

func contentByID(id string) content {
	for _, c := range contents {
		if c.id == id {
			return c
		}
	}
	panic(explore.HarnessError{Msg: "unknown content " + id})
}

func (c content) composition() *v1.Composition {
	comp := xrh.PipelineComposition(compName, c.steps...)
	comp.Spec.Pipeline[0].Input = &runtime.RawExtension{Raw: []byte(fmt.Sprintf(`{"apiVersion":"fn.example.org/v1","kind":"Input","content":%q}`, c.marker))}
	comp.SetLabels(c.labels)
	comp.SetAnnotations(c.annotations)
	return comp
}

// ---- world ------------------------------------------------------------------

type world struct {
	s       *simkube.Store
	r       *explore.Run
	xrd     *v1.CompositeResourceDefinition
	inj     *xrh.FaultInjector
	current string // content id the Composition has now
	o       *oracle
	// what the scripted function saw in the XR reconcile in progress
	fnMarkers []string
	skip      map[string]bool
}

func (w *world) fn(_ context.Context, _ string, req *fnv1.RunFunctionRequest) (*fnv1.RunFunctionResponse, error) {
	if in := req.GetInput(); in != nil {
		if f := in.GetFields()["content"]; f != nil {
			w.fnMarkers = append(w.fnMarkers, f.GetStringValue())
		}
	}
	xr, _ := structpb.NewStruct(map[string]any{})
	return &fnv1.RunFunctionResponse{
		Desired: &fnv1.State{Composite: &fnv1.Resource{Resource: xr}},
		Context: req.GetContext(),
	}, nil
}

// setContent is the user editing the Composition: labels, annotations and
// spec are replaced, identity (name, uid) stays.
func (w *world) setContent(id string) bool {
	u := w.s.MustU(contentByID(id).composition())
	changed := w.s.Mutate(compKey, func(o *unstructured.Unstructured) {
		o.Object["spec"] = runtime.DeepCopyJSONValue(u.Object["spec"])
		o.SetLabels(u.GetLabels())
		o.SetAnnotations(u.GetAnnotations())
	})
	w.current = id
	return changed
}

func (w *world) stripOwners() int {
	n := 0
	for _, rv := range w.s.All(revGK) {
		if w.s.Mutate(simkube.KeyOf(rv), func(o *unstructured.Unstructured) { o.SetOwnerReferences(nil) }) {
			n++
		}
	}
	return n
}

func (w *world) deleteOldest() string {
	rs := w.revisions()
	if len(rs) < 2 {
		return ""
	}
	sort.SliceStable(rs, func(i, j int) bool { return rs[i].num < rs[j].num })
	w.s.Remove(simkube.ObjKey{Group: revGK.Group, Kind: revGK.Kind, Name: rs[0].name})
	w.o.forget(rs[0].uid)
	return rs[0].name
}

type event struct {
	name string
	kind string // reconcile | edit | strip | xr | delete
	arg  string
}

func menu(thorough bool) []event {
	m := []event{
		{"rev-reconcile", "reconcile", ""},
		{"edit=B", "edit", "B"},
		{"edit=A", "edit", "A"},
		{"edit=C(A+label)", "edit", "C"},
		{"edit=D(A+annotation)", "edit", "D"},
		{"edit=E(A,other-input)", "edit", "E"},
		{"strip-ownerrefs", "strip", ""},
		{"xr-reconcile/automatic", "xr", xrAuto},
		{"xr-reconcile/manual", "xr", xrManual},
		{"xr-reconcile/automatic+selector", "xr", xrAutoSel},
		{"delete-oldest-revision", "delete", ""},
	}
	_ = thorough
	return m
}

func newRevReconciler(w *world) reconcile.Reconciler {
	return composition.NewReconciler(&pkgh.Mgr{C: w.s.Client(revClient)})
}

func newXRReconciler(w *world) reconcile.Reconciler {
	c := w.s.Client(xrClient)
	return xrh.NewXRReconciler(w.xrd, xrh.XROptions{Cached: c, Uncached: c, Runner: xrh.FunctionRunner(w.fn)})
}

func seedXR(s *simkube.Store, name string, pol xpv1.UpdatePolicy, selector bool) {
	xr := xrh.XR(name, compName)
	xr.SetCompositionUpdatePolicy(&pol)
	if selector {
		xr.SetCompositionRevisionSelector(&metav1.LabelSelector{MatchLabels: map[string]string{selLabel: selValue}})
	}
	s.Seed(xr)
}

func setup(r *explore.Run, skip map[string]bool) *world {
	xrh.BeginExecution(12)
	s := xrh.NewStore()
	w := &world{s: s, r: r, xrd: xrh.XRD(), skip: skip}
	w.o = newOracle(w)
	s.Seed(w.xrd)
	s.Seed(contentByID("A").composition())
	w.current = "A"
	seedXR(s, xrManual, xpv1.UpdateManual, false)
	seedXR(s, xrAuto, xpv1.UpdateAutomatic, false)
	seedXR(s, xrAutoSel, xpv1.UpdateAutomatic, true)
	w.inj = &xrh.FaultInjector{Run: r, Reads: true}
	s.Inj = w.inj
	s.OnWrite = append(s.OnWrite, w.o.onWrite)
	return w
}

func body(r *explore.Run, rep *report.R, sc string, depth int, thorough bool, history bool, skip map[string]bool) {
	w := setup(r, skip)
	s := w.s
	rec := newRevReconciler(w)
	xrec := newXRReconciler(w)
	evs := menu(thorough)
	nnComp := types.NamespacedName{Name: compName}

	if history {
		// Prepared (fault-free, not explored): contents A, B, C reconciled in
		// turn and every XR reconciled after each; leaves A#1 B#2 C#3.
		for _, id := range []string{"A", "B", "C"} {
			w.setContent(id)
			w.revReconcile(rec, nnComp, -1)
			for _, x := range []string{xrManual, xrAuto, xrAutoSel} {
				w.xrReconcile(xrec, x, -1)
			}
		}
		if got := describe(w.revisions()); got != "A#1 B#2 C#3" {
			panic(explore.HarnessError{Msg: "history preparation: " + got})
		}
	}

	var trail []string
	edits, reconciles, faulted := 0, 0, 0
	for step := 0; step < depth; step++ {
		r.SeenRank(report.Hash(s.Canonical(), w.current, w.o.key()), depth-step)
		e := evs[r.Free(len(evs), fmt.Sprintf("ev%d", step))]
		trail = append(trail, e.name)
		switch e.kind {
		case "edit":
			if w.setContent(e.arg) {
				edits++
			}
			r.Logf("step %d: %s", step, e.name)
		case "strip":
			n := w.stripOwners()
			r.Logf("step %d: owner references stripped from %d revisions", step, n)
		case "delete":
			r.Logf("step %d: user deletes oldest revision %q", step, w.deleteOldest())
		case "xr":
			w.xrReconcile(xrec, e.arg, step)
		case "reconcile":
			reconciles++
			out, wasFaulted := w.revReconcile(rec, nnComp, step)
			if wasFaulted {
				faulted++
			}
			if out.Crashed != nil {
				rec = newRevReconciler(w) // process restart
				xrec = newXRReconciler(w)
			}
		}
	}
	nt := ""
	if edits >= 2 && reconciles >= 2 {
		nt = report.Hash(sc, trail, w.inj.Taken)
	}
	rep.Eval(sc, report.Hash(describe(w.revisions())), nt)
	if rep.WantSample() && nt != "" && faulted > 0 && len(w.revisions()) >= 2 {
		rep.Sample(map[string]any{"scenario": sc, "events": trail, "faults": w.inj.Taken, "final_revisions": describe(w.revisions()), "composition_content": w.current})
	}
}

// revReconcile runs one real revision-controller reconcile; every API call is
// a fault point (step < 0: preparation, fault free).
func (w *world) revReconcile(rec reconcile.Reconciler, nn types.NamespacedName, step int) (xrh.Outcome, bool) {
	r := w.r
	pre := w.revisions()
	w.o.ctx = ctxPlain
	for _, x := range pre {
		if !x.controlled {
			w.o.ctx = ctxStripped
		}
	}
	taken := len(w.inj.Taken)
	w.inj.Armed = step >= 0
	out := xrh.Reconcile(rec, nn)
	w.inj.Armed = false
	wasFaulted := len(w.inj.Taken) > taken
	post := w.revisions()
	r.Logf("step %d: rev-reconcile content=%s [%s] err=%v requeue=%v crashed=%v faults=%v -> [%s]", step, w.current, describe(pre), out.Err, out.Result.Requeue, out.Crashed != nil, w.inj.Taken[taken:], describe(post))
	w.o.afterRevReconcile(out, wasFaulted, pre, post)
	w.o.ctx = ctxPlain
	return out, wasFaulted
}

// xrReconcile runs one real, fault-free XR reconcile.
func (w *world) xrReconcile(rec reconcile.Reconciler, name string, step int) {
	s, r := w.s, w.r
	before := xrRef(s, name)
	w.fnMarkers = nil
	out := xrh.Reconcile(rec, types.NamespacedName{Name: name})
	if out.Crashed != nil {
		panic(explore.HarnessError{Msg: "crash in fault-free XR reconcile"})
	}
	after := xrRef(s, name)
	r.Logf("step %d: xr-reconcile %s ref %q -> %q err=%v fn-saw=%v revisions=[%s]", step, name, before, after, out.Err, w.fnMarkers, describe(w.revisions()))
	w.o.afterXRReconcile(name, before, after, out)
}

func xrRef(s *simkube.Store, name string) string {
	u := s.Peek(xrh.XRKey(name))
	if u == nil {
		return ""
	}
	ref, _, _ := unstructured.NestedString(u.Object, "spec", "compositionRevisionRef", "name")
	return ref
}

func parseSkip() map[string]bool {
	m := map[string]bool{}
	for _, k := range strings.Split(os.Getenv("C12_SKIP"), ",") {
		if k != "" {
			m[k] = true
		}
	}
	return m
}

func TestCheck(t *testing.T) {
	rep := report.New("C12", "fault_enumeration")
	rep.Meta(
		"Executions are event sequences of bounded depth over the menu {revision-controller reconcile (real composition.Reconciler; every API call, reads included, is a fault point with outcomes error-before / conflict / error-after / crash-before / crash-after, <= F deviations per sequence, fresh reconciler after a crash), edit the Composition 'comp' to content A / B (other spec + label) / C (A + a label only) / D (A + an annotation only) / E (A with another pipeline step input), strip the owner references of all revisions (backup/restore), real fault-free XR reconcile (production option list, scripted function) of an XR with policy Manual / Automatic / Automatic + compositionRevisionSelector on a label only B and C carry, user deletes the lowest-numbered revision}. All sequences are enumerated by DFS; a state (store + oracle memory) reached again with no more steps and fault budget left is pruned. Scenario 'history' starts from prepared revisions A#1 B#2 C#3. Oracle R1-R5 on every effective write and after every reconcile. Non-trivial: >= 2 effective edits and >= 2 revision-controller reconciles (distinct by event trail + faults). Outcome = final revision table.",
		[]string{
			"simkube models the API server",
			"one reconcile at a time (controller-runtime never runs two reconciles of one object concurrently); edits happen between reconciles",
			"a 'content' is (labels, annotations, spec), as the doc of v1.LatestRevision says; label-only and annotation-only edits are distinct contents",
			"UIDs are opaque: states that differ only in the API server's uid/resourceVersion counters are identified",
			"a fault-free reconcile of an existing Composition has to succeed (an error there counts against R4)",
		},
		[]string{"simkube", "pkgh.Mgr (manager that only hands out the client)", "xrh.NewXRReconciler wiring (same option list as the XRD controller)"},
	)
	depth, bound := 6, 1
	if report.Thorough() {
		depth, bound = 8, 2
	}
	th := report.Thorough()
	skip := parseSkip()
	if len(skip) > 0 {
		rep.Note("TRIAGE RUN: oracles skipped via C12_SKIP: %v", os.Getenv("C12_SKIP"))
	}
	rep.Bound("depth", depth)
	rep.Bound("depth_history_scenario", depth-1)
	rep.Bound("max_faults", bound)
	rep.Bound("events_per_step", len(menu(th)))
	rep.Bound("contents", len(contents))
	scs := []report.Scenario{
		{Name: "fresh", Bound: bound, Prune: true, Wrap: report.Bubble(t), Body: func(r *explore.Run) { body(r, rep, "fresh", depth, th, false, skip) }},
		{Name: "history", Bound: bound, Prune: true, Wrap: report.Bubble(t), Body: func(r *explore.Run) { body(r, rep, "history", depth-1, th, true, skip) }},
	}
	rep.SelfCheck(t, scs[0], nil)
	rep.RunScenarios(t, scs)
	rep.Write(t)
}
