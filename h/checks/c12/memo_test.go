package c12

import (
	"fmt"

	"k8s.io/apimachinery/pkg/types"

	"github.com/crossplane/crossplane/verif/explore"
	"github.com/crossplane/crossplane/verif/report"
	"github.com/crossplane/crossplane/verif/simkube"
	"github.com/crossplane/crossplane/verif/xrh"
)

// Transition memoisation. The explorer is stateless (every execution replays
// its whole choice list), so a prefix would be re-run by the real code once
// per execution below it. Instead every distinct state is kept once (a frozen
// clone of the store + the oracle's memory) and every distinct transition
//
//	(state, event)                      for edits / strip / delete / XR reconcile
//	(state, fault decision sequence)    for a revision-controller reconcile
//
// is computed once by the real code on a fresh clone of the state's store and
// remembered with its log lines. A remembered reconcile still takes the same
// r.Choose decisions, with the same labels, as the real one (a trie of fault
// points per state), so replay and the deviation budget work unchanged. Only
// violation-free transitions are remembered: a transition in which an
// invariant fails panics out before it is stored, so it is re-run by the real
// code on every replay.

type state struct {
	key       string
	store     *simkube.Store // frozen
	current   string
	stripped  bool
	contentOf map[types.UID]string
	firstSpec map[types.UID]string
	maxNum    map[types.UID]int64
	table     string // revision table
	nrevs     int
}

type trans struct {
	next    *state
	logs    []string
	faulted bool
}

// node of a reconcile trie: a fault point (label, n) with one child per
// decision, or a leaf holding the completed transition.
type node struct {
	label, call string
	n           int
	outs        []string
	kids        map[int]*node
	done        *trans
}

type memoT struct {
	states           map[string]*state
	steps            map[string]*trans
	recs             map[string]*node
	initial, history *state
	real, hits       int
}

func newMemo() *memoT {
	return &memoT{states: map[string]*state{}, steps: map[string]*trans{}, recs: map[string]*node{}}
}

var memo = newMemo()

func copyMap[K comparable, V any](m map[K]V) map[K]V {
	out := make(map[K]V, len(m))
	for k, v := range m {
		out[k] = v
	}
	return out
}

// attach makes s the live store of this execution.
func (w *world) attach(s *simkube.Store, o *oracle) {
	w.s, w.o = s, o
	s.Inj = w.inj
	s.OnWrite = []func(*simkube.WriteRecord){o.onWrite}
	w.revC.S, w.xrC.S = s, s
}

// adopt stands on a memoised state without materialising it.
func (w *world) adopt(st *state) {
	w.cur, w.s, w.o = st, nil, nil
	w.current, w.stripped = st.current, st.stripped
}

// materialize gives the real code a private copy of the current state.
func (w *world) materialize() {
	if w.s != nil {
		return
	}
	o := newOracle(w)
	o.contentOf, o.firstSpec, o.maxNum = copyMap(w.cur.contentOf), copyMap(w.cur.firstSpec), copyMap(w.cur.maxNum)
	w.attach(w.cur.store.Clone(), o)
}

// snapshot identifies the live state; an already known state is adopted (its
// first representative is the one every execution continues from).
func (w *world) snapshot() *state {
	key := report.Hash(w.s.Canonical(), w.current, w.stripped, w.o.key())
	if st := memo.states[key]; st != nil {
		w.adopt(st)
		return st
	}
	rs := w.revisions()
	st := &state{key: key, store: w.s.Clone(), current: w.current, stripped: w.stripped,
		contentOf: copyMap(w.o.contentOf), firstSpec: copyMap(w.o.firstSpec), maxNum: copyMap(w.o.maxNum),
		table: describe(rs), nrevs: len(rs)}
	memo.states[key] = st
	w.cur = st
	return st
}

// logf logs a line of the step in progress and keeps it for the memo.
func (w *world) logf(format string, a ...any) {
	if w.quiet {
		return
	}
	l := fmt.Sprintf(format, a...)
	w.steplog = append(w.steplog, l)
	w.r.Logf("step %d: %s", w.step, l)
}

func (w *world) replayLogs(t *trans) {
	for _, l := range t.logs {
		w.r.Logf("step %d: %s", w.step, l)
	}
	memo.hits++
}

// plainStep takes an event without choice points inside.
func (w *world) plainStep(e event) {
	k := w.cur.key + "|" + e.name
	if t := memo.steps[k]; t != nil {
		w.replayLogs(t)
		w.adopt(t.next)
		return
	}
	w.materialize()
	xrh.BeginExecution(12)
	w.steplog = nil
	w.doEvent(e)
	memo.real++
	next := w.snapshot()
	memo.steps[k] = &trans{next: next, logs: w.steplog}
}

// revReconcileStep takes a revision-controller reconcile; reports whether a
// fault was injected.
func (w *world) revReconcileStep() bool {
	r := w.r
	from := w.cur.key
	var pre []int
	n := memo.recs[from]
	for n != nil && n.done == nil {
		c := r.Choose(n.n, n.label)
		if c != 0 {
			w.inj.fi.Taken = append(w.inj.fi.Taken, fmt.Sprintf("%s -> %s", n.call, n.outs[c]))
			r.Logf("FAULT %s -> %s", n.call, n.outs[c])
		}
		pre = append(pre, c)
		n = n.kids[c]
	}
	if n != nil {
		w.replayLogs(n.done)
		w.adopt(n.done.next)
		return n.done.faulted
	}
	w.materialize()
	xrh.BeginExecution(12)
	w.steplog = nil
	_, ds := w.realRevReconcile(true, pre)
	memo.real++
	t := &trans{next: w.snapshot(), logs: w.steplog}
	for _, d := range ds {
		if d.choice != 0 {
			t.faulted = true
		}
	}
	if len(ds) == 0 {
		panic(explore.HarnessError{Msg: "reconcile without any API call"})
	}
	mk := func(d decision) *node {
		return &node{label: d.label, call: d.call, n: d.n, outs: d.outs, kids: map[int]*node{}}
	}
	p := memo.recs[from]
	if p == nil {
		p = mk(ds[0])
		memo.recs[from] = p
	}
	for i, d := range ds {
		if p.done != nil || p.label != d.label || p.n != d.n {
			panic(explore.HarnessError{Msg: fmt.Sprintf("reconcile is not a function of state and fault decisions: fault point %d is %q/%d, was %q/%d", i, d.label, d.n, p.label, p.n)})
		}
		if i == len(ds)-1 {
			if p.kids[d.choice] != nil {
				panic(explore.HarnessError{Msg: "reconcile transition computed twice"})
			}
			p.kids[d.choice] = &node{done: t}
			break
		}
		c := p.kids[d.choice]
		if c == nil {
			c = mk(ds[i+1])
			p.kids[d.choice] = c
		}
		p = c
	}
	return t.faulted
}

// ---- fault injection ---------------------------------------------------------

type decision struct {
	label, call string
	n, choice   int
	outcome     string
	outs        []string
}

var (
	writeOuts = []simkube.Outcome{simkube.OK, simkube.ErrBefore, simkube.Conflict, simkube.ErrAfter, simkube.CrashBefore, simkube.CrashAfter}
	readOuts  = []simkube.Outcome{simkube.OK, simkube.ErrBefore, simkube.CrashBefore}
)

// prefixInjector delegates every fault point to xrh.FaultInjector (which asks
// the explorer), except that the first len(pre) points of a reconcile were
// already decided while walking the memo; it records the decisions taken.
type prefixInjector struct {
	fi  *xrh.FaultInjector
	pre []int
	pos int
	ds  []decision
}

func (p *prefixInjector) begin(pre []int, armed bool) {
	p.pre, p.pos, p.ds = pre, 0, nil
	p.fi.Armed = armed
}

func (p *prefixInjector) end() []decision {
	p.fi.Armed = false
	return p.ds
}

// Decide implements simkube.Injector.
func (p *prefixInjector) Decide(c simkube.Call) simkube.Outcome {
	if !p.fi.Armed {
		return simkube.OK
	}
	outs := writeOuts
	if !c.Write {
		outs = readOuts
		if p.fi.NotFoundReads && c.Verb == "get" && (p.fi.NotFoundFilter == nil || p.fi.NotFoundFilter(c)) {
			// a cache that has not seen the object answers 404
			outs = append(append([]simkube.Outcome{}, readOuts...), simkube.NotFound)
		}
	}
	d := decision{label: "api:" + c.String(), call: c.String(), n: len(outs)}
	for _, o := range outs {
		d.outs = append(d.outs, o.String())
	}
	var out simkube.Outcome
	if p.pos < len(p.pre) {
		out = outs[p.pre[p.pos]]
	} else {
		out = p.fi.Decide(c)
		pts := p.fi.Run.Points
		if len(pts) == 0 || pts[len(pts)-1].Label != d.label || pts[len(pts)-1].N != d.n {
			panic(explore.HarnessError{Msg: "fault point bookkeeping out of step with xrh.FaultInjector at " + d.label})
		}
	}
	p.pos++
	d.choice = -1
	for i, o := range outs {
		if o == out {
			d.choice = i
		}
	}
	if d.choice < 0 {
		panic(explore.HarnessError{Msg: "unknown fault outcome " + out.String()})
	}
	d.outcome = out.String()
	p.ds = append(p.ds, d)
	return out
}
