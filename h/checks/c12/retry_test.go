package c12

import (
	"fmt"

	"github.com/crossplane/crossplane/verif/explore"
	"github.com/crossplane/crossplane/verif/report"
)

// retryBody: the transition memo of the main scenarios treats the revision
// controller as a function of the stored state. A controller is one long-lived
// instance, though: here every step runs the real code on one live instance
// and one live store (no memo): an edit (or the owner-reference strip), a
// reconcile hit by one fault at any call, then the retries controller-runtime
// would make on the same instance. R1-R4 apply as everywhere: the fault-free
// retry must complete and leave the current content's revision on top.
func retryBody(r *explore.Run, rep *report.R, sc string, history bool) {
	w := newWorldLive(r, nil, true)
	if history {
		w.adopt(w.historyState())
	} else {
		w.adopt(w.initialState())
	}
	w.materialize()
	var edits []event
	for _, e := range menu() {
		if e.kind == "edit" || e.kind == "strip" {
			edits = append(edits, e)
		}
	}
	var trail []string
	for round := 0; round < 2; round++ {
		e := edits[r.Free(len(edits), fmt.Sprintf("edit%d", round))]
		trail = append(trail, e.name)
		w.doEvent(e)
		// One reconcile that may be hit by a fault, then two retries.
		out, ds := w.realRevReconcile(true, nil)
		for _, d := range ds {
			if d.choice != 0 {
				trail = append(trail, d.call+" -> "+d.outcome)
			}
		}
		_ = out
		w.realRevReconcile(false, nil)
		w.realRevReconcile(false, nil)
	}
	nt := ""
	if r.Deviations() > 0 {
		nt = report.Hash(sc, trail)
	}
	rep.Eval(sc, report.Hash(describe(w.revisions())), nt)
	if rep.WantSample() && nt != "" {
		rep.Sample(map[string]any{"scenario": sc, "events": trail, "final_revisions": describe(w.revisions())})
	}
}

// liveSequenceBody: like the main scenarios, but every step runs on one live
// store with one live revision controller and one live XR reconciler (whose
// revision fetcher, composer and caches therefore live across steps), without
// the transition memo: what an instance remembers from an earlier call must
// not change what a later call does. Fault free; R1-R5 as everywhere.
func liveSequenceBody(r *explore.Run, rep *report.R, sc string, depth int) {
	w := newWorldLive(r, nil, true)
	w.adopt(w.initialState())
	w.materialize()
	var evs []event
	for _, e := range menu() {
		switch e.name {
		case "rev-reconcile", "edit=B", "edit=A", "xr-reconcile/automatic", "xr-reconcile/manual", "xr-reconcile/automatic+selector":
			evs = append(evs, e)
		}
	}
	var trail []string
	for step := 0; step < depth; step++ {
		e := evs[r.Free(len(evs), fmt.Sprintf("ev%d", step))]
		trail = append(trail, e.name)
		if e.kind == "reconcile" {
			w.realRevReconcile(false, nil)
			continue
		}
		w.doEvent(e)
	}
	rep.Eval(sc, report.Hash(describe(w.revisions())), report.Hash(sc, trail))
}
