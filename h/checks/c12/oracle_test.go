package c12

import (
	"encoding/json"
	"fmt"
	"sort"
	"strings"

	metav1 "k8s.io/apimachinery/pkg/apis/meta/v1"
	"k8s.io/apimachinery/pkg/apis/meta/v1/unstructured"
	"k8s.io/apimachinery/pkg/types"

	"github.com/crossplane/crossplane/verif/explore"
	"github.com/crossplane/crossplane/verif/simkube"
	"github.com/crossplane/crossplane/verif/xrh"
)

// The oracle is written from the property statement. It never calls
// Composition.Hash, LatestRevision or the revision spec converter: a
// revision's content is known because the harness knows which content the
// Composition had when the revision was created; specs are compared as JSON.

type rev struct {
	name       string
	uid        types.UID
	num        int64
	controlled bool // has a controller reference to the Composition's uid
	hash       string
	labels     map[string]string
	spec       string // JSON of spec without spec.revision
	content    string // content id recorded at creation ("?" if unknown)
}

// specJSON renders spec minus spec.revision.
func specJSON(u *unstructured.Unstructured, dropRevision bool) string {
	spec, _, _ := unstructured.NestedMap(u.Object, "spec")
	if dropRevision {
		delete(spec, "revision")
	}
	b, err := json.Marshal(spec)
	if err != nil {
		panic(explore.HarnessError{Msg: "marshal spec: " + err.Error()})
	}
	return string(b)
}

func (w *world) toRev(u *unstructured.Unstructured, compUID types.UID) rev {
	n, _, _ := unstructured.NestedInt64(u.Object, "spec", "revision")
	x := rev{name: u.GetName(), uid: u.GetUID(), num: n, hash: u.GetLabels()[hashLabel], labels: u.GetLabels(), spec: specJSON(u, true), content: "?"}
	if c := metav1.GetControllerOf(u); c != nil && c.UID == compUID && compUID != "" {
		x.controlled = true
	}
	if w.o != nil {
		if id, ok := w.o.contentOf[x.uid]; ok {
			x.content = id
		}
	}
	return x
}

// revisions of the Composition, identified by the composition-name label,
// sorted by name.
func (w *world) revisions() []rev {
	var compUID types.UID
	if c := w.s.Peek(compKey); c != nil {
		compUID = c.GetUID()
	}
	var out []rev
	for _, u := range w.s.All(revGK) {
		if u.GetLabels()[nameLabel] != compName {
			continue
		}
		out = append(out, w.toRev(u, compUID))
	}
	sort.Slice(out, func(i, j int) bool { return out[i].name < out[j].name })
	return out
}

// describe renders a revision table ordered by number then content:
// "A#1 B#2" ("!" marks a revision not controlled by the Composition).
func describe(rs []rev) string {
	rs = append([]rev{}, rs...)
	sort.SliceStable(rs, func(i, j int) bool {
		if rs[i].num != rs[j].num {
			return rs[i].num < rs[j].num
		}
		return rs[i].content < rs[j].content
	})
	var out []string
	for _, x := range rs {
		s := fmt.Sprintf("%s#%d", x.content, x.num)
		if !x.controlled {
			s += "!"
		}
		out = append(out, s)
	}
	return strings.Join(out, " ")
}

type oracle struct {
	w   *world
	ctx string // whether the reconcile in progress started with revisions the Composition does not control
	// memory, per revision uid
	contentOf map[types.UID]string
	firstSpec map[types.UID]string
	maxNum    map[types.UID]int64
	expected  map[string]string // content id -> spec JSON of a Composition with that content
}

// expectedSpec: content id -> spec JSON of a Composition with that content.
var expectedSpec = func() map[string]string {
	m := map[string]string{}
	s := simkube.New(xrh.Scheme)
	for _, c := range contents {
		m[c.id] = specJSON(s.MustU(c.composition()), false)
	}
	return m
}()

func newOracle(w *world) *oracle {
	return &oracle{w: w, ctx: ctxPlain, contentOf: map[types.UID]string{}, firstSpec: map[types.UID]string{}, maxNum: map[types.UID]int64{}, expected: expectedSpec}
}

func (o *oracle) forget(uid types.UID) {
	delete(o.contentOf, uid)
	delete(o.firstSpec, uid)
	delete(o.maxNum, uid)
}

// key renders the oracle's memory (part of the pruning key).
func (o *oracle) key() string {
	var ks []string
	for uid, c := range o.contentOf {
		ks = append(ks, fmt.Sprintf("%s=%s/%d/%s", uid, c, o.maxNum[uid], o.firstSpec[uid]))
	}
	sort.Strings(ks)
	return strings.Join(ks, ";")
}

// fail reports a violation unless the invariant was disabled for a triage run.
func (o *oracle) fail(sig, format string, a ...any) {
	if o.w.skip[strings.SplitN(sig, "/", 2)[0]] {
		o.w.r.Logf("SKIPPED %s: %s", sig, fmt.Sprintf(format, a...))
		return
	}
	o.w.r.Failf(sig, format, a...)
}

// onWrite is called after every effective write made through a client (the
// controllers under test; harness events bypass the log).
func (o *oracle) onWrite(wr *simkube.WriteRecord) {
	switch wr.Call.Key.GK() {
	case revGK:
		o.onRevisionWrite(wr)
	case xrh.XRGVK.GroupKind():
		o.onXRWrite(wr)
	}
}

func (o *oracle) onRevisionWrite(wr *simkube.WriteRecord) {
	w := o.w
	if wr.Deleted || wr.After == nil {
		o.fail("R1/revision-deleted-by-controller", "%s by client %s removed a revision: history is not kept", wr.Call, wr.Call.Client)
		if wr.Before != nil {
			o.forget(wr.Before.GetUID())
		}
		return
	}
	if wr.After.GetLabels()[nameLabel] != compName {
		return
	}
	var compUID types.UID
	if c := w.s.Peek(compKey); c != nil {
		compUID = c.GetUID()
	}
	x := w.toRev(wr.After, compUID)
	if _, known := o.firstSpec[x.uid]; !known {
		if wr.Call.Verb != "create" {
			panic(explore.HarnessError{Msg: fmt.Sprintf("revision %s first seen at %s", x.name, wr.Call)})
		}
		// Created now: it is the capture of the Composition's current content.
		o.contentOf[x.uid] = w.current
		o.firstSpec[x.uid] = x.spec
		o.maxNum[x.uid] = x.num
		x.content = w.current
		if x.spec != o.expected[w.current] {
			o.fail("R1/created-spec-differs-from-composition", "revision %s created for content %s has spec %s, the Composition's spec is %s", x.name, w.current, x.spec, o.expected[w.current])
		}
		if x.num < 1 {
			o.fail("R3/created-with-number-below-1", "revision %s created with number %d", x.name, x.num)
		}
	}
	// R2: apart from its number a revision is never edited.
	if x.spec != o.firstSpec[x.uid] {
		o.fail("R2/spec-edited", "%s changed the spec of revision %s (content %s):\n was %s\n now %s", wr.Call, x.name, x.content, o.firstSpec[x.uid], x.spec)
	}
	// R3: numbers only grow.
	if x.num < o.maxNum[x.uid] {
		o.fail("R3/number-decreased/"+o.ctx, "%s lowered the number of revision %s (content %s) from %d to %d; revisions now [%s], Composition content %s", wr.Call, x.name, x.content, o.maxNum[x.uid], x.num, describe(w.revisions()), w.current)
	}
	if x.num > o.maxNum[x.uid] {
		o.maxNum[x.uid] = x.num
	}
	// R1: exactly one revision per content.
	rs := w.revisions()
	for i := range rs {
		for j := i + 1; j < len(rs); j++ {
			if rs[i].content == rs[j].content && rs[i].content != "?" {
				o.fail("R1/two-revisions-of-one-content", "after %s revisions %s and %s both capture content %s: [%s]", wr.Call, rs[i].name, rs[j].name, rs[i].content, describe(rs))
			}
			if rs[i].hash == rs[j].hash {
				o.fail("R1/two-revisions-with-one-hash-label", "after %s revisions %s and %s carry the same content hash label %q", wr.Call, rs[i].name, rs[j].name, rs[i].hash)
			}
		}
	}
}

func refOf(u *unstructured.Unstructured) string {
	if u == nil {
		return ""
	}
	s, _, _ := unstructured.NestedString(u.Object, "spec", "compositionRevisionRef", "name")
	return s
}

// R5 (Manual) on every write of an XR.
func (o *oracle) onXRWrite(wr *simkube.WriteRecord) {
	if wr.Before == nil || wr.After == nil {
		return
	}
	pol, _, _ := unstructured.NestedString(wr.Before.Object, "spec", "compositionUpdatePolicy")
	if pol != "Manual" {
		return
	}
	if b, a := refOf(wr.Before), refOf(wr.After); b != "" && a != b {
		o.fail("R5/manual-ref-changed", "%s moved Manual XR %s from revision %q to %q; revisions [%s]", wr.Call, wr.Call.Key.Name, b, a, describe(o.w.revisions()))
	}
}

// R4 after a completed revision-controller reconcile.
func (o *oracle) afterRevReconcile(out xrh.Outcome, wasFaulted bool, pre, post []rev) {
	w := o.w
	if out.Crashed != nil {
		return
	}
	if wasFaulted && (out.Err != nil || out.Result.Requeue) {
		// The reconcile failed and says so: it will be retried.
		return
	}
	// A reconcile that reports completion (no error, no requeue) is "a
	// reconcile" in the sense of R4 even when a call inside it was answered
	// with an injected fault: nothing will retry it.
	if out.Err != nil || out.Result.Requeue {
		o.fail("R4/fault-free-reconcile-failed/"+o.ctx, "a reconcile without any injected fault did not complete (err=%v requeue=%v); Composition content %s, revisions before [%s] after [%s]", out.Err, out.Result.Requeue, w.current, describe(pre), describe(post))
		return
	}
	var cur *rev
	for i := range post {
		if post[i].content == w.current {
			cur = &post[i]
		}
	}
	if cur == nil {
		o.fail("R4/current-missing/"+o.ctx, "after a completed reconcile no revision captures the Composition's current content %s: before [%s] after [%s]", w.current, describe(pre), describe(post))
		return
	}
	if cur.spec != o.expected[w.current] {
		o.fail("R4/current-spec-differs", "revision %s (content %s) has spec %s, the Composition has %s", cur.name, w.current, cur.spec, o.expected[w.current])
	}
	// "Its" revisions are the ones the Composition controls (that is what an
	// Automatic XR chooses among): the revision of the current content is one
	// of them after a completed reconcile, also when the owner references
	// were lost in a backup / restore.
	if !cur.controlled {
		o.fail("R4/current-not-controlled/"+o.ctx, "after a completed reconcile revision %s of the current content %s is not controlled by the Composition (an Automatic XR cannot select it): before [%s] after [%s]", cur.name, w.current, describe(pre), describe(post))
	}
	for _, x := range post {
		if x.uid != cur.uid && x.num >= cur.num {
			o.fail("R4/not-highest/"+o.ctx, "after a completed reconcile revision %s of the current content %s has number %d but %s (content %s) has %d: before [%s] after [%s]", cur.name, w.current, cur.num, x.name, x.content, x.num, describe(pre), describe(post))
		}
	}
}

// R5 after a fault-free XR reconcile.
func (o *oracle) afterXRReconcile(name, before, after string, out xrh.Outcome) {
	w := o.w
	rs := w.revisions()
	byName := map[string]rev{}
	for _, x := range rs {
		byName[x.name] = x
	}
	// "keeps using": the pipeline ran with the step input of the referenced
	// revision.
	if x, ok := byName[after]; ok && x.content != "?" {
		want := contentByID(x.content).marker
		for _, m := range w.fnMarkers {
			if m != want {
				o.fail("R5/composed-from-other-revision/"+name, "XR %s references revision %s (content %s, step input %q) but the function ran with step input %q", name, after, x.content, want, m)
			}
		}
	}
	if name == xrManual {
		if before != "" && after != before {
			o.fail("R5/manual-ref-changed", "XR reconcile moved Manual XR %s from revision %q to %q; revisions [%s]", name, before, after, describe(rs))
		}
		return
	}
	// Automatic: highest-numbered revision controlled by the Composition,
	// among those matching the selector.
	var max int64 = -1
	var cands []rev
	for _, x := range rs {
		if !x.controlled {
			continue
		}
		if name == xrAutoSel && x.labels[selLabel] != selValue {
			continue
		}
		cands = append(cands, x)
		if x.num > max {
			max = x.num
		}
	}
	if len(cands) == 0 {
		return // nothing to move to; no demand
	}
	ok := false
	for _, x := range cands {
		if x.name == after && x.num == max {
			ok = true
		}
	}
	if !ok {
		o.fail("R5/automatic-not-highest/"+name, "after a fault-free XR reconcile (err=%v) Automatic XR %s references %q (was %q) but the highest-numbered controlled revision%s is #%d of [%s]", out.Err, name, after, before, map[bool]string{true: " matching its selector", false: ""}[name == xrAutoSel], max, describe(cands))
	}
}
