package c12

import (
	"bytes"
	"encoding/json"
	"fmt"

	metav1 "k8s.io/apimachinery/pkg/apis/meta/v1"
	"k8s.io/apimachinery/pkg/apis/meta/v1/unstructured"
	"k8s.io/apimachinery/pkg/types"

	v1 "github.com/crossplane/crossplane/apis/apiextensions/v1"
	"github.com/crossplane/crossplane/internal/controller/apiextensions/composition"
	"github.com/crossplane/crossplane/verif/explore"
	"github.com/crossplane/crossplane/verif/pkgh"
	"github.com/crossplane/crossplane/verif/report"
	"github.com/crossplane/crossplane/verif/simkube"
	"github.com/crossplane/crossplane/verif/xrh"
)

// ---- scenario: a revision's spec equals the content, whatever the content -------
//
// The event scenarios use five small contents. "Whose spec equals that
// content" is a statement about every field a Composition spec can carry: here
// the Composition is given, one after the other, two specs out of an alphabet
// in which each member exercises another part of the API (patch policies and
// merge options, patch sets, every transform, combine, connection details,
// readiness checks, pipeline steps with input and credentials, the top-level
// settings), and after each reconcile of the real revision controller the
// stored revision's spec (minus its number) must be the Composition's spec,
// JSON for JSON; going back to the first spec must find its revision again.

var specAlphabet = []struct{ name, spec string }{
	{"pt-patch-policy-merge-options", `{"resources":[{"name":"a","base":{"apiVersion":"res.example.org/v1","kind":"ResA"},"patches":[
		{"type":"FromCompositeFieldPath","fromFieldPath":"spec.list","toFieldPath":"spec.list","policy":{"fromFieldPath":"Required","mergeOptions":{"appendSlice":true,"keepMapValues":true}}},
		{"type":"ToCompositeFieldPath","fromFieldPath":"status.x","toFieldPath":"status.x","policy":{"mergeOptions":{"keepMapValues":false}}},
		{"fromFieldPath":"spec.a","policy":{"fromFieldPath":"Optional","mergeOptions":{"appendSlice":false}}}]}]}`},
	{"pt-patch-sets", `{"patchSets":[{"name":"common","patches":[{"type":"FromCompositeFieldPath","fromFieldPath":"spec.p","toFieldPath":"spec.p","policy":{"mergeOptions":{"appendSlice":true}}}]},{"name":"empty","patches":[]}],
		"resources":[{"name":"a","base":{"apiVersion":"res.example.org/v1","kind":"ResA"},"patches":[{"type":"PatchSet","patchSetName":"common"}]}]}`},
	{"pt-transforms", `{"resources":[{"name":"a","base":{"apiVersion":"res.example.org/v1","kind":"ResA"},"patches":[{"type":"FromCompositeFieldPath","fromFieldPath":"spec.n","toFieldPath":"spec.n","transforms":[
		{"type":"math","math":{"type":"Multiply","multiply":3}},
		{"type":"math","math":{"type":"ClampMin","clampMin":1}},
		{"type":"math","math":{"type":"ClampMax","clampMax":9}},
		{"type":"map","map":{"a":"b","n":1,"o":{"k":[1,2]}}},
		{"type":"match","match":{"patterns":[{"type":"literal","literal":"x","result":"y"},{"type":"regexp","regexp":"^a.*","result":{"k":"v"}}],"fallbackValue":"none","fallbackTo":"Input"}},
		{"type":"string","string":{"type":"Format","fmt":"%s-x"}},
		{"type":"string","string":{"type":"Convert","convert":"ToUpper"}},
		{"type":"string","string":{"type":"TrimPrefix","trim":"p-"}},
		{"type":"string","string":{"type":"Regexp","regexp":{"match":"(a)(b)","group":2}}},
		{"type":"string","string":{"type":"Join","join":{"separator":","}}},
		{"type":"convert","convert":{"toType":"int64","format":"quantity"}}]}]}]}`},
	{"pt-combine", `{"resources":[{"name":"a","base":{"apiVersion":"res.example.org/v1","kind":"ResA"},"patches":[
		{"type":"CombineFromComposite","toFieldPath":"spec.c","combine":{"variables":[{"fromFieldPath":"spec.a"},{"fromFieldPath":"spec.b"}],"strategy":"string","string":{"fmt":"%s-%s"}}},
		{"type":"CombineToComposite","toFieldPath":"status.c","combine":{"variables":[{"fromFieldPath":"status.a"}],"strategy":"string","string":{"fmt":"%s"}},"policy":{"fromFieldPath":"Required"}}]}]}`},
	{"pt-connection-details-and-readiness", `{"resources":[{"name":"a","base":{"apiVersion":"res.example.org/v1","kind":"ResA"},
		"connectionDetails":[{"name":"u","type":"FromConnectionSecretKey","fromConnectionSecretKey":"user"},{"name":"f","type":"FromFieldPath","fromFieldPath":"status.f"},{"name":"v","type":"FromValue","value":"fixed"},{"fromConnectionSecretKey":"inferred"}],
		"readinessChecks":[{"type":"MatchString","fieldPath":"status.s","matchString":"ok"},{"type":"MatchInteger","fieldPath":"status.i","matchInteger":3},{"type":"NonEmpty","fieldPath":"status.n"},{"type":"MatchCondition","matchCondition":{"type":"Ready","status":"True"}},{"type":"MatchTrue","fieldPath":"status.t"},{"type":"MatchFalse","fieldPath":"status.u"},{"type":"None"}]}]}`},
	{"pipeline-input-and-credentials", `{"mode":"Pipeline","pipeline":[
		{"step":"one","functionRef":{"name":"fn-one"},"input":{"apiVersion":"fn.example.org/v1","kind":"Input","list":[1,"two",{"k":null}]},"credentials":[{"name":"c","source":"Secret","secretRef":{"namespace":"ns","name":"s"}},{"name":"n","source":"None"}]},
		{"step":"two","functionRef":{"name":"fn-two"}}]}`},
	{"top-level-settings", `{"mode":"Pipeline","pipeline":[{"step":"one","functionRef":{"name":"fn-one"}}],"writeConnectionSecretsToNamespace":"secrets","publishConnectionDetailsWithStoreConfigRef":{"name":"store"}}`},
	{"pt-anonymous-template", `{"resources":[{"base":{"apiVersion":"res.example.org/v1","kind":"ResA","spec":{"deep":{"list":[1,2,{"x":true}],"n":null}}}}],"writeConnectionSecretsToNamespace":"secrets"}`},
}

func specOf(i int) v1.CompositionSpec {
	m := map[string]any{}
	if err := json.Unmarshal([]byte(specAlphabet[i].spec), &m); err != nil {
		panic(explore.HarnessError{Msg: "spec alphabet " + specAlphabet[i].name + ": " + err.Error()})
	}
	m["compositeTypeRef"] = map[string]any{"apiVersion": xrh.XRGVK.GroupVersion().String(), "kind": xrh.XRGVK.Kind}
	b, _ := json.Marshal(m)
	var spec v1.CompositionSpec
	dec := json.NewDecoder(bytes.NewReader(b))
	dec.DisallowUnknownFields()
	if err := dec.Decode(&spec); err != nil {
		panic(explore.HarnessError{Msg: "spec alphabet " + specAlphabet[i].name + " is not a Composition spec: " + err.Error()})
	}
	return spec
}

func captureBody(r *explore.Run, rep *report.R, sc string) {
	first := r.Free(len(specAlphabet), "first-spec")
	second := r.Free(len(specAlphabet), "then-spec")
	xrh.BeginExecution(1)
	s := xrh.NewStore()
	comp := &v1.Composition{TypeMeta: metav1.TypeMeta{APIVersion: v1.SchemeGroupVersion.String(), Kind: v1.CompositionKind}, ObjectMeta: metav1.ObjectMeta{Name: compName}, Spec: specOf(first)}
	s.Seed(comp)
	c := s.Client(revClient)
	rec := composition.NewReconciler(&pkgh.Mgr{C: c})
	key := simkube.ObjKey{Group: "apiextensions.crossplane.io", Kind: "Composition", Name: compName}
	var numbers []int64
	for phase, i := range []int{first, second, first} {
		s.Mutate(key, func(u *unstructured.Unstructured) {
			raw, _ := json.Marshal(specOf(i))
			m := map[string]any{}
			_ = json.Unmarshal(raw, &m)
			u.Object["spec"] = m
		})
		for k := 0; k < 2; k++ {
			if out := xrh.Reconcile(rec, types.NamespacedName{Name: compName}); out.Err != nil || out.Crashed != nil {
				r.Failf("capture/reconcile-fails", "spec %s: the revision controller fails: %v %v", specAlphabet[i].name, out.Err, out.Crashed)
			}
		}
		want := specJSON(s.Peek(key), false)
		var match []string
		var highest int64
		var highestName string
		for _, rv := range s.All(revGK) {
			n, _, _ := unstructured.NestedInt64(rv.Object, "spec", "revision")
			if n > highest {
				highest, highestName = n, rv.GetName()
			}
			if specJSON(rv, true) == want {
				match = append(match, rv.GetName())
			}
		}
		r.Logf("phase %d spec %s: %d revisions, matching %v, highest %s#%d", phase, specAlphabet[i].name, len(s.All(revGK)), match, highestName, highest)
		if len(match) != 1 {
			var got string
			for _, rv := range s.All(revGK) {
				if rv.GetName() == highestName {
					got = specJSON(rv, true)
				}
			}
			r.Failf("R1/content-not-captured-faithfully/"+specAlphabet[i].name, "after the Composition was given spec %q and reconciled, %d revisions have exactly that spec (want 1); the Composition's spec is %s, the highest-numbered revision %s has %s", specAlphabet[i].name, len(match), want, highestName, got)
		}
		if match[0] != highestName {
			r.Failf("R4/not-highest", "the revision %s matching the current spec %q does not carry the highest number (that is %s#%d)", match[0], specAlphabet[i].name, highestName, highest)
		}
		numbers = append(numbers, highest)
	}
	wantRevs := 2
	if first == second {
		wantRevs = 1
	}
	if n := len(s.All(revGK)); n != wantRevs {
		r.Failf("R1/two-revisions-of-one-content", "specs %q, %q, %q in turn left %d revisions, want %d", specAlphabet[first].name, specAlphabet[second].name, specAlphabet[first].name, n, wantRevs)
	}
	nt := ""
	if first != second {
		nt = report.Hash(sc, first, second)
	}
	rep.Eval(sc, report.Hash(fmt.Sprint(numbers)), nt)
}
