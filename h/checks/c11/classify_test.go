package c11

// Classification of rendered CRD version schemas with the real Kubernetes
// apiextensions code (structural-schema construction and validation, CEL rule
// compilation). It only sorts inputs into classes that are counted in the
// evidence; it is never an oracle, because the property does not promise that
// every XRD yields a CRD the API server accepts.
//
// apiextensions' ValidateCustomResourceDefinition itself cannot be linked in
// this sandbox (it imports k8s.io/apiserver/pkg/util/webhook, whose module
// dependencies are absent); the pieces used here are the ones it delegates
// schema checking to.

import (
	"strings"

	apiext "k8s.io/apiextensions-apiserver/pkg/apis/apiextensions"
	extv1 "k8s.io/apiextensions-apiserver/pkg/apis/apiextensions/v1"
	structuralschema "k8s.io/apiextensions-apiserver/pkg/apiserver/schema"
	"k8s.io/apiextensions-apiserver/pkg/apiserver/schema/cel"
	"k8s.io/apiextensions-apiserver/pkg/apiserver/schema/cel/model"
	"k8s.io/apimachinery/pkg/util/validation/field"
	celconfig "k8s.io/apiserver/pkg/apis/cel"
	"k8s.io/apiserver/pkg/cel/environment"
)

var classMemo = map[string]string{}

// classify returns one of: structural, structural+cel-ok, cel-error,
// non-structural, unconvertible.
func classify(s *extv1.JSONSchemaProps) string {
	key := raw(s)
	if c, ok := classMemo[key]; ok {
		return c
	}
	c := classify1(s)
	classMemo[key] = c
	return c
}

func classify1(s *extv1.JSONSchemaProps) (class string) {
	defer func() {
		if p := recover(); p != nil {
			class = "classifier-panic"
		}
	}()
	in := &apiext.JSONSchemaProps{}
	if err := extv1.Convert_v1_JSONSchemaProps_To_apiextensions_JSONSchemaProps(s, in, nil); err != nil {
		return "unconvertible"
	}
	ss, err := structuralschema.NewStructural(in)
	if err != nil {
		return "non-structural"
	}
	if errs := structuralschema.ValidateStructural(field.NewPath("openAPIV3Schema"), ss); len(errs) > 0 {
		return "non-structural"
	}
	rules, bad := 0, 0
	root := model.SchemaDeclType(ss, true)
	for _, part := range []string{"spec", "status"} {
		p, ok := ss.Properties[part]
		if !ok || len(p.XValidations) == 0 {
			continue
		}
		var decl = root
		if decl != nil {
			if f, ok := decl.Fields[part]; ok {
				decl = f.Type
			} else {
				decl = model.SchemaDeclType(&p, false)
			}
		}
		res, err := cel.Compile(&p, decl, celconfig.PerCallLimit, environment.MustBaseEnvSet(environment.DefaultCompatibilityVersion(), true), cel.NewExpressionsEnvLoader())
		if err != nil {
			bad++
			continue
		}
		for _, r := range res {
			rules++
			if r.Error != nil {
				bad++
			}
		}
	}
	switch {
	case bad > 0:
		return "cel-error"
	case rules > 0:
		return "structural+cel-ok"
	}
	return "structural"
}

func classifyCRD(crd *extv1.CustomResourceDefinition) string {
	var cs []string
	for _, v := range crd.Spec.Versions {
		if v.Schema == nil || v.Schema.OpenAPIV3Schema == nil {
			cs = append(cs, "no-schema")
			continue
		}
		cs = append(cs, classify(v.Schema.OpenAPIV3Schema))
	}
	return strings.Join(cs, ",")
}
