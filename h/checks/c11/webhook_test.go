package c11

// The real XRD admission webhook (internal/validation/apiextensions/v1/xrd)
// is obtained through its only constructor, SetupWebhookWithManager, run
// against a stub manager that records the registered handler. Requests are
// then handed to the real controller-runtime admission.Webhook, so what is
// observed is the admission response an API server would get.

import (
	"context"
	"encoding/json"
	"fmt"
	"net/http"

	"github.com/go-logr/logr"
	admissionv1 "k8s.io/api/admission/v1"
	extv1 "k8s.io/apiextensions-apiserver/pkg/apis/apiextensions/v1"
	kerrors "k8s.io/apimachinery/pkg/api/errors"
	metav1 "k8s.io/apimachinery/pkg/apis/meta/v1"
	"k8s.io/apimachinery/pkg/runtime"
	"k8s.io/apimachinery/pkg/runtime/schema"
	"k8s.io/client-go/rest"
	ctrl "sigs.k8s.io/controller-runtime"
	"sigs.k8s.io/controller-runtime/pkg/client"
	"sigs.k8s.io/controller-runtime/pkg/manager"
	"sigs.k8s.io/controller-runtime/pkg/webhook"
	"sigs.k8s.io/controller-runtime/pkg/webhook/admission"

	"github.com/crossplane/crossplane-runtime/pkg/controller"

	v1 "github.com/crossplane/crossplane/apis/apiextensions/v1"
	xrdwebhook "github.com/crossplane/crossplane/internal/validation/apiextensions/v1/xrd"
)

func init() { ctrl.SetLogger(logr.Discard()) }

var scheme = func() *runtime.Scheme {
	s := runtime.NewScheme()
	if err := v1.AddToScheme(s); err != nil {
		panic(err)
	}
	if err := extv1.AddToScheme(s); err != nil {
		panic(err)
	}
	return s
}()

// crdClient is the API server as the webhook sees it: it stores CRDs, serves
// Get and accepts every dry-run Create/Update (the property is about what the
// webhook itself rejects, not about what the API server adds).
type crdClient struct {
	client.Client
	crds       map[string]*extv1.CustomResourceDefinition
	dryWrites  []string
	realWrites []string
}

func (c *crdClient) Get(_ context.Context, key client.ObjectKey, o client.Object, _ ...client.GetOption) error {
	crd, ok := c.crds[key.Name]
	if !ok {
		return kerrors.NewNotFound(schema.GroupResource{Group: "apiextensions.k8s.io", Resource: "customresourcedefinitions"}, key.Name)
	}
	crd.DeepCopyInto(o.(*extv1.CustomResourceDefinition))
	return nil
}

func (c *crdClient) Create(_ context.Context, o client.Object, opts ...client.CreateOption) error {
	co := &client.CreateOptions{}
	co.ApplyOptions(opts)
	c.note("create", o, co.DryRun)
	return nil
}

func (c *crdClient) Update(_ context.Context, o client.Object, opts ...client.UpdateOption) error {
	uo := &client.UpdateOptions{}
	uo.ApplyOptions(opts)
	c.note("update", o, uo.DryRun)
	return nil
}

func (c *crdClient) note(verb string, o client.Object, dry []string) {
	if len(dry) > 0 {
		c.dryWrites = append(c.dryWrites, verb+" "+o.GetName())
	} else {
		c.realWrites = append(c.realWrites, verb+" "+o.GetName())
	}
}

type stubServer struct {
	webhook.Server
	handlers map[string]http.Handler
}

func (s *stubServer) Register(path string, h http.Handler) { s.handlers[path] = h }
func (s *stubServer) WebhookMux() *http.ServeMux           { return nil }

type stubManager struct {
	manager.Manager
	c   client.Client
	srv *stubServer
}

func (m *stubManager) GetClient() client.Client         { return m.c }
func (m *stubManager) GetScheme() *runtime.Scheme       { return scheme }
func (m *stubManager) GetConfig() *rest.Config          { return &rest.Config{} }
func (m *stubManager) GetLogger() logr.Logger           { return logr.Discard() }
func (m *stubManager) GetWebhookServer() webhook.Server { return m.srv }

// newWebhook returns the real validating webhook for XRDs, wired to c.
func newWebhook(c client.Client) *admission.Webhook {
	m := &stubManager{c: c, srv: &stubServer{handlers: map[string]http.Handler{}}}
	if err := xrdwebhook.SetupWebhookWithManager(m, controller.Options{}); err != nil {
		panic(fmt.Sprintf("cannot set up XRD webhook: %v", err))
	}
	for path, h := range m.srv.handlers {
		if wh, ok := h.(*admission.Webhook); ok && path != "/convert" {
			return wh
		}
	}
	panic("XRD webhook did not register a validating handler")
}

type verdict struct {
	Allowed bool
	Message string
}

func admit(wh *admission.Webhook, op admissionv1.Operation, old, new *v1.CompositeResourceDefinition) (v verdict, panicked any) {
	defer func() {
		if p := recover(); p != nil {
			panicked = p
		}
	}()
	raw := func(d *v1.CompositeResourceDefinition) runtime.RawExtension {
		if d == nil {
			return runtime.RawExtension{}
		}
		b, err := json.Marshal(d)
		if err != nil {
			panic(err)
		}
		return runtime.RawExtension{Raw: b}
	}
	req := admission.Request{AdmissionRequest: admissionv1.AdmissionRequest{
		UID:       "req-1",
		Kind:      metav1.GroupVersionKind{Group: v1.Group, Version: v1.Version, Kind: v1.CompositeResourceDefinitionKind},
		Resource:  metav1.GroupVersionResource{Group: v1.Group, Version: v1.Version, Resource: "compositeresourcedefinitions"},
		Name:      new.GetName(),
		Operation: op,
		Object:    raw(new),
		OldObject: raw(old),
	}}
	resp := wh.Handle(context.Background(), req)
	v.Allowed = resp.Allowed
	if resp.Result != nil {
		v.Message = resp.Result.Message
	}
	return v, nil
}
