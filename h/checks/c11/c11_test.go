// C11: the CRDs derived from an XRD are the XRD's schema plus intact
// crossplane machinery; colliding claim names are rejected; group and
// kind/plural names cannot change once set.
//
// Bounded exhaustive enumeration of XRDs (assembled from explorer choices)
// against the real internal/xcrd renderers, the real
// CompositeResourceDefinition.ValidateUpdate and the real XRD admission
// webhook, judged by an independent structural + differential oracle.
package c11

import (
	"fmt"
	"sort"
	"strings"
	"testing"

	admissionv1 "k8s.io/api/admission/v1"
	extv1 "k8s.io/apiextensions-apiserver/pkg/apis/apiextensions/v1"
	metav1 "k8s.io/apimachinery/pkg/apis/meta/v1"

	v1 "github.com/crossplane/crossplane/apis/apiextensions/v1"
	"github.com/crossplane/crossplane/internal/verifshim/vmap"
	"github.com/crossplane/crossplane/verif/explore"
	"github.com/crossplane/crossplane/verif/report"
)

// counters of observed classes (written to the evidence as extras; vcheck
// sums them over shards).
var counts = map[string]int{}

func count(k string) { counts[k]++ }

// sampled counts the samples taken per scenario family (so that the few
// sample slots show different kinds of cases).
var sampled = map[string]int{}

func TestCheck(t *testing.T) {
	rep := report.New("C11", "exploration")
	rep.Meta(
		"Cases are XRDs assembled from enumerated choices (version layout, per-version author schema features, claim names, default policies, conversion, extras) rendered by the real xcrd.ForCompositeResource / ForCompositeResourceClaim, plus (old,new) XRD pairs and single XRDs submitted to the real CompositeResourceDefinition.ValidateUpdate and to the real XRD admission webhook. One evaluation = one XRD (both CRDs) or one admission request. A case is non-trivial when the author schema defines at least one property named like a machinery field of the CRD being rendered, or the claim names repeat a composite name, or (admission) the request changes or removes a field the property calls immutable / carries colliding claim names.",
		[]string{
			"exactly one version is referenceable in every enumerated XRD",
			"'author required lists and validation rules' is read as the required / x-kubernetes-validations of the spec and status objects (where xcrd merges them); top-level required / rules of the author are enumerated but only observed",
			"a version without schema or with unparsable schema bytes makes rendering fail (counted, not judged)",
			"claim-name collision = a claim name equal to the composite's name in the same field (kind, plural, singular, listKind); cross-field overlaps are enumerated but only observed",
			"'cannot change once set' = spec.group, spec.names.kind, spec.names.plural always; spec.claimNames.kind / plural and removal of spec.claimNames once claim names exist (adding claim names to an XRD that had none is allowed, per the API documentation of spec.claimNames)",
			"the API server behind the webhook accepts every dry-run CRD write",
		},
		[]string{"encoding/json round trips of extv1 types", "k8s apiextensions structural-schema validation and CEL compilation (classification only)", "controller-runtime admission.Webhook (request decoding)", "stub manager / CRD client in webhook_test.go"},
	)
	thorough := report.Thorough()
	var list []report.Scenario

	// A: one version, every combination of author schema features.
	for sp := 0; sp < specPropsCount(); sp++ {
		for st := 0; st < statusPropsCount(); st++ {
			sp, st := sp, st
			name := fmt.Sprintf("schema/spec=%s/status=%s", specPropsName(sp), statusPropsName(st))
			list = append(list, report.Scenario{Name: name, Body: func(r *explore.Run) { schemaBody(r, rep, name, sp, st, thorough) }})
		}
	}
	list = append(list, report.Scenario{Name: "schema/special", Body: func(r *explore.Run) {
		kind := 1 + r.Free(skNumKinds-1, "schema kind (nil, malformed, {})")
		evalRender(r, rep, "schema/special", xrdSpec{Layout: 0, Schemas: []verSchema{{Kind: kind}}, Claim: clFull})
	}})
	// B: XRD-level features with 1-3 versions.
	nClaims := clNumSameField
	if thorough {
		nClaims = clNumAll
	}
	for l := range layouts {
		for c := 0; c < nClaims; c++ {
			l, c := l, c
			name := fmt.Sprintf("xrd/layout%d/claim=%s", l, claimVariantNames[c])
			list = append(list, report.Scenario{Name: name, Body: func(r *explore.Run) { xrdBody(r, rep, name, l, c, thorough) }})
		}
	}
	// C, D: admission. E: the XRD reconcilers over the API-server model.
	list = append(list,
		report.Scenario{Name: "admission/create", Body: func(r *explore.Run) { createBody(r, rep) }},
		report.Scenario{Name: "admission/update", Body: func(r *explore.Run) { updateBody(r, rep) }},
		report.Scenario{Name: "reconcile", Body: func(r *explore.Run) { reconcileBody(r, rep) }},
		report.Scenario{Name: "recreate", Body: func(r *explore.Run) { recreateBody(r, rep) }},
		report.Scenario{Name: "interleave", Body: func(r *explore.Run) { interleaveBody(r, rep) }},
	)
	// Interleave so that round-robin dealing balances shards.
	sort.SliceStable(list, func(i, j int) bool { return report.Hash(list[i].Name) < report.Hash(list[j].Name) })

	rep.Bound("versions_per_xrd", "1..3 (10 layouts of referenceable/served flags)")
	rep.Bound("spec_property_variants", specPropsCount())
	rep.Bound("status_property_variants", statusPropsCount())
	rep.Bound("machinery_like_spec_keys", strings.Join(specCollisionKeys, ","))
	rep.Bound("machinery_like_status_keys", strings.Join(statusCollisionKeys, ","))
	rep.Bound("claim_name_variants", nClaims)
	rep.Bound("update_pair_set", len(variants))
	rep.Bound("rival_xrd_interleaving", fmt.Sprintf("contended CRD{composite,claim} x CRD before{absent,uncontrolled} x rival reconciles before API call 1..%d of the first reconcile or after it", interleaveMaxPoint))
	if thorough {
		rep.Bound("schema_feature_product", "spec x status x collision-style{2} x nameMax{-,30,100,63} x required{4} x CEL{5} x oneOf x preserve x descriptions x top-level-extras x typeless-properties")
		rep.Bound("xrd_level_product", "layout{10} x per-version schema{plain,rich,nil,malformed,{}} x claim{9} x deletePolicy{3} x updatePolicy{3} x conversion{3} x extras{2}")
	} else {
		rep.Bound("schema_feature_product", "spec x status x nameMax{-,30,100} x required{4} x CEL{none,spec,all} x decorations{none,all,oneOf+descriptions,typeless-properties}")
		rep.Bound("xrd_level_product", "layout{10} x per-version schema{plain,rich,nil} x claim{7} x deletePolicy{2} x updatePolicy{2} x conversion{2} x extras{2}")
	}

	rep.SelfCheck(t, report.Scenario{Name: "selfcheck", Body: func(r *explore.Run) {
		xrdBody(r, rep0(), "selfcheck", 4, clFull, false)
	}}, func() {
		baselines, counts = map[baselineKey]J{}, map[string]int{}
		reportedSigs, lastCase, lastSig = map[string]bool{}, "", ""
	})
	rep.RunScenarios(t, list)
	for k, n := range counts {
		rep.Extra("observed:"+k, n)
	}
	rep.Note("observed, not judged: a version without schema makes both renderers fail (errCustomResourceValidationNil in internal/xcrd/crd.go genCrdVersion) although the API documentation of CompositeResourceDefinitionVersion.Schema says omitting it yields a machinery-only schema")
	rep.Note("observed, not judged: the author's top-level required list and top-level x-kubernetes-validations are not carried into the CRDs (only description, metadata.name.maxLength, spec and status are read from the author schema); the status object's x-kubernetes-preserve-unknown-fields is not carried either")
	rep.Note("observed, not judged: claim names that overlap the composite's names across fields (claim singular = composite plural, claim kind = composite listKind) are rendered without error")
	rep.Write(t)
}

// rep0 is a throw-away collector for the determinism self check so that its
// two replays are not counted as evaluations.
func rep0() *report.R { return report.New("C11", "exploration") }

func specPropsName(sp int) string {
	switch {
	case sp == spPlain:
		return "plain"
	case sp < spAll():
		return specCollisionKeys[sp-spKey0]
	case sp == spAll():
		return "all-machinery-names"
	case sp == spNoProps():
		return "no-properties"
	}
	return "no-spec"
}

func statusPropsName(st int) string {
	switch {
	case st == stNone:
		return "none"
	case st == stPlain:
		return "plain"
	case st < stAll():
		return statusCollisionKeys[st-stKey0]
	}
	return "all-machinery-names"
}

func schemaBody(r *explore.Run, rep *report.R, scenario string, sp, st int, thorough bool) {
	vs := verSchema{SpecProps: sp, StatusProps: st}
	if thorough {
		if len(vs.specCollisions())+len(vs.statusCollisions()) > 0 {
			vs.Style = r.Free(2, "collision style (integer, object)")
		}
		vs.NameMax = r.Free(4, "metadata.name maxLength (-,30,100,63)")
		vs.Required = r.Free(4, "required (none, spec, spec+status+top, top)")
		vs.CEL = r.Free(5, "CEL rules (none, spec, all, status, top)")
		vs.OneOf = r.Bool("oneOf")
		vs.Preserve = r.Bool("preserve-unknown-fields")
		vs.Desc = r.Bool("descriptions")
		vs.TopExtra = r.Bool("top-level extras")
		vs.Loose = r.Bool("typeless properties")
	} else {
		vs.NameMax = r.Free(3, "metadata.name maxLength (-,30,100)")
		vs.Required = r.Free(4, "required (none, spec, spec+status+top, top)")
		vs.CEL = r.Free(3, "CEL rules (none, spec, all)")
		switch r.Free(4, "decorations (none, all, oneOf+descriptions, typeless properties)") {
		case 1:
			vs.OneOf, vs.Preserve, vs.Desc, vs.TopExtra = true, true, true, true
		case 2:
			vs.OneOf, vs.Desc = true, true
		case 3:
			vs.Loose = true
		}
	}
	evalRender(r, rep, scenario, xrdSpec{Layout: 0, Schemas: []verSchema{vs}, Claim: clFull})
}

var richSchema = verSchema{SpecProps: -1, StatusProps: -1, NameMax: 1, Required: 2, CEL: 2, OneOf: true, Preserve: true, Desc: true, TopExtra: true}

func reducedSchema(i int) verSchema {
	switch i {
	case 1:
		s := richSchema
		s.SpecProps, s.StatusProps = spAll(), stAll()
		return s
	case 2:
		return verSchema{Kind: skNil}
	case 3:
		return verSchema{Kind: skMalformed}
	case 4:
		return verSchema{Kind: skEmptyObj}
	}
	return verSchema{StatusProps: stPlain}
}

func xrdBody(r *explore.Run, rep *report.R, scenario string, layout, claimVariant int, thorough bool) {
	x := xrdSpec{Layout: layout, Claim: claimVariant}
	nSchemas, nPol, nConv := 3, 2, 2
	if thorough {
		nSchemas, nPol, nConv = 5, 3, 3
	}
	for _, l := range layouts[layout] {
		x.Schemas = append(x.Schemas, reducedSchema(r.Free(nSchemas, "schema of "+l.Name+" (plain, rich, nil, malformed, {})")))
	}
	x.DelPol = r.Free(nPol, "defaultCompositeDeletePolicy (unset, Foreground, Background)")
	x.UpdPol = r.Free(nPol, "defaultCompositionUpdatePolicy (unset, Manual, Automatic)")
	x.Conv = r.Free(nConv, "conversion (unset, Webhook, None)")
	x.Extras = r.Bool("extras (categories, short names, printer columns, secret keys, labels, deprecation)")
	evalRender(r, rep, scenario, x)
}

// evalRender renders both CRDs of x with the real code and judges them.
func evalRender(r *explore.Run, rep *report.R, scenario string, x xrdSpec) {
	vmap.Order = nil
	r.Logf("XRD: %s", x)
	f := &fails{}
	var outcome []string
	d0 := x.build(nil, -1)
	collision := claimCollision(d0)
	for _, k := range []crdKind{composite, claim} {
		K := k.String()
		d := x.build(nil, -1)
		crd, err, p := render(k, d)
		if p != nil {
			f.add("panic/render-"+K, "rendering the %s CRD panicked: %v", K, p)
			continue
		}
		r.Logf("%s: err=%v", K, err)
		wantErr := ""
		switch {
		case k == claim && x.Claim == clAbsent:
			wantErr = "no-claim-names"
		case k == claim && collision != "":
			wantErr = "claim-collision-" + collision
		case !x.renderable():
			wantErr = "unusable-schema"
		}
		if err != nil {
			outcome = append(outcome, K+":error:"+wantErr)
			count("render-error:" + K + ":" + wantErr)
			if wantErr == "" {
				f.add("render/"+K+"/unexpected-error", "rendering the %s CRD failed: %v", K, err)
			}
			continue
		}
		switch {
		case k == claim && collision != "":
			f.add("claimnames/collision-"+collision+"/accepted", "claim names %s repeat the composite's %s %s, but the claim CRD was rendered", canon(d.Spec.ClaimNames), collision, canon(d.Spec.Names))
			continue
		case wantErr != "":
			f.add("render/"+K+"/"+wantErr+"/accepted", "the %s CRD was rendered although the XRD has %s", K, wantErr)
			continue
		}
		checkCRD(f, k, x, d, crd)
		whole := raw(crd)

		// differential: author properties named like machinery change nothing
		if x.anyCollision(k) {
			ref, rerr, rp := render(k, x.build(&k, -1))
			switch {
			case rerr != nil || rp != nil:
				f.add("shadow/"+K+"/reference-fails", "the same XRD without machinery-named author properties does not render: %v %v", rerr, rp)
			case raw(ref) != whole:
				f.add("shadow/"+K+"/"+diffPath(toJ(ref), toJ(crd)), "author properties named like machinery change the %s CRD at %s (author schemas %v)", K, diffPath(toJ(ref), toJ(crd)), x.Schemas)
			}
		}
		// differential: each version is rendered independently of its siblings
		if len(d.Spec.Versions) > 1 {
			for i := range d.Spec.Versions {
				one, oerr, op := render(k, x.build(nil, i))
				if oerr != nil || op != nil {
					f.add("versions/"+K+"/single-version-fails", "version %d alone does not render: %v %v", i, oerr, op)
				} else if raw(one.Spec.Versions[0]) != raw(crd.Spec.Versions[i]) {
					f.add("versions/"+K+"/depends-on-siblings", "version %s differs when rendered alone: %s", d.Spec.Versions[i].Name, diffPath(toJ(one.Spec.Versions[0]), toJ(crd.Spec.Versions[i])))
				}
			}
		}
		// differential: map iteration order inside xcrd is irrelevant
		vmap.Order = func(_ string, n int) []int {
			p := make([]int, n)
			for i := range p {
				p[i] = n - 1 - i
			}
			return p
		}
		rev, verr, vp := render(k, x.build(nil, -1))
		vmap.Order = nil
		if verr != nil || vp != nil || raw(rev) != whole {
			f.add("determinism/"+K+"/map-order", "the %s CRD depends on map iteration order (err=%v panic=%v)", K, verr, vp)
		}

		class := classifyCRD(crd)
		for _, c := range strings.Split(class, ",") {
			count("k8s-class-of-version-schema:" + c)
		}
		root := toJ(crd.Spec.Versions[0].Schema.OpenAPIV3Schema)
		outcome = append(outcome, K+":ok:"+class+":top-required="+canon(root["required"])+":top-rules="+canon(root["x-kubernetes-validations"]))
	}
	if x.Claim >= clNumSameField && x.renderable() {
		count("cross-field-claim-name-overlap-rendered:" + claimVariantNames[x.Claim])
	}
	for _, s := range x.Schemas {
		if s.Kind == skObject && (s.Required >= 2 || s.CEL == 2 || s.CEL == 4) && x.renderable() {
			count("author-top-level-required-or-rules-present")
			break
		}
	}
	if f.raise(r, scenario) {
		return
	}
	nt := ""
	if x.anyCollision(composite) || x.anyCollision(claim) || collision != "" {
		nt = report.Hash(scenario, x.String())
	}
	rep.Eval(scenario, report.Hash(outcome), nt)
	if fam := strings.SplitN(scenario, "/", 2)[0]; nt != "" && sampled[fam] < 2 && rep.WantSample() {
		sampled[fam]++
		rep.Sample(map[string]any{"scenario": scenario, "xrd": x.String(), "outcome": outcome, "choices": append([]int{}, r.Choices...)})
	}
}

// diffPath returns the first path (in sorted key order) at which two JSON
// trees differ.
func diffPath(a, b any) string {
	switch av := a.(type) {
	case J:
		bv, ok := b.(J)
		if !ok {
			return ""
		}
		for _, k := range sortedAny(av, bv) {
			if canon(av[k]) != canon(bv[k]) {
				if sub := diffPath(av[k], bv[k]); sub != "" {
					return k + "." + sub
				}
				return k
			}
		}
	case []any:
		bv, ok := b.([]any)
		if !ok || len(av) != len(bv) {
			return ""
		}
		for i := range av {
			if canon(av[i]) != canon(bv[i]) {
				if sub := diffPath(av[i], bv[i]); sub != "" {
					return fmt.Sprintf("%d.%s", i, sub)
				}
				return fmt.Sprint(i)
			}
		}
	}
	return ""
}

// ---- admission ----

type variant struct {
	name string
	mut  func(d *v1.CompositeResourceDefinition)
}

func plainSchema2() *v1.CompositeResourceValidation {
	s := verSchema{StatusProps: stPlain, Desc: true, Required: 1}
	return s.validation(nil)
}

var variants = []variant{
	{"base", func(d *v1.CompositeResourceDefinition) {}},
	{"no-claim", func(d *v1.CompositeResourceDefinition) { d.Spec.ClaimNames = nil }},
	{"group'", func(d *v1.CompositeResourceDefinition) { d.Spec.Group = "other.org" }},
	{"kind'", func(d *v1.CompositeResourceDefinition) { d.Spec.Names.Kind = "XThing2" }},
	{"plural'", func(d *v1.CompositeResourceDefinition) { d.Spec.Names.Plural = "xthings2" }},
	{"claim-kind'", func(d *v1.CompositeResourceDefinition) { d.Spec.ClaimNames.Kind = "Thing2" }},
	{"claim-plural'", func(d *v1.CompositeResourceDefinition) { d.Spec.ClaimNames.Plural = "things2" }},
	{"versions'", func(d *v1.CompositeResourceDefinition) {
		d.Spec.Versions = append(d.Spec.Versions, v1.CompositeResourceDefinitionVersion{Name: "v2", Served: true, Schema: verSchema{}.validation(nil)})
	}},
	{"schema'", func(d *v1.CompositeResourceDefinition) { d.Spec.Versions[0].Schema = plainSchema2() }},
	{"no-claim+schema'", func(d *v1.CompositeResourceDefinition) {
		d.Spec.ClaimNames = nil
		d.Spec.Versions[0].Schema = plainSchema2()
	}},
	{"claim-collides-kind", func(d *v1.CompositeResourceDefinition) { d.Spec.ClaimNames.Kind = d.Spec.Names.Kind }},
	{"claim-collides-plural", func(d *v1.CompositeResourceDefinition) { d.Spec.ClaimNames.Plural = d.Spec.Names.Plural }},
	{"claim-collides-singular", func(d *v1.CompositeResourceDefinition) { d.Spec.ClaimNames.Singular = d.Spec.Names.Singular }},
	{"claim-collides-listKind", func(d *v1.CompositeResourceDefinition) { d.Spec.ClaimNames.ListKind = d.Spec.Names.ListKind }},
	{"claim-collides-singular-listKind-omitted", func(d *v1.CompositeResourceDefinition) {
		d.Spec.ClaimNames.Singular, d.Spec.ClaimNames.ListKind = d.Spec.Names.Singular, ""
	}},
	{"claim-collides-listKind-singular-omitted", func(d *v1.CompositeResourceDefinition) {
		d.Spec.ClaimNames.Singular, d.Spec.ClaimNames.ListKind = "", d.Spec.Names.ListKind
	}},
	{"no-claim+group'", func(d *v1.CompositeResourceDefinition) { d.Spec.ClaimNames = nil; d.Spec.Group = "other.org" }},
	{"singular'", func(d *v1.CompositeResourceDefinition) { d.Spec.Names.Singular = "xthing2" }},
	{"listKind'", func(d *v1.CompositeResourceDefinition) { d.Spec.Names.ListKind = "XThing2List" }},
	{"claim-singular'", func(d *v1.CompositeResourceDefinition) { d.Spec.ClaimNames.Singular = "thing2" }},
	{"policies'", func(d *v1.CompositeResourceDefinition) {
		d.Spec.DefaultCompositeDeletePolicy, d.Spec.DefaultCompositionUpdatePolicy = delPolicies[1], updPolicies[1]
	}},
	{"conversion-webhook-without-config", func(d *v1.CompositeResourceDefinition) { d.Spec.Conversion = conversion(3) }},
	{"no-schema", func(d *v1.CompositeResourceDefinition) { d.Spec.Versions[0].Schema = nil }},
	{"kind'+plural'+claim-kind'", func(d *v1.CompositeResourceDefinition) {
		d.Spec.Names.Kind, d.Spec.Names.Plural, d.Spec.ClaimNames.Kind = "XThing2", "xthings2", "Thing2"
	}},
}

func buildVariant(i int) *v1.CompositeResourceDefinition {
	d := xrdSpec{Layout: 0, Schemas: []verSchema{{StatusProps: stPlain}}, Claim: clFull}.build(nil, -1)
	variants[i].mut(d)
	return d
}

// xrdProblems lists what makes an XRD unacceptable on its own, by the
// property (colliding claim names) or by construction of the case (a version
// without schema, webhook conversion without client config).
func xrdProblems(d *v1.CompositeResourceDefinition, variantName string) (collision string, other []string) {
	collision = claimCollision(d)
	if variantName == "no-schema" {
		other = append(other, "no-schema")
	}
	if c := d.Spec.Conversion; c != nil && c.Strategy == extv1.WebhookConverter && (c.Webhook == nil || c.Webhook.ClientConfig == nil) {
		other = append(other, "conversion")
	}
	return collision, other
}

func createBody(r *explore.Run, rep *report.R) {
	i := r.Free(len(variants), "XRD variant")
	d := buildVariant(i)
	r.Logf("CREATE %s", variants[i].name)
	collision, other := xrdProblems(d, variants[i].name)
	cl := &crdClient{crds: map[string]*extv1.CustomResourceDefinition{}}
	v, p := admit(newWebhook(cl), admissionv1.Create, nil, d)
	f := &fails{}
	switch {
	case p != nil:
		f.add("panic/webhook-create", "the webhook panicked: %v", p)
	case collision != "" && v.Allowed:
		f.add("webhook/create/claimnames/collision-"+collision+"/accepted", "CREATE of an XRD whose claim names %s repeat the composite's %s was allowed", canon(d.Spec.ClaimNames), collision)
	case collision == "" && len(other) == 0 && !v.Allowed:
		f.add("webhook/create/valid-xrd/rejected", "CREATE of XRD variant %s was denied: %s", variants[i].name, v.Message)
	}
	r.Logf("allowed=%v message=%q dry-run writes=%v", v.Allowed, v.Message, cl.dryWrites)
	if f.raise(r, "admission/create") {
		return
	}
	nt := ""
	if collision != "" {
		nt = report.Hash("create", variants[i].name)
	}
	rep.Eval("admission/create", report.Hash("create", v.Allowed, collision, other, len(cl.dryWrites)), nt)
	if nt != "" && sampled["create"] < 1 && rep.WantSample() {
		sampled["create"]++
		rep.Sample(map[string]any{"scenario": "admission/create", "xrd": variants[i].name, "allowed": v.Allowed, "message": v.Message, "choices": append([]int{}, r.Choices...)})
	}
}

// immutableChanges lists, independently of the code under test, the changes
// between old and new that the property forbids.
func immutableChanges(old, new *v1.CompositeResourceDefinition) (paths []string) {
	if old.Spec.Group != new.Spec.Group {
		paths = append(paths, "spec.group")
	}
	if old.Spec.Names.Plural != new.Spec.Names.Plural {
		paths = append(paths, "spec.names.plural")
	}
	if old.Spec.Names.Kind != new.Spec.Names.Kind {
		paths = append(paths, "spec.names.kind")
	}
	if oc := old.Spec.ClaimNames; oc != nil {
		nc := new.Spec.ClaimNames
		switch {
		case nc == nil:
			paths = append(paths, "spec.claimNames")
		default:
			if oc.Plural != nc.Plural {
				paths = append(paths, "spec.claimNames.plural")
			}
			if oc.Kind != nc.Kind {
				paths = append(paths, "spec.claimNames.kind")
			}
		}
	}
	return paths
}

// onlyPermittedChanges reports whether new differs from old at most in the
// version list, the schemas, and by gaining claim names: the changes the
// property and the API documentation explicitly allow.
func onlyPermittedChanges(old, new *v1.CompositeResourceDefinition) bool {
	o, n := old.DeepCopy(), new.DeepCopy()
	o.Spec.Versions, n.Spec.Versions = nil, nil
	if o.Spec.ClaimNames == nil {
		n.Spec.ClaimNames = nil
	}
	return canon(o.Spec) == canon(n.Spec)
}

func changeSig(path string) string {
	if path == "spec.claimNames" {
		return "immutable/spec.claimNames/removal-accepted"
	}
	return "immutable/" + path + "/change-accepted"
}

func updateBody(r *explore.Run, rep *report.R) {
	ni := r.Free(len(variants), "new XRD variant")
	oi := r.Free(len(variants), "old XRD variant")
	crdsExist := r.Bool("CRDs of the old XRD exist")
	// The XRD's own life cycle: live; being deleted (held by its finalizers);
	// being deleted with this update removing one finalizer.
	life := r.Free(3, "XRD life cycle")
	old, new := buildVariant(oi), buildVariant(ni)
	if life > 0 {
		now := metav1.Now()
		for _, x := range []*v1.CompositeResourceDefinition{old, new} {
			x.SetDeletionTimestamp(&now)
			x.SetFinalizers([]string{"defined.apiextensions.crossplane.io", "offered.apiextensions.crossplane.io"})
		}
		if life == 2 {
			new.SetFinalizers([]string{"defined.apiextensions.crossplane.io"})
		}
	}
	r.Logf("UPDATE %s -> %s (CRDs exist: %v, life cycle %d)", variants[oi].name, variants[ni].name, crdsExist, life)
	forbidden := immutableChanges(old, new)
	collision, other := xrdProblems(new, variants[ni].name)
	permitted := onlyPermittedChanges(old, new) && collision == "" && len(other) == 0
	f := &fails{}

	// 1. the API type's ValidateUpdate
	got := map[string]bool{}
	func() {
		defer func() {
			if p := recover(); p != nil {
				f.add("panic/ValidateUpdate", "ValidateUpdate panicked: %v", p)
			}
		}()
		_, errs := new.ValidateUpdate(old)
		for _, e := range errs {
			got[e.Field] = true
		}
	}()
	r.Logf("ValidateUpdate errors: %v", sortedKeys(got))
	for _, p := range forbidden {
		if !got[p] {
			f.add(changeSig(p), "ValidateUpdate(%s -> %s) reports no error for %s (errors: %v)", variants[oi].name, variants[ni].name, p, sortedKeys(got))
		}
	}
	if permitted && len(got) > 0 {
		f.add("update/permitted-change/rejected", "ValidateUpdate(%s -> %s) rejects a change of versions/schema/added claim names only: %v", variants[oi].name, variants[ni].name, sortedKeys(got))
	}

	// 2. the admission webhook
	cl := &crdClient{crds: map[string]*extv1.CustomResourceDefinition{}}
	if crdsExist {
		for _, k := range []crdKind{composite, claim} {
			if crd, err, p := render(k, buildVariant(oi)); err == nil && p == nil {
				cl.crds[crd.GetName()] = crd
			}
		}
	}
	v, p := admit(newWebhook(cl), admissionv1.Update, old, new)
	r.Logf("webhook: allowed=%v message=%q dry-run writes=%v", v.Allowed, v.Message, cl.dryWrites)
	switch {
	case p != nil:
		f.add("panic/webhook-update", "the webhook panicked: %v", p)
	case v.Allowed && len(forbidden) > 0 && len(f.list) > 0:
		// consequence of the ValidateUpdate failure above (the webhook calls it)
		f.list[0].msg += "; the admission webhook allowed the UPDATE as well"
	case v.Allowed && len(forbidden) > 0:
		f.add("webhook/"+changeSig(forbidden[0]), "UPDATE %s -> %s changes %v; ValidateUpdate reports it but the webhook allowed the request", variants[oi].name, variants[ni].name, forbidden)
	case v.Allowed && collision != "":
		f.add("webhook/update/claimnames/collision-"+collision+"/accepted", "UPDATE to an XRD whose claim names repeat the composite's %s was allowed", collision)
	case !v.Allowed && permitted:
		f.add("webhook/update/permitted-change/rejected", "UPDATE %s -> %s (versions/schema/added claim names only) was denied: %s", variants[oi].name, variants[ni].name, v.Message)
	}
	if f.raise(r, "admission/update") {
		return
	}
	nt := ""
	if len(forbidden) > 0 || collision != "" {
		nt = report.Hash("update", variants[oi].name, variants[ni].name, crdsExist, life)
	}
	rep.Eval("admission/update", report.Hash("update", sortedKeys(got), v.Allowed, forbidden, collision, other, permitted), nt)
	if nt != "" && oi == 0 && sampled["update"] < 1 && rep.WantSample() {
		sampled["update"]++
		rep.Sample(map[string]any{"scenario": "admission/update", "old": variants[oi].name, "new": variants[ni].name, "ValidateUpdate_errors": sortedKeys(got), "webhook_allowed": v.Allowed, "choices": append([]int{}, r.Choices...)})
	}
}
