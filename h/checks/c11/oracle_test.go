package c11

// Reference oracle for rendered CRDs. Structural part: read straight from
// the property statement. Differential part: the machinery of the CRD must
// equal the machinery rendered for a plain baseline XRD, and the whole CRD
// must equal the CRD rendered for the same XRD without the author properties
// that are named like machinery.

import (
	"fmt"
	"strings"

	extv1 "k8s.io/apiextensions-apiserver/pkg/apis/apiextensions/v1"

	v1 "github.com/crossplane/crossplane/apis/apiextensions/v1"
	"github.com/crossplane/crossplane/internal/xcrd"
	"github.com/crossplane/crossplane/verif/explore"
)

type failure struct{ sig, msg string }

type fails struct{ list []failure }

func (f *fails) add(sig, format string, a ...any) {
	f.list = append(f.list, failure{sig, fmt.Sprintf(format, a...)})
}

// Violations are de-duplicated by signature downstream, and the explorer
// replays every reported violation twice. To keep a badly broken tree from
// spending the whole budget on replays of one signature, a case reports the
// first of its failures whose signature this process has not reported yet; a
// case whose failures were all reported already is counted as a suppressed
// duplicate (it is not an evaluation).
var (
	reportedSigs      = map[string]bool{}
	lastCase, lastSig string
)

// raise reports the failures of the current case, if any. It returns true if
// the case failed (whether or not it was reported).
func (f *fails) raise(r *explore.Run, scenario string) bool {
	if len(f.list) == 0 {
		return false
	}
	var all []string
	for _, x := range f.list {
		all = append(all, x.sig+": "+x.msg)
	}
	if len(all) > 6 {
		all = append(all[:6], fmt.Sprintf("... and %d more", len(all)-6))
	}
	msg := strings.Join(all, " | ")
	id := scenario + fmt.Sprint(r.Choices)
	if id == lastCase { // the explorer is confirming the violation just reported
		r.Failf(lastSig, "%s", msg)
	}
	for _, x := range f.list {
		if !reportedSigs[x.sig] {
			reportedSigs[x.sig] = true
			lastCase, lastSig = id, x.sig
			r.Failf(x.sig, "%s", msg)
		}
	}
	count("suppressed-duplicate-violation")
	return true
}

// render calls the function under test, turning a panic into an error value
// the caller reports.
func render(k crdKind, d *v1.CompositeResourceDefinition) (crd *extv1.CustomResourceDefinition, err error, panicked any) {
	defer func() {
		if p := recover(); p != nil {
			panicked = p
		}
	}()
	if k == composite {
		crd, err = xcrd.ForCompositeResource(d)
	} else {
		crd, err = xcrd.ForCompositeResourceClaim(d)
	}
	return crd, err, nil
}

// machineryView extracts the part of a version schema that belongs to
// crossplane, not to the author.
func machineryView(k crdKind, schema J) J {
	view := J{"type": schema["type"]}
	props := obj(schema, "properties")
	view["apiVersion"] = props["apiVersion"]
	view["kind"] = props["kind"]
	md := toJ(obj(props, "metadata"))
	if n := obj(md, "properties", "name"); n != nil {
		delete(n, "maxLength") // checked separately: depends on the author's limit
	}
	view["metadata"] = md
	view["spec.type"] = obj(props, "spec")["type"]
	view["status.type"] = obj(props, "status")["type"]
	sp := obj(props, "spec", "properties")
	for n := range specMach[k] {
		view["spec."+n] = sp[n]
	}
	st := obj(props, "status", "properties")
	for n := range statusMach {
		view["status."+n] = st[n]
	}
	return view
}

type baselineKey struct {
	k              crdKind
	delPol, updPol int
}

var baselines = map[baselineKey]J{}

// baseline renders the machinery for a plain single-version XRD with the
// same default policies.
func baseline(k crdKind, x xrdSpec) J {
	key := baselineKey{k, x.DelPol, x.UpdPol}
	if b, ok := baselines[key]; ok {
		return b
	}
	bx := xrdSpec{Layout: 0, Schemas: []verSchema{{}}, Claim: clFull, DelPol: x.DelPol, UpdPol: x.UpdPol}
	crd, err, p := render(k, bx.build(nil, -1))
	if err != nil || p != nil {
		panic(fmt.Sprintf("baseline XRD does not render: %v %v", err, p))
	}
	s := toJ(crd.Spec.Versions[0].Schema.OpenAPIV3Schema)
	b := machineryView(k, s)
	baselines[key] = b
	return b
}

func absent(v any) bool { return v == nil }

// checkCRD applies the structural and baseline-differential oracle to one
// rendered CRD.
func checkCRD(f *fails, k crdKind, x xrdSpec, d *v1.CompositeResourceDefinition, crd *extv1.CustomResourceDefinition) {
	K := k.String()
	c := toJ(crd)
	spec := obj(c, "spec")

	// scope, group, names
	wantScope := "Cluster"
	wantNames := d.Spec.Names
	wantName := d.GetName()
	cat := "composite"
	if k == claim {
		wantScope, wantNames, cat = "Namespaced", *d.Spec.ClaimNames, "claim"
		wantName = d.Spec.ClaimNames.Plural + "." + d.Spec.Group
	}
	if spec["scope"] != wantScope {
		f.add("crd/"+K+"/scope", "%s CRD has scope %v, want %s", K, spec["scope"], wantScope)
	}
	if spec["group"] != d.Spec.Group {
		f.add("crd/"+K+"/group", "%s CRD has group %v, want %s", K, spec["group"], d.Spec.Group)
	}
	if crd.GetName() != wantName {
		f.add("crd/"+K+"/name", "%s CRD is named %q, want %q", K, crd.GetName(), wantName)
	}
	gotNames := crd.Spec.Names
	wantCats := append(append([]string{}, wantNames.Categories...), cat)
	if !eqJSON(gotNames.Categories, wantCats) {
		f.add("crd/"+K+"/categories", "%s CRD categories %v, want the author's plus %q: %v", K, gotNames.Categories, cat, wantCats)
	}
	gotNames.Categories, wantNames.Categories = nil, nil
	if !eqJSON(gotNames, wantNames) {
		f.add("crd/"+K+"/names", "%s CRD names %s, want %s", K, canon(gotNames), canon(wantNames))
	}

	// controller reference to the XRD
	ors := crd.GetOwnerReferences()
	if len(ors) != 1 {
		f.add("crd/"+K+"/owner-reference", "%s CRD has %d owner references, want exactly one (the XRD)", K, len(ors))
	} else {
		o := ors[0]
		if o.APIVersion != "apiextensions.crossplane.io/v1" || o.Kind != "CompositeResourceDefinition" || o.Name != d.GetName() || o.UID != d.GetUID() || o.Controller == nil || !*o.Controller {
			f.add("crd/"+K+"/owner-reference", "%s CRD owner reference %s is not a controller reference to XRD %s (uid %s)", K, canon(o), d.GetName(), d.GetUID())
		}
	}

	// conversion
	if !eqJSON(crd.Spec.Conversion, d.Spec.Conversion) {
		f.add("crd/"+K+"/conversion", "%s CRD conversion %s, XRD says %s", K, canon(crd.Spec.Conversion), canon(d.Spec.Conversion))
	}

	// versions
	if len(crd.Spec.Versions) != len(d.Spec.Versions) {
		f.add("crd/"+K+"/versions", "%s CRD has %d versions, XRD has %d", K, len(crd.Spec.Versions), len(d.Spec.Versions))
		return
	}
	storage := 0
	for i, xv := range d.Spec.Versions {
		cv := crd.Spec.Versions[i]
		if cv.Name != xv.Name || cv.Served != xv.Served {
			f.add("crd/"+K+"/versions", "%s CRD version %d is %s served=%v, XRD version is %s served=%v", K, i, cv.Name, cv.Served, xv.Name, xv.Served)
		}
		if cv.Storage {
			storage++
		}
		if cv.Storage != xv.Referenceable {
			f.add("crd/"+K+"/storage-version", "%s CRD version %s has storage=%v but referenceable=%v in the XRD (versions %v)", K, cv.Name, cv.Storage, xv.Referenceable, layouts[x.Layout])
		}
		if cv.Subresources == nil || cv.Subresources.Status == nil {
			f.add("crd/"+K+"/status-subresource", "%s CRD version %s has no status subresource", K, cv.Name)
		}
		// the author's printer columns come first, unchanged
		if n := len(xv.AdditionalPrinterColumns); n > 0 && (len(cv.AdditionalPrinterColumns) < n || !eqJSON(cv.AdditionalPrinterColumns[:n], xv.AdditionalPrinterColumns)) {
			f.add("crd/"+K+"/printer-columns", "%s CRD version %s lost the author's printer columns: %s", K, cv.Name, canon(cv.AdditionalPrinterColumns))
		}
		if cv.Schema == nil || cv.Schema.OpenAPIV3Schema == nil {
			f.add("crd/"+K+"/schema", "%s CRD version %s has no schema", K, cv.Name)
			continue
		}
		checkSchema(f, k, x, x.Schemas[versionIndex(x, xv.Name)], cv.Name, toJ(cv.Schema.OpenAPIV3Schema))
	}
	if storage != 1 {
		f.add("crd/"+K+"/storage-version", "%s CRD has %d storage versions, want exactly one (versions %v)", K, storage, layouts[x.Layout])
	}
}

func versionIndex(x xrdSpec, name string) int {
	for i, l := range layouts[x.Layout] {
		if l.Name == name {
			return i
		}
	}
	panic("unknown version " + name)
}

// checkSchema checks one version's schema against the author's schema tree.
func checkSchema(f *fails, k crdKind, x xrdSpec, vs verSchema, vname string, got J) {
	K := k.String()
	author := vs.author(nil)
	if got["type"] != "object" {
		f.add("schema/"+K+"/type", "version %s: root type %v", vname, got["type"])
	}
	props := obj(got, "properties")
	for _, n := range []string{"apiVersion", "kind", "metadata", "spec", "status"} {
		if obj(props, n) == nil {
			f.add("schema/"+K+"/"+n+"/missing", "version %s: top-level property %s is missing", vname, n)
			return
		}
	}
	if !eqJSON(got["description"], author["description"]) {
		f.add("schema/"+K+"/description", "version %s: root description %v, author wrote %v", vname, got["description"], author["description"])
	}

	// metadata.name: the tighter of the author's limit and 63
	wantMax := float64(63)
	if m, ok := obj(author, "properties", "metadata", "properties", "name")["maxLength"].(float64); ok && m < wantMax {
		wantMax = m
	}
	name := obj(props, "metadata", "properties", "name")
	if name == nil || name["type"] != "string" || name["maxLength"] != wantMax {
		f.add("schema/"+K+"/metadata.name", "version %s: metadata.name is %s, want type string with maxLength %v (author limit index %d)", vname, canon(name), wantMax, vs.NameMax)
	}

	for _, part := range []string{"spec", "status"} {
		mach := statusMach
		if part == "spec" {
			mach = specMach[k]
		}
		a := obj(author, "properties", part) // nil if the author has none
		g := obj(props, part)
		gp := obj(g, "properties")
		ap := obj(a, "properties")
		for _, n := range sortedAny(ap) {
			want := ap[n]
			if mach[n] {
				continue // the author cannot define machinery
			}
			if absent(gp[n]) {
				f.add("schema/"+K+"/"+part+"."+n+"/missing", "version %s: author property %s.%s is missing from the %s CRD", vname, part, n, K)
			} else if !eqJSON(gp[n], want) {
				f.add("schema/"+K+"/"+part+"."+n+"/altered", "version %s: author property %s.%s became %s, author wrote %s", vname, part, n, canon(gp[n]), canon(want))
			}
		}
		keywords := []string{"required", "x-kubernetes-validations", "oneOf", "description"}
		if part == "spec" {
			keywords = append(keywords, "x-kubernetes-preserve-unknown-fields")
		}
		for _, kw := range keywords {
			if !eqJSON(g[kw], a[kw]) {
				f.add("schema/"+K+"/"+part+"."+kw+"/not-preserved", "version %s: %s.%s is %s in the %s CRD, author wrote %s", vname, part, kw, canon(g[kw]), K, canon(a[kw]))
			}
		}
	}

	// machinery: present with the promised type ...
	sp := obj(props, "spec", "properties")
	for _, n := range sortedStr(wantSpecMachinery[k]) {
		typ := wantSpecMachinery[k][n]
		if obj(sp, n) == nil || obj(sp, n)["type"] != typ {
			f.add("machinery/"+K+"/spec."+n+"/type", "version %s: machinery field spec.%s is %s, want type %s", vname, n, canon(sp[n]), typ)
		}
	}
	st := obj(props, "status", "properties")
	for _, n := range sortedStr(wantStatusMachinery) {
		typ := wantStatusMachinery[n]
		if obj(st, n) == nil || obj(st, n)["type"] != typ {
			f.add("machinery/"+K+"/status."+n+"/type", "version %s: machinery field status.%s is %s, want type %s", vname, n, canon(st[n]), typ)
		}
	}
	// ... and identical to the machinery of the plain baseline XRD
	base := baseline(k, x)
	view := machineryView(k, got)
	for _, n := range sortedAny(base, view) {
		if !eqJSON(view[n], base[n]) {
			f.add("machinery/"+K+"/"+n+"/altered", "version %s: machinery part %s is %s; for a plain XRD it is %s (author schema %s)", vname, n, canon(view[n]), canon(base[n]), vs)
		}
	}

	// default policies
	wantDefault := func(field string, val any, isSet bool) {
		got := obj(sp, field)["default"]
		if isSet && got != val || !isSet && got != nil {
			f.add("policy/"+K+"/"+field+"/default", "version %s: spec.%s default is %v, XRD default policy is %v (set=%v)", vname, field, got, val, isSet)
		}
	}
	if k == composite {
		p := updPolicies[x.UpdPol]
		var val any
		if p != nil {
			val = string(*p)
		}
		wantDefault("compositionUpdatePolicy", val, p != nil)
	} else {
		p := delPolicies[x.DelPol]
		var val any
		if p != nil {
			val = string(*p)
		}
		wantDefault("compositeDeletePolicy", val, p != nil)
	}
}

func sortedAny(ms ...J) []string {
	u := map[string]bool{}
	for _, m := range ms {
		for k := range m {
			u[k] = true
		}
	}
	return sortedKeys(u)
}

func sortedStr(m map[string]string) []string {
	u := map[string]bool{}
	for k := range m {
		u[k] = true
	}
	return sortedKeys(u)
}
