package c11

import (
	"context"
	"fmt"
	"testing"
	"time"

	apiext "k8s.io/apiextensions-apiserver/pkg/apis/apiextensions"
	extv1 "k8s.io/apiextensions-apiserver/pkg/apis/apiextensions/v1"
	"k8s.io/apiextensions-apiserver/pkg/apis/apiextensions/validation"
	"sigs.k8s.io/controller-runtime/pkg/webhook"

	"github.com/crossplane/crossplane/internal/xcrd"
	"github.com/crossplane/crossplane/verif/xrh"
)

func TestProbe(t *testing.T) {
	x := xrh.XRD()
	crd, err := xcrd.ForCompositeResource(x)
	if err != nil {
		t.Fatal(err)
	}
	extv1.SetObjectDefaults_CustomResourceDefinition(crd)
	in := &apiext.CustomResourceDefinition{}
	if err := extv1.Convert_v1_CustomResourceDefinition_To_apiextensions_CustomResourceDefinition(crd, in, nil); err != nil {
		t.Fatal(err)
	}
	t0 := time.Now()
	errs := validation.ValidateCustomResourceDefinition(context.Background(), in)
	fmt.Println(errs, time.Since(t0))
	t0 = time.Now()
	errs = validation.ValidateCustomResourceDefinition(context.Background(), in)
	fmt.Println(errs, time.Since(t0))
	_ = webhook.NewServer(webhook.Options{})
}
