package c11

import (
	"fmt"

	extv1 "k8s.io/apiextensions-apiserver/pkg/apis/apiextensions/v1"
	metav1 "k8s.io/apimachinery/pkg/apis/meta/v1"
	"k8s.io/apimachinery/pkg/apis/meta/v1/unstructured"
	"sigs.k8s.io/controller-runtime/pkg/reconcile"

	"github.com/crossplane/crossplane/internal/controller/apiextensions/definition"
	"github.com/crossplane/crossplane/internal/controller/apiextensions/offered"
	"github.com/crossplane/crossplane/internal/verifshim/vmap"
	"github.com/crossplane/crossplane/verif/explore"
	"github.com/crossplane/crossplane/verif/report"
	"github.com/crossplane/crossplane/verif/simkube"
	"github.com/crossplane/crossplane/verif/xrh"
)

// interleaveMaxPoint bounds the API call of the first reconcile before which
// the rival acts (a reconcile of either controller makes fewer calls; a point
// beyond the last call means "between the first and the second reconcile").
const interleaveMaxPoint = 8

// interleaveBody: two XRDs derive a CRD of the same name (the rival XRD offers
// a claim whose plural is the composite's plural, or the claim plural, of the
// XRD under test). The controllers of both are the real ones, built the way
// Setup builds them. The rival's controller reconciles, to completion, just
// before the k-th API call of the first reconcile of the XRD under test, for
// every k. The CRD of that name either does not exist yet or exists without a
// controller (restored from a backup), so whoever writes first controls it.
//
// Oracle (the property's "controller reference to the XRD", "the XRD's
// schema", read for two XRDs at once): a CRD is the rendering of the XRD
// that controls it. Once the rival controls the CRD, the reconciles of the
// XRD under test leave it exactly as the rival wrote it; otherwise the CRD is
// the rendering of the XRD under test, controlled by it. (Whether the loser
// reports an error is observed, not judged: that clause belongs to C02.)
func interleaveBody(r *explore.Run, rep *report.R) {
	vmap.Order = nil
	k := []crdKind{composite, claim}[r.Free(2, "contended CRD (composite, claim) of the XRD under test")]
	K := k.String()
	pre := []string{"absent", "uncontrolled"}[r.Free(2, "CRD of that name before (absent, exists without controller)")]
	at := r.Free(interleaveMaxPoint+1, "rival reconciles just before API call #k+1 of the first reconcile")

	x := xrdSpec{Layout: 0, Schemas: []verSchema{reducedSchema(0)}, Claim: clFull}
	d := x.build(nil, -1)
	name := d.GetName()
	if k == claim {
		name = d.Spec.ClaimNames.Plural + "." + group
	}
	// The rival: other composite names, other schema, a claim CRD of that name.
	bx := xrdSpec{Layout: 0, Schemas: []verSchema{reducedSchema(1)}, Claim: clFull}
	b := bx.build(nil, -1)
	b.SetName("xrivals." + group)
	b.SetUID("rival-xrd-uid")
	b.Spec.Names = extv1.CustomResourceDefinitionNames{Kind: "XRival", Plural: "xrivals", Singular: "xrival", ListKind: "XRivalList"}
	if k == composite {
		b.Spec.ClaimNames = &extv1.CustomResourceDefinitionNames{Kind: "Rival", Plural: d.Spec.Names.Plural, Singular: "rival", ListKind: "RivalList"}
	}

	s := simkube.New(xrh.Scheme)
	s.Seed(d, b)
	if pre == "uncontrolled" {
		crd, err, p := render(k, d)
		if err != nil || p != nil {
			panic(explore.HarnessError{Msg: fmt.Sprintf("plain XRD does not render: %v %v", err, p)})
		}
		crd.OwnerReferences = nil
		crd.Spec.Names.ShortNames = []string{"old"}
		crd.Status.Conditions = []extv1.CustomResourceDefinitionCondition{{Type: extv1.Established, Status: extv1.ConditionTrue}}
		s.Seed(crd)
	}

	var rec, rival reconcile.Reconciler
	c := s.Client("xrd-controller")
	if k == composite {
		rec = definition.NewReconciler(definition.NewClientApplicator(c))
	} else {
		rec = offered.NewReconciler(offered.NewClientApplicator(c))
	}
	rival = offered.NewReconciler(offered.NewClientApplicator(s.Client("rival-controller")))

	f := &fails{}
	controllerOf := func(u *unstructured.Unstructured) string {
		if u == nil {
			return ""
		}
		if o := metav1.GetControllerOf(u); o != nil {
			return string(o.UID)
		}
		return ""
	}
	snapshot := func(u *unstructured.Unstructured) string {
		if u == nil {
			return "<absent>"
		}
		return canon(map[string]any{"spec": u.Object["spec"], "ownerReferences": u.GetOwnerReferences()})
	}
	brief := func(u *unstructured.Unstructured) string {
		if u == nil {
			return "<absent>"
		}
		scope, _, _ := unstructured.NestedString(u.Object, "spec", "scope")
		kind, _, _ := unstructured.NestedString(u.Object, "spec", "names", "kind")
		return fmt.Sprintf("{controller %q, scope %s, kind %s, spec hash %s}", controllerOf(u), scope, kind, report.Hash(canon(u.Object["spec"])))
	}
	acted, during, rivalLeft, rivalBrief, n := false, false, "", "", 0
	var berr error
	act := func() {
		acted = true
		var bp any
		berr, bp = reconcileOnce(rival, b.GetName())
		if bp != nil {
			f.add("panic/offered-reconciler", "offered reconciler panicked on the rival XRD: %v", bp)
		}
		if cur := s.Peek(crdKey(name)); controllerOf(cur) == string(b.GetUID()) {
			rivalLeft, rivalBrief = snapshot(cur), brief(cur)
		}
	}
	s.Inj = simkube.InjectorFn(func(call simkube.Call) simkube.Outcome {
		if call.Client == "xrd-controller" {
			if !acted && n == at {
				during = true
				act()
			}
			n++
		}
		return simkube.OK
	})
	var errs []error
	for i := 0; i < 3; i++ {
		err, p := reconcileOnce(rec, d.GetName())
		if p != nil {
			f.add("panic/"+map[crdKind]string{composite: "definition", claim: "offered"}[k]+"-reconciler", "reconciler panicked: %v", p)
		}
		errs = append(errs, err)
		if i == 0 {
			r.Logf("first reconcile made %d API calls", n)
			if n > interleaveMaxPoint {
				panic(explore.HarnessError{Msg: fmt.Sprintf("first reconcile makes %d API calls, more than the bound %d", n, interleaveMaxPoint)})
			}
			if !acted {
				act() // between the first and the second reconcile
			}
		}
	}
	s.Inj = nil
	last := errs[len(errs)-1]
	final := s.Peek(crdKey(name))
	r.Logf("%s CRD %s (%s before), rival at %d: reconcile errors %v, rival err=%v, rival took control: %v, final controller %q", K, name, pre, at, errs, berr, rivalLeft != "", controllerOf(final))

	switch {
	case rivalLeft != "":
		if got := snapshot(final); got != rivalLeft {
			f.add("interleave/"+K+"/crd-of-another-xrd-overwritten", "XRD %s controls the CRD %s (its claim CRD); the reconciles of XRD %s rewrote it: the rival left %s, stored now %s", b.GetName(), name, d.GetName(), rivalBrief, brief(final))
		}
		// (Whether the loser reports the conflict is C02's clause, not C11's:
		// it is observed in the outcome hash below, never judged here.)
	default:
		stored := &extv1.CustomResourceDefinition{}
		switch {
		case !s.PeekInto(crdKey(name), stored):
			f.add("interleave/"+K+"/crd-not-written", "no %s CRD %s after three reconciles (errors %v) although the rival never controlled it", K, name, errs)
		case controllerOf(final) != string(d.GetUID()):
			f.add("interleave/"+K+"/crd-not-controlled-by-its-xrd", "the %s CRD %s is controlled by %q, not by XRD %s (%s), although the rival never controlled it", K, name, controllerOf(final), d.GetName(), d.GetUID())
		default:
			checkCRD(f, k, x, d, stored)
			if rendered, err, p := render(k, d); err == nil && p == nil && canon(stored.Spec) != canon(rendered.Spec) {
				f.add("interleave/"+K+"/stored-spec-differs-from-rendering", "the %s CRD is not the rendering of the XRD that controls it: stored %s, rendered %s", K, canon(stored.Spec), canon(rendered.Spec))
			}
		}
	}
	if f.raise(r, "interleave") {
		return
	}
	nt := ""
	if during { // the rival acted between two API calls of a reconcile
		nt = report.Hash("interleave", K, pre, at)
	}
	rep.Eval("interleave", report.Hash(K, rivalLeft != "", last != nil, berr != nil), nt)
}
