package c11

// Reconciler level: the real definition and offered reconcilers run once over
// the simkube API-server model; the CRDs they write must satisfy the same
// oracle as the rendered ones, and an XRD with colliding claim names must not
// produce a claim CRD. (Neither reconciler has an immutability check of its
// own; immutability is enforced at admission only.)

import (
	"context"
	"fmt"
	"strings"

	extv1 "k8s.io/apiextensions-apiserver/pkg/apis/apiextensions/v1"
	"k8s.io/apimachinery/pkg/types"
	"sigs.k8s.io/controller-runtime/pkg/reconcile"

	"github.com/crossplane/crossplane/internal/controller/apiextensions/definition"
	"github.com/crossplane/crossplane/internal/controller/apiextensions/offered"
	"github.com/crossplane/crossplane/internal/verifshim/vmap"
	"github.com/crossplane/crossplane/verif/explore"
	"github.com/crossplane/crossplane/verif/report"
	"github.com/crossplane/crossplane/verif/simkube"
	"github.com/crossplane/crossplane/verif/xrh"
)

var reconcileLayouts = []int{0, 2, 4}

func crdKey(name string) simkube.ObjKey {
	return simkube.ObjKey{Group: "apiextensions.k8s.io", Kind: "CustomResourceDefinition", Name: name}
}

func reconcileOnce(rec reconcile.Reconciler, name string) (err error, panicked any) {
	defer func() {
		if p := recover(); p != nil {
			panicked = p
		}
	}()
	_, err = rec.Reconcile(context.Background(), reconcile.Request{NamespacedName: types.NamespacedName{Name: name}})
	return err, nil
}

func reconcileBody(r *explore.Run, rep *report.R) {
	vmap.Order = nil
	x := xrdSpec{}
	x.Claim = r.Free(clNumSameField, "claim names")
	x.Layout = reconcileLayouts[r.Free(len(reconcileLayouts), "version layout")]
	for _, l := range layouts[x.Layout] {
		x.Schemas = append(x.Schemas, reducedSchema(r.Free(3, "schema of "+l.Name+" (plain, rich, nil)")))
	}
	x.UpdPol = r.Free(2, "defaultCompositionUpdatePolicy (unset, Manual)")
	x.DelPol = x.UpdPol
	existing := r.Bool("CRDs of an earlier revision of the XRD exist")
	// Who owns the earlier CRDs: the XRD as their controller (what the
	// controllers write), nobody (restored from a backup), or the XRD as a
	// plain, non-controller owner (a restore tool's or a hand edit's doing).
	// All three are the XRD's to control.
	owners := 0
	if existing {
		owners = r.Free(3, "earlier CRDs owned by (xrd-controller, nobody, xrd-plain-owner)")
	}
	r.Logf("XRD: %s (existing CRDs: %v, owners %d)", x, existing, owners)

	d := x.build(nil, -1)
	collision := claimCollision(d)
	s := simkube.New(xrh.Scheme)
	s.Seed(d)
	if existing {
		// what an earlier, plain revision of the same XRD had produced
		prev := xrdSpec{Layout: 0, Schemas: []verSchema{{}}, Claim: clFull}
		pd := prev.build(nil, -1)
		pd.Spec.ClaimNames = d.Spec.ClaimNames
		for _, k := range []crdKind{composite, claim} {
			if crd, err, p := render(k, pd); err == nil && p == nil {
				// The earlier revision had settings the current XRD no longer
				// asks for; what is stored afterwards must be the current
				// rendering, not a mixture.
				crd.Spec.Names.ShortNames = []string{"old"}
				crd.Spec.Names.Categories = append(crd.Spec.Names.Categories, "legacy")
				if crd.Spec.Conversion == nil || crd.Spec.Conversion.Strategy != extv1.WebhookConverter {
					path, port := "/convert-old", int32(9443)
					crd.Spec.Conversion = &extv1.CustomResourceConversion{Strategy: extv1.WebhookConverter, Webhook: &extv1.WebhookConversion{
						ConversionReviewVersions: []string{"v1"},
						ClientConfig:             &extv1.WebhookClientConfig{Service: &extv1.ServiceReference{Namespace: "old", Name: "old", Path: &path, Port: &port}},
					}}
				}
				switch owners {
				case 1:
					crd.OwnerReferences = nil
				case 2:
					for i := range crd.OwnerReferences {
						crd.OwnerReferences[i].Controller = nil
						crd.OwnerReferences[i].BlockOwnerDeletion = nil
					}
				}
				s.Seed(crd)
			}
		}
	}
	c := s.Client("xrd-controller")
	f := &fails{}
	var outcome []string

	derr, dp := reconcileOnce(definition.NewReconciler(definition.NewClientApplicator(c)), d.GetName())
	var oerr error
	var op any
	if d.Spec.ClaimNames != nil { // the offered controller only watches XRDs that offer a claim
		oerr, op = reconcileOnce(offered.NewReconciler(offered.NewClientApplicator(c)), d.GetName())
	}
	r.Logf("definition: err=%v panic=%v; offered: err=%v panic=%v", derr, dp, oerr, op)
	if dp != nil {
		f.add("panic/definition-reconciler", "definition reconciler panicked: %v", dp)
	}
	if op != nil {
		f.add("panic/offered-reconciler", "offered reconciler panicked: %v", op)
	}

	for _, k := range []crdKind{composite, claim} {
		K := k.String()
		name := d.GetName()
		if k == claim {
			if d.Spec.ClaimNames == nil {
				continue
			}
			name = d.Spec.ClaimNames.Plural + "." + d.Spec.Group
		}
		stored := &extv1.CustomResourceDefinition{}
		found := s.PeekInto(crdKey(name), stored)
		want := x.renderable() && !(k == claim && collision != "")
		switch {
		case collision == "plural" && oerr == nil:
			// claim and composite CRD share a name; report the accepted
			// collision once instead of judging whichever CRD was written last.
			if k == claim {
				f.add("reconcile/claimnames/collision-plural/accepted", "the offered reconciler reports no error for claim names repeating the composite's plural")
			}
		case k == claim && collision != "" && oerr == nil:
			f.add("reconcile/claimnames/collision-"+collision+"/accepted", "the offered reconciler reports no error for claim names repeating the composite's %s", collision)
		case k == claim && collision == "plural":
			// the claim CRD would be named like the composite CRD; whatever
			// is stored under that name is the composite CRD.
			outcome = append(outcome, K+":collides-with-composite-crd-name")
		case !want && found && !existing:
			f.add("reconcile/"+K+"/crd-written-for-unrenderable-xrd", "a %s CRD was written although the XRD cannot be rendered (collision=%q renderable=%v)", K, collision, x.renderable())
		case want && !found:
			err := derr
			if k == claim {
				err = oerr
			}
			f.add("reconcile/"+K+"/crd-not-written", "no %s CRD %s in the API server after one reconcile (err=%v)", K, name, err)
		case want:
			checkCRD(f, k, x, d, stored)
			if rendered, err, p := render(k, d); err == nil && p == nil && canon(stored.Spec) != canon(rendered.Spec) {
				f.add("reconcile/"+K+"/stored-spec-differs-from-rendering", "the %s CRD stored after the reconcile is not the rendering of the XRD (earlier revision's CRD existed: %v): stored %s, rendered %s", K, existing, canon(stored.Spec), canon(rendered.Spec))
			}
			outcome = append(outcome, K+":stored:"+classifyCRD(stored))
		default:
			outcome = append(outcome, fmt.Sprintf("%s:none(found=%v)", K, found))
		}
	}
	// Another XRD offers a claim with the same names: the claim CRD that
	// exists is controlled by the first XRD and must stay its CRD.
	if d.Spec.ClaimNames != nil && collision == "" && x.renderable() && oerr == nil {
		name := d.Spec.ClaimNames.Plural + "." + d.Spec.Group
		before := s.Peek(crdKey(name))
		if before != nil {
			b := d.DeepCopy()
			b.SetName("xrivals." + d.Spec.Group)
			b.SetUID("rival-xrd-uid")
			b.SetResourceVersion("")
			b.Spec.Names = extv1.CustomResourceDefinitionNames{Kind: "XRival", Plural: "xrivals", Singular: "xrival", ListKind: "XRivalList"}
			s.Seed(b)
			berr, bp := reconcileOnce(offered.NewReconciler(offered.NewClientApplicator(c)), b.GetName())
			after := s.Peek(crdKey(name))
			r.Logf("rival XRD with the same claim names: offered err=%v panic=%v", berr, bp)
			switch {
			case bp != nil:
				f.add("panic/offered-reconciler", "offered reconciler panicked on a rival XRD: %v", bp)
			case after == nil || canon(after.Object["spec"]) != canon(before.Object["spec"]) || canon(after.GetOwnerReferences()) != canon(before.GetOwnerReferences()):
				f.add("reconcile/claim/crd-taken-over-by-another-xrd", "XRD %s offers the claim names of %s; its reconcile rewrote the claim CRD %s that %s controls (owner references %s -> %s)", b.GetName(), d.GetName(), name, d.GetName(), canon(before.GetOwnerReferences()), canon(after.GetOwnerReferences()))
			case berr != nil && strings.Contains(berr.Error(), "cannot render"):
				panic(explore.HarnessError{Msg: "rival XRD does not render: " + berr.Error()})
			case berr == nil:
				f.add("reconcile/claim/crd-conflict-not-reported", "XRD %s offers the claim names of %s; its reconcile reports no error although the claim CRD belongs to %s", b.GetName(), d.GetName(), d.GetName())
			}
			outcome = append(outcome, fmt.Sprintf("rival:%v", berr != nil))
		}
	}
	if f.raise(r, "reconcile") {
		return
	}
	nt := ""
	if x.anyCollision(composite) || x.anyCollision(claim) || collision != "" {
		nt = report.Hash("reconcile", x.String(), existing, owners)
	}
	rep.Eval("reconcile", report.Hash(outcome, derr != nil, oerr != nil), nt)
}
