package c11

import (
	"context"
	"fmt"

	extv1 "k8s.io/apiextensions-apiserver/pkg/apis/apiextensions/v1"
	"k8s.io/apimachinery/pkg/apis/meta/v1/unstructured"

	"github.com/crossplane/crossplane/internal/controller/apiextensions/definition"
	"github.com/crossplane/crossplane/internal/controller/apiextensions/offered"
	"github.com/crossplane/crossplane/internal/verifshim/vmap"
	"github.com/crossplane/crossplane/verif/explore"
	"github.com/crossplane/crossplane/verif/report"
	"github.com/crossplane/crossplane/verif/simkube"
	"github.com/crossplane/crossplane/verif/xrh"
)

// recreateBody: one long-lived definition controller and one long-lived
// offered controller serve an XRD that is edited in place, or deleted and
// created again under the same name (a new object: new UID, generation 1)
// with other versions and schemas. Whatever the controllers keep between
// reconciles, the CRDs stored after each step must be the rendering of the
// XRD as it is then, controlled by it.
func recreateBody(r *explore.Run, rep *report.R) {
	vmap.Order = nil
	pick := func(what string) xrdSpec {
		x := xrdSpec{Claim: clFull}
		x.Layout = reconcileLayouts[r.Free(len(reconcileLayouts), what+" version layout")]
		for _, l := range layouts[x.Layout] {
			x.Schemas = append(x.Schemas, reducedSchema(r.Free(2, what+" schema of "+l.Name+" (plain, rich)")))
		}
		return x
	}
	x1 := pick("first")
	x2 := pick("second")
	how := []string{"edited-in-place", "deleted-and-created-again"}[r.Free(2, "second XRD")]
	s := simkube.New(xrh.Scheme)
	c := s.Client("xrd-controller")
	drec := definition.NewReconciler(definition.NewClientApplicator(c))
	orec := offered.NewReconciler(offered.NewClientApplicator(c))
	f := &fails{}
	xrdKey := simkube.ObjKey{Group: "apiextensions.crossplane.io", Kind: "CompositeResourceDefinition", Name: "xthings." + group}
	settle := func(stage string) {
		for i := 0; i < 4; i++ {
			if _, p := reconcileOnce(drec, xrdKey.Name); p != nil {
				f.add("panic/definition-reconciler", "%s: definition reconciler panicked: %v", stage, p)
			}
			if _, p := reconcileOnce(orec, xrdKey.Name); p != nil {
				f.add("panic/offered-reconciler", "%s: offered reconciler panicked: %v", stage, p)
			}
			// The API server establishes CRDs.
			for _, u := range s.All(crdKey("").GK()) {
				s.Mutate(simkube.KeyOf(u), func(u *unstructured.Unstructured) {
					_ = unstructured.SetNestedSlice(u.Object, []any{map[string]any{"type": "Established", "status": "True"}}, "status", "conditions")
				})
			}
		}
	}
	check := func(stage string, x xrdSpec) {
		d := x.build(nil, -1)
		if cur := s.Peek(xrdKey); cur != nil {
			d.SetUID(cur.GetUID())
		}
		for _, k := range []crdKind{composite, claim} {
			name := d.GetName()
			if k == claim {
				name = d.Spec.ClaimNames.Plural + "." + d.Spec.Group
			}
			stored := &extv1.CustomResourceDefinition{}
			if !s.PeekInto(crdKey(name), stored) {
				f.add("recreate/"+k.String()+"/crd-not-written", "%s: no %s CRD %s", stage, k, name)
				continue
			}
			checkCRD(f, k, x, d, stored)
			if rendered, err, p := render(k, d); err == nil && p == nil && canon(stored.Spec) != canon(rendered.Spec) {
				f.add("recreate/"+k.String()+"/stored-spec-differs-from-rendering", "%s: the %s CRD is not the rendering of the XRD as it is now (%s): stored %s, rendered %s", stage, k, how, canon(stored.Spec), canon(rendered.Spec))
			}
		}
	}
	d1 := x1.build(nil, -1)
	s.Seed(d1)
	settle("first XRD")
	if !x1.renderable() || !x2.renderable() {
		rep.Eval("recreate", "unrenderable", "")
		return
	}
	check("first XRD", x1)
	d2 := x2.build(nil, -1)
	switch how {
	case "edited-in-place":
		s.Mutate(xrdKey, func(u *unstructured.Unstructured) {
			nu := s.MustU(d2)
			u.Object["spec"] = nu.Object["spec"]
			u.SetGeneration(u.GetGeneration() + 1)
		})
	case "deleted-and-created-again":
		cur := x1.build(nil, -1)
		_ = s.Client("user").Delete(context.Background(), cur)
		settle("deletion of the first XRD")
		if s.Peek(xrdKey) != nil {
			// (instances or a stuck finalizer: not this scenario's subject)
			s.Remove(xrdKey)
			for _, u := range s.All(crdKey("").GK()) {
				s.Remove(simkube.KeyOf(u))
			}
		}
		d2.SetUID("xrd-uid-second")
		d2.SetGeneration(1)
		s.Seed(d2)
	}
	settle("second XRD")
	r.Logf("first %s, second %s (%s)", x1, x2, how)
	check("second XRD ("+how+")", x2)
	if f.raise(r, "recreate") {
		return
	}
	rep.Eval("recreate", report.Hash(how, x1.String() == x2.String()), report.Hash("recreate", x1.String(), x2.String(), how))
	_ = fmt.Sprint
}
