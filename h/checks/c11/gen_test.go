package c11

// Input alphabet of C11: XRDs are assembled from small integer choices so
// that every case is replayable from the explorer's choice list. The author
// OpenAPI schema is built as a generic JSON tree (type J); the oracle reads
// that tree directly and never asks crossplane what the author wrote.

import (
	"encoding/json"
	"fmt"
	"reflect"
	"sort"

	extv1 "k8s.io/apiextensions-apiserver/pkg/apis/apiextensions/v1"
	metav1 "k8s.io/apimachinery/pkg/apis/meta/v1"
	"k8s.io/apimachinery/pkg/runtime"
	"k8s.io/utils/ptr"

	xpv1 "github.com/crossplane/crossplane-runtime/apis/common/v1"

	v1 "github.com/crossplane/crossplane/apis/apiextensions/v1"
	"github.com/crossplane/crossplane/internal/xcrd"
)

// J is a generic JSON object.
type J = map[string]any

type crdKind int

const (
	composite crdKind = iota
	claim
)

func (k crdKind) String() string {
	if k == composite {
		return "composite"
	}
	return "claim"
}

// Machinery fields the property statement promises ("composition selection,
// references, connection secret settings, conditions"), with their JSON type.
// Written down here independently of internal/xcrd/schemas.go.
var (
	wantSpecMachinery = map[crdKind]map[string]string{
		composite: {
			"compositionRef": "object", "compositionSelector": "object",
			"compositionRevisionRef": "object", "compositionRevisionSelector": "object",
			"compositionUpdatePolicy": "string",
			"claimRef":                "object", "resourceRefs": "array",
			"publishConnectionDetailsTo": "object", "writeConnectionSecretToRef": "object",
		},
		claim: {
			"compositionRef": "object", "compositionSelector": "object",
			"compositionRevisionRef": "object", "compositionRevisionSelector": "object",
			"compositionUpdatePolicy": "string", "compositeDeletePolicy": "string",
			"resourceRef":                "object",
			"publishConnectionDetailsTo": "object", "writeConnectionSecretToRef": "object",
		},
	}
	wantStatusMachinery = map[string]string{
		"conditions": "array", "connectionDetails": "object", "claimConditionTypes": "array",
	}
)

// specMachinery returns the set of spec keys that are machinery for a CRD
// kind: the promised ones plus whatever the pinned tree additionally injects
// (so that a tree with more machinery fields is not a false alarm).
func specMachinery(k crdKind) map[string]bool {
	out := map[string]bool{}
	for n := range wantSpecMachinery[k] {
		out[n] = true
	}
	var fn map[string]extv1.JSONSchemaProps
	if k == composite {
		fn = xcrd.CompositeResourceSpecProps()
	} else {
		fn = xcrd.CompositeResourceClaimSpecProps()
	}
	for n := range fn {
		out[n] = true
	}
	return out
}

func statusMachinery() map[string]bool {
	out := map[string]bool{}
	for n := range wantStatusMachinery {
		out[n] = true
	}
	for n := range xcrd.CompositeResourceStatusProps() {
		out[n] = true
	}
	return out
}

func sortedKeys(m map[string]bool) []string {
	var ks []string
	for k := range m {
		ks = append(ks, k)
	}
	sort.Strings(ks)
	return ks
}

// Collision alphabets: every key that is machinery for either CRD kind, plus
// environmentConfigRefs (machinery in other crossplane versions, an ordinary
// author property in this tree).
var (
	specCollisionKeys   []string
	statusCollisionKeys []string
	specMach            = map[crdKind]map[string]bool{}
	statusMach          map[string]bool
)

func init() {
	specMach[composite] = specMachinery(composite)
	specMach[claim] = specMachinery(claim)
	statusMach = statusMachinery()
	u := map[string]bool{"environmentConfigRefs": true}
	for _, k := range []crdKind{composite, claim} {
		for n := range specMach[k] {
			u[n] = true
		}
	}
	specCollisionKeys = sortedKeys(u)
	statusCollisionKeys = sortedKeys(statusMach)
}

// ---- per-version author schema ----

const (
	skObject    = iota // a JSON object schema assembled from the features below
	skNil              // version without schema
	skMalformed        // schema bytes that are not JSON
	skEmptyObj         // {}
	skNumKinds
)

const (
	spPlain = 0 // spec has ordinary properties only
	spKey0  = 1 // spKey0+i: ordinary properties + one named like specCollisionKeys[i]
	// after the keys: spAll, spNoProps, spNoSpec (see specPropsCount)
)

func spAll() int          { return spKey0 + len(specCollisionKeys) }
func spNoProps() int      { return spAll() + 1 }
func spNoSpec() int       { return spAll() + 2 }
func specPropsCount() int { return spAll() + 3 }

const (
	stNone  = 0 // no status in the author schema
	stPlain = 1
	stKey0  = 2 // stKey0+j: ordinary + one named like statusCollisionKeys[j]
)

func stAll() int            { return stKey0 + len(statusCollisionKeys) }
func statusPropsCount() int { return stAll() + 1 }

var nameMaxValues = []int64{0, 30, 100, 63} // 0 = author says nothing

type verSchema struct {
	Kind        int
	SpecProps   int
	Style       int // shape of colliding author properties: 0 integer, 1 object with own properties
	StatusProps int
	NameMax     int // index into nameMaxValues
	Required    int // 0 none, 1 spec, 2 spec+status+top level, 3 top level only
	CEL         int // 0 none, 1 spec, 2 spec+status+top level, 3 status, 4 top level only
	OneOf       bool
	Preserve    bool
	Desc        bool
	TopExtra    bool // author redefines apiVersion/kind/metadata and adds a top-level property
	Loose       bool // author adds spec/status properties without a type (not a structural schema)
}

func (s verSchema) String() string {
	b, _ := json.Marshal(s)
	return string(b)
}

func collidingProp(key string, style int) J {
	if style == 1 {
		return J{
			"type": "object", "description": "author's own " + key,
			"required":   []any{"evil"},
			"properties": J{"evil": J{"type": "string"}, "name": J{"type": "integer"}},
		}
	}
	return J{"type": "integer", "minimum": float64(7), "description": "author's own " + key}
}

// specCollisions lists the machinery-like keys the author defines under spec.
func (s verSchema) specCollisions() []string {
	switch {
	case s.Kind != skObject:
		return nil
	case s.SpecProps >= spKey0 && s.SpecProps < spAll():
		return []string{specCollisionKeys[s.SpecProps-spKey0]}
	case s.SpecProps == spAll():
		return specCollisionKeys
	}
	return nil
}

func (s verSchema) statusCollisions() []string {
	switch {
	case s.Kind != skObject:
		return nil
	case s.StatusProps >= stKey0 && s.StatusProps < stAll():
		return []string{statusCollisionKeys[s.StatusProps-stKey0]}
	case s.StatusProps == stAll():
		return statusCollisionKeys
	}
	return nil
}

// collides reports whether the author schema defines a property that is
// machinery for CRD kind k.
func (s verSchema) collides(k crdKind) bool {
	for _, n := range s.specCollisions() {
		if specMach[k][n] {
			return true
		}
	}
	for _, n := range s.statusCollisions() {
		if statusMach[n] {
			return true
		}
	}
	return false
}

// author builds the author's schema. strip, if not nil, leaves out author
// properties that are machinery for that CRD kind (the reference input of the
// differential oracle).
func (s verSchema) author(strip *crdKind) J {
	if s.Kind == skEmptyObj {
		return J{}
	}
	if s.Kind != skObject {
		return nil
	}
	root := J{"type": "object"}
	props := J{}
	if s.Desc {
		root["description"] = "author root description"
	}
	if s.SpecProps != spNoSpec() {
		spec := J{"type": "object"}
		sp := J{}
		if s.SpecProps != spNoProps() {
			sp["param"] = J{"type": "string", "description": "a parameter"}
			sp["count"] = J{"type": "integer", "minimum": float64(1), "default": float64(3)}
		}
		for _, k := range s.specCollisions() {
			if strip != nil && specMach[*strip][k] {
				continue
			}
			sp[k] = collidingProp(k, s.Style)
		}
		if s.Loose {
			sp["loose"] = J{"description": "a property without a type"}
		}
		if len(sp) > 0 {
			spec["properties"] = sp
		}
		if s.Required == 1 || s.Required == 2 {
			spec["required"] = []any{"param"}
		}
		if s.CEL == 1 || s.CEL == 2 {
			spec["x-kubernetes-validations"] = []any{
				J{"rule": "!has(self.param) || self.param != 'forbidden'", "message": "param must not be forbidden"},
				J{"rule": "self.count >= 1"},
			}
		}
		if s.OneOf {
			spec["oneOf"] = []any{J{"required": []any{"param"}}, J{"required": []any{"count"}}}
		}
		if s.Preserve {
			spec["x-kubernetes-preserve-unknown-fields"] = true
		}
		if s.Desc {
			spec["description"] = "author spec description"
		}
		props["spec"] = spec
	}
	if s.StatusProps != stNone {
		status := J{"type": "object"}
		st := J{"out": J{"type": "string"}, "ready": J{"type": "boolean"}}
		for _, k := range s.statusCollisions() {
			if strip != nil && statusMach[k] {
				continue
			}
			st[k] = collidingProp(k, s.Style)
		}
		if s.Loose {
			st["looseOut"] = J{"description": "a status property without a type"}
		}
		status["properties"] = st
		if s.Required == 2 {
			status["required"] = []any{"out"}
		}
		if s.CEL == 2 || s.CEL == 3 {
			status["x-kubernetes-validations"] = []any{J{"rule": "!has(self.out) || self.out != 'bad'", "message": "out must not be bad"}}
		}
		if s.OneOf {
			status["oneOf"] = []any{J{"required": []any{"out"}}, J{"required": []any{"ready"}}}
		}
		if s.Preserve {
			status["x-kubernetes-preserve-unknown-fields"] = true
		}
		if s.Desc {
			status["description"] = "author status description"
		}
		props["status"] = status
	}
	if m := nameMaxValues[s.NameMax]; m != 0 {
		name := J{"type": "string", "maxLength": float64(m)}
		md := J{"type": "object", "properties": J{"name": name}}
		if s.TopExtra {
			name["pattern"] = "^a"
			md["properties"].(J)["namespace"] = J{"type": "integer"}
		}
		props["metadata"] = md
	} else if s.TopExtra {
		props["metadata"] = J{"type": "string"}
	}
	if s.TopExtra {
		props["apiVersion"] = J{"type": "integer"}
		props["kind"] = J{"type": "integer"}
		props["extra"] = J{"type": "string"}
	}
	if s.Required == 2 || s.Required == 3 {
		root["required"] = []any{"spec", "status"}
	}
	if s.CEL == 2 || s.CEL == 4 {
		root["x-kubernetes-validations"] = []any{J{"rule": "has(self.spec)", "message": "spec is needed"}}
	}
	root["properties"] = props
	return root
}

func (s verSchema) validation(strip *crdKind) *v1.CompositeResourceValidation {
	switch s.Kind {
	case skNil:
		return nil
	case skMalformed:
		return &v1.CompositeResourceValidation{OpenAPIV3Schema: runtime.RawExtension{Raw: []byte(`{"type":"object","properties":{"spec":`)}}
	}
	b, err := json.Marshal(s.author(strip))
	if err != nil {
		panic(err)
	}
	return &v1.CompositeResourceValidation{OpenAPIV3Schema: runtime.RawExtension{Raw: b}}
}

func (s verSchema) renderable() bool { return s.Kind == skObject || s.Kind == skEmptyObj }

// ---- version layouts ----

type verLayout struct {
	Name          string
	Referenceable bool
	Served        bool
}

var layouts = [][]verLayout{
	{{"v1", true, true}},
	{{"v1", true, true}, {"v2", false, true}},
	{{"v1", false, true}, {"v2", true, true}},
	{{"v1", false, false}, {"v2", true, true}},
	{{"v1alpha1", false, true}, {"v1beta1", false, true}, {"v1", true, true}},
	{{"v1alpha1", true, true}, {"v1beta1", false, true}, {"v1", false, true}},
	{{"v1alpha1", false, false}, {"v1beta1", true, true}, {"v1", false, true}},
	{{"v1", true, true}, {"v2", false, false}},
	{{"v1alpha1", false, true}, {"v1beta1", true, true}, {"v1", false, false}},
	{{"v1", true, false}}, // referenceable but not served
}

// ---- names ----

const group = "example.org"

func compositeNames() extv1.CustomResourceDefinitionNames {
	return extv1.CustomResourceDefinitionNames{Kind: "XThing", Plural: "xthings", Singular: "xthing", ListKind: "XThingList"}
}

const (
	clFull = iota
	clAbsent
	clMinimal
	clCollideKind
	clCollidePlural
	clCollideSingular
	clCollideListKind
	// One optional name collides, the other optional name is omitted.
	clCollideSingularNoListKind
	clCollideListKindNoSingular
	clNumSameField
	// Cross-field overlaps (not promised to be rejected; observed only).
	clCrossSingularPlural = clNumSameField
	clCrossKindListKind   = clNumSameField + 1
	clNumAll              = clNumSameField + 2
)

var claimVariantNames = []string{"full", "absent", "minimal", "collide-kind", "collide-plural", "collide-singular", "collide-listKind", "collide-singular-listKind-omitted", "collide-listKind-singular-omitted", "cross-singular=plural", "cross-kind=listKind"}

func claimNames(variant int) *extv1.CustomResourceDefinitionNames {
	n := &extv1.CustomResourceDefinitionNames{Kind: "Thing", Plural: "things", Singular: "thing", ListKind: "ThingList"}
	switch variant {
	case clAbsent:
		return nil
	case clMinimal:
		n.Singular, n.ListKind = "", ""
	case clCollideKind:
		n.Kind = "XThing"
	case clCollidePlural:
		n.Plural = "xthings"
	case clCollideSingular:
		n.Singular = "xthing"
	case clCollideListKind:
		n.ListKind = "XThingList"
	case clCollideSingularNoListKind:
		n.Singular, n.ListKind = "xthing", ""
	case clCollideListKindNoSingular:
		n.Singular, n.ListKind = "", "XThingList"
	case clCrossSingularPlural:
		n.Singular = "xthings"
	case clCrossKindListKind:
		n.Kind = "XThingList"
	}
	return n
}

// claimCollision names the field in which the claim names repeat the
// composite's names ("" if none). Independent of validateClaimNames.
func claimCollision(x *v1.CompositeResourceDefinition) string {
	c, n := x.Spec.ClaimNames, x.Spec.Names
	switch {
	case c == nil:
		return ""
	case c.Kind == n.Kind:
		return "kind"
	case c.Plural == n.Plural:
		return "plural"
	case c.Singular != "" && c.Singular == n.Singular:
		return "singular"
	case c.ListKind != "" && c.ListKind == n.ListKind:
		return "listKind"
	}
	return ""
}

// ---- whole XRD ----

type xrdSpec struct {
	Layout  int
	Schemas []verSchema // one per version of the layout
	Claim   int
	DelPol  int // 0 unset, 1 Foreground, 2 Background
	UpdPol  int // 0 unset, 1 Manual, 2 Automatic
	Conv    int // 0 unset, 1 Webhook (with client config), 2 None, 3 Webhook without client config
	Extras  bool
}

func (x xrdSpec) String() string {
	return fmt.Sprintf("layout=%v claim=%s delPol=%d updPol=%d conv=%d extras=%v schemas=%v", layouts[x.Layout], claimVariantNames[x.Claim], x.DelPol, x.UpdPol, x.Conv, x.Extras, x.Schemas)
}

var (
	delPolicies = []*xpv1.CompositeDeletePolicy{nil, ptr.To(xpv1.CompositeDeleteForeground), ptr.To(xpv1.CompositeDeleteBackground)}
	updPolicies = []*xpv1.UpdatePolicy{nil, ptr.To(xpv1.UpdateManual), ptr.To(xpv1.UpdateAutomatic)}
)

func conversion(i int) *extv1.CustomResourceConversion {
	switch i {
	case 1:
		return &extv1.CustomResourceConversion{Strategy: extv1.WebhookConverter, Webhook: &extv1.WebhookConversion{
			ConversionReviewVersions: []string{"v1"},
			ClientConfig:             &extv1.WebhookClientConfig{Service: &extv1.ServiceReference{Namespace: "crossplane-system", Name: "conv", Path: ptr.To("/convert")}},
		}}
	case 2:
		return &extv1.CustomResourceConversion{Strategy: extv1.NoneConverter}
	case 3:
		return &extv1.CustomResourceConversion{Strategy: extv1.WebhookConverter}
	}
	return nil
}

const xrdUID = "7f4c6f1e-xrd-uid"

// build assembles the XRD. strip: see verSchema.author. only >= 0 keeps only
// that version (used by the per-version independence oracle).
func (x xrdSpec) build(strip *crdKind, only int) *v1.CompositeResourceDefinition {
	d := &v1.CompositeResourceDefinition{
		TypeMeta:   metav1.TypeMeta{APIVersion: v1.SchemeGroupVersion.String(), Kind: v1.CompositeResourceDefinitionKind},
		ObjectMeta: metav1.ObjectMeta{Name: "xthings." + group, UID: xrdUID},
		Spec: v1.CompositeResourceDefinitionSpec{
			Group:                          group,
			Names:                          compositeNames(),
			ClaimNames:                     claimNames(x.Claim),
			DefaultCompositeDeletePolicy:   delPolicies[x.DelPol],
			DefaultCompositionUpdatePolicy: updPolicies[x.UpdPol],
			Conversion:                     conversion(x.Conv),
		},
	}
	if x.Extras {
		d.Labels = map[string]string{"team": "infra"}
		d.Spec.Metadata = &v1.CompositeResourceDefinitionSpecMetadata{Labels: map[string]string{"crd": "yes"}, Annotations: map[string]string{"note": "n"}}
		d.Spec.ConnectionSecretKeys = []string{"user", "pass"}
		d.Spec.Names.Categories = []string{"example", "crossplane"}
		d.Spec.Names.ShortNames = []string{"xt"}
		if d.Spec.ClaimNames != nil {
			d.Spec.ClaimNames.Categories = []string{"offered"}
			d.Spec.ClaimNames.ShortNames = []string{"th"}
		}
	}
	for i, l := range layouts[x.Layout] {
		if only >= 0 && i != only {
			continue
		}
		v := v1.CompositeResourceDefinitionVersion{Name: l.Name, Referenceable: l.Referenceable, Served: l.Served, Schema: x.Schemas[i].validation(strip)}
		if x.Extras {
			v.AdditionalPrinterColumns = []extv1.CustomResourceColumnDefinition{{Name: "PARAM", Type: "string", JSONPath: ".spec.param"}}
			if !l.Referenceable {
				v.Deprecated = ptr.To(true)
				v.DeprecationWarning = ptr.To("use the referenceable version")
			}
		}
		d.Spec.Versions = append(d.Spec.Versions, v)
	}
	return d
}

func (x xrdSpec) anyCollision(k crdKind) bool {
	for _, s := range x.Schemas {
		if s.collides(k) {
			return true
		}
	}
	return false
}

func (x xrdSpec) renderable() bool {
	for _, s := range x.Schemas {
		if !s.renderable() {
			return false
		}
	}
	return true
}

// ---- JSON helpers ----

func toJ(v any) J {
	b, err := json.Marshal(v)
	if err != nil {
		panic(err)
	}
	out := J{}
	if err := json.Unmarshal(b, &out); err != nil {
		panic(err)
	}
	return out
}

// canon renders any JSON-able value canonically (object keys sorted).
func canon(v any) string {
	b, err := json.Marshal(v)
	if err != nil {
		panic(err)
	}
	var g any
	if err := json.Unmarshal(b, &g); err != nil {
		panic(err)
	}
	b, _ = json.Marshal(g)
	return string(b)
}

// raw is a single deterministic marshal (struct fields in declaration order,
// map keys sorted): enough to compare two values of the same Go type.
func raw(v any) string {
	b, err := json.Marshal(v)
	if err != nil {
		panic(err)
	}
	return string(b)
}

// generic converts typed values to generic JSON trees; generic trees pass
// through untouched.
func generic(v any) any {
	switch v.(type) {
	case nil, J, []any, string, float64, bool:
		return v
	}
	b, err := json.Marshal(v)
	if err != nil {
		panic(err)
	}
	var g any
	if err := json.Unmarshal(b, &g); err != nil {
		panic(err)
	}
	return g
}

func obj(m J, path ...string) J {
	cur := m
	for _, p := range path {
		n, ok := cur[p].(J)
		if !ok {
			return nil
		}
		cur = n
	}
	return cur
}

func eqJSON(a, b any) bool { return reflect.DeepEqual(generic(a), generic(b)) }
