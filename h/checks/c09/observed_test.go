package c09

import (
	"context"
	"sort"

	"google.golang.org/protobuf/types/known/structpb"
	corev1 "k8s.io/api/core/v1"
	metav1 "k8s.io/apimachinery/pkg/apis/meta/v1"
	"k8s.io/apimachinery/pkg/apis/meta/v1/unstructured"

	fnv1 "github.com/crossplane/crossplane/apis/apiextensions/fn/proto/v1"
	"github.com/crossplane/crossplane/verif/explore"
	"github.com/crossplane/crossplane/verif/report"
	"github.com/crossplane/crossplane/verif/simkube"
	"github.com/crossplane/crossplane/verif/xrh"
)

// ---- scenario: details of observed composed resources ---------------------------
//
// The usual pipeline function (function-patch-and-transform and friends)
// derives the XR's connection details from the connection details of the
// *observed* composed resources. Those must be the XR's own composed
// resources: a resource named in spec.resourceRefs that another XR controls
// (with its connection secret) must never reach the function, let alone the
// XR's secret - whether the composer reads it from its cache or, on a cache
// miss, from the API server.

func composedWithSecret(name, resName string, owner *metav1.OwnerReference, secret string) *unstructured.Unstructured {
	u := &unstructured.Unstructured{}
	u.SetGroupVersionKind(xrh.ResA)
	u.SetName(name)
	u.SetAnnotations(map[string]string{"crossplane.io/composition-resource-name": resName})
	if owner != nil {
		u.SetOwnerReferences([]metav1.OwnerReference{*owner})
	}
	_ = unstructured.SetNestedField(u.Object, "p", "spec", "param")
	_ = unstructured.SetNestedField(u.Object, resName, "spec", "for")
	_ = unstructured.SetNestedMap(u.Object, map[string]any{"name": secret, "namespace": sysNS}, "spec", "writeConnectionSecretToRef")
	return u
}

// propagateObservedFn models a function that copies every connection detail
// of every observed composed resource to the XR, and keeps desiring the
// resource named "mine". seen collects "<resource name>=<object name>" of all
// observed composed resources of all calls.
func propagateObservedFn(seen *[]string) xrh.FunctionRunner {
	return func(_ context.Context, _ string, req *fnv1.RunFunctionRequest) (*fnv1.RunFunctionResponse, error) {
		cd := map[string][]byte{}
		var names []string
		for n := range req.GetObserved().GetResources() {
			names = append(names, n)
		}
		sort.Strings(names)
		for _, n := range names {
			o := req.GetObserved().GetResources()[n]
			on := o.GetResource().GetFields()["metadata"].GetStructValue().GetFields()["name"].GetStringValue()
			*seen = append(*seen, n+"="+on)
			for k, v := range o.GetConnectionDetails() {
				cd[k] = v
			}
		}
		mine, _ := structpb.NewStruct(map[string]any{
			"apiVersion": xrh.ResA.GroupVersion().String(), "kind": xrh.ResA.Kind,
			"metadata": map[string]any{"name": "mine"},
			"spec":     map[string]any{"param": "p", "for": "mine", "writeConnectionSecretToRef": map[string]any{"name": "mine-conn", "namespace": sysNS}},
		})
		return &fnv1.RunFunctionResponse{
			Context: req.GetContext(),
			Desired: &fnv1.State{
				Composite: &fnv1.Resource{ConnectionDetails: cd},
				Resources: map[string]*fnv1.Resource{"mine": {Resource: mine, Ready: fnv1.Ready_READY_TRUE}},
			},
		}, nil
	}
}

func observedBody(r *explore.Run, rep *report.R, sc string) {
	fi := r.Free(len(filters), "filter")
	cacheMiss := r.Bool("composed-kind-missing-from-cache")
	theirsCtl := r.Free(3, "their-resource") // 0 controlled by another XR, 1 controlled by a non-XR owner, 2 absent (control)
	mineExists := r.Bool("mine-exists")
	var seen []string
	w := newWorld(r, fi, 1, xrh.PipelineComposition("comp", "fn"), propagateObservedFn(&seen), false)
	s := w.s
	c := s.Client("xr")
	cached := xrh.XROptions{Cached: c, Uncached: c, Runner: propagateObservedFn(&seen), Recorder: recorder{&w.evs}}
	if cacheMiss {
		cached.Cached = &xrh.MissingCache{Client: c, Kinds: map[string]bool{xrh.ResA.Kind: true}}
	}
	w.xrec = xrh.NewXRReconciler(w.xrd, cached)

	mineData := map[string]string{"a": "xr1-a", "b": "xr1-b"}
	theirData := map[string]string{"a": "theirs-a", "password": "theirs-pw"}
	var refs []corev1.ObjectReference
	if mineExists {
		s.Seed(composedWithSecret("mine", "mine", &xrOwner, "mine-conn"))
		refs = append(refs, corev1.ObjectReference{APIVersion: xrh.ResA.GroupVersion().String(), Kind: xrh.ResA.Kind, Name: "mine"})
	}
	// The provider writes composed resources' connection secrets.
	s.Seed(mkSecret(sysNS, "mine-conn", connType, nil, mineData))
	theirsKey := simkube.ObjKey{Group: xrh.ResA.Group, Kind: xrh.ResA.Kind, Name: "theirs"}
	if theirsCtl != 2 {
		owner := victimOwner
		if theirsCtl == 1 {
			owner = metav1.OwnerReference{APIVersion: "v1", Kind: "ConfigMap", Name: "someone", UID: "someone-uid", Controller: ptr(true)}
		}
		s.Seed(composedWithSecret("theirs", "stolen", &owner, "theirs-conn"))
		s.Seed(mkSecret(sysNS, "theirs-conn", connType, nil, theirData))
		refs = append(refs, corev1.ObjectReference{APIVersion: xrh.ResA.GroupVersion().String(), Kind: xrh.ResA.Kind, Name: "theirs"})
	}
	s.Mutate(xrh.XRKey(xrName), func(u *unstructured.Unstructured) {
		var rs []any
		for _, ref := range refs {
			rs = append(rs, map[string]any{"apiVersion": ref.APIVersion, "kind": ref.Kind, "name": ref.Name})
		}
		_ = unstructured.SetNestedSlice(u.Object, rs, "spec", "resourceRefs")
	})
	r.Logf("filter=%s cache-miss=%v their-resource=%d mine-exists=%v", w.fname, cacheMiss, theirsCtl, mineExists)
	theirsBefore := whole(s.Peek(theirsKey))
	theirSecretBefore := whole(s.Peek(secKey(sysNS, "theirs-conn")))
	victim := whole(s.Peek(secKey(sysNS, "victim-conn")))

	w.settleOrFail("xr", w.xrec, xrNN)

	for _, e := range seen {
		if e == "stolen=theirs" {
			r.Failf("observed/foreign-composed-resource-reached-function", "the function was given composed resource 'theirs' (with its connection details), which another owner controls; observed over all calls: %v", seen)
		}
	}
	got := dataOf(s.Peek(w.dest))
	for k, v := range got {
		for _, tv := range theirData {
			if v == tv {
				r.Failf("xr-secret/foreign-composed-details-published", "XR xr1's secret carries %s=%q, a connection detail of composed resource 'theirs' that another owner controls", k, v)
			}
		}
	}
	want := map[string]string{}
	for k, v := range mineData {
		if allowed(w.filter, k) {
			want[k] = v
		}
	}
	if !sameData(got, want) {
		r.Failf("xr-secret/differs-from-own-composed-details", "XR xr1's secret is %s, its own composed resource provides %s (filter %s)", fmtData(got), fmtData(want), w.fname)
	}
	if theirsCtl != 2 {
		if whole(s.Peek(theirsKey)) != theirsBefore || whole(s.Peek(secKey(sysNS, "theirs-conn"))) != theirSecretBefore {
			r.Failf("observed/foreign-composed-resource-touched", "composed resource 'theirs' or its secret changed")
		}
	}
	w.victimIntact(victim, map[simkube.ObjKey]bool{})
	w.steady("xr", w.xrec, xrNN, w.dest, xrh.XRKey(xrName), 2)

	nt := ""
	if theirsCtl != 2 {
		nt = report.Hash(sc, fi, cacheMiss, theirsCtl, mineExists)
	}
	rep.Eval(sc, report.Hash(sortedKeys(got), len(seen) > 0), nt)
	if rep.WantSample() && nt != "" && cacheMiss {
		rep.Sample(map[string]any{"scenario": sc, "filter": w.fname, "cache_miss": cacheMiss, "their_resource": theirsCtl, "mine_exists": mineExists, "observed_by_function": seen, "published": fmtData(got)})
	}
}
