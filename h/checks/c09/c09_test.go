// C09: connection details reach only their owner's secret, filtered, from the
// right XR.
//
// The real XR reconciler (production option list: XRD key filter ->
// APIFilteredSecretPublisher, both composers, SecretConnectionDetailsFetcher)
// and the real claim reconciler (both syncers, APIConnectionPropagator) run
// over the simkube API-server model. Every case is the product of free choices
// (connection details produced by the composition, XRD key filter, whether the
// XR / claim ask for a secret, the secret that already exists at the source
// and destination names, tampering with the source secret); the oracle is the
// property statement transcribed on the stored Secret objects and the write
// log.
package c09

import (
	kerrors "k8s.io/apimachinery/pkg/api/errors"
	"k8s.io/apimachinery/pkg/util/validation/field"
	"context"
	"encoding/base64"
	"encoding/json"
	"fmt"
	"sort"
	"strings"
	"testing"
	"time"

	"google.golang.org/protobuf/types/known/structpb"
	corev1 "k8s.io/api/core/v1"
	metav1 "k8s.io/apimachinery/pkg/apis/meta/v1"
	"k8s.io/apimachinery/pkg/apis/meta/v1/unstructured"
	"k8s.io/apimachinery/pkg/runtime"
	"k8s.io/apimachinery/pkg/types"
	"sigs.k8s.io/controller-runtime/pkg/reconcile"

	xpv1 "github.com/crossplane/crossplane-runtime/apis/common/v1"
	"github.com/crossplane/crossplane-runtime/pkg/event"
	"github.com/crossplane/crossplane-runtime/pkg/feature"
	"github.com/crossplane/crossplane-runtime/pkg/resource/unstructured/reference"

	fnv1 "github.com/crossplane/crossplane/apis/apiextensions/fn/proto/v1"
	v1 "github.com/crossplane/crossplane/apis/apiextensions/v1"
	"github.com/crossplane/crossplane/internal/controller/apiextensions/claim"
	"github.com/crossplane/crossplane/internal/features"
	"github.com/crossplane/crossplane/verif/explore"
	"github.com/crossplane/crossplane/verif/report"
	"github.com/crossplane/crossplane/verif/simkube"
	"github.com/crossplane/crossplane/verif/xrh"
)

// ---- fixtures ---------------------------------------------------------------

const (
	sysNS     = "xp-system"
	xrName    = "xr1"
	xrUID     = types.UID("xr1-uid")
	cmNS      = "ns"
	cmName    = "cm"
	cmUID     = types.UID("cm-uid")
	victimUID = types.UID("victim-uid")
	connType  = corev1.SecretType("connection.crossplane.io/v1alpha1")
)

var (
	xrNN = types.NamespacedName{Name: xrName}
	cmNN = types.NamespacedName{Namespace: cmNS, Name: cmName}

	xrOwner     = metav1.OwnerReference{APIVersion: xrh.XRGVK.GroupVersion().String(), Kind: xrh.XRGVK.Kind, Name: xrName, UID: xrUID, Controller: ptr(true), BlockOwnerDeletion: ptr(true)}
	cmOwner     = metav1.OwnerReference{APIVersion: xrh.ClaimGVK.GroupVersion().String(), Kind: xrh.ClaimGVK.Kind, Name: cmName, UID: cmUID, Controller: ptr(true), BlockOwnerDeletion: ptr(true)}
	victimOwner = metav1.OwnerReference{APIVersion: xrh.XRGVK.GroupVersion().String(), Kind: xrh.XRGVK.Kind, Name: "victim", UID: victimUID, Controller: ptr(true), BlockOwnerDeletion: ptr(true)}
	otherCmOwn  = metav1.OwnerReference{APIVersion: xrh.ClaimGVK.GroupVersion().String(), Kind: xrh.ClaimGVK.Kind, Name: "other", UID: "other-cm-uid", Controller: ptr(true), BlockOwnerDeletion: ptr(true)}
)

func ptr[T any](v T) *T { return &v }

func secKey(ns, name string) simkube.ObjKey {
	return simkube.ObjKey{Kind: "Secret", Namespace: ns, Name: name}
}

func mkSecret(ns, name string, typ corev1.SecretType, owner *metav1.OwnerReference, data map[string]string) *corev1.Secret {
	s := &corev1.Secret{
		TypeMeta:   metav1.TypeMeta{APIVersion: "v1", Kind: "Secret"},
		ObjectMeta: metav1.ObjectMeta{Namespace: ns, Name: name},
		Type:       typ,
	}
	if owner != nil {
		s.OwnerReferences = []metav1.OwnerReference{*owner}
	}
	if len(data) > 0 {
		s.Data = map[string][]byte{}
		for k, v := range data {
			s.Data[k] = []byte(v)
		}
	}
	return s
}

// dataOf decodes the data of a stored Secret.
func dataOf(u *unstructured.Unstructured) map[string]string {
	out := map[string]string{}
	if u == nil {
		return out
	}
	m, _, _ := unstructured.NestedMap(u.Object, "data")
	for k, v := range m {
		b, err := base64.StdEncoding.DecodeString(fmt.Sprint(v))
		if err != nil {
			panic(explore.HarnessError{Msg: "stored secret data is not base64: " + err.Error()})
		}
		out[k] = string(b)
	}
	return out
}

func ctrlUID(u *unstructured.Unstructured) types.UID {
	if u == nil {
		return ""
	}
	if c := metav1.GetControllerOf(u); c != nil {
		return c.UID
	}
	return ""
}

func typeOf(u *unstructured.Unstructured) corev1.SecretType {
	t, _, _ := unstructured.NestedString(u.Object, "type")
	return corev1.SecretType(t)
}

// whole renders a stored object completely (resourceVersion included): two
// equal renderings mean the object is byte-identical.
func whole(u *unstructured.Unstructured) string {
	if u == nil {
		return "<absent>"
	}
	b, _ := json.Marshal(u.Object)
	return string(b)
}

func fmtData(m map[string]string) string {
	ks := make([]string, 0, len(m))
	for k := range m {
		ks = append(ks, k)
	}
	sort.Strings(ks)
	var b strings.Builder
	b.WriteString("{")
	for i, k := range ks {
		if i > 0 {
			b.WriteString(" ")
		}
		fmt.Fprintf(&b, "%s=%q", k, m[k])
	}
	b.WriteString("}")
	return b.String()
}

func sortedKeys(m map[string]string) []string {
	ks := make([]string, 0, len(m))
	for k := range m {
		ks = append(ks, k)
	}
	sort.Strings(ks)
	return ks
}

func sameData(a, b map[string]string) bool {
	if len(a) != len(b) {
		return false
	}
	for k, v := range a {
		if w, ok := b[k]; !ok || w != v {
			return false
		}
	}
	return true
}

// recorder keeps the events the reconcilers emit.
type recorder struct{ evs *[]string }

func (r recorder) Event(_ runtime.Object, e event.Event) {
	*r.evs = append(*r.evs, fmt.Sprintf("%s/%s: %s", e.Type, e.Reason, e.Message))
}
func (r recorder) WithAnnotations(_ ...string) event.Recorder { return r }

func warningSince(evs []string, from int, reason string) bool {
	for _, e := range evs[from:] {
		if strings.HasPrefix(e, "Warning/"+reason+":") {
			return true
		}
	}
	return false
}

func condOf(u *unstructured.Unstructured, typ string) (status, reason, msg string) {
	if u == nil {
		return
	}
	cl, _, _ := unstructured.NestedSlice(u.Object, "status", "conditions")
	for _, c := range cl {
		m, _ := c.(map[string]any)
		if fmt.Sprint(m["type"]) == typ {
			return fmt.Sprint(m["status"]), fmt.Sprint(m["reason"]), fmt.Sprint(m["message"])
		}
	}
	return
}

func lastPublished(u *unstructured.Unstructured) string {
	if u == nil {
		return ""
	}
	s, _, _ := unstructured.NestedString(u.Object, "status", "connectionDetails", "lastPublishedTime")
	return s
}

// secretWrites lists the non-dry-run write calls on key since log index from
// (every attempt, successful or not, effective or not).
func secretWrites(s *simkube.Store, from int, key simkube.ObjKey) []string {
	var out []string
	for _, w := range s.Log[from:] {
		if w.Call.Key == key && !w.Call.DryRun {
			out = append(out, fmt.Sprintf("%s by %s err=%q effective=%v", w.Call, w.Call.Client, w.Err, w.Effective))
		}
	}
	return out
}

func okSecretWrites(s *simkube.Store, from int, key simkube.ObjKey) []string {
	var out []string
	for _, w := range s.Log[from:] {
		if w.Call.Key == key && !w.Call.DryRun && w.Err == "" {
			out = append(out, fmt.Sprintf("%s by %s effective=%v", w.Call, w.Call.Client, w.Effective))
		}
	}
	return out
}

func anySecretWrites(s *simkube.Store, from int) []string {
	var out []string
	for _, w := range s.Log[from:] {
		if w.Call.Key.Kind == "Secret" && w.Call.Key.Group == "" && !w.Call.DryRun {
			out = append(out, fmt.Sprintf("%s by %s err=%q", w.Call, w.Call.Client, w.Err))
		}
	}
	return out
}

// ---- parameters ---------------------------------------------------------------

var filters = []struct {
	name string
	keys []string
}{
	{"none", nil},
	{"a", []string{"a"}},
	{"a,z", []string{"a", "z"}},
	{"empty", []string{}},
}

func allowed(filter []string, k string) bool {
	if len(filter) == 0 {
		return true
	}
	for _, f := range filter {
		if f == k {
			return true
		}
	}
	return false
}

// Pre-existing secret classes.
const (
	preAbsent = iota
	preUncontrolledConn
	preUncontrolledOpaque
	preOwned
	preOther
)

var preNames = []string{"absent", "uncontrolled-connection", "uncontrolled-opaque", "controlled-by-owner", "controlled-by-other"}

// Pre-existing data alternatives (only for existing secrets).
var preDatas = []map[string]string{
	{},
	{"a": "old-a"},
	{"b": "old-b"},
}

func classOf(u *unstructured.Unstructured, owner types.UID) int {
	switch {
	case u == nil:
		return preAbsent
	case ctrlUID(u) == owner:
		return preOwned
	case ctrlUID(u) != "":
		return preOther
	case typeOf(u) == connType:
		return preUncontrolledConn
	}
	return preUncontrolledOpaque
}

func seedPre(s *simkube.Store, ns, name string, class int, data map[string]string, owner, other metav1.OwnerReference) {
	switch class {
	case preUncontrolledConn:
		s.Seed(mkSecret(ns, name, connType, nil, data))
	case preUncontrolledOpaque:
		s.Seed(mkSecret(ns, name, corev1.SecretTypeOpaque, nil, data))
	case preOwned:
		s.Seed(mkSecret(ns, name, connType, &owner, data))
	case preOther:
		s.Seed(mkSecret(ns, name, connType, &other, data))
	}
}

// ---- world -------------------------------------------------------------------

type world struct {
	r      *explore.Run
	s      *simkube.Store
	xrd    *v1.CompositeResourceDefinition
	filter []string
	fname  string
	asks   int // 0 no, 1 spec.writeConnectionSecretToRef set, 2 defaulted from the composition's namespace
	evs    []string
	cevs   []string
	xrec   reconcile.Reconciler
	dest   simkube.ObjKey
	want   map[string]string // reference: details being published (produced and allowed)
	// namesakes: victim secrets named like this world's own secrets, in other
	// namespaces, as they were seeded.
	namesakes map[simkube.ObjKey]string
}

var victimData = map[string]string{"a": "victim-a", "s": "victim-s"}

func newWorld(r *explore.Run, filterIdx, asks int, comp *v1.Composition, fn xrh.FunctionRunner, claimAsks bool) *world {
	xrh.BeginExecution(9)
	w := &world{r: r, filter: filters[filterIdx].keys, fname: filters[filterIdx].name, asks: asks}
	w.s = xrh.NewStore()
	w.xrd = xrh.XRD()
	w.xrd.Spec.ConnectionSecretKeys = w.filter
	w.s.Seed(w.xrd)
	if asks == 2 {
		comp.Spec.WriteConnectionSecretsToNamespace = ptr(sysNS)
	}
	xrh.SeedComposition(w.s, comp)
	xr := xrh.XR(xrName, comp.GetName())
	xr.SetUID(xrUID)
	xr.SetClaimReference(&reference.Claim{APIVersion: xrh.ClaimGVK.GroupVersion().String(), Kind: xrh.ClaimGVK.Kind, Namespace: cmNS, Name: cmName})
	xr.SetLabels(map[string]string{"crossplane.io/claim-name": cmName, "crossplane.io/claim-namespace": cmNS})
	w.dest = secKey(sysNS, "xr1-conn")
	switch asks {
	case 1:
		xr.SetWriteConnectionSecretToReference(&xpv1.SecretReference{Name: "xr1-conn", Namespace: sysNS})
	case 2:
		w.dest = secKey(sysNS, string(xrUID))
	}
	// A real stored object always has managed fields (from its creation);
	// a seeded one must be given them, or the API server model would never
	// start tracking client-side writes and the SSA claim syncer's managed
	// fields upgrade (a JSON patch replacing /metadata/managedFields) could
	// not apply.
	now := metav1.Now()
	xr.SetManagedFields([]metav1.ManagedFieldsEntry{{
		Manager: "kubectl-create", Operation: metav1.ManagedFieldsOperationUpdate, APIVersion: xrh.XRGVK.GroupVersion().String(), Time: &now,
		FieldsType: "FieldsV1", FieldsV1: &metav1.FieldsV1{Raw: []byte(`{"f:spec":{"f:param":{}}}`)},
	}})
	w.s.Seed(xr)
	cm := xrh.Claim(cmNS, cmName)
	cm.SetUID(cmUID)
	cm.SetResourceReference(&reference.Composite{APIVersion: xrh.XRGVK.GroupVersion().String(), Kind: xrh.XRGVK.Kind, Name: xrName})
	if claimAsks {
		cm.SetWriteConnectionSecretToReference(&xpv1.LocalSecretReference{Name: "cm-conn"})
	}
	w.s.Seed(cm)
	// A victim's connection secret that nobody in this world may touch.
	w.s.Seed(mkSecret(sysNS, "victim-conn", connType, &victimOwner, victimData))
	// Namesakes: secrets of the victim that carry the names this world's XR
	// and claim use for their own secrets, in other namespaces. A lookup
	// that loses the namespace would read or write these.
	w.namesakes = map[simkube.ObjKey]string{}
	for _, nk := range []simkube.ObjKey{
		secKey(cmNS, "xr1-conn"), secKey("default", "xr1-conn"), secKey(cmNS, string(xrUID)),
		secKey(sysNS, "cm-conn"), secKey("default", "cm-conn"),
	} {
		w.s.Seed(mkSecret(nk.Namespace, nk.Name, connType, &victimOwner, map[string]string{"a": "victim-namesake-a", "n": "victim-namesake-" + nk.Namespace}))
		w.namesakes[nk] = whole(w.s.Peek(nk))
	}
	w.xrec = xrh.NewXRReconciler(w.xrd, xrh.XROptions{Cached: w.s.Client("xr"), Runner: fn, Recorder: recorder{&w.evs}})
	return w
}

func (w *world) claimRec(ssa bool) reconcile.Reconciler {
	return xrh.NewClaimReconciler(w.xrd, w.s.Client("claim"), ssa, claim.WithRecorder(recorder{&w.cevs}))
}

// settle reconciles (one virtual minute apart) until a reconcile changes no
// object, time stamps aside (a reconciler that reports the same error again
// moves a condition's lastTransitionTime; the steady-state check looks at
// lastPublishedTime itself). It returns the number of reconciles, or -1 at the
// horizon.
func (w *world) settle(tag string, rec reconcile.Reconciler, nn types.NamespacedName, horizon int) int {
	for i := 0; i < horizon; i++ {
		time.Sleep(time.Minute)
		before := w.s.Canonical()
		from := len(w.s.Log)
		out := xrh.Reconcile(rec, nn)
		if out.Crashed != nil {
			panic(explore.HarnessError{Msg: "crash in fault-free reconcile"})
		}
		w.r.Logf("%s reconcile %d: err=%v writes: %s", tag, i, out.Err, xrh.DescribeWrites(w.s, from))
		if before == w.s.Canonical() {
			return i + 1
		}
	}
	return -1
}

// steady runs n more reconciles of a settled reconciler and demands that
// nothing writes the secret and the published time stays.
func (w *world) steady(who string, rec reconcile.Reconciler, nn types.NamespacedName, sec, obj simkube.ObjKey, n int) {
	lp := lastPublished(w.s.Peek(obj))
	sv := whole(w.s.Peek(sec))
	for i := 0; i < n; i++ {
		time.Sleep(time.Minute)
		from := len(w.s.Log)
		xrh.Reconcile(rec, nn)
		// The stored secret may hold keys the publisher no longer sends: then
		// its "is the data identical" test is never true although every write
		// leaves the secret as it was. Same promise broken, different cause,
		// hence its own signature.
		q := ""
		if who == "xr" {
			if extra := w.extraKeys(sec); len(extra) > 0 {
				q = "/stale-key-in-secret"
			}
		}
		if ws := secretWrites(w.s, from, sec); len(ws) > 0 {
			w.r.Failf(who+"-secret/rewritten-identical"+q, "steady-state reconcile %d with unchanged connection details wrote the secret %s again: %v (secret %s, being published %s); lastPublishedTime %q -> %q", i, sec, ws, fmtData(dataOf(w.s.Peek(sec))), fmtData(w.want), lp, lastPublished(w.s.Peek(obj)))
		}
		if got := whole(w.s.Peek(sec)); got != sv {
			w.r.Failf(who+"-secret/rewritten-identical"+q, "steady-state reconcile %d changed secret %s: %s -> %s", i, sec, sv, got)
		}
		if got := lastPublished(w.s.Peek(obj)); got != lp {
			w.r.Failf(who+"-status/last-published-changed"+q, "steady-state reconcile %d with unchanged connection details moved status.connectionDetails.lastPublishedTime of %s from %q to %q", i, obj, lp, got)
		}
	}
}

// settleOrFail is settle with a failure at the horizon.
func (w *world) settleOrFail(who string, rec reconcile.Reconciler, nn types.NamespacedName) {
	from := len(w.s.Log)
	if n := w.settle(who, rec, nn, 8); n < 0 {
		w.r.Failf(who+"/not-quiescent", "%s reconciler did not quiesce in 8 fault-free reconciles; last writes: %s", who, xrh.DescribeWrites(w.s, from))
	}
}

// extraKeys lists the keys of the stored secret that are not among the
// details currently being published to it (w.want).
func (w *world) extraKeys(sec simkube.ObjKey) []string {
	var out []string
	for k := range dataOf(w.s.Peek(sec)) {
		if _, ok := w.want[k]; !ok {
			out = append(out, k)
		}
	}
	sort.Strings(out)
	return out
}

// setWant records the reference details (produced and allowed) being published.
func (w *world) setWant(produced map[string]string) {
	w.want = map[string]string{}
	for k, v := range produced {
		if allowed(w.filter, k) {
			w.want[k] = v
		}
	}
}

// victimIntact checks the victim's secret is byte-identical and that its
// values appear in no other secret.
func (w *world) victimIntact(before string, legit map[simkube.ObjKey]bool) {
	if got := whole(w.s.Peek(secKey(sysNS, "victim-conn"))); got != before {
		w.r.Failf("victim-secret/modified", "a secret controlled by another UID was changed: %s -> %s", before, got)
	}
	for nk, was := range w.namesakes {
		if got := whole(w.s.Peek(nk)); got != was {
			w.r.Failf("victim-secret/namesake-modified", "secret %s, controlled by another UID and merely named like one of this XR's / claim's secrets, was changed: %s -> %s", nk, was, got)
		}
	}
	for _, o := range w.s.All(secKey("", "").GK()) {
		k := simkube.KeyOf(o)
		if _, isNamesake := w.namesakes[k]; k.Name == "victim-conn" || legit[k] || isNamesake {
			continue
		}
		od := dataOf(o)
		for _, dk := range sortedKeys(od) {
			if dv := od[dk]; strings.HasPrefix(dv, "victim-") {
				w.r.Failf("victim-secret/leaked", "value %q of the victim's secret (controlled by another UID) appears in %s key %q", dv, k, dk)
			}
		}
	}
}

// ---- XR secret oracle -----------------------------------------------------------

type xrObs struct {
	keys     string // published key set
	conflict string
}

// checkXRSecret evaluates the XR part of the statement on the stored secret.
// before is the secret at the destination before the publishing reconciles,
// produced the details the composition produced for this XR, composeOK whether
// the composition could be evaluated at all, evFrom / logFrom the event and
// write-log positions before the reconciles.
func (w *world) checkXRSecret(before *unstructured.Unstructured, produced map[string]string, composeOK bool, evFrom, logFrom int) xrObs {
	r := w.r
	after := w.s.Peek(w.dest)
	if w.asks == 0 || !composeOK {
		why := "the XR does not ask for a connection secret"
		sig := "xr-secret/written-without-request"
		if w.asks != 0 {
			why = "the composition could not produce connection details"
			sig = "xr-secret/written-after-compose-error"
		}
		if ws := anySecretWrites(w.s, logFrom); len(ws) > 0 {
			r.Failf(sig, "%s, but secrets were written: %v", why, ws)
		}
		for _, k := range []simkube.ObjKey{secKey(sysNS, "xr1-conn"), secKey(sysNS, string(xrUID)), secKey("default", "xr1-conn"), secKey("", "xr1-conn")} {
			if _, seeded := w.namesakes[k]; k != w.dest && !seeded && w.s.Peek(k) != nil {
				r.Failf(sig, "%s, but secret %s exists", why, k)
			}
		}
		if whole(after) != whole(before) {
			r.Failf(sig, "%s, but the secret at %s changed: %s -> %s", why, w.dest, whole(before), whole(after))
		}
		if lp := lastPublished(w.s.Peek(xrh.XRKey(xrName))); lp != "" {
			r.Failf("xr-status/published-without-secret", "%s, but status.connectionDetails.lastPublishedTime is %q", why, lp)
		}
		return xrObs{keys: "-", conflict: "none"}
	}

	w.setWant(produced)
	want := w.want
	class := classOf(before, xrUID)
	cname := preNames[class]
	pre := dataOf(before)

	switch class {
	case preOther, preUncontrolledOpaque:
		// Not controllable (ConnectionSecretMustBeControllableBy): an Opaque
		// secret without a controller may be any Kubernetes secret; a secret
		// with another controller belongs to it.
		if whole(after) != whole(before) {
			r.Failf("xr-secret/overwrote-uncontrollable/"+cname, "XR %s published into a secret it may not control (%s): %s -> %s", xrName, cname, whole(before), whole(after))
		}
		st, _, msg := condOf(w.s.Peek(xrh.XRKey(xrName)), "Synced")
		ev := warningSince(w.evs, evFrom, "PublishConnectionSecret")
		if !ev && !(st == "False" && strings.Contains(msg, "connection")) {
			r.Failf("xr-secret/conflict-not-surfaced/"+cname, "the XR could not publish to %s (%s) but neither a warning event nor a Synced=False condition reports it (Synced=%s %q, events %v)", w.dest, cname, st, msg, w.evs[evFrom:])
		}
		return xrObs{keys: "-", conflict: cname}
	}

	if after == nil {
		r.Failf("xr-secret/not-published", "XR asks for a connection secret at %s (pre-existing: %s) but none exists after the reconciles; events %v", w.dest, cname, w.evs[evFrom:])
	}
	conflict := "none"
	if class == preUncontrolledConn && whole(after) == whole(before) {
		// Nothing had to be written (the data already equals what is to be
		// published), so the publisher left the uncontrolled secret alone. The
		// statement does not demand adoption; the claim part then demands that
		// nothing is propagated from it.
		conflict = "left-uncontrolled"
	} else if c := metav1.GetControllerOf(after); c == nil || c.UID != xrUID || c.Name != xrName || c.Kind != xrh.XRGVK.Kind {
		r.Failf("xr-secret/not-controlled-by-xr/"+cname, "published secret %s is not controlled by the XR: ownerReferences %v", w.dest, after.GetOwnerReferences())
	}
	if class == preAbsent && typeOf(after) != connType {
		r.Failf("xr-secret/wrong-type", "created connection secret has type %q", typeOf(after))
	}
	got := dataOf(after)
	for _, k := range sortedKeys(want) {
		v := want[k]
		gv, ok := got[k]
		if !ok {
			r.Failf("xr-secret/missing-key/filter="+w.fname, "key %q was produced for this XR and is allowed by the XRD (filter %v) but is missing: produced %s, secret %s", k, w.filter, fmtData(produced), fmtData(got))
		}
		if gv != v {
			r.Failf("xr-secret/wrong-value", "key %q = %q, but the composition produced %q for this XR (secret %s, pre-existing %s)", k, gv, v, fmtData(got), fmtData(pre))
		}
	}
	for _, k := range sortedKeys(got) {
		gv := got[k]
		if _, ok := want[k]; ok {
			continue
		}
		pv, wasThere := pre[k]
		_, wasProduced := produced[k]
		switch {
		case wasProduced && !(wasThere && pv == gv):
			r.Failf("xr-secret/disallowed-key-published/filter="+w.fname, "key %q is not in the XRD's connectionSecretKeys %v but was published: secret %s", k, w.filter, fmtData(got))
		case !wasThere:
			r.Failf("xr-secret/unproduced-key", "key %q = %q was not produced by the composition for this XR (produced %s, pre-existing %s)", k, gv, fmtData(produced), fmtData(pre))
		case pv != gv:
			r.Failf("xr-secret/wrong-value", "pre-existing key %q changed from %q to %q although the composition does not produce it (produced %s)", k, pv, gv, fmtData(produced))
		case class == preUncontrolledConn:
			r.Failf("xr-secret/foreign-data-retained/adopted-uncontrolled", "the XR took control of an uncontrolled connection secret and kept its key %q = %q, which the composition never produced for this XR (produced %s, filter %v, secret now %s)", k, gv, fmtData(produced), w.filter, fmtData(got))
		case !allowed(w.filter, k):
			r.Failf("xr-secret/disallowed-key-retained/"+cname, "the XR's secret keeps key %q = %q, which the XRD's connectionSecretKeys %v do not allow (produced %s, secret now %s)", k, gv, w.filter, fmtData(produced), fmtData(got))
		}
		// An allowed key the XR published earlier and no longer produces
		// stays (merge semantics); the statement does not forbid it.
	}
	ks := make([]string, 0, len(got))
	for k := range got {
		ks = append(ks, k)
	}
	sort.Strings(ks)
	return xrObs{keys: strings.Join(ks, ","), conflict: conflict}
}

// ---- scenario: publish, pipeline mode -----------------------------------------------

var keys3 = []string{"a", "b", "c"}

func producedFromMask(mask int) map[string]string {
	p := map[string]string{}
	for i, k := range keys3 {
		if mask&(1<<i) != 0 {
			p[k] = "xr1-" + k
		}
	}
	return p
}

// pipelineFn returns the keys of produced as the desired composite connection
// details (for XR xr1 the values are exactly those of produced). It
// deliberately ignores the observed details (which the composer reads from
// whatever secret the XR points at).
func pipelineFn(produced map[string]string, seenObserved *map[string]string) xrh.FunctionRunner {
	return func(_ context.Context, _ string, req *fnv1.RunFunctionRequest) (*fnv1.RunFunctionResponse, error) {
		if seenObserved != nil {
			m := map[string]string{}
			for k, v := range req.GetObserved().GetComposite().GetConnectionDetails() {
				m[k] = string(v)
			}
			*seenObserved = m
		}
		xs, _ := structpb.NewStruct(map[string]any{"status": map[string]any{"out": "v"}})
		// The value of a key is derived from the XR the function is called
		// for ("<xr name>-<key>"), so details of different XRs differ.
		name := req.GetObserved().GetComposite().GetResource().GetFields()["metadata"].GetStructValue().GetFields()["name"].GetStringValue()
		cd := map[string][]byte{}
		for k := range produced {
			cd[k] = []byte(name + "-" + k)
		}
		return &fnv1.RunFunctionResponse{
			Context: req.GetContext(),
			Desired: &fnv1.State{Composite: &fnv1.Resource{Resource: xs, ConnectionDetails: cd}},
		}, nil
	}
}

func pubPipelineBody(r *explore.Run, rep *report.R, sc string) {
	mask := r.Free(8, "produced")
	fi := r.Free(len(filters), "filter")
	asks := r.Free(3, "asks")
	class := r.Free(5, "pre")
	pd := 0
	if class != preAbsent {
		pd = r.Free(len(preDatas), "predata")
	}
	produced := producedFromMask(mask)
	w := newWorld(r, fi, asks, xrh.PipelineComposition("comp", "fn"), pipelineFn(produced, nil), false)
	// With the external secret stores feature enabled the XRD reconciler
	// wires another chain of publishers; an XR that publishes to a plain
	// Secret must be treated the same.
	ess := r.Bool("external-secret-stores-feature")
	if ess {
		flags := &feature.Flags{}
		flags.Enable(features.EnableAlphaExternalSecretStores)
		w.xrec = xrh.NewXRReconciler(w.xrd, xrh.XROptions{Cached: w.s.Client("xr"), Runner: pipelineFn(produced, nil), Recorder: recorder{&w.evs}, Features: flags})
	}
	seedPre(w.s, w.dest.Namespace, w.dest.Name, class, preDatas[pd], xrOwner, victimOwner)
	r.Logf("produced=%s filter=%s asks=%d pre=%s predata=%s", fmtData(produced), w.fname, asks, preNames[class], fmtData(preDatas[pd]))

	// A second XR of the same kind, reconciled first by the same reconciler:
	// its details must never show up in xr1's secret, nor xr1's in its.
	xr2 := xrh.XR("xr2", "comp")
	xr2.SetUID("xr2-uid")
	xr2.SetWriteConnectionSecretToReference(&xpv1.SecretReference{Name: "xr2-conn", Namespace: sysNS})
	w.s.Seed(xr2)
	w.settleOrFail("xr", w.xrec, types.NamespacedName{Name: "xr2"})
	xr2Secret := w.s.Peek(secKey(sysNS, "xr2-conn"))
	want2 := map[string]string{}
	for k := range produced {
		if allowed(w.filter, k) {
			want2[k] = "xr2-" + k
		}
	}
	if xr2Secret == nil || ctrlUID(xr2Secret) != "xr2-uid" || !sameData(dataOf(xr2Secret), want2) {
		r.Failf("xr-secret/second-xr-differs-from-reference", "XR xr2's secret is %s (controller %q), reference %s", fmtData(dataOf(xr2Secret)), ctrlUID(xr2Secret), fmtData(want2))
	}

	before := w.s.Peek(w.dest)
	victim := whole(w.s.Peek(secKey(sysNS, "victim-conn")))
	logFrom, evFrom := len(w.s.Log), len(w.evs)
	w.settleOrFail("xr", w.xrec, xrNN)
	obs := w.checkXRSecret(before, produced, true, evFrom, logFrom)
	w.steady("xr", w.xrec, xrNN, w.dest, xrh.XRKey(xrName), 2)
	if got := whole(w.s.Peek(secKey(sysNS, "xr2-conn"))); got != whole(xr2Secret) {
		r.Failf("xr-secret/other-xr-secret-touched", "reconciling xr1 changed xr2's secret: %s -> %s", whole(xr2Secret), got)
	}
	legit := map[simkube.ObjKey]bool{}
	if class == preOther {
		legit[w.dest] = true // the pre-existing secret is itself a victim-owned secret
	}
	w.victimIntact(victim, legit)

	nt := ""
	if len(produced) > 0 && asks != 0 {
		nt = report.Hash(sc, mask, fi, asks, class, pd, ess)
	}
	rep.Eval(sc, report.Hash(obs.keys, obs.conflict), nt)
	if rep.WantSample() && nt != "" && class != preAbsent && fi == 1 {
		rep.Sample(map[string]any{"scenario": sc, "produced": fmtData(produced), "filter": w.fname, "asks": asks, "pre": preNames[class], "predata": fmtData(preDatas[pd]), "published_keys": obs.keys, "conflict": obs.conflict})
	}
}

// ---- scenario: publish, P&T mode -------------------------------------------------

// Per-key extraction config alternatives.
const (
	cdNone = iota
	cdSecretPresent
	cdSecretMissing
	cdPathString
	cdPathMissing
	cdValue
	cdPathNumber
	nCD
)

var cdNames = []string{"none", "secretKey", "secretKey-missing", "fieldPath", "fieldPath-missing", "value", "fieldPath-number"}

func ctype(t v1.ConnectionDetailType) *v1.ConnectionDetailType { return &t }

// detailFor builds the template config for XR key k with alternative opt, and
// the reference: the value it yields (ok=false: yields nothing) given the
// composed resource's connection secret data (nil = secret not written yet).
func detailFor(k string, opt int, secret map[string]string) (cfg *v1.ConnectionDetail, val string, ok bool) {
	switch opt {
	case cdSecretPresent:
		v, has := secret["k-"+k]
		return &v1.ConnectionDetail{Name: ptr(k), Type: ctype(v1.ConnectionDetailTypeFromConnectionSecretKey), FromConnectionSecretKey: ptr("k-" + k)}, v, has
	case cdSecretMissing:
		return &v1.ConnectionDetail{Name: ptr(k), Type: ctype(v1.ConnectionDetailTypeFromConnectionSecretKey), FromConnectionSecretKey: ptr("nope")}, "", false
	case cdPathString:
		return &v1.ConnectionDetail{Name: ptr(k), Type: ctype(v1.ConnectionDetailTypeFromFieldPath), FromFieldPath: ptr("spec.fixed")}, "v", true
	case cdPathMissing:
		return &v1.ConnectionDetail{Name: ptr(k), Type: ctype(v1.ConnectionDetailTypeFromFieldPath), FromFieldPath: ptr("spec.nope")}, "", false
	case cdValue:
		return &v1.ConnectionDetail{Name: ptr(k), Type: ctype(v1.ConnectionDetailTypeFromValue), Value: ptr("val-" + k)}, "val-" + k, true
	case cdPathNumber:
		return &v1.ConnectionDetail{Name: ptr(k), Type: ctype(v1.ConnectionDetailTypeFromFieldPath), FromFieldPath: ptr("spec.count")}, "7", true
	}
	return nil, "", false
}

// Extra config alternatives (unnamed configs, type inference).
const (
	exNone = iota
	exUnnamedSecretKey
	exUnnamedSecretMissing
	exUnnamedValue
	exUnnamedFieldPath
	exInferValue
	exInferPrecedence
	nEx
)

var exNames = []string{"none", "unnamed-secretKey", "unnamed-secretKey-missing", "unnamed-value", "unnamed-fieldPath", "infer-value", "infer-secretKey-over-fieldPath"}

// extraFor returns the config, the key/value it yields, and whether it makes
// the composition fail (a value or field path config must be named).
func extraFor(opt int, secret map[string]string) (cfg *v1.ConnectionDetail, key, val string, ok, fails bool) {
	switch opt {
	case exUnnamedSecretKey:
		// "Leave empty if you'd like to use the same key name."
		v, has := secret["c"]
		return &v1.ConnectionDetail{Type: ctype(v1.ConnectionDetailTypeFromConnectionSecretKey), FromConnectionSecretKey: ptr("c")}, "c", v, has, false
	case exUnnamedSecretMissing:
		return &v1.ConnectionDetail{Type: ctype(v1.ConnectionDetailTypeFromConnectionSecretKey), FromConnectionSecretKey: ptr("nope")}, "nope", "", false, false
	case exUnnamedValue:
		return &v1.ConnectionDetail{Type: ctype(v1.ConnectionDetailTypeFromValue), Value: ptr("x")}, "", "", false, true
	case exUnnamedFieldPath:
		return &v1.ConnectionDetail{Type: ctype(v1.ConnectionDetailTypeFromFieldPath), FromFieldPath: ptr("spec.fixed")}, "", "", false, true
	case exInferValue:
		return &v1.ConnectionDetail{Name: ptr("c"), Value: ptr("inferred")}, "c", "inferred", true, false
	case exInferPrecedence:
		v, has := secret["k-c"]
		return &v1.ConnectionDetail{Name: ptr("c"), FromConnectionSecretKey: ptr("k-c"), FromFieldPath: ptr("spec.fixed")}, "c", v, has, false
	}
	return nil, "", "", false, false
}

var (
	r0Secret = map[string]string{"k-a": "r0-a", "k-b": "r0-b", "k-c": "r0-c", "c": "r0-plain-c", "unused": "r0-unused"}
	r1Secret = map[string]string{"k-c": "r1-c", "k-a": "r1-a"}
)

func ptBase(gvkKind, secretName string) []byte {
	return []byte(fmt.Sprintf(`{"apiVersion":"res.example.org/v1","kind":%q,"spec":{"fixed":"v","count":7,"writeConnectionSecretToRef":{"name":%q,"namespace":%q}}}`, gvkKind, secretName, sysNS))
}

func pubPTBody(r *explore.Run, rep *report.R, sc string, twoRes bool) {
	oa := r.Free(nCD, "cfg-a")
	ob := r.Free(nCD, "cfg-b")
	ex := r.Free(nEx, "extra")
	oc := cdNone
	if twoRes && (ex == exNone || ex == exUnnamedSecretMissing || ex == exUnnamedValue || ex == exUnnamedFieldPath) {
		oc = r.Free(nCD, "cfg-c@r1")
	}
	fi := r.Free(3, "filter")
	// The quick tier leaves "XR does not ask" and the pre-existing secrets to
	// the pipeline family (the publisher is the same code for both modes); its
	// two-phase history still publishes into a secret the XR already controls.
	asks, class := 1, preAbsent
	if twoRes {
		asks = 1 - r.Free(2, "asks")
		class = []int{preAbsent, preOwned, preOther}[r.Free(3, "pre")]
	}
	// late: the composed resources' secrets appear only after a first
	// quiescence (two publishing phases). The quick tier runs only this
	// two-phase history; the thorough tier also the one-phase one.
	late := true
	if twoRes {
		late = r.Free(2, "composed-secret-late") == 0
	}

	// The API server may reject composed resource r0 as invalid: it then never
	// exists, and nothing configured for it - a secret that happens to carry
	// the name its template writes to least of all - is one of this XR's
	// connection details.
	r0Rejected := r.Bool("r0-rejected-as-invalid")

	// Reference: details the composition yields without / with the composed
	// resources' connection secrets.
	build := func(withSecrets bool) (map[string]string, bool, []v1.ConnectionDetail, []v1.ConnectionDetail) {
		var s0, s1 map[string]string
		if withSecrets {
			s0, s1 = r0Secret, r1Secret
		}
		out := map[string]string{}
		ok := true
		var c0, c1 []v1.ConnectionDetail
		for _, kc := range []struct {
			k   string
			opt int
		}{{"a", oa}, {"b", ob}} {
			if cfg, v, has := detailFor(kc.k, kc.opt, s0); cfg != nil {
				c0 = append(c0, *cfg)
				if has && !r0Rejected {
					out[kc.k] = v
				}
			}
		}
		if cfg, k, v, has, fails := extraFor(ex, s0); cfg != nil {
			c0 = append(c0, *cfg)
			if has && !r0Rejected {
				out[k] = v
			}
			if fails && !r0Rejected {
				ok = false
			}
		}
		if cfg, v, has := detailFor("c", oc, s1); cfg != nil {
			c1 = append(c1, *cfg)
			if has {
				out["c"] = v
			}
		}
		return out, ok, c0, c1
	}
	pLate, composeOK, c0, c1 := build(false)
	pFull, _, _, _ := build(true)

	none := []v1.ReadinessCheck{{Type: v1.ReadinessCheckTypeNone}}
	ts := []xrh.Template{{Name: "r0", GVK: xrh.ResA, Extra: func(ct *v1.ComposedTemplate) {
		ct.Base.Raw = ptBase("ResA", "r0-conn")
		ct.ConnectionDetails = c0
		ct.ReadinessChecks = none
	}}}
	if twoRes {
		ts = append(ts, xrh.Template{Name: "r1", GVK: xrh.ResB, Extra: func(ct *v1.ComposedTemplate) {
			ct.Base.Raw = ptBase("ResB", "r1-conn")
			ct.ConnectionDetails = c1
			ct.ReadinessChecks = none
		}})
	}
	w := newWorld(r, fi, asks, xrh.ResourcesComposition("comp", ts...), pipelineFn(nil, nil), false)
	if r0Rejected {
		w.s.Admit = append(w.s.Admit, func(op *simkube.AdmissionOp) error {
			if op.Key.Kind == xrh.ResA.Kind && op.Verb != "DELETE" {
				return kerrors.NewInvalid(op.Key.GK(), op.Key.Name, field.ErrorList{field.Invalid(field.NewPath("spec"), "x", "rejected by validation")})
			}
			return nil
		})
	}
	seedPre(w.s, w.dest.Namespace, w.dest.Name, class, map[string]string{"a": "old-a"}, xrOwner, victimOwner)
	seedComposed := func() {
		w.s.Seed(mkSecret(sysNS, "r0-conn", connType, nil, r0Secret))
		if twoRes {
			w.s.Seed(mkSecret(sysNS, "r1-conn", connType, nil, r1Secret))
		}
	}
	r.Logf("cfg a=%s b=%s extra=%s c@r1=%s filter=%s asks=%d pre=%s late=%v; reference: without secrets %s, with %s, composeOK=%v", cdNames[oa], cdNames[ob], exNames[ex], cdNames[oc], w.fname, asks, preNames[class], late, fmtData(pLate), fmtData(pFull), composeOK)

	victim := whole(w.s.Peek(secKey(sysNS, "victim-conn")))
	// While r0 is rejected its template has no object and is given a new name
	// by every reconcile (the XR's resourceRefs keep changing): the XR never
	// goes quiescent, which is not this property's business.
	settleXR := func() {
		if r0Rejected {
			w.settle("xr", w.xrec, xrNN, 5)
			return
		}
		w.settleOrFail("xr", w.xrec, xrNN)
	}
	var obs xrObs
	if late {
		before := w.s.Peek(w.dest)
		logFrom, evFrom := len(w.s.Log), len(w.evs)
		settleXR()
		w.checkXRSecret(before, pLate, composeOK, evFrom, logFrom)
	}
	seedComposed()
	before := w.s.Peek(w.dest)
	logFrom, evFrom := len(w.s.Log), len(w.evs)
	settleXR()
	if late && asks != 0 && composeOK && classOf(before, xrUID) == preOwned {
		// Keys published before the composed secrets appeared are legitimately
		// there already; the oracle treats them as pre-existing data.
		r.Logf("phase 2 starts from %s", fmtData(dataOf(before)))
	}
	obs = w.checkXRSecret(before, pFull, composeOK, evFrom, logFrom)
	w.steady("xr", w.xrec, xrNN, w.dest, xrh.XRKey(xrName), 2)
	legit := map[simkube.ObjKey]bool{}
	if class == preOther {
		legit[w.dest] = true
	}
	w.victimIntact(victim, legit)
	if r0Rejected && len(w.s.All(xrh.ResA.GroupKind())) > 0 {
		panic(explore.HarnessError{Msg: "r0 exists although its creation is rejected"})
	}
	// The composed resources' secrets are only read.
	if got := dataOf(w.s.Peek(secKey(sysNS, "r0-conn"))); !sameData(got, r0Secret) {
		r.Failf("composed-secret/modified", "the composed resource's connection secret changed: %s", fmtData(got))
	}

	nt := ""
	if (len(pFull) > 0 || r0Rejected) && asks != 0 && composeOK {
		nt = report.Hash(sc, oa, ob, ex, oc, fi, asks, class, late, r0Rejected)
	}
	rep.Eval(sc, report.Hash(obs.keys, obs.conflict, composeOK), nt)
	if rep.WantSample() && nt != "" && ex != exNone && fi == 2 {
		rep.Sample(map[string]any{"scenario": sc, "cfg_a": cdNames[oa], "cfg_b": cdNames[ob], "extra": exNames[ex], "cfg_c_r1": cdNames[oc], "filter": w.fname, "pre": preNames[class], "reference_details": fmtData(pFull), "published_keys": obs.keys})
	}
}

// ---- scenario: claim propagation -------------------------------------------------

// Source situations, applied after the XR published its own secret and is Ready.
const (
	srcOwned          = iota // XR controls its secret
	srcDeleted               // the XR's secret was deleted
	srcStripped              // its controller reference was removed
	srcStolen                // its controller reference names another UID
	srcPointVictim           // the XR's spec now names a secret controlled by another UID
	srcPointOpaque           // ... an uncontrolled Opaque secret
	srcPointLoose            // ... an uncontrolled connection-type secret
	srcNotAsked              // the XR never asked for a secret
	srcNeverPublished        // the XR's destination was controlled by another UID from the start (XR never Ready)
	nSrc
)

var srcNames = []string{"owned", "deleted", "controller-stripped", "controller-replaced", "repointed-at-victim", "repointed-at-opaque", "repointed-at-uncontrolled", "xr-does-not-ask", "never-published"}

var (
	plainData = map[string]string{"p": "plain-p"}
	looseData = map[string]string{"l": "loose-l"}
	dstOld    = map[string]string{"a": "dst-old-a", "q": "dst-q"}
)

func (w *world) tamper(src int) {
	k := secKey(sysNS, "xr1-conn")
	repoint := func(name string) {
		w.s.Mutate(xrh.XRKey(xrName), func(u *unstructured.Unstructured) {
			_ = unstructured.SetNestedField(u.Object, name, "spec", "writeConnectionSecretToRef", "name")
		})
	}
	setOwners := func(refs []metav1.OwnerReference) {
		w.s.Mutate(k, func(u *unstructured.Unstructured) { u.SetOwnerReferences(refs) })
	}
	switch src {
	case srcDeleted:
		w.s.Remove(k)
	case srcStripped:
		setOwners(nil)
	case srcStolen:
		setOwners([]metav1.OwnerReference{victimOwner})
	case srcPointVictim:
		repoint("victim-conn")
	case srcPointOpaque:
		w.s.Seed(mkSecret(sysNS, "plain", corev1.SecretTypeOpaque, nil, plainData))
		repoint("plain")
	case srcPointLoose:
		w.s.Seed(mkSecret(sysNS, "loose", connType, nil, looseData))
		repoint("loose")
	}
}

func (w *world) xrRef() (simkube.ObjKey, bool) {
	xr := w.s.Peek(xrh.XRKey(xrName))
	name, found, _ := unstructured.NestedString(xr.Object, "spec", "writeConnectionSecretToRef", "name")
	ns, _, _ := unstructured.NestedString(xr.Object, "spec", "writeConnectionSecretToRef", "namespace")
	return secKey(ns, name), found
}

type claimObs struct {
	propagated bool
	conflict   string
}

// secretsSnapshot renders every secret but skip.
func (w *world) secretsSnapshot(skip simkube.ObjKey) map[simkube.ObjKey]string {
	m := map[simkube.ObjKey]string{}
	for _, o := range w.s.All(secKey("", "").GK()) {
		if k := simkube.KeyOf(o); k != skip {
			m[k] = whole(o)
		}
	}
	return m
}

// checkClaim runs claim reconciles to quiescence from the current state and
// evaluates the claim part of the statement. The state of the XR and of every
// secret but the claim's does not change meanwhile, so the oracle is a
// function of the state before.
func (w *world) checkClaim(crec reconcile.Reconciler, claimAsks bool, tag string) claimObs {
	r := w.r
	dst := secKey(cmNS, "cm-conn")
	xr := w.s.Peek(xrh.XRKey(xrName))
	ready, _, _ := condOf(xr, "Ready")
	srcKey, xrAsks := w.xrRef()
	var src *unstructured.Unstructured
	if xrAsks {
		src = w.s.Peek(srcKey)
	}
	srcOwnedByXR := src != nil && ctrlUID(src) == xr.GetUID()
	should := claimAsks && xrAsks && ready == "True" && srcOwnedByXR
	before := w.s.Peek(dst)
	dclass := classOf(before, cmUID)
	others := w.secretsSnapshot(dst)
	logFrom, evFrom := len(w.s.Log), len(w.cevs)
	r.Logf("%s: claim reconciles; XR Ready=%s asks=%v source=%s (%s, data %s) claimAsks=%v dest=%s => should propagate: %v", tag, ready, xrAsks, srcKey, preNames[classOf(src, xr.GetUID())], fmtData(dataOf(src)), claimAsks, preNames[dclass], should)

	w.settleOrFail("claim", crec, cmNN)

	now := w.secretsSnapshot(dst)
	for _, o := range w.s.All(secKey("", "").GK()) {
		if k := simkube.KeyOf(o); k != dst && others[k] != now[k] {
			r.Failf("claim/touched-foreign-secret", "%s: the claim reconciler changed secret %s: %s -> %s", tag, k, others[k], now[k])
		}
	}
	if len(now) != len(others) {
		r.Failf("claim/touched-foreign-secret", "%s: the claim reconciler created or deleted secrets other than its own: before %d, after %d", tag, len(others), len(now))
	}
	after := w.s.Peek(dst)
	srcClass := "absent"
	if !xrAsks {
		srcClass = "xr-does-not-ask"
	} else if src != nil {
		srcClass = preNames[classOf(src, xr.GetUID())]
	}
	if !should {
		why := fmt.Sprintf("claimAsks=%v xrAsks=%v xrReady=%s source %s is %s", claimAsks, xrAsks, ready, srcKey, srcClass)
		if ws := okSecretWrites(w.s, logFrom, dst); len(ws) > 0 {
			sig := "claim-secret/written-without-right/"
			switch {
			case !claimAsks:
				sig += "claim-does-not-ask"
			case ready != "True":
				sig += "xr-not-ready"
			default:
				sig += "source-" + srcClass
			}
			r.Failf(sig, "%s: the claim's secret %s was written although nothing may be propagated (%s): %v; source data %s, claim secret now %s", tag, dst, why, ws, fmtData(dataOf(src)), fmtData(dataOf(after)))
		}
		if whole(after) != whole(before) {
			r.Failf("claim-secret/changed-without-right", "%s: the claim's secret changed although nothing may be propagated (%s): %s -> %s", tag, why, whole(before), whole(after))
		}
		return claimObs{propagated: false, conflict: "none"}
	}
	switch dclass {
	case preOther, preUncontrolledOpaque:
		if whole(after) != whole(before) {
			r.Failf("claim-secret/overwrote-uncontrollable/"+preNames[dclass], "%s: the claim propagated into a secret it may not control (%s): %s -> %s", tag, preNames[dclass], whole(before), whole(after))
		}
		st, _, msg := condOf(w.s.Peek(xrh.ClaimKey(cmNS, cmName)), "Synced")
		if !warningSince(w.cevs, evFrom, "PropagateConnectionSecret") && !(st == "False" && strings.Contains(msg, "connection")) {
			r.Failf("claim-secret/conflict-not-surfaced/"+preNames[dclass], "%s: the claim could not propagate to %s (%s) but neither a warning event nor Synced=False reports it (Synced=%s %q)", tag, dst, preNames[dclass], st, msg)
		}
		return claimObs{propagated: false, conflict: preNames[dclass]}
	}
	if after == nil {
		r.Failf("claim-secret/not-propagated", "%s: XR %s is Ready and controls its secret %s, the claim asks for cm-conn (%s), but no claim secret exists; claim events %v", tag, xrName, srcKey, preNames[dclass], w.cevs[evFrom:])
	}
	if c := metav1.GetControllerOf(after); c == nil || c.UID != cmUID {
		r.Failf("claim-secret/not-controlled-by-claim", "%s: claim secret owner references %v", tag, after.GetOwnerReferences())
	}
	if dclass == preAbsent && typeOf(after) != connType {
		r.Failf("claim-secret/wrong-type", "%s: created claim secret has type %q", tag, typeOf(after))
	}
	if got, want := dataOf(after), dataOf(src); !sameData(got, want) {
		r.Failf("claim-secret/not-exact-copy/"+preNames[dclass], "%s: claim secret %s is not an exact copy of the XR's secret %s (destination was %s with %s)", tag, fmtData(got), fmtData(want), preNames[dclass], fmtData(dataOf(before)))
	}
	return claimObs{propagated: true, conflict: "none"}
}

type claimParams struct {
	src, dclass, fi, mask int
	between, claimAsks    bool
	ssa                   bool
}

func claimBody(r *explore.Run, rep *report.R, sc string, masks []int, nFilters int) {
	p := claimParams{}
	p.src = r.Free(nSrc, "source")
	p.dclass = r.Free(5, "dest")
	p.between = r.Bool("xr-reconciles-after-tamper")
	p.claimAsks = r.Free(2, "claim-asks") == 0
	p.ssa = r.Bool("ssa")
	p.mask = masks[r.Free(len(masks), "produced")]
	p.fi = r.Free(nFilters, "filter")

	produced := producedFromMask(p.mask)
	asks := 1
	if p.src == srcNotAsked {
		asks = 0
	}
	var observed map[string]string
	w := newWorld(r, p.fi, asks, xrh.PipelineComposition("comp", "fn"), pipelineFn(produced, &observed), p.claimAsks)
	if p.src == srcNeverPublished {
		seedPre(w.s, w.dest.Namespace, w.dest.Name, preOther, map[string]string{"a": "squatter-a"}, xrOwner, victimOwner)
	}
	seedPre(w.s, cmNS, "cm-conn", p.dclass, dstOld, cmOwner, otherCmOwn)
	r.Logf("source=%s dest=%s between=%v claimAsks=%v ssa=%v produced=%s filter=%s", srcNames[p.src], preNames[p.dclass], p.between, p.claimAsks, p.ssa, fmtData(produced), w.fname)

	w.setWant(produced)
	victim := whole(w.s.Peek(secKey(sysNS, "victim-conn")))
	w.settleOrFail("xr", w.xrec, xrNN)
	ready, _, _ := condOf(w.s.Peek(xrh.XRKey(xrName)), "Ready")
	if (ready == "True") != (p.src != srcNeverPublished) {
		r.Failf("harness/xr-readiness", "preparation: XR Ready=%q in source situation %s", ready, srcNames[p.src])
	}
	w.tamper(p.src)
	if p.between {
		w.settleOrFail("xr", w.xrec, xrNN)
	}
	crec := w.claimRec(p.ssa)
	obs := w.checkClaim(crec, p.claimAsks, "first")
	w.steady("claim", crec, cmNN, secKey(cmNS, "cm-conn"), xrh.ClaimKey(cmNS, cmName), 2)

	// Joint continuation: XR and claim reconcile alternately to quiescence; the
	// relation must hold on the final state too.
	for i := 0; ; i++ {
		v := w.s.Canonical()
		w.settleOrFail("xr", w.xrec, xrNN)
		w.settleOrFail("claim", crec, cmNN)
		if v == w.s.Canonical() {
			break
		}
		if i == 5 {
			r.Failf("joint/not-quiescent", "XR and claim reconcilers did not jointly quiesce")
		}
	}
	final := w.checkClaim(crec, p.claimAsks, "final")
	// Intruders: other claims point their spec.resourceRef at this claim's XR
	// and ask for a connection secret - a claim with another name, and a
	// namesake of the bound claim in another namespace. Neither may obtain a
	// copy of the XR's secret, nor change the XR.
	xrBefore, srcSecret := whole(w.s.Peek(xrh.XRKey(xrName))), dataOf(w.s.Peek(w.dest))
	for _, in := range []struct{ ns, name string }{{cmNS, "intruder"}, {"other", cmName}} {
		ic := xrh.Claim(in.ns, in.name)
		ic.SetUID(types.UID("intruder-" + in.ns + "-" + in.name))
		ic.SetResourceReference(&reference.Composite{APIVersion: xrh.XRGVK.GroupVersion().String(), Kind: xrh.XRGVK.Kind, Name: xrName})
		ic.SetWriteConnectionSecretToReference(&xpv1.LocalSecretReference{Name: "intruder-conn"})
		w.s.Seed(ic)
		inn := types.NamespacedName{Namespace: in.ns, Name: in.name}
		for i := 0; i < 2; i++ {
			xrh.Reconcile(crec, inn)
		}
		if got := dataOf(w.s.Peek(secKey(in.ns, "intruder-conn"))); len(got) > 0 {
			for k, v := range got {
				for _, sv := range srcSecret {
					if v == sv {
						r.Failf("claim-secret/copied-to-unbound-claim", "claim %s/%s, which XR %s is not bound to, obtained %s=%q from the XR's connection secret", in.ns, in.name, xrName, k, v)
					}
				}
			}
		}
		if got := whole(w.s.Peek(xrh.XRKey(xrName))); got != xrBefore {
			r.Failf("claim-secret/xr-changed-by-unbound-claim", "reconciling claim %s/%s, which XR %s is not bound to, changed the XR: %s -> %s", in.ns, in.name, xrName, xrBefore, got)
		}
		w.s.Remove(xrh.ClaimKey(in.ns, in.name))
		w.s.Remove(secKey(in.ns, "intruder-conn"))
	}
	legit := map[simkube.ObjKey]bool{}
	if p.src == srcStolen {
		legit[secKey(sysNS, "xr1-conn")] = true
	}
	if p.src == srcNeverPublished {
		legit[w.dest] = true
	}
	w.victimIntact(victim, legit)
	if p.src == srcPointVictim && observed["s"] == "victim-s" {
		rep.Extra("note_observed_details_from_unowned_secret", "pipeline mode: the function request's observed composite connection details are read from whatever secret the XR's writeConnectionSecretToRef names, without a controller check (composition_functions.go FetchConnection); not part of C09's statement, recorded only")
	}

	nt := ""
	if len(produced) > 0 && asks != 0 {
		nt = report.Hash(sc, p)
	}
	rep.Eval(sc, report.Hash(obs.propagated, obs.conflict, final.propagated, final.conflict, fmtData(dataOf(w.s.Peek(secKey(cmNS, "cm-conn"))))), nt)
	if rep.WantSample() && nt != "" && p.src >= srcStripped && p.src <= srcPointLoose && p.claimAsks && p.dclass == preAbsent {
		rep.Sample(map[string]any{"scenario": sc, "source": srcNames[p.src], "dest": preNames[p.dclass], "xr_reconciled_after_tamper": p.between, "ssa": p.ssa, "propagated_first": obs.propagated, "propagated_finally": final.propagated, "claim_secret": fmtData(dataOf(w.s.Peek(secKey(cmNS, "cm-conn"))))})
	}
}

// ---- scenario: one injected fault ---------------------------------------------------

type faultBase struct {
	pt     bool
	fi     int
	class  int
	dclass int
	ssa    bool
}

func (b faultBase) String() string {
	return fmt.Sprintf("pt=%v filter=%s pre=%s dest=%s ssa=%v", b.pt, filters[b.fi].name, preNames[b.class], preNames[b.dclass], b.ssa)
}

func faultBases(thorough bool) []faultBase {
	var out []faultBase
	modes, fis, classes := []bool{false}, []int{1}, []int{preAbsent, preOwned}
	if thorough {
		modes, fis, classes = []bool{false, true}, []int{0, 1}, []int{preAbsent, preOwned, preUncontrolledConn}
	}
	for _, pt := range modes {
		for _, fi := range fis {
			for _, class := range classes {
				for _, dclass := range []int{preAbsent, preOwned} {
					for _, ssa := range []bool{false, true} {
						out = append(out, faultBase{pt, fi, class, dclass, ssa})
					}
				}
			}
		}
	}
	if !thorough {
		// One P&T base per syncer in the quick tier.
		out = append(out, faultBase{true, 1, preAbsent, preAbsent, false}, faultBase{true, 1, preAbsent, preAbsent, true})
	}
	return out
}

// stuckAt names, for a signature, what the object's Synced condition reports
// at quiescence: "synced" or a slug of the first segment of the error message.
func stuckAt(u *unstructured.Unstructured) string {
	st, _, msg := condOf(u, "Synced")
	if st == "True" {
		return "synced"
	}
	if i := strings.Index(msg, ":"); i >= 0 {
		msg = msg[:i]
	}
	var b strings.Builder
	for _, c := range strings.ToLower(msg) {
		switch {
		case c >= 'a' && c <= 'z', c >= '0' && c <= '9':
			b.WriteRune(c)
		case b.Len() > 0 && !strings.HasSuffix(b.String(), "-"):
			b.WriteByte('-')
		}
	}
	return "stuck-" + strings.TrimSuffix(b.String(), "-")
}

func faultBody(r *explore.Run, rep *report.R, sc string, bases []faultBase) {
	b := bases[r.Free(len(bases), "base")]
	produced := map[string]string{"a": "xr1-a", "b": "xr1-b"}
	var comp *v1.Composition
	if b.pt {
		// P&T: a and b come from fixed values on one composed resource.
		comp = xrh.ResourcesComposition("comp", xrh.Template{Name: "r0", GVK: xrh.ResA, Extra: func(ct *v1.ComposedTemplate) {
			ct.ReadinessChecks = []v1.ReadinessCheck{{Type: v1.ReadinessCheckTypeNone}}
			ct.ConnectionDetails = []v1.ConnectionDetail{
				{Name: ptr("a"), Type: ctype(v1.ConnectionDetailTypeFromValue), Value: ptr("xr1-a")},
				{Name: ptr("b"), Type: ctype(v1.ConnectionDetailTypeFromValue), Value: ptr("xr1-b")},
			}
		}})
	} else {
		comp = xrh.PipelineComposition("comp", "fn")
	}
	w := newWorld(r, b.fi, 1, comp, pipelineFn(produced, nil), true)
	// Pre-existing data: what an earlier publish of this XR / claim wrote.
	seedPre(w.s, w.dest.Namespace, w.dest.Name, b.class, map[string]string{"a": "old-a"}, xrOwner, victimOwner)
	seedPre(w.s, cmNS, "cm-conn", b.dclass, map[string]string{"a": "old-a"}, cmOwner, otherCmOwn)
	victim := whole(w.s.Peek(secKey(sysNS, "victim-conn")))
	inj := (&xrh.FaultInjector{Run: r, Reads: true, NotFoundReads: true}).WithErrClasses(w.s)
	w.s.Inj = inj
	dst := secKey(cmNS, "cm-conn")
	r.Logf("base %s", b)

	mkX := func() reconcile.Reconciler {
		return xrh.NewXRReconciler(w.xrd, xrh.XROptions{Cached: w.s.Client("xr"), Runner: pipelineFn(produced, nil), Recorder: recorder{&w.evs}})
	}
	xrec, crec := mkX(), w.claimRec(b.ssa)
	// Faulty window: the XR reconciles that initialise, compose and publish,
	// then the claim reconciles that bind and propagate.
	for i := 0; i < 3; i++ {
		time.Sleep(time.Minute)
		inj.Armed = true
		out := xrh.Reconcile(xrec, xrNN)
		inj.Armed = false
		if out.Crashed != nil {
			r.Logf("xr reconcile %d: CRASH at %s", i, out.Crashed.Call)
			xrec = mkX()
		} else {
			r.Logf("xr reconcile %d: err=%v", i, out.Err)
		}
	}
	for i := 0; i < 2; i++ {
		time.Sleep(time.Minute)
		inj.Armed = true
		out := xrh.Reconcile(crec, cmNN)
		inj.Armed = false
		if out.Crashed != nil {
			r.Logf("claim reconcile %d: CRASH at %s", i, out.Crashed.Call)
			crec = w.claimRec(b.ssa)
		} else {
			r.Logf("claim reconcile %d: err=%v", i, out.Err)
		}
	}
	// Fault-free to joint quiescence.
	w.xrec = xrec
	for i := 0; ; i++ {
		v := w.s.Canonical()
		w.settleOrFail("xr", xrec, xrNN)
		w.settleOrFail("claim", crec, cmNN)
		if v == w.s.Canonical() {
			break
		}
		if i == 5 {
			r.Failf("joint/not-quiescent", "XR and claim reconcilers did not jointly quiesce after a fault")
		}
	}
	// Reference: the XR's secret holds exactly the allowed produced keys (the
	// pre-existing key a is overwritten), controlled by the XR; the claim's
	// secret is an exact copy controlled by the claim.
	w.setWant(produced)
	want := w.want
	xs, cs := w.s.Peek(w.dest), w.s.Peek(dst)
	faults := strings.Join(inj.Taken, "; ")
	if xs == nil || ctrlUID(xs) != xrUID || !sameData(dataOf(xs), want) {
		r.Failf("fault/xr-secret-differs-from-reference/"+stuckAt(w.s.Peek(xrh.XRKey(xrName))), "after [%s] and fault-free reconciles to quiescence the XR's secret is %s (controller %q), reference %s controlled by the XR (%s)", faults, fmtData(dataOf(xs)), ctrlUID(xs), fmtData(want), b)
	}
	if cs == nil || ctrlUID(cs) != cmUID || !sameData(dataOf(cs), want) {
		st, _, msg := condOf(w.s.Peek(xrh.ClaimKey(cmNS, cmName)), "Synced")
		r.Failf("fault/claim-secret-differs-from-reference/"+stuckAt(w.s.Peek(xrh.ClaimKey(cmNS, cmName))), "after [%s] and fault-free reconciles to quiescence the claim's secret is %s (controller %q), reference %s controlled by the claim (%s; claim Synced=%s %q)", faults, fmtData(dataOf(cs)), ctrlUID(cs), fmtData(want), b, st, msg)
	}
	w.steady("xr", xrec, xrNN, w.dest, xrh.XRKey(xrName), 1)
	w.steady("claim", crec, cmNN, dst, xrh.ClaimKey(cmNS, cmName), 1)
	w.victimIntact(victim, nil)

	nt := ""
	if len(inj.Taken) > 0 {
		nt = report.Hash(sc, b, inj.Taken)
	}
	rep.Eval(sc, report.Hash(faults != "", lastPublished(w.s.Peek(xrh.XRKey(xrName))) != "", lastPublished(w.s.Peek(xrh.ClaimKey(cmNS, cmName))) != "", len(w.s.Log)), nt)
	if rep.WantSample() && len(inj.Taken) > 0 && strings.Contains(faults, "Secret") {
		rep.Sample(map[string]any{"scenario": sc, "base": b.String(), "fault": inj.Taken, "xr_secret": fmtData(dataOf(xs)), "claim_secret": fmtData(dataOf(cs))})
	}
}

// ---- entry ---------------------------------------------------------------------------

func TestCheck(t *testing.T) {
	rep := report.New("C09", "exploration")
	rep.Meta(
		"Five scenario families, each case built from free choices and run on the real XR reconciler (production options from the XRD reconciler: XRD connectionSecretKeys -> APIFilteredSecretPublisher) and the real claim reconciler (client-side and server-side-apply syncers, APIConnectionPropagator) over simkube, in virtual time (one minute between reconciles). "+
			"(1) publish/pipeline: produced details = every subset of {a,b,c} returned by a scripted function x XRD filter {unset, [a], [a,z], []} x XR asks {no, spec.writeConnectionSecretToRef, defaulted from the composition's writeConnectionSecretsToNamespace} x secret already at the destination {absent, uncontrolled connection type, uncontrolled Opaque, controlled by the XR, controlled by another UID} x its data {none, {a}, {b}}; a second XR of the same kind (values derived from the XR name) is reconciled by the same reconciler first. "+
			"(2) publish/pt: per XR key a,b (and c on a second composed resource in the thorough tier) one template connectionDetails config of {none, FromConnectionSecretKey present/missing, FromFieldPath string/missing/number, FromValue} x one extra config {none, unnamed secret key present/missing, unnamed value, unnamed field path, inferred type value, inferred precedence} x filter {unset, [a], [a,z]} x (thorough tier: asks x pre-existing secret {absent, controlled by the XR with {a}, controlled by another UID} x composed resources' secrets present from the start or appearing after a first quiescence; quick tier: XR asks, no pre-existing secret, secrets appear after a first quiescence); the reference extraction is written from the ConnectionDetail API documentation. "+
			"(3) claim: after the XR is Ready, source situation {owned, deleted, controller stripped, controller replaced, XR spec repointed at a victim's / an Opaque / an uncontrolled connection secret, XR does not ask, XR never Ready} x XR reconciles again or not x claim asks or not x destination {absent, uncontrolled connection, uncontrolled Opaque, controlled by the claim, controlled by another UID} x syncer x produced x filter; oracle is a function of the stored state before the claim reconciles; evaluated after the first claim quiescence and again after joint XR+claim quiescence. "+
			"(4) fault: one API fault (error-before, conflict, error-after, crash-before, crash-after; reads too) at every API call of three XR reconciles and two claim reconciles, then fault-free to joint quiescence; final secrets compared with the reference. "+
			"(5) publish/observed-composed: a function that copies the connection details of every observed composed resource to the XR (as function-patch-and-transform does); spec.resourceRefs names the XR's own composed resource (existing or not) and a composed resource with its own connection secret that {another XR, a non-XR owner, nobody: absent} controls x the composed kind served by the cache or missing from it (uncached fallback) x filter; the foreign resource must not reach the function, its details must not reach the XR's secret, and the XR's secret equals its own composed resource's allowed details. "+
			"Every case ends with steady-state reconciles that must not write either secret (write log) nor move status.connectionDetails.lastPublishedTime. A victim secret controlled by another UID is present in every world and must stay byte-identical and unleaked. "+
			"Non-trivial: at least one produced key and an XR that asks for a secret (fault family: at least one fault taken); distinct by parameter tuple.",
		[]string{
			"simkube models the API server (merge patch, update, optimistic concurrency, owner reference validation); Secrets are stored as their wire JSON",
			"pre-existing data of a secret controlled by the XR / claim stands for what an earlier publish wrote; an allowed key that is no longer produced may stay (merge patch) - the statement does not forbid it and the check does not flag it",
			"the external secret store publisher (alpha feature flag) is off, as by default",
			"composed resources' connection secrets are written by the harness in the provider's role; the fetcher does not check their ownership (composition authors are trusted)",
		},
		[]string{"simkube", "evanphx/json-patch (merge patch)", "structured-merge-diff (real, SSA claim syncer and function composer)", "testing/synctest virtual clock"},
	)
	thorough := report.Thorough()
	masks := []int{3}
	nFilters := 2
	if thorough {
		masks = []int{0, 1, 3, 6}
		nFilters = 3
	}
	rep.Bound("keys", "a,b,c")
	rep.Bound("pt_composed_resources", map[bool]int{false: 1, true: 2}[thorough])
	rep.Bound("claim_produced_sets", len(masks))
	rep.Bound("claim_filters", nFilters)
	rep.Bound("max_faults", 1)
	rep.Bound("steady_state_reconciles", 2)
	bases := faultBases(thorough)
	rep.Bound("fault_base_cases", len(bases))
	scs := []report.Scenario{
		{Name: "publish/pipeline", Bound: 0, Wrap: report.Bubble(t), Body: func(r *explore.Run) { pubPipelineBody(r, rep, "publish/pipeline") }},
		{Name: "publish/pt", Bound: 0, Wrap: report.Bubble(t), Body: func(r *explore.Run) { pubPTBody(r, rep, "publish/pt", thorough) }},
		{Name: "claim", Bound: 0, Wrap: report.Bubble(t), Body: func(r *explore.Run) { claimBody(r, rep, "claim", masks, nFilters) }},
		{Name: "fault", Bound: 1, Wrap: report.Bubble(t), Body: func(r *explore.Run) { faultBody(r, rep, "fault", bases) }},
		{Name: "publish/observed-composed", Bound: 0, Wrap: report.Bubble(t), Body: func(r *explore.Run) { observedBody(r, rep, "publish/observed-composed") }},
		{Name: "publish/xr-replaced-by-namesake", Bound: 0, Wrap: report.Bubble(t), Body: func(r *explore.Run) { recreateBody(r, rep, "publish/xr-replaced-by-namesake") }},
	}
	rep.SelfCheck(t, scs[0], nil)
	rep.SelfCheck(t, scs[2], nil)
	rep.RunScenarios(t, scs)
	rep.Write(t)
}
