package c09

import (
	"context"
	"strings"

	"google.golang.org/protobuf/types/known/structpb"
	"k8s.io/apimachinery/pkg/apis/meta/v1/unstructured"
	"k8s.io/apimachinery/pkg/types"

	fnv1 "github.com/crossplane/crossplane/apis/apiextensions/fn/proto/v1"
	"github.com/crossplane/crossplane/verif/explore"
	"github.com/crossplane/crossplane/verif/report"
	"github.com/crossplane/crossplane/verif/simkube"
	"github.com/crossplane/crossplane/verif/xrh"
)

// ---- scenario: the XR is replaced by a namesake while it is being reconciled -----
//
// "For this XR": an XR is deleted and another one created under the same name
// (new UID, its own connection secret) while a reconcile of the first one is
// in flight - between any two API calls of that reconcile, or while the
// function runs. What the pipeline produced for the first XR must never reach
// the second one's secret.

func recreateFn(during func()) xrh.FunctionRunner {
	return func(_ context.Context, _ string, req *fnv1.RunFunctionRequest) (*fnv1.RunFunctionResponse, error) {
		param := req.GetObserved().GetComposite().GetResource().GetFields()["spec"].GetStructValue().GetFields()["param"].GetStringValue()
		if during != nil {
			during()
		}
		xr, _ := structpb.NewStruct(map[string]any{"status": map[string]any{"out": param}})
		return &fnv1.RunFunctionResponse{
			Context: req.GetContext(),
			Desired: &fnv1.State{Composite: &fnv1.Resource{Resource: xr, ConnectionDetails: map[string][]byte{
				"a": []byte("for-" + param), "password-" + param: []byte("secret-of-" + param),
			}}},
		}, nil
	}
}

func recreateBody(r *explore.Run, rep *report.R, sc string) {
	fi := r.Free(len(filters), "filter")
	asks := 1 + r.Free(2, "xr-secret-named-by(ref,uid)")
	// 0: while the function runs; k>0: just before the k-th API call of the
	// reconcile that follows the function run.
	at := r.Free(8, "replaced-at")
	var w *world
	replaced := false
	replace := func() {
		if replaced {
			return
		}
		replaced = true
		s := w.s
		old := s.Peek(xrh.XRKey(xrName))
		s.Remove(xrh.XRKey(xrName))
		n := xrh.XR(xrName, "comp")
		n.SetUID("second-xr-uid")
		n.SetManagedFields(old.GetManagedFields())
		_ = unstructured.SetNestedField(n.Object, "bob", "spec", "param")
		switch asks {
		case 1:
			_ = unstructured.SetNestedMap(n.Object, map[string]any{"name": "second-conn", "namespace": sysNS}, "spec", "writeConnectionSecretToRef")
		case 2:
			_ = unstructured.SetNestedMap(n.Object, map[string]any{"name": "second-xr-uid", "namespace": sysNS}, "spec", "writeConnectionSecretToRef")
		}
		s.Seed(n)
		r.Logf("  the user deletes %s and creates it again (uid second-xr-uid, param bob)", xrName)
	}
	ranFn, armed := false, false
	fn := recreateFn(func() {
		ranFn = true
		if at == 0 && armed {
			replace()
		}
	})
	w = newWorld(r, fi, asks, xrh.PipelineComposition("comp", "fn"), fn, false)
	s := w.s
	s.Mutate(xrh.XRKey(xrName), func(u *unstructured.Unstructured) { _ = unstructured.SetNestedField(u.Object, "alice", "spec", "param") })
	// First let the first XR settle (its secret exists), then reconcile it
	// once more with the replacement in flight.
	w.settleOrFail("xr", w.xrec, xrNN)
	ranFn, armed = false, true
	n := 0
	s.Inj = simkube.InjectorFn(func(c simkube.Call) simkube.Outcome {
		if ranFn && at > 0 && !replaced && c.Client == "xr" {
			n++
			if n == at {
				replace()
			}
		}
		return simkube.OK
	})
	out := xrh.Reconcile(w.xrec, types.NamespacedName{Name: xrName})
	s.Inj = nil
	r.Logf("filter=%s asks=%d replaced-at=%d (happened: %v): reconcile err=%v", w.fname, asks, at, replaced, out.Err)
	leak := func(stage string) {
		for _, key := range []simkube.ObjKey{secKey(sysNS, "second-conn"), secKey(sysNS, "second-xr-uid")} {
			for k, v := range dataOf(s.Peek(key)) {
				if strings.Contains(v, "alice") || strings.Contains(k, "alice") {
					r.Failf("xr-secret/details-of-replaced-namesake-published", "%s: secret %s of the second XR %s (uid second-xr-uid, param bob) carries %s=%q, produced by the pipeline for the first XR of that name (param alice), which was deleted while it was being reconciled (replaced at point %d)", stage, key, xrName, k, v, at)
				}
			}
		}
	}
	if replaced {
		leak("after the reconcile that was in flight")
		// The second XR's own reconciles publish only its own details.
		for i := 0; i < 3; i++ {
			xrh.Reconcile(w.xrec, types.NamespacedName{Name: xrName})
		}
		leak("after three further reconciles")
	}
	nt := ""
	if replaced {
		nt = report.Hash(sc, fi, asks, at)
	}
	rep.Eval(sc, report.Hash(replaced, out.Err != nil, len(dataOf(s.Peek(secKey(sysNS, "second-conn"))))), nt)
	if rep.WantSample() && replaced && at > 0 {
		rep.Sample(map[string]any{"scenario": sc, "filter": w.fname, "replaced_before_call": at, "reconcile_error": out.Err != nil, "second_secret": fmtData(dataOf(s.Peek(secKey(sysNS, "second-conn"))))})
	}
}
